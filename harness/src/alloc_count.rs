// Counting allocator: the observation channel for the memory ledger (C07).
use std::alloc::{GlobalAlloc, Layout, System};
use std::sync::atomic::{AtomicI64, AtomicU64, Ordering};

pub struct Counting;

pub static LIVE: AtomicI64 = AtomicI64::new(0);
pub static ALLOCS: AtomicU64 = AtomicU64::new(0);
pub static FREES: AtomicU64 = AtomicU64::new(0);

unsafe impl GlobalAlloc for Counting {
    unsafe fn alloc(&self, l: Layout) -> *mut u8 {
        let p = unsafe { System.alloc(l) };
        if !p.is_null() {
            LIVE.fetch_add(l.size() as i64, Ordering::Relaxed);
            ALLOCS.fetch_add(1, Ordering::Relaxed);
        }
        p
    }
    unsafe fn dealloc(&self, p: *mut u8, l: Layout) {
        LIVE.fetch_sub(l.size() as i64, Ordering::Relaxed);
        FREES.fetch_add(1, Ordering::Relaxed);
        unsafe { System.dealloc(p, l) }
    }
    unsafe fn realloc(&self, p: *mut u8, l: Layout, new_size: usize) -> *mut u8 {
        let q = unsafe { System.realloc(p, l, new_size) };
        if !q.is_null() {
            LIVE.fetch_add(new_size as i64 - l.size() as i64, Ordering::Relaxed);
        }
        q
    }
}

pub fn live() -> i64 {
    LIVE.load(Ordering::Relaxed)
}
pub fn outstanding() -> i64 {
    ALLOCS.load(Ordering::Relaxed) as i64 - FREES.load(Ordering::Relaxed) as i64
}
