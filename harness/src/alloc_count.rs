// Counting allocator: the observation channel for the memory ledger (C07).
use std::alloc::{GlobalAlloc, Layout, System};
use std::sync::atomic::{AtomicI64, AtomicU64, Ordering};

pub struct Counting;

pub static LIVE: AtomicI64 = AtomicI64::new(0);
pub static ALLOCS: AtomicU64 = AtomicU64::new(0);
pub static FREES: AtomicU64 = AtomicU64::new(0);
/// high-water mark of LIVE since the last `reset_peak`
pub static PEAK: AtomicI64 = AtomicI64::new(0);

fn bump(by: i64) {
    let now = LIVE.fetch_add(by, Ordering::Relaxed) + by;
    PEAK.fetch_max(now, Ordering::Relaxed);
}

unsafe impl GlobalAlloc for Counting {
    unsafe fn alloc(&self, l: Layout) -> *mut u8 {
        let p = unsafe { System.alloc(l) };
        if !p.is_null() {
            bump(l.size() as i64);
            ALLOCS.fetch_add(1, Ordering::Relaxed);
        }
        p
    }
    unsafe fn dealloc(&self, p: *mut u8, l: Layout) {
        LIVE.fetch_sub(l.size() as i64, Ordering::Relaxed);
        FREES.fetch_add(1, Ordering::Relaxed);
        unsafe { System.dealloc(p, l) }
    }
    unsafe fn realloc(&self, p: *mut u8, l: Layout, new_size: usize) -> *mut u8 {
        let q = unsafe { System.realloc(p, l, new_size) };
        if !q.is_null() {
            bump(new_size as i64 - l.size() as i64);
        }
        q
    }
}

pub fn live() -> i64 {
    LIVE.load(Ordering::Relaxed)
}
pub fn outstanding() -> i64 {
    ALLOCS.load(Ordering::Relaxed) as i64 - FREES.load(Ordering::Relaxed) as i64
}
pub fn reset_peak() {
    PEAK.store(LIVE.load(Ordering::Relaxed), Ordering::Relaxed);
}
pub fn peak() -> i64 {
    PEAK.load(Ordering::Relaxed)
}
