// IdSet / Arena history replay (C37, C38).
//
//   abra_conform utils <cases.ndjson> <obs.ndjson> [--from N] [--count M]
//
// Replays TLC-generated operation histories on the real utils::id_set::IdSet and utils::arena::Arena
// through their safe public APIs only and prints what it sees. It knows nothing about what is correct:
// expected projections come from spec/utils/IdSet.tla, the address predicates from spec/utils/Arena.tla.
// The same file is compiled into harness/utilsmiri (a crate depending on /repo/utils only) so that the
// identical replay runs under AddressSanitizer and under Miri; a sanitizer abort is detected by the driver
// from the missing lines: the observation file is written one line per step and flushed, in this order:
//   {"id","begin":true}  ( {"id","k","op":{..}}  {"id","k","proj":[..]} )*  {"id","end":true}
use serde_json::{Map, Value as J, json};
use std::hash::Hash;
use std::io::Write;
use std::panic::{AssertUnwindSafe, catch_unwind};
use utils::arena::Arena;
use utils::arena::arena_ref::Ar;
use utils::id_set::IdSet;

/// A sanitizer that can continue after an error (AddressSanitizer in recover mode, see harness/utilsmiri)
/// reports through this probe.
#[derive(Clone, Copy)]
pub struct UbProbe {
    /// the report, once, if an error was reported since the last call
    pub take: fn() -> Option<String>,
    /// is a report waiting to be taken? (cheap; lets a projection stop early instead of producing dozens of reports)
    pub pending: fn() -> bool,
}

#[allow(dead_code)]
pub fn main(args: &[String]) {
    main_with(args, None)
}

pub fn main_with(args: &[String], probe: Option<UbProbe>) {
    // not on the main thread: every caught panic makes AddressSanitizer look up the stack bounds, which for the main
    // thread means parsing /proc/self/maps each time
    let args: Vec<String> = args.to_vec();
    let h = std::thread::Builder::new()
        .stack_size(512 << 10)
        .spawn(move || replay_all(&args, probe))
        .expect("spawn replay thread");
    if h.join().is_err() {
        std::process::exit(101);
    }
}

fn replay_all(args: &[String], probe: Option<UbProbe>) {
    let args: Vec<&String> = args.iter().filter(|a| a.as_str() != "utils").collect();
    if args.len() < 2 {
        eprintln!("usage: utils <cases.ndjson> <obs.ndjson> [--from N] [--count M]");
        std::process::exit(2);
    }
    let optv = |name: &str, default: usize| -> usize {
        args.iter()
            .position(|a| a.as_str() == name)
            .and_then(|i| args.get(i + 1))
            .and_then(|v| v.parse().ok())
            .unwrap_or(default)
    };
    let from = optv("--from", 0);
    let count = optv("--count", usize::MAX);
    let text = std::fs::read_to_string(args[0]).unwrap_or_else(|e| {
        eprintln!("cannot read {}: {e}", args[0]);
        std::process::exit(2)
    });
    let mut out = std::fs::OpenOptions::new()
        .create(true)
        .append(true)
        .open(args[1])
        .unwrap_or_else(|e| {
            eprintln!("cannot open {}: {e}", args[1]);
            std::process::exit(2)
        });
    // expected panics (Index out of range, get_id of an absent value: Option::unwrap on None) are caught and reported
    // as values: keep them silent; anything else (e.g. a debug check of an unsafe precondition inside std, which does
    // not unwind and kills the process) is worth a line on stderr
    std::panic::set_hook(Box::new(|info| {
        let s = info.to_string();
        if !s.contains("Option::unwrap()") {
            eprintln!("{s}");
        }
    }));
    for line in text
        .lines()
        .filter(|l| !l.trim().is_empty())
        .skip(from)
        .take(count)
    {
        let case: J = serde_json::from_str(line).unwrap_or_else(|e| {
            eprintln!("bad case line: {e}");
            std::process::exit(2)
        });
        let id = case["id"].as_str().unwrap_or("?").to_string();
        let mut o = Out { f: &mut out, id, probe };
        o.ub_seen(0, "begin"); // forget reports that belong to nobody
        o.line(json!({"begin": true}));
        match case["kind"].as_str().unwrap_or("") {
            "idset" => match case["ty"].as_str().unwrap_or("string") {
                "string" => idset::<String>(&case, &mut o),
                "u32" => idset::<u32>(&case, &mut o),
                "arr4" => idset::<[u64; 4]>(&case, &mut o),
                _ => o.line(json!({"unsupported": "ty"})),
            },
            "arena" => arena(&case, &mut o),
            _ => o.line(json!({"unsupported": "kind"})),
        }
        o.line(json!({"end": true}));
    }
}

struct Out<'a> {
    f: &'a mut std::fs::File,
    id: String,
    probe: Option<UbProbe>,
}

impl Out<'_> {
    fn ub_pending(&self) -> bool {
        self.probe.map(|p| (p.pending)()).unwrap_or(false)
    }

    /// did the sanitizer report an error since the last call? then say so (the caller abandons the case)
    fn ub_seen(&mut self, k: usize, phase: &str) -> bool {
        match self.probe.and_then(|p| (p.take)()) {
            Some(report) if k > 0 => {
                self.line(json!({"k": k, "ub": report, "phase": phase}));
                true
            }
            _ => false,
        }
    }

    fn line(&mut self, mut v: J) {
        v.as_object_mut()
            .unwrap()
            .insert("id".to_string(), J::String(self.id.clone()));
        // one write per line, unbuffered: everything before a sanitizer abort is on disk
        let s = format!("{}\n", v);
        self.f.write_all(s.as_bytes()).unwrap();
    }
}

// ------------------------------------------------------------------------------------------ IdSet

trait Val: Hash + Eq + Clone + Default {
    fn mk(s: &str) -> Self;
    fn show(&self) -> String;
}

impl Val for String {
    fn mk(s: &str) -> Self {
        s.to_string()
    }
    fn show(&self) -> String {
        // a dangling String may hold anything: keep the observation line valid JSON and short
        if self.len() > 64 {
            return format!("#len{}", self.len());
        }
        let b = self.as_bytes();
        if b.iter().all(|c| c.is_ascii_graphic()) {
            String::from_utf8_lossy(b).into_owned()
        } else {
            format!("#{:02x?}", b)
        }
    }
}

impl Val for u32 {
    fn mk(s: &str) -> Self {
        s.bytes().next().unwrap_or(0) as u32
    }
    fn show(&self) -> String {
        match char::from_u32(*self) {
            Some(c) if c.is_ascii_graphic() => c.to_string(),
            _ => format!("#{}", self),
        }
    }
}

impl Val for [u64; 4] {
    fn mk(s: &str) -> Self {
        let b = s.bytes().next().unwrap_or(0) as u64;
        [b, b + 1, b + 2, b + 3]
    }
    fn show(&self) -> String {
        let b = self[0];
        if *self == [b, b + 1, b + 2, b + 3] && (33..127).contains(&b) {
            (b as u8 as char).to_string()
        } else {
            format!("#{:?}", self)
        }
    }
}

fn caught<R>(f: impl FnOnce() -> R) -> Result<R, ()> {
    catch_unwind(AssertUnwindSafe(f)).map_err(|_| ())
}

/// everything the safe read-only API tells about one instance
fn project<T: Val>(set: &mut IdSet<T>, probe: &[String], stop: &dyn Fn() -> bool) -> J {
    let mut m = Map::new();
    m.insert("len".into(), json!(set.len()));
    m.insert("empty".into(), json!(set.is_empty()));
    m.insert(
        "iter".into(),
        J::Array(set.iter().map(|v| J::String(v.show())).collect()),
    );
    let mut n2 = 0usize;
    let mut same = true;
    for (i, v) in (&*set).into_iter().enumerate() {
        n2 += 1;
        same &= set.iter().nth(i).map(|w| w == v).unwrap_or(false);
    }
    m.insert("iter_ref_agrees".into(), json!(same && n2 == set.iter().count()));
    let mut ids = Map::new();
    let mut has = Map::new();
    let mut getid = Map::new();
    for (i, p) in probe.iter().enumerate() {
        if stop() {
            return J::Null; // a sanitizer report is pending: the caller discards the projection
        }
        let v = T::mk(p);
        ids.insert(
            p.clone(),
            match set.try_get_id(&v) {
                Some(id) => json!(id),
                None => json!(-1),
            },
        );
        has.insert(p.clone(), json!(set.contains(&v)));
        // get_id panics on an absent value: called where contains() said yes, and on the last probe value
        // (-3 = not called; unwinding is slow under the sanitizers)
        let call = set.contains(&v) || i + 1 == probe.len();
        getid.insert(
            p.clone(),
            if !call {
                json!(-3)
            } else {
                match caught(|| set.get_id(&v)) {
                    Ok(id) => json!(id),
                    Err(()) => json!(-2),
                }
            },
        );
    }
    if stop() {
        return J::Null;
    }
    // in probe order
    let inorder = |m: &Map<String, J>| J::Array(probe.iter().map(|p| m[p].clone()).collect());
    m.insert("ids".into(), inorder(&ids));
    m.insert("has".into(), inorder(&has));
    m.insert("get_id".into(), inorder(&getid));
    // index / index_mut for every id 0..len, and one past the end
    let n = set.len() as u32;
    let mut at = vec![];
    let mut atm = vec![];
    for id in 0..n {
        if stop() {
            return J::Null;
        }
        at.push(match caught(|| set[id].show()) {
            Ok(s) => J::String(s),
            Err(()) => json!({"panic": true}),
        });
        atm.push(match caught(|| (&mut set[id]).show()) {
            Ok(s) => J::String(s),
            Err(()) => json!({"panic": true}),
        });
    }
    m.insert("at".into(), J::Array(at));
    m.insert("at_mut".into(), J::Array(atm));
    m.insert(
        "at_len".into(),
        match caught(|| set[n].show()) {
            Ok(s) => J::String(s),
            Err(()) => json!("panic"),
        },
    );
    J::Object(m)
}

fn idset<T: Val>(case: &J, o: &mut Out) {
    let probe: Vec<String> = case["probe"]
        .as_array()
        .map(|a| a.iter().filter_map(|x| x.as_str().map(String::from)).collect())
        .unwrap_or_default();
    let nslots = case["nslots"].as_u64().unwrap_or(2) as usize;
    let obs_from = case["obs_from"].as_u64().unwrap_or(1) as usize;
    let mut slots: Vec<Option<IdSet<T>>> = (0..nslots).map(|_| None).collect();
    slots[0] = Some(IdSet::new());
    let empty = vec![];
    let ops = case["ops"].as_array().unwrap_or(&empty);
    for (k, op) in ops.iter().enumerate() {
        let k = k + 1;
        let s = op["s"].as_u64().unwrap_or(0) as usize;
        let d = op["d"].as_u64().unwrap_or(0) as usize;
        let mut r = Map::new();
        r.insert("op".into(), op["op"].clone());
        match op["op"].as_str().unwrap_or("") {
            "insert" => {
                let v = T::mk(op["v"].as_str().unwrap_or(""));
                let id = slots[s].as_mut().unwrap().insert(v);
                r.insert("id".into(), json!(id));
            }
            "clear" => slots[s].as_mut().unwrap().clear(),
            "clone" => {
                let c = slots[s].as_ref().unwrap().clone();
                slots[d] = Some(c);
            }
            "move" => {
                let c = slots[s].take();
                slots[d] = c;
            }
            "drop" => {
                slots[s] = None;
            }
            "consume" => {
                let set = slots[s].take().unwrap();
                let items: Vec<J> = set.into_iter().map(|v| J::String(v.show())).collect();
                r.insert("items".into(), J::Array(items));
            }
            "new" => slots[s] = Some(IdSet::new()),
            "default" => slots[s] = Some(IdSet::default()),
            _ => {
                r.insert("unsupported".into(), json!(true));
            }
        }
        if o.ub_seen(k, "op") {
            std::mem::forget(slots);
            return;
        }
        o.line(json!({"k": k, "op": J::Object(r)}));
        if k >= obs_from {
            let mut proj = vec![];
            for sl in slots.iter_mut() {
                proj.push(match sl {
                    None => json!({"live": false}),
                    Some(set) => {
                        let mut p = project(set, &probe, &|| o.ub_pending());
                        if let Some(m) = p.as_object_mut() {
                            m.insert("live".into(), json!(true));
                        }
                        p
                    }
                });
            }
            if o.ub_seen(k, "proj") {
                std::mem::forget(slots);
                return;
            }
            o.line(json!({"k": k, "proj": proj}));
        }
    }
    // remaining instances are dropped here, in slot order
    drop(slots);
    o.ub_seen(ops.len().max(1), "end");
}

// ------------------------------------------------------------------------------------------ Arena

// One concrete type per (size, align): size_of::<V<N, A>>() == N and align_of == A when A divides N.
macro_rules! aligned_types {
    ($($name:ident $al:literal),*) => {
        $(
            #[derive(Clone, Copy, PartialEq)]
            #[repr(C, align($al))]
            struct $name<const N: usize>([u8; N]);
        )*
    };
}
aligned_types!(V1 1, V2 2, V4 4, V8 8, V16 16, V32 32, V64 64);

struct Rec<'a> {
    addr: usize,
    size: usize,
    align: usize,
    intact: Box<dyn Fn() -> bool + 'a>,
}

fn alloc_rec<'a, T: Copy + PartialEq + 'a>(arena: &'a Arena, v: T) -> Rec<'a> {
    let r: Ar<'a, T> = arena.alloc(v);
    // the address of the returned reference, obtained through safe Deref
    let addr = (&*r) as *const T as usize;
    Rec {
        addr,
        size: size_of::<T>(),
        align: align_of::<T>(),
        intact: Box::new(move || *r == v),
    }
}

macro_rules! dispatch {
    ($arena:expr, $size:expr, $align:expr, $pat:expr, [$($s:literal),*]) => {
        match ($size, $align) {
            $(
                ($s, 1) => Some(alloc_rec($arena, V1::<$s>([$pat; $s]))),
                ($s, 2) if $s % 2 == 0 => Some(alloc_rec($arena, V2::<$s>([$pat; $s]))),
                ($s, 4) if $s % 4 == 0 => Some(alloc_rec($arena, V4::<$s>([$pat; $s]))),
                ($s, 8) if $s % 8 == 0 => Some(alloc_rec($arena, V8::<$s>([$pat; $s]))),
                ($s, 16) if $s % 16 == 0 => Some(alloc_rec($arena, V16::<$s>([$pat; $s]))),
                ($s, 32) if $s % 32 == 0 => Some(alloc_rec($arena, V32::<$s>([$pat; $s]))),
                ($s, 64) if $s % 64 == 0 => Some(alloc_rec($arena, V64::<$s>([$pat; $s]))),
            )*
            _ => None,
        }
    };
}

fn alloc_dyn<'a>(arena: &'a Arena, size: usize, align: usize, pat: u8) -> Option<Rec<'a>> {
    dispatch!(
        arena,
        size,
        align,
        pat,
        [0, 1, 2, 3, 4, 5, 6, 8, 12, 16, 24, 32, 48, 64, 96, 128, 192, 256]
    )
}

fn arena(case: &J, o: &mut Out) {
    let cap = case["cap"].as_i64().unwrap_or(-1);
    let arena = if cap < 0 {
        Arena::new()
    } else {
        Arena::with_capacity(cap as usize)
    };
    let empty = vec![];
    let allocs = case["allocs"].as_array().unwrap_or(&empty);
    let mut recs: Vec<Rec> = vec![];
    for (k, a) in allocs.iter().enumerate() {
        let size = a["size"].as_u64().unwrap_or(0) as usize;
        let align = a["align"].as_u64().unwrap_or(1) as usize;
        let pat = (17 * (k + 1) % 251) as u8;
        let Some(rec) = alloc_dyn(&arena, size, align, pat) else {
            o.line(json!({"k": k + 1, "unsupported": [size, align]}));
            return;
        };
        recs.push(rec);
        if o.ub_seen(k + 1, "op") {
            std::mem::forget(recs);
            std::mem::forget(arena);
            return;
        }
        let rec = recs.last().unwrap();
        // addresses are 64 bit, TLC integers 32 bit: high and low part (20 bits) separately
        o.line(json!({"k": k + 1, "op": {
            "hi": rec.addr >> 20, "lo": rec.addr & 0xFFFFF, "mod64": rec.addr % 64,
            "size": rec.size, "align": rec.align}}));
        // every value allocated so far is read back through its reference
        let intact: Vec<bool> = recs.iter().map(|r| (r.intact)()).collect();
        if o.ub_seen(k + 1, "proj") {
            std::mem::forget(recs);
            std::mem::forget(arena);
            return;
        }
        o.line(json!({"k": k + 1, "proj": intact}));
    }
    let n = allocs.len().max(1);
    drop(recs);
    drop(arena);
    o.ub_seen(n, "end");
}
