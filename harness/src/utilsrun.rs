// IdSet / Arena histories (C37, C38): filled in with the specs for those properties.
pub fn main(_args: &[String]) {
    eprintln!("utils mode not built yet");
    std::process::exit(2);
}
