// abra_conform: conformance harness binding the TLA+ specifications under /verif/spec to the
// real anandrav/abra code. It only *executes and observes*; every expected value comes from TLC.
//
//   abra_conform exec <cases.ndjson> <obs.ndjson> [--jobs N] [--timeout SECS] [--mem MB]
//       supervisor: shards the cases over N worker processes (each under RLIMIT_AS and a per-case
//       wall-clock watchdog), restarts a worker that died, records "abort"/"timeout" observations.
//   abra_conform worker <cases> <obs> <shard> <nshards> <timeout>
//   abra_conform utils <cases> <obs>           IdSet / Arena histories (also run under Miri)

use std::collections::HashMap;
use std::io::{BufRead, BufReader, Write};
use std::path::PathBuf;
use std::sync::atomic::{AtomicU64, Ordering};

use serde_json::{Map, Value as J, json};

mod runner;
mod ledger;
mod utilsrun;
mod alloc_count;

#[global_allocator]
static GLOBAL: alloc_count::Counting = alloc_count::Counting;

static CASE_STARTED_AT: AtomicU64 = AtomicU64::new(0);
pub static LAST_PANIC_LOC: std::sync::Mutex<String> = std::sync::Mutex::new(String::new());

/// source location (file:line, path made relative to the repo) of the most recent panic, and clear it
pub fn take_panic_loc() -> String {
    let s = match LAST_PANIC_LOC.lock() {
        Ok(mut g) => std::mem::take(&mut *g),
        Err(_) => String::new(),
    };
    for pre in ["abra_core/src/", "utils/src/"] {
        if let Some(i) = s.find(pre) {
            return s[i..].to_string();
        }
    }
    // third-party crate: keep "<crate-version>/src/file.rs:line"
    if let Some(i) = s.find("/registry/src/") {
        let rest = &s[i + "/registry/src/".len()..];
        if let Some(j) = rest.find('/') {
            return rest[j + 1..].to_string();
        }
    }
    s
}

fn now_ms() -> u64 {
    std::time::SystemTime::now()
        .duration_since(std::time::UNIX_EPOCH)
        .unwrap()
        .as_millis() as u64
}

fn read_cases(path: &str) -> Vec<J> {
    let f = std::fs::File::open(path).unwrap_or_else(|e| {
        eprintln!("cannot open {path}: {e}");
        std::process::exit(2)
    });
    BufReader::new(f)
        .lines()
        .map(|l| l.unwrap())
        .filter(|l| !l.trim().is_empty())
        .map(|l| {
            serde_json::from_str(&l).unwrap_or_else(|e| {
                eprintln!("bad case line: {e}: {l}");
                std::process::exit(2)
            })
        })
        .collect()
}

fn count_lines(path: &str) -> usize {
    match std::fs::File::open(path) {
        Ok(f) => BufReader::new(f).lines().count(),
        Err(_) => 0,
    }
}

fn main() {
    let args: Vec<String> = std::env::args().collect();
    if args.len() < 2 {
        eprintln!("usage: abra_conform exec|worker|utils ...");
        std::process::exit(2);
    }
    match args[1].as_str() {
        "exec" => supervisor(&args[2..]),
        "worker" => worker(&args[2..]),
        "utils" => utilsrun::main(&args[2..]),
        _ => {
            eprintln!("unknown mode");
            std::process::exit(2);
        }
    }
}

fn opt(args: &[String], name: &str, default: u64) -> u64 {
    args.iter()
        .position(|a| a == name)
        .and_then(|i| args.get(i + 1))
        .and_then(|v| v.parse().ok())
        .unwrap_or(default)
}

fn supervisor(args: &[String]) {
    let cases_path = args[0].clone();
    let obs_path = args[1].clone();
    let jobs = opt(args, "--jobs", 8) as usize;
    let timeout = opt(args, "--timeout", 20);
    let mem_mb = opt(args, "--mem", 4096);
    let cases = read_cases(&cases_path);
    let n = cases.len();
    let jobs = jobs.max(1).min(n.max(1));
    let exe = std::env::current_exe().unwrap();
    let mut handles = vec![];
    for shard in 0..jobs {
        let exe = exe.clone();
        let cases_path = cases_path.clone();
        let shard_obs = format!("{obs_path}.shard{shard}");
        let _ = std::fs::remove_file(&shard_obs);
        let ids: Vec<String> = cases
            .iter()
            .enumerate()
            .filter(|(i, _)| i % jobs == shard)
            .map(|(_, c)| c["id"].as_str().unwrap_or("?").to_string())
            .collect();
        handles.push(std::thread::spawn(move || {
            // restart the worker until every case of the shard has an observation line
            let total = ids.len();
            let mut guard = 0;
            loop {
                let done = count_lines(&shard_obs);
                if done >= total {
                    break;
                }
                guard += 1;
                if guard > total + 5 {
                    eprintln!("supervisor: giving up on shard {shard}");
                    std::process::exit(2);
                }
                let cmd = format!(
                    "ulimit -v {}; exec {} worker {} {} {} {} {} {}",
                    mem_mb * 1024,
                    exe.display(),
                    cases_path,
                    shard_obs,
                    shard,
                    jobs,
                    timeout,
                    done
                );
                let status = std::process::Command::new("sh")
                    .arg("-c")
                    .arg(&cmd)
                    .stderr(std::process::Stdio::null())
                    .status()
                    .expect("spawn worker");
                let done2 = count_lines(&shard_obs);
                if done2 >= total {
                    break;
                }
                // the worker died while processing case number done2 of this shard
                let kind = if status.code() == Some(97) { "timeout" } else { "abort" };
                let id = &ids[done2];
                let mut f = std::fs::OpenOptions::new()
                    .create(true)
                    .append(true)
                    .open(&shard_obs)
                    .unwrap();
                let line = json!({"id": id, "compile": kind, "check": kind, "status": kind,
                                  "lsp": kind, "crash": format!("{:?}", status)});
                writeln!(f, "{}", line).unwrap();
            }
        }));
    }
    for h in handles {
        h.join().unwrap();
    }
    // merge in case order
    let mut per: Vec<std::vec::IntoIter<String>> = (0..jobs)
        .map(|s| {
            let p = format!("{obs_path}.shard{s}");
            let v: Vec<String> = match std::fs::File::open(&p) {
                Ok(f) => BufReader::new(f).lines().map(|l| l.unwrap()).collect(),
                Err(_) => vec![],
            };
            let _ = std::fs::remove_file(&p);
            v.into_iter()
        })
        .collect();
    let mut out = std::io::BufWriter::new(std::fs::File::create(&obs_path).unwrap());
    for i in 0..n {
        if let Some(l) = per[i % jobs].next() {
            writeln!(out, "{}", l).unwrap();
        }
    }
    out.flush().unwrap();
}

fn worker(args: &[String]) {
    let cases = read_cases(&args[0]);
    let obs_path = args[1].clone();
    let shard: usize = args[2].parse().unwrap();
    let nshards: usize = args[3].parse().unwrap();
    let timeout: u64 = args[4].parse().unwrap();
    let skip: usize = args[5].parse().unwrap();
    let outdir = PathBuf::from(&obs_path)
        .parent()
        .map(|p| p.to_path_buf())
        .unwrap_or_else(|| PathBuf::from("."));

    // watchdog: a case that runs longer than `timeout` seconds ends the worker with code 97
    std::thread::spawn(move || {
        loop {
            std::thread::sleep(std::time::Duration::from_millis(200));
            let t0 = CASE_STARTED_AT.load(Ordering::Relaxed);
            if t0 != 0 && now_ms() > t0 + timeout * 1000 {
                std::process::exit(97);
            }
        }
    });
    // silent hook; remembers the source location of the last panic (reported as obs.panic_loc)
    std::panic::set_hook(Box::new(|info| {
        if let Some(l) = info.location() {
            if let Ok(mut g) = LAST_PANIC_LOC.lock() {
                *g = format!("{}:{}", l.file(), l.line());
            }
        }
    }));

    let modules = runner::load_repo_modules();
    let mut f = std::fs::OpenOptions::new()
        .create(true)
        .append(true)
        .open(&obs_path)
        .unwrap();
    let mine: Vec<&J> = cases
        .iter()
        .enumerate()
        .filter(|(i, _)| i % nshards == shard)
        .map(|(_, c)| c)
        .collect();
    for case in mine.into_iter().skip(skip) {
        CASE_STARTED_AT.store(now_ms(), Ordering::Relaxed);
        let case = case.clone();
        let modules2 = modules.clone();
        let outdir2 = outdir.clone();
        // big stack: the compiler recurses deeply on nested input
        let h = std::thread::Builder::new()
            .stack_size(512 << 20)
            .spawn(move || runner::run_case(&case, &modules2, &outdir2))
            .unwrap();
        let obs = match h.join() {
            Ok(o) => o,
            Err(_) => json!({"id": "?", "status": "harness-panic"}),
        };
        CASE_STARTED_AT.store(0, Ordering::Relaxed);
        writeln!(f, "{}", obs).unwrap();
        f.flush().unwrap();
    }
}

pub fn jstr(v: &J, k: &str) -> Option<String> {
    v.get(k).and_then(|x| x.as_str()).map(|s| s.to_string())
}

pub fn files_of(case: &J, modules: &HashMap<PathBuf, String>) -> HashMap<PathBuf, String> {
    let mut m: HashMap<PathBuf, String> = modules.clone();
    if let Some(files) = case.get("files").and_then(|f| f.as_object()) {
        for (k, v) in files {
            m.insert(PathBuf::from(k), v.as_str().unwrap_or("").to_string());
        }
    }
    m
}

pub fn obj() -> Map<String, J> {
    Map::new()
}
