// Executes one case against the real compiler + VM and returns the observation.
use std::collections::HashMap;
use std::panic::{AssertUnwindSafe, catch_unwind};
use std::path::{Path, PathBuf};

use abra_core::host_bindings::VmType;
use abra_core::vm::{Runtime, RuntimeStatusKind, VmGreenThread, verif};
use abra_core::{MockFileProvider, check, check_lsp, compile_bytecode};
use serde_json::{Map, Value as J, json};

use crate::{alloc_count, files_of, jstr};

pub fn load_repo_modules() -> HashMap<PathBuf, String> {
    let mut m = HashMap::new();
    let root = std::env::var("ABRA_REPO").unwrap_or_else(|_| "/repo".to_string());
    let core = Path::new(&root).join("modules").join("core");
    if let Ok(rd) = std::fs::read_dir(&core) {
        for e in rd.flatten() {
            let p = e.path();
            if p.extension().map(|x| x == "abra").unwrap_or(false) {
                if let Ok(s) = std::fs::read_to_string(&p) {
                    m.insert(
                        PathBuf::from(format!(
                            "core/{}",
                            p.file_name().unwrap().to_string_lossy()
                        )),
                        s,
                    );
                }
            }
        }
    }
    m
}

fn panic_msg(e: Box<dyn std::any::Any + Send>) -> String {
    if let Some(s) = e.downcast_ref::<String>() {
        s.clone()
    } else if let Some(s) = e.downcast_ref::<&str>() {
        s.to_string()
    } else {
        "<non-string panic>".to_string()
    }
}

fn u32_of(v: &J) -> u32 {
    match v.as_i64() {
        // "unbounded": a budget no test run can exhaust, but small enough for TLC's 32-bit integers in traces
        Some(n) if n < 0 => 2_000_000_000,
        Some(n) => n.min(u32::MAX as i64) as u32,
        None => u32::MAX,
    }
}
fn usize_of(v: Option<&J>, default: usize) -> usize {
    match v.and_then(|x| x.as_i64()) {
        Some(n) if n < 0 => usize::MAX,
        Some(n) => n as usize,
        None => default,
    }
}

/// parse the Display text of a VmError: kind line, "[traceback]", then "    file:line in `fn`"
pub fn parse_vm_error(text: &str) -> J {
    let mut lines = text.lines();
    let kind_line = lines.next().unwrap_or("").to_string();
    let kind = if kind_line.starts_with("panic: ") {
        "panic"
    } else if kind_line.contains("indexed past the end") {
        "oob"
    } else if kind_line.contains("integer overflow/underflow") {
        "overflow"
    } else if kind_line.contains("division by zero") {
        "divzero"
    } else if kind_line.contains("expected type") {
        "wrongtype"
    } else if kind_line.contains("internal error") {
        "internal"
    } else {
        "other"
    };
    let mut locs = vec![];
    for l in lines {
        let l = l.trim();
        if l == "[traceback]" || l.is_empty() {
            continue;
        }
        // file:line<spaces>in `fn`
        if let Some(idx) = l.find(" in `") {
            let (fl, rest) = l.split_at(idx);
            let fl = fl.trim();
            let func = rest.trim_start_matches(" in `").trim_end_matches('`');
            let (file, line) = match fl.rfind(':') {
                Some(c) => (&fl[..c], fl[c + 1..].parse::<i64>().unwrap_or(-1)),
                None => (fl, -1),
            };
            locs.push(json!({"file": file, "line": line, "fn": func}));
        }
    }
    let msg = if kind == "panic" {
        kind_line
            .trim_start_matches("panic: `")
            .trim_end_matches('`')
            .to_string()
    } else {
        String::new()
    };
    let loc = locs.first().cloned().unwrap_or(J::Null);
    let trace: Vec<J> = locs.iter().skip(1).cloned().collect();
    json!({"kind": kind, "msg": msg, "loc": loc, "trace": trace, "text": text})
}

struct HostFn {
    name: String,
    args: Vec<String>,
    ret: String,
    rets: Vec<J>,
    next: usize,
}

fn pop_arg(t: &mut VmGreenThread, ty: &str) -> J {
    match ty {
        "int" => json!(<i64 as VmType>::from_vm(t).to_string()),
        "float" => json!(<f64 as VmType>::from_vm(t).to_bits().to_string()),
        "bool" => json!(<bool as VmType>::from_vm(t)),
        "string" => json!(<String as VmType>::from_vm(t)),
        _ => J::Null,
    }
}
fn push_ret(t: &mut VmGreenThread, ty: &str, v: &J) {
    match ty {
        "int" => {
            let n: i64 = match v {
                J::String(s) => s.parse().unwrap_or(0),
                _ => v.as_i64().unwrap_or(0),
            };
            n.to_vm(t)
        }
        "float" => {
            // floats travel as the decimal string of their bit pattern
            let bits: u64 = match v {
                J::String(s) => s.parse().unwrap_or(0),
                _ => v.as_u64().unwrap_or(0),
            };
            f64::from_bits(bits).to_vm(t)
        }
        "bool" => v.as_bool().unwrap_or(false).to_vm(t),
        "string" => v.as_str().unwrap_or("").to_string().to_vm(t),
        _ => {}
    }
}

fn diag_json(files: HashMap<PathBuf, String>, main: &str, keep: bool) -> J {
    // structured diagnostics through the editor API (message, file, byte range)
    let r = catch_unwind(AssertUnwindSafe(|| {
        let res = check_lsp(main, MockFileProvider::new(files));
        let mut v = vec![];
        for e in res.errors() {
            let file = res
                .file_db
                .get(e.file_id)
                .map(|f| f.absolute_path.to_string_lossy().to_string())
                .unwrap_or_default();
            v.push(json!({"msg": e.message, "file": file, "start": e.range.start, "end": e.range.end,
                "labels": e.secondary_labels.iter().map(|(_, r, m)| json!({"start": r.start, "end": r.end, "msg": m})).collect::<Vec<_>>()}));
        }
        if keep { std::mem::forget(res); } else { drop(res); }
        J::Array(v)
    }));
    match r {
        Ok(v) => v,
        Err(e) => json!({"panic": panic_msg(e)}),
    }
}

pub fn run_case(case: &J, modules: &HashMap<PathBuf, String>, outdir: &Path) -> J {
    let id = jstr(case, "id").unwrap_or_else(|| "?".into());
    let mode = jstr(case, "mode").unwrap_or_else(|| "run".into());
    let main = jstr(case, "main").unwrap_or_else(|| "main.abra".into());
    let mut obs = Map::new();
    obs.insert("id".into(), json!(id));
    verif::reset();

    if mode == "lsp" {
        crate::runner::lsp_case(case, modules, &main, &mut obs);
        return J::Object(obs);
    }
    if mode == "ledger" {
        crate::ledger::ledger_case(case, modules, &main, &mut obs);
        return J::Object(obs);
    }

    // ---- check ----
    if mode == "check" || mode == "both" || case.get("check").and_then(|c| c.as_bool()) == Some(true) {
        let files = files_of(case, modules);
        let r = catch_unwind(AssertUnwindSafe(|| {
            match check(&main, MockFileProvider::new(files)) {
                Ok(()) => ("ok".to_string(), String::new()),
                Err(e) => ("diag".to_string(), e.to_string()),
            }
        }));
        match r {
            Ok((k, text)) => {
                obs.insert("check".into(), json!(k));
                if k == "diag" {
                    obs.insert("check_text".into(), json!(text));
                }
            }
            Err(e) => {
                obs.insert("check".into(), json!("panic"));
                obs.insert("check_panic".into(), json!(panic_msg(e)));
                obs.insert("check_panic_loc".into(), json!(crate::take_panic_loc()));
            }
        }
        if mode == "check" {
            if case.get("diags").and_then(|c| c.as_bool()) == Some(true) {
                obs.insert("diags".into(), diag_json(files_of(case, modules), &main, case.get("forget").and_then(|a| a.as_bool()).unwrap_or(true)));
            }
            return J::Object(obs);
        }
    }

    // ---- compile ----
    let opt = case.get("opt").and_then(|o| o.as_bool()).unwrap_or(true);
    verif::set_opt_off(!opt);
    // compile-time events (optimizer rewrites, assembler) need the sink before compile_bytecode
    let early_flags = case.get("trace").and_then(|t| t.as_u64()).unwrap_or(0) as u32;
    let early_sink = early_flags & (verif::T_OPT | verif::T_ASM) != 0;
    if early_sink {
        verif::install(early_flags);
    }
    let files = files_of(case, modules);
    let compiled = catch_unwind(AssertUnwindSafe(|| {
        compile_bytecode(&main, MockFileProvider::new(files))
    }));
    verif::set_opt_off(false);
    let program = match compiled {
        Err(e) => {
            obs.insert("compile".into(), json!("panic"));
            obs.insert("panic".into(), json!(panic_msg(e)));
            obs.insert("panic_loc".into(), json!(crate::take_panic_loc()));
            return J::Object(obs);
        }
        Ok(Err(e)) => {
            obs.insert("compile".into(), json!("diag"));
            obs.insert("diag_text".into(), json!(e.to_string()));
            if case.get("diags").and_then(|c| c.as_bool()) == Some(true) {
                obs.insert("diags".into(), diag_json(files_of(case, modules), &main, case.get("forget").and_then(|a| a.as_bool()).unwrap_or(true)));
            }
            return J::Object(obs);
        }
        Ok(Ok(p)) => p,
    };
    obs.insert("compile".into(), json!("ok"));
    if mode == "compile" || mode == "both" && case.get("run").and_then(|r| r.as_bool()) != Some(true) {
        if early_sink {
            // compile-time events (optimizer rewrites, assembled instructions) of a compile-only case
            let events = verif::take();
            let p = outdir.join(format!("trace_{}.ndjson", id.replace(['/', ' '], "_")));
            let mut s = String::new();
            for e in &events {
                s.push_str(e);
                s.push('\n');
            }
            let _ = std::fs::write(&p, s);
            obs.insert("events".into(), json!(p.to_string_lossy()));
            obs.insert("nevents".into(), json!(events.len()));
            verif::reset();
        }
        return J::Object(obs);
    }

    // ---- run ----
    let budgets: Vec<u32> = case
        .get("budgets")
        .and_then(|b| b.as_array())
        .map(|a| a.iter().map(u32_of).collect())
        .unwrap_or_else(|| vec![2_000_000_000]);
    let budgets = if budgets.is_empty() { vec![2_000_000_000] } else { budgets };
    let delay = case.get("delay").and_then(|d| d.as_u64()).unwrap_or(0);
    let maxsteps = case.get("maxsteps").and_then(|d| d.as_u64()).unwrap_or(3_000_000);
    let want_calls = case.get("calls").and_then(|c| c.as_bool()).unwrap_or(false);
    let trace_flags = case.get("trace").and_then(|t| t.as_u64()).unwrap_or(0) as u32;
    let quarantine = case.get("quarantine").and_then(|q| q.as_bool()).unwrap_or(false)
        || trace_flags & verif::T_GC != 0;
    let ledger = case.get("ledger").and_then(|q| q.as_bool()).unwrap_or(false);

    let mut hostfns: Vec<HostFn> = vec![];
    if let Some(hs) = case.get("hostfns").and_then(|h| h.as_array()) {
        for h in hs {
            hostfns.push(HostFn {
                name: jstr(h, "name").unwrap_or_default(),
                args: h["args"].as_array().map(|a| a.iter().map(|x| x.as_str().unwrap_or("").to_string()).collect()).unwrap_or_default(),
                ret: jstr(h, "ret").unwrap_or_else(|| "void".into()),
                rets: h.get("rets").and_then(|r| r.as_array()).cloned().unwrap_or_default(),
                next: 0,
            });
        }
    }
    let mut names: Vec<String> = vec!["eprint_string".into(), "get_args".into(), "print_string".into(), "readline".into()];
    for h in &hostfns {
        names.push(h.name.clone());
    }
    names.sort();

    if let Some(gc) = case.get("gc") {
        match gc.get("mode").and_then(|m| m.as_str()) {
            Some("off") => verif::set_plan(Some(verif::GcPlan::Off)),
            Some("script") => verif::set_plan(Some(verif::GcPlan::Script {
                starts: gc.get("starts").and_then(|s| s.as_array()).map(|a| a.iter().filter_map(|x| x.as_u64()).collect()).unwrap_or_default(),
                every: gc.get("every").and_then(|s| s.as_u64()).unwrap_or(0),
                offset: gc.get("offset").and_then(|s| s.as_u64()).unwrap_or(0),
                mark_bytes: usize_of(gc.get("mark"), usize::MAX),
                sweep_bytes: usize_of(gc.get("sweep"), usize::MAX),
                main_only: gc.get("main_only").and_then(|s| s.as_bool()).unwrap_or(false),
            })),
            _ => {}
        }
    }
    if quarantine {
        verif::set_quarantine(true);
    }
    let live0 = alloc_count::live();
    let out0 = alloc_count::outstanding();
    if trace_flags != 0 && !early_sink {
        verif::install(trace_flags);
    }

    let mut out = String::new();
    let mut errout = String::new();
    let mut hostlog: Vec<J> = vec![];
    let mut calls: Vec<J> = vec![];
    let mut total: u64 = 0;
    let mut status = "steplimit".to_string();
    let mut err = J::Null;
    let mut result = J::Null;
    let mut stats = J::Null;
    let mut peak_heap: usize = 0;
    let want_stats = case.get("stats").and_then(|c| c.as_bool()).unwrap_or(false);
    let result_ty = jstr(case, "result");

    let mut runtime = Runtime::new(program);
    let live_after_new = alloc_count::live();
    alloc_count::reset_peak();
    let run = catch_unwind(AssertUnwindSafe(|| {
        let mut i = 0usize;
        let mut pending_delay = 0u64;
        let mut zero_runs = 0;
        loop {
            let k = budgets[i % budgets.len()];
            i += 1;
            let st = runtime.run_n_steps(k);
            total += st.steps_consumed as u64;
            let kind = match &st.kind {
                RuntimeStatusKind::Done => "Done",
                RuntimeStatusKind::PendingHostFunc => "PendingHostFunc",
                RuntimeStatusKind::OutOfSteps => "OutOfSteps",
                RuntimeStatusKind::MainThreadError(_) => "MainThreadError",
            };
            if want_calls {
                calls.push(json!([k as i64, kind, st.steps_consumed]));
            }
            if want_stats {
                for s in runtime.verif_stats() {
                    if s.heap_size > peak_heap {
                        peak_heap = s.heap_size;
                    }
                }
            }
            match &st.kind {
                RuntimeStatusKind::Done => {
                    status = "done".into();
                    break;
                }
                RuntimeStatusKind::MainThreadError(e) => {
                    status = "error".into();
                    err = parse_vm_error(&e.to_string());
                    break;
                }
                RuntimeStatusKind::PendingHostFunc => {
                    if pending_delay < delay {
                        pending_delay += 1;
                        continue;
                    }
                    pending_delay = 0;
                    for t in runtime.iter_threads_mut() {
                        if let Some(f) = t.get_pending_host_func() {
                            let name = names.get(f as usize).cloned().unwrap_or_default();
                            let tid = verif::tid_of(t.id());
                            match name.as_str() {
                                "print_string" => {
                                    let s = <String as VmType>::from_vm(t);
                                    out.push_str(&s);
                                }
                                "eprint_string" => {
                                    let s = <String as VmType>::from_vm(t);
                                    errout.push_str(&s);
                                }
                                "readline" => String::new().to_vm(t),
                                "get_args" => Vec::<String>::new().to_vm(t),
                                _ => {
                                    if let Some(h) = hostfns.iter_mut().find(|h| h.name == name) {
                                        let mut args = vec![J::Null; h.args.len()];
                                        for (ai, ty) in h.args.iter().enumerate().rev() {
                                            args[ai] = pop_arg(t, ty);
                                        }
                                        hostlog.push(json!({"f": name, "args": args, "tid": tid}));
                                        if h.ret != "void" {
                                            let v = if h.rets.is_empty() { J::Null } else { h.rets[h.next % h.rets.len()].clone() };
                                            h.next += 1;
                                            push_ret(t, &h.ret, &v);
                                        }
                                    }
                                }
                            }
                            t.clear_pending_host_func();
                            verif::ev(verif::T_SCHED, || format!(r#"{{"e":"host_service","tid":{},"f":"{}"}}"#, tid, name));
                        }
                    }
                }
                RuntimeStatusKind::OutOfSteps => {
                    if st.steps_consumed == 0 && k > 0 {
                        zero_runs += 1;
                        if zero_runs > 3 {
                            status = "stuck".into();
                            break;
                        }
                    } else {
                        zero_runs = 0;
                    }
                }
            }
            if total > maxsteps {
                status = "steplimit".into();
                break;
            }
        }
        if status == "done" {
            if let Some(ty) = &result_ty {
                let main_t = runtime.main();
                let top = runtime.top();
                result = match ty.as_str() {
                    "int" => json!(top.get_int(main_t).to_string()),
                    "float" => json!(top.get_float(main_t).to_bits().to_string()),
                    "bool" => json!(top.get_bool(main_t)),
                    "string" => json!(top.view_string(main_t)),
                    _ => J::Null,
                };
            }
        }
        if want_stats {
            let v: Vec<J> = runtime
                .verif_stats()
                .iter()
                .map(|s| json!({"tid": s.tid, "main": s.is_main, "heap_size": s.heap_size, "objects": s.heap_objects,
                    "last": s.last_gc_heap_size, "gc": s.gc_state, "cycles": s.gc_cycles,
                    "stack": s.stack_len, "base": s.stack_base, "frames": s.frames}))
                .collect();
            stats = J::Array(v);
        }
    }));
    let mut ledger_json = J::Null;
    match run {
        Ok(()) => {
            if ledger {
                // quarantine is off in ledger mode: dropping the runtime must return every byte
                let live_before_drop = alloc_count::live();
                drop(runtime);
                ledger_json = json!({"live0": live0, "after_new": live_after_new, "before_drop": live_before_drop,
                    "after_drop": alloc_count::live(), "outstanding0": out0, "outstanding_after": alloc_count::outstanding()});
            } else {
                drop(runtime);
            }
        }
        Err(e) => {
            status = "panic".into();
            let msg = panic_msg(e);
            if msg.starts_with("VERIF-UAF") {
                status = "uaf".into();
            }
            obs.insert("panic".into(), json!(msg));
            std::mem::forget(runtime);
            verif::abandon_quarantine();
        }
    }
    let events = verif::take();
    if trace_flags != 0 {
        let p = outdir.join(format!("trace_{}.ndjson", id.replace(['/', ' '], "_")));
        let mut s = String::new();
        for e in &events {
            s.push_str(e);
            s.push('\n');
        }
        let _ = std::fs::write(&p, s);
        obs.insert("events".into(), json!(p.to_string_lossy()));
        obs.insert("nevents".into(), json!(events.len()));
    }
    verif::reset();
    obs.insert("status".into(), json!(status));
    obs.insert("out".into(), json!(out));
    if !errout.is_empty() {
        obs.insert("errout".into(), json!(errout));
    }
    obs.insert("steps".into(), json!(total));
    if !err.is_null() {
        obs.insert("err".into(), err);
    }
    if !result.is_null() {
        obs.insert("result".into(), result);
    }
    if !hostlog.is_empty() || !hostfns.is_empty() {
        obs.insert("host".into(), J::Array(hostlog));
    }
    if want_calls {
        obs.insert("calls".into(), J::Array(calls));
    }
    if want_stats {
        obs.insert("stats".into(), stats);
        obs.insert("peak_heap".into(), json!(peak_heap));
        // real allocations of the whole process while the program ran, above the level right after Runtime::new
        obs.insert("peak_live".into(), json!(alloc_count::peak() - live_after_new));
    }
    if ledger {
        obs.insert("ledger".into(), ledger_json);
    }
    J::Object(obs)
}

/// editor analysis: diagnostics plus queries at the requested offsets ("all" = every char boundary)
pub fn lsp_case(case: &J, modules: &HashMap<PathBuf, String>, main: &str, obs: &mut Map<String, J>) {
    let files = files_of(case, modules);
    let src = files.get(Path::new(main)).cloned().unwrap_or_default();
    // "forget": false drops the analysis result (default: leak it, as before; a long batch of lsp cases
    // then exhausts the worker's address-space limit)
    let keep = case.get("forget").and_then(|a| a.as_bool()).unwrap_or(true);
    let r = catch_unwind(AssertUnwindSafe(|| {
        let res = check_lsp(main, MockFileProvider::new(files));
        let fid = res.file_id_for_path(Path::new(main));
        let mut diags = vec![];
        for e in res.errors() {
            let file = res
                .file_db
                .get(e.file_id)
                .map(|f| f.absolute_path.to_string_lossy().to_string())
                .unwrap_or_default();
            diags.push(json!({"msg": e.message, "file": file, "start": e.range.start, "end": e.range.end}));
        }
        let mut answers = vec![];
        let mut nq = 0u64;
        let mut qpanics: Vec<J> = vec![];
        if let Some(fid) = fid {
            let offsets: Vec<usize> = match case.get("offsets") {
                Some(J::String(s)) if s == "all" => (0..=src.len()).filter(|&o| src.is_char_boundary(o)).collect(),
                Some(J::Array(a)) => a.iter().filter_map(|x| x.as_u64()).map(|x| x as usize).collect(),
                _ => vec![],
            };
            let want = case.get("answers").and_then(|a| a.as_bool()).unwrap_or(false);
            // "perquery": every query under its own catch_unwind; panics are listed in obs.qpanics
            // as {off, q: def|type|compl, msg, loc} and the remaining queries still run
            if case.get("perquery").and_then(|a| a.as_bool()).unwrap_or(false) {
                for o in offsets {
                    for q in ["def", "type", "compl"] {
                        nq += 1;
                        let r = catch_unwind(AssertUnwindSafe(|| match q {
                            "def" => { let _ = res.definition_at(fid, o); }
                            "type" => { let _ = res.type_at(fid, o); }
                            _ => { let _ = res.completions_at(fid, o); }
                        }));
                        if let Err(e) = r {
                            qpanics.push(json!({"off": o, "q": q, "msg": panic_msg(e), "loc": crate::take_panic_loc()}));
                        }
                    }
                }
                if keep { std::mem::forget(res); } else { drop(res); }
                return (diags, answers, nq, qpanics);
            }
            for o in offsets {
                let d = res.definition_at(fid, o);
                let t = res.type_at(fid, o);
                let c = res.completions_at(fid, o);
                nq += 3;
                if want {
                    answers.push(json!({"off": o,
                        "def": d.map(|d| json!({"file": res.file_db.get(d.file_id).map(|f| f.absolute_path.to_string_lossy().to_string()).unwrap_or_default(), "start": d.range.start, "end": d.range.end})),
                        "type": t, "ncompl": c.len()}));
                }
            }
        }
        if keep { std::mem::forget(res); } else { drop(res); }
        (diags, answers, nq, qpanics)
    }));
    match r {
        Ok((d, a, nq, qp)) => {
            obs.insert("lsp".into(), json!(if qp.is_empty() { "ok" } else { "panic" }));
            if !qp.is_empty() {
                obs.insert("qpanics".into(), J::Array(qp));
            }
            obs.insert("diags".into(), J::Array(d));
            obs.insert("answers".into(), J::Array(a));
            obs.insert("queries".into(), json!(nq));
        }
        Err(e) => {
            obs.insert("lsp".into(), json!("panic"));
            obs.insert("panic".into(), json!(panic_msg(e)));
            obs.insert("panic_loc".into(), json!(crate::take_panic_loc()));
        }
    }
}
