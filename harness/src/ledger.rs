// Memory ledger (C07): replays a history of create / run(k) / drop operations over several runtimes of the
// same program and reports the allocator's live byte count after every operation, relative to the start.
use std::collections::HashMap;
use std::path::{Path, PathBuf};

use abra_core::host_bindings::VmType;
use abra_core::vm::{Runtime, RuntimeStatusKind};
use abra_core::{MockFileProvider, compile_bytecode};
use serde_json::{Map, Value as J, json};

use crate::{alloc_count, files_of};

fn new_runtime(files: &HashMap<PathBuf, String>, main: &str) -> Option<Runtime> {
    match compile_bytecode(main, MockFileProvider::new(files.clone())) {
        Ok(p) => Some(Runtime::new(p)),
        Err(_) => None,
    }
}

/// run up to k steps in slices of 7, servicing (and discarding) host calls
fn run_some(rt: &mut Runtime, k: u32) -> &'static str {
    let mut left = k;
    while left > 0 {
        let st = rt.run_n_steps(left.min(7));
        left = left.saturating_sub(st.steps_consumed.max(1));
        match st.kind {
            RuntimeStatusKind::Done => return "done",
            RuntimeStatusKind::MainThreadError(_) => return "error",
            RuntimeStatusKind::PendingHostFunc => {
                for t in rt.iter_threads_mut() {
                    if let Some(f) = t.get_pending_host_func() {
                        match f {
                            0 | 2 => {
                                let _ = <String as VmType>::from_vm(t);
                            }
                            3 => String::new().to_vm(t),
                            1 => Vec::<String>::new().to_vm(t),
                            _ => {}
                        }
                        t.clear_pending_host_func();
                    }
                }
            }
            RuntimeStatusKind::OutOfSteps => {}
        }
    }
    "running"
}

pub fn ledger_case(case: &J, modules: &HashMap<PathBuf, String>, main: &str, obs: &mut Map<String, J>) {
    let files = files_of(case, modules);
    let ops: Vec<J> = case.get("ops").and_then(|o| o.as_array()).cloned().unwrap_or_default();
    let _ = Path::new(main);
    // warm-up: one complete life cycle so that lazily initialised process-wide state exists
    {
        if let Some(mut rt) = new_runtime(&files, main) {
            run_some(&mut rt, 200);
            drop(rt);
        } else {
            obs.insert("compile".into(), json!("diag"));
            return;
        }
    }
    obs.insert("compile".into(), json!("ok"));
    let mut slots: Vec<Option<Runtime>> = vec![None, None, None, None, None];
    let mut log: Vec<(String, i64, i64, String)> = Vec::with_capacity(ops.len() + 1);
    let base = alloc_count::live();
    let base_n = alloc_count::outstanding();
    for op in &ops {
        let name = op[0].as_str().unwrap_or("");
        let r = op[1].as_u64().unwrap_or(0) as usize % slots.len();
        let mut st = "";
        match name {
            "new" => {
                slots[r] = new_runtime(&files, main);
            }
            "run" => {
                let k = op[2].as_u64().unwrap_or(0) as u32;
                if let Some(rt) = slots[r].as_mut() {
                    st = run_some(rt, k);
                }
            }
            "drop" => {
                slots[r] = None;
            }
            _ => {}
        }
        // the log vector was allocated before `base` was taken and has capacity: pushing does not allocate,
        // but the op name String does; account for it by measuring before building the entry
        let live = alloc_count::live() - base;
        let n = alloc_count::outstanding() - base_n;
        log.push((String::new(), live, n, st.to_string()));
        let last = log.len() - 1;
        log[last].0 = name.to_string();
    }
    // names/status strings allocated for the log are harness memory: subtract them
    let mut own: i64 = 0;
    let mut own_n: i64 = 0;
    let mut out = vec![];
    for (name, live, n, st) in &log {
        out.push(json!({"op": name, "live": live - own, "blocks": n - own_n, "st": st}));
        own += name.capacity() as i64 + st.capacity() as i64;
        own_n += (name.capacity() > 0) as i64 + (st.capacity() > 0) as i64;
    }
    obs.insert("ledger".into(), J::Array(out));
}
