// Runs the REAL binding generator (abra_core::generate_host_function_enum) on the `#host` declarations
// the C36 specification produced, then writes the signature-specific echo glue.
//
//   C36_SRC = directory holding host.abra (the declarations) and sigs.json (plain data: for every host
//   function its name, arity and the shape of what the echo returns). Default: ./sample.
//
// Nothing here knows what a correct marshalling looks like: the generated mod.rs is used as is, except
// that `#[derive(Debug)]` is put in front of the generated type definitions so that the host side can
// log what it received (the marshalling code itself is untouched).
use std::fmt::Write as _;
use std::path::PathBuf;

use abra_core::OsFileProvider;

fn camel(name: &str) -> String {
    // names handed out by the specification are [a-z]+[0-9]* (one word): UpperCamelCase = capitalise
    let mut c = name.chars();
    match c.next() {
        Some(f) => f.to_uppercase().collect::<String>() + c.as_str(),
        None => String::new(),
    }
}

fn main() {
    println!("cargo:rerun-if-env-changed=C36_SRC");
    let manifest = PathBuf::from(std::env::var("CARGO_MANIFEST_DIR").unwrap());
    let src = std::env::var("C36_SRC").map(PathBuf::from).unwrap_or_else(|_| manifest.join("sample"));
    println!("cargo:rerun-if-changed={}", src.join("host.abra").display());
    println!("cargo:rerun-if-changed={}", src.join("sigs.json").display());
    let out_dir = PathBuf::from(std::env::var("OUT_DIR").unwrap());

    if let Err(e) = abra_core::generate_host_function_enum(
        "host.abra",
        OsFileProvider::single_dir(src.clone()),
        &out_dir,
    ) {
        panic!("generate_host_function_enum rejected host.abra: {}", e)
    }

    // observation aid only: Debug for the generated types
    let modrs = out_dir.join("mod.rs");
    let text = std::fs::read_to_string(&modrs).unwrap();
    let mut patched = String::new();
    for line in text.lines() {
        let t = line.trim_start();
        if t.starts_with("pub struct ") || t.starts_with("pub enum ") {
            patched.push_str("#[derive(Debug)]\n");
        }
        patched.push_str(line);
        patched.push('\n');
    }
    std::fs::write(&modrs, patched).unwrap();

    // echo glue: HostFunctionArgs::X(a0..) -> HostFunctionRet::X(..) as described by sigs.json
    let sigs: serde_json::Value =
        serde_json::from_str(&std::fs::read_to_string(src.join("sigs.json")).unwrap()).unwrap();
    let mut g = String::new();
    g.push_str("pub fn echo(args: HostFunctionArgs) -> Option<HostFunctionRet> {\n    match args {\n");
    for s in sigs.as_array().unwrap() {
        let name = camel(s["name"].as_str().unwrap());
        let nargs = s["nargs"].as_u64().unwrap() as usize;
        let keep: Vec<usize> = s["keep"].as_array().unwrap().iter().map(|k| k.as_u64().unwrap() as usize).collect();
        let pat = if nargs == 0 {
            String::new()
        } else {
            let v: Vec<String> = (0..nargs)
                .map(|i| if keep.contains(&i) { format!("a{i}") } else { "_".to_string() })
                .collect();
            format!("({})", v.join(", "))
        };
        let kept: Vec<String> = keep.iter().map(|i| format!("a{i}")).collect();
        let body = match s["ret"].as_str().unwrap() {
            "void" => format!("HostFunctionRet::{name}"),
            "args" => format!("HostFunctionRet::{name}({})", kept.join(", ")),
            "spread" => {
                let n = s["n"].as_u64().unwrap() as usize;
                let os: Vec<String> = (0..n).map(|i| format!("o{i}")).collect();
                format!("{{ let ({},) = {}; HostFunctionRet::{name}({}) }}", os.join(", "), kept[0], os.join(", "))
            }
            other => panic!("unknown ret shape {other}"),
        };
        let _ = writeln!(g, "        HostFunctionArgs::{name}{pat} => Some({body}),");
    }
    g.push_str("        _ => None,\n    }\n}\n");
    std::fs::write(out_dir.join("echo.rs"), g).unwrap();
}
