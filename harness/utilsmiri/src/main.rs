// utilsmiri <cases.ndjson> <obs.ndjson> [--from N] [--count M]
// The replay code is shared with the conformance harness (abra_conform utils ...).
// Built three ways: plainly, for Miri (cargo miri run), and with --features asan and
// RUSTFLAGS="-Zsanitizer=address -Zsanitizer-recover=address" (AddressSanitizer that continues after a report;
// the report callback below lets the replay mark the step and abandon the history instead of dying).
// (feature "cand": build a candidate copy of the replay code before it is installed into the harness)
#[cfg_attr(not(feature = "cand"), path = "../../src/utilsrun.rs")]
#[cfg_attr(feature = "cand", path = "utilsrun_cand.rs")]
mod utilsrun;

#[cfg(feature = "asan")]
mod asan {
    use std::ffi::{CStr, c_char};
    use std::sync::Mutex;
    use std::sync::atomic::{AtomicBool, Ordering};

    static SEEN: AtomicBool = AtomicBool::new(false);
    static REPORT: Mutex<String> = Mutex::new(String::new());

    unsafe extern "C" {
        fn __asan_set_error_report_callback(cb: extern "C" fn(*const c_char));
    }

    extern "C" fn on_report(text: *const c_char) {
        let head: String = unsafe { CStr::from_ptr(text) }
            .to_string_lossy()
            .lines()
            .filter(|l| l.contains("ERROR: AddressSanitizer") || l.starts_with("READ of") || l.starts_with("WRITE of"))
            .take(2)
            .collect::<Vec<_>>()
            .join("\n");
        if !SEEN.swap(true, Ordering::SeqCst) {
            if let Ok(mut r) = REPORT.try_lock() {
                *r = head;
            }
        }
    }

    pub fn install() {
        unsafe { __asan_set_error_report_callback(on_report) };
    }

    pub fn pending() -> bool {
        SEEN.load(Ordering::SeqCst)
    }

    pub fn probe() -> Option<String> {
        if SEEN.swap(false, Ordering::SeqCst) {
            Some(REPORT.lock().map(|r| r.clone()).unwrap_or_default())
        } else {
            None
        }
    }
}

fn main() {
    let args: Vec<String> = std::env::args().collect();
    #[cfg(feature = "asan")]
    {
        asan::install();
        utilsrun::main_with(&args[1..], Some(utilsrun::UbProbe { take: asan::probe, pending: asan::pending }));
    }
    #[cfg(not(feature = "asan"))]
    utilsrun::main_with(&args[1..], None);
}
