// utilsmiri <cases.ndjson> <obs.ndjson> [--from N] [--count M]
// the replay code is shared with the conformance harness (abra_conform utils ...)
#[path = "utilsrun_dev.rs"]
mod utilsrun;

fn main() {
    let args: Vec<String> = std::env::args().collect();
    utilsrun::main(&args[1..]);
}
