#!/usr/bin/env python3
"""Extract the corpus of (mostly valid) Abra programs used as mutation seeds by C04/C34.

Sources (read-only):  /repo/abra_core/tests/integration/*.rs   r#"..."# literals
                      /repo/examples/*.abra, /repo/module_tests/*.abra
Output:               /verif/corpus/<origin>_<nnn>[_<test name>].abra  +  /verif/corpus/INDEX.json
The extracted files are committed; the checks read /verif/corpus only (never /repo) so the input space of
a check does not move when the project's tests change.  Re-run by hand:  python3 driver/extract_corpus.py
No knowledge about correct behaviour lives here: a pure textual extraction."""
import glob
import json
import os
import re
import sys

ROOT = os.path.dirname(os.path.dirname(os.path.abspath(__file__)))
REPO = os.environ.get("ABRA_REPO", "/repo")
OUT = os.path.join(ROOT, "corpus")


def rust_literals(path):
    """(test name, literal text) for every r#"..."# literal, in file order"""
    src = open(path, encoding="utf-8").read()
    res = []
    fn_at = [(m.start(), m.group(1)) for m in re.finditer(r"\bfn\s+([A-Za-z0-9_]+)\s*\(", src)]
    for m in re.finditer(r'r#"(.*?)"#', src, re.S):
        name = ""
        for pos, n in fn_at:
            if pos < m.start():
                name = n
        res.append((name, m.group(1)))
    return res


def main():
    os.makedirs(OUT, exist_ok=True)
    for f in glob.glob(os.path.join(OUT, "*.abra")):
        os.remove(f)
    index = []
    seen = set()

    def add(origin, name, text):
        if text in seen or not text.strip():
            return
        seen.add(text)
        fname = re.sub(r"[^A-Za-z0-9_]", "_", name)[:60] + ".abra"
        with open(os.path.join(OUT, fname), "w", encoding="utf-8") as fh:
            fh.write(text)
        index.append({"file": fname, "origin": origin, "bytes": len(text.encode("utf-8")),
                      "ascii": text.isascii()})

    for rs in sorted(glob.glob(os.path.join(REPO, "abra_core", "tests", "integration", "*.rs"))):
        base = os.path.basename(rs)[:-3]
        for i, (tname, text) in enumerate(rust_literals(rs)):
            add("abra_core/tests/integration/" + base + ".rs", "%s_%03d_%s" % (base, i, tname), text)
    for d in ("examples", "module_tests"):
        for p in sorted(glob.glob(os.path.join(REPO, d, "*.abra"))):
            add(d + "/" + os.path.basename(p), "%s_%s" % (d, os.path.basename(p)[:-5]),
                open(p, encoding="utf-8").read())
    with open(os.path.join(OUT, "INDEX.json"), "w") as fh:
        json.dump(index, fh, indent=1)
    print("%d corpus programs, %d bytes, %d non-ASCII" % (
        len(index), sum(e["bytes"] for e in index), sum(1 for e in index if not e["ascii"])))


if __name__ == "__main__":
    sys.exit(main())
