#!/bin/sh
# run every check of MANIFEST (or the listed ids) in the given tier and print one summary line per check
tier=${TIER:-quick}
cd "$(dirname "$0")/.."
ids="$@"
[ -z "$ids" ] && ids=$(python3 -c "import json;print(' '.join(c['property_id'] for c in json.load(open('MANIFEST.json'))['checks']))")
for p in $ids; do
  s=$(date +%s)
  out=$(./check $p --tier $tier 2>&1); rc=$?
  e=$(date +%s)
  nv=$(echo "$out" | grep -c "^VIOLATION")
  nk=$(echo "$out" | grep -c "^KNOWN-FINDING")
  echo "$p rc=$rc time=$((e-s))s violations=$nv known=$nk $(echo "$out" | grep TOOL-ERROR | head -1 | cut -c1-150)"
done
