#!/bin/sh
# one line per seed: failing / passing demonstration tests on the changed and on the unchanged tree (from confirm_seeds.sh output)
for id in "$@"; do
  S=/tmp/seeds/$id
  cf=$(grep -cE "\.\.\. FAILED$" $S/confirm_changed.txt); co=$(grep -cE "\.\.\. ok$" $S/confirm_changed.txt)
  kf=$(grep -cE "\.\.\. FAILED$" $S/confirm_clean.txt); ko=$(grep -cE "\.\.\. ok$" $S/confirm_clean.txt)
  echo "$id: changed tree: $cf demo tests FAILED, $co ok; unchanged tree: $kf FAILED, $ko ok"
done
