#!/usr/bin/env python3
"""regenerate the table of seeded changes in DESIGN.md (between the SEEDS markers) from seeded/*/meta.json"""
import glob, json, os, re
ROOT = os.path.dirname(os.path.dirname(os.path.abspath(__file__)))
rows = []
for d in sorted(glob.glob(os.path.join(ROOT, "seeded", "*"))):
    m = json.load(open(os.path.join(d, "meta.json")))
    summ = " ".join((m.get("summary") or "").split())
    summ = summ if len(summ) <= 230 else summ[:227] + "..."
    rows.append("| %s | %s | %s | %s | %s |" % (os.path.basename(d), m.get("breaks_property"), summ.replace("|", "/"),
                                            ", ".join(m.get("detected_by") or []) or "-", (m.get("history") or "").replace("|", "/")))
table = "\n".join(["| seed | breaks | change (by an independent sub-agent) | detected by | history |", "|---|---|---|---|---|"] + rows)
p = os.path.join(ROOT, "DESIGN.md")
s = open(p).read()
s = re.sub(r"(<!-- SEEDS-BEGIN -->\n).*?(<!-- SEEDS-END -->)", lambda mm: mm.group(1) + table + "\n" + mm.group(2), s, flags=re.S)
open(p, "w").write(s)
print(len(rows), "seeds")
