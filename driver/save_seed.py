#!/usr/bin/env python3
"""save a confirmed seeded change: save_seed.py <name> <property> <detected_by comma list> <confirm line>"""
import json, os, shutil, sys
name, prop, detected, confirm = sys.argv[1:5]
src = "/tmp/seeds/" + name
dst = "/verif/seeded/" + name
os.makedirs(dst, exist_ok=True)
shutil.copy(os.path.join(src, "patch.diff"), os.path.join(dst, "patch.diff"))
if os.path.isdir(os.path.join(dst, "demo")):
    shutil.rmtree(os.path.join(dst, "demo"))
shutil.copytree(os.path.join(src, "demo"), os.path.join(dst, "demo"))
meta = json.load(open(os.path.join(src, "meta.json")))
out = {"breaks_property": prop, "summary": meta.get("summary"), "needs": meta.get("needs"),
       "demonstration": meta.get("demo"),
       "confirmed": "driver/confirm_seeds.sh in scratch worktrees of /repo: pinned suite on the changed tree, demo/run.sh on the changed and on the unchanged tree -> " + confirm,
       "checked_with": "driver/seedtest.sh seeded/%s/patch.diff %s (git -C /repo apply, ./check, git checkout)" % (name, " ".join(detected.split(","))),
       "detected_by": detected.split(",") if detected else [],
       "author": "independent sub-agent given only the property text and a scratch worktree"}
json.dump(out, open(os.path.join(dst, "meta.json"), "w"), indent=1)
print("saved", dst)
