#!/bin/sh
# usage: seedtest.sh <patch.diff> <check ids...>   applies a seeded change to /repo, runs the checks, undoes it
patch=$1; shift
cd /repo || exit 2
if [ -n "$(git status --porcelain --untracked-files=no)" ]; then echo "repo not clean"; exit 2; fi
git apply "$patch" || { echo "patch does not apply"; exit 2; }
cd /verif
for c in "$@"; do
  s=$(date +%s)
  out=$(./check $c --tier ${TIER:-quick} 2>&1); rc=$?
  e=$(date +%s)
  echo "== $c rc=$rc time=$((e-s))s"
  echo "$out" | grep -A1 "^VIOLATION" | grep "key=" | sed 's/^ *//' | cut -c1-220 | sort | uniq -c | head -8
  echo "$out" | grep "TOOL-ERROR" | head -2
done
git -C /repo checkout -- .
