#!/bin/sh
# confirm seeded changes in scratch worktrees: (1) the changed tree passes the pinned suite, (2) the demonstration fails on
# the changed tree and (3) passes on the unchanged tree.  usage: confirm_seeds.sh <id>...   (seeds in /tmp/seeds/<id>)
set -u
WT=/tmp/confirm_wt_changed; CL=/tmp/confirm_wt_clean
[ -d $WT ] || git -C /repo worktree add -q $WT HEAD
[ -d $CL ] || git -C /repo worktree add -q $CL HEAD
for id in "$@"; do
  S=/tmp/seeds/$id
  git -C $WT checkout -q -- . ; git -C $WT clean -fdq -e target
  if ! git -C $WT apply $S/patch.diff; then echo "$id: patch does not apply"; continue; fi
  t=$(cd $WT && cargo test --workspace --no-fail-fast --offline 2>&1 | grep -E "^test result|FAILED|failed|^error")
  nfail=$(echo "$t" | grep -cE "FAILED|[1-9][0-9]* failed|^error")
  npass=$(echo "$t" | grep -E "^test result" | sed 's/.*ok\. \([0-9]*\) passed.*/\1/' | paste -sd+ | bc)
  (cd $S/demo && bash ./run.sh $WT > $S/confirm_changed.txt 2>&1); rc_changed=$?
  (cd $S/demo && bash ./run.sh $CL > $S/confirm_clean.txt 2>&1); rc_clean=$?
  git -C $WT checkout -q -- . ; git -C $WT clean -fdq -e target; git -C $CL checkout -q -- . ; git -C $CL clean -fdq -e target
  echo "$id: suite_failures=$nfail suite_passed=$npass demo_on_changed_rc=$rc_changed demo_on_clean_rc=$rc_clean"
done
