"""Orchestration only: run TLC, run the conformance harness, compare JSON, write evidence.
No knowledge about what is *correct* lives here: expected observations come from the TLA+
specifications under /verif/spec, observations from the Rust harness."""
import glob
import json
import os
import re
import shutil
import subprocess
import sys
import time

ROOT = os.path.dirname(os.path.dirname(os.path.abspath(__file__)))
SPEC = os.path.join(ROOT, "spec")
WORK = os.path.join(ROOT, "work")
HARNESS_DIR = os.path.join(ROOT, "harness")
HARNESS = os.path.join(HARNESS_DIR, "target", "release", "abra_conform")
TLA_JAR = "/opt/veriftools/tla/tla2tools.jar"
CM_JAR = "/opt/veriftools/tla/CommunityModules-deps.jar"
REPO = os.environ.get("ABRA_REPO", "/repo")


class ToolError(Exception):
    pass


def die_tool(msg):
    print("TOOL-ERROR: " + msg, flush=True)
    sys.exit(2)


def spec_dirs():
    return [d for d in sorted(glob.glob(os.path.join(SPEC, "*"))) if os.path.isdir(d)]


def build_harness():
    lock = os.path.join(HARNESS_DIR, "Cargo.lock")
    if not os.path.exists(lock):
        shutil.copy(os.path.join(REPO, "Cargo.lock"), lock)
    # the harness depends on the repository by path; ABRA_REPO selects another checkout (background runs on a snapshot)
    manifest = os.path.join(HARNESS_DIR, "Cargo.toml")
    text = open(manifest).read()
    want = re.sub(r'path = "[^"]*/(abra_core|utils)"', lambda m: 'path = "%s/%s"' % (REPO, m.group(1)), text)
    if want != text:
        with open(manifest, "w") as fh:
            fh.write(want)
    env = dict(os.environ, CARGO_NET_OFFLINE="true")
    t0 = time.time()
    p = subprocess.run(["cargo", "build", "--release", "--offline", "-q"], cwd=HARNESS_DIR,
                       env=env, stdout=subprocess.PIPE, stderr=subprocess.STDOUT, text=True)
    if p.returncode != 0:
        # a source change in /repo that does not compile is not a property violation
        print(p.stdout[-4000:])
        die_tool("harness build failed")
    return time.time() - t0


def workdir(prop, clean=True):
    d = os.path.join(WORK, prop)
    if clean and os.path.isdir(d):
        shutil.rmtree(d, ignore_errors=True)
    os.makedirs(d, exist_ok=True)
    return d


class TlcResult:
    def __init__(self, out, rc, wall):
        self.out = out
        self.rc = rc
        self.wall = wall
        self.generated = 0
        self.distinct = 0
        self.depth = 0
        ms = re.findall(r"^(\d+) states generated, (\d+) distinct states found", out, re.M)
        if ms:
            self.generated, self.distinct = int(ms[-1][0]), int(ms[-1][1])
        m = re.search(r"The number of states generated: (\d+)", out)
        if m:
            self.generated = int(m.group(1))
            self.distinct = self.distinct or self.generated
        m = re.search(r"depth of the complete state graph search is (\d+)", out)
        if m:
            self.depth = int(m.group(1))
        self.violation = ("Invariant" in out and "is violated" in out) or "Temporal properties were violated" in out \
            or "POSTCONDITION" in out and "violated" in out
        self.error = "Error:" in out

    def cases(self):
        """CASE lines printed with PrintT(<<"CASE", ToJson(x)>>)"""
        res = []
        for line in self.out.splitlines():
            if line.startswith('<<"CASE", "') and line.endswith('">>'):
                lit = line[len('<<"CASE", '):-2]
                try:
                    res.append(json.loads(json.loads(lit)))
                except Exception as e:  # noqa
                    raise ToolError("unparsable CASE line: %s" % line[:200])
        return res


def tlc(module, cfg=None, *, cwd=None, workers=1, simulate=None, depth=None, seed=None, env=None,
        timeout=1800, metadir=None, extra=None, xmx=None, deque=False, coverage=False):
    """module: path of the .tla file (cfg next to it unless given)."""
    module = os.path.abspath(module)
    cwd = cwd or os.path.dirname(module)
    cfg = cfg or module[:-4] + ".cfg"
    lib = ":".join(spec_dirs())
    jvm = ["java", "-XX:+UseParallelGC", "-Xss1g"]
    if xmx:
        jvm.append("-Xmx" + xmx)
    if deque:
        jvm.append("-Dtlc2.tool.queue.IStateQueue=StateDeque")
    jvm += ["-cp", TLA_JAR + ":" + CM_JAR, "-DTLA-Library=" + lib, "tlc2.TLC"]
    args = ["-workers", str(workers), "-noGenerateSpecTE", "-config", cfg]
    if metadir is None:
        metadir = os.path.join(WORK, "_meta", os.path.basename(module)[:-4] + "_%d" % os.getpid())
    shutil.rmtree(metadir, ignore_errors=True)
    os.makedirs(metadir, exist_ok=True)
    args += ["-metadir", metadir]
    if simulate is not None:
        args += ["-simulate", "num=%d" % simulate]
        if depth:
            args += ["-depth", str(depth)]
    elif depth:
        args += ["-depth", str(depth)]
    if seed is not None:
        args += ["-seed", str(seed)]
    if coverage:
        args += ["-coverage", "1"]
    if extra:
        args += extra
    e = dict(os.environ)
    e.pop("JAVA_TOOL_OPTIONS", None)
    if env:
        e.update({k: str(v) for k, v in env.items()})
    t0 = time.time()
    try:
        p = subprocess.run(["timeout", str(timeout)] + jvm + args + [module], cwd=cwd, env=e,
                           stdout=subprocess.PIPE, stderr=subprocess.STDOUT, text=True)
    finally:
        pass
    wall = time.time() - t0
    shutil.rmtree(metadir, ignore_errors=True)
    if p.returncode == 124:
        raise ToolError("TLC timed out after %ds on %s" % (timeout, module))
    return TlcResult(p.stdout, p.returncode, wall)


def tlc_ok(res, what):
    """TLC finished without any error (used for generator runs)"""
    if res.error or res.rc != 0:
        tail = "\n".join(l for l in res.out.splitlines() if not l.startswith(("Parsing", "Semantic", "Linting")))[-3000:]
        raise ToolError("TLC failed on %s (rc=%s):\n%s" % (what, res.rc, tail))


def load_case_files(d):
    cases = []
    for f in sorted(glob.glob(os.path.join(d, "*.json")), key=lambda p: (len(p), p)):
        with open(f) as fh:
            cases.append(json.load(fh))
    return cases


def load_ndjson(path):
    res = []
    if not os.path.exists(path):
        return res
    with open(path) as fh:
        for line in fh:
            line = line.strip()
            if line:
                res.append(json.loads(line))
    return res


def write_ndjson(path, rows):
    with open(path, "w") as fh:
        for r in rows:
            fh.write(json.dumps(r, ensure_ascii=False) + "\n")


def run_harness(cases, wd, name="cases", jobs=None, timeout=20, mem=4096, confirm=True):
    """returns observations in case order (dict id -> obs)"""
    cpath = os.path.join(wd, name + ".ndjson")
    opath = os.path.join(wd, name + ".obs.ndjson")
    write_ndjson(cpath, cases)
    if os.path.exists(opath):
        os.remove(opath)
    jobs = jobs or min(12, max(1, len(cases) // 4))
    t0 = time.time()
    p = subprocess.run([HARNESS, "exec", cpath, opath, "--jobs", str(jobs), "--timeout", str(timeout),
                        "--mem", str(mem)], stdout=subprocess.PIPE, stderr=subprocess.STDOUT, text=True,
                       env=dict(os.environ, ABRA_REPO=REPO))
    if p.returncode != 0:
        raise ToolError("harness exec failed: " + p.stdout[-2000:])
    obs = load_ndjson(opath)
    if len(obs) != len(cases):
        raise ToolError("harness returned %d observations for %d cases" % (len(obs), len(cases)))
    # a worker death or a wall-clock limit is only believed when it reproduces in a second, unhurried run
    # (on a loaded machine the first one can be an artefact of the load, which must never become an alarm)
    if confirm:
        again = [i for i, o in enumerate(obs) if any(o.get(k) in ("timeout", "abort") for k in ("status", "compile", "check", "lsp"))]
        if again and len(again) <= max(50, len(cases) // 10):
            sub = [cases[i] for i in again]
            obs2, _ = run_harness(sub, wd, name=name + "_confirm", jobs=2, timeout=timeout * 3, mem=mem, confirm=False)
            for i, o2 in zip(again, obs2):
                obs[i] = o2
    return obs, time.time() - t0


# ---------------------------------------------------------------- comparison (pure JSON)
def compare(expect, obs):
    """every field the spec emitted must be matched by the observation.
    expect fields:  status, out, result, errkind, errloc, errtrace, errmsg, compile, check, host, ...
    A value {"oneof": [...]} means membership."""
    mism = []

    def chk(name, want, got):
        if isinstance(want, dict) and "oneof" in want:
            if got not in want["oneof"]:
                mism.append({"field": name, "want": want, "got": got})
        elif want != got:
            mism.append({"field": name, "want": want, "got": got})

    for k, want in expect.items():
        if k == "errkind":
            got = (obs.get("err") or {}).get("kind")
            if want == "anyerr":
                if obs.get("status") != "error":
                    mism.append({"field": k, "want": "any runtime error", "got": obs.get("status")})
            else:
                chk(k, want, got)
        elif k == "errloc":
            got = (obs.get("err") or {}).get("loc")
            if isinstance(want, dict) and want.get("line") == 0 and isinstance(got, dict):
                got = dict(got, line=0)      # line 0 in the expectation = unspecified (inside the prelude)
            chk(k, want, got)
        elif k == "errtrace":
            chk(k, want, (obs.get("err") or {}).get("trace"))
        elif k == "errmsg":
            chk(k, want, (obs.get("err") or {}).get("msg"))
        else:
            chk(k, want, obs.get(k))
    return mism


# ---------------------------------------------------------------- findings / reporting
def load_known():
    """known_findings.jsonl: one JSON object per known finding {"status":"known","property","key","what"};
    repaired defects are recorded as plain lines `fixed: property=<id> <commit> <what failed>` and suppress nothing"""
    path = os.path.join(ROOT, "known_findings.jsonl")
    known = []
    if os.path.exists(path):
        with open(path) as fh:
            for line in fh:
                line = line.strip()
                if line and not line.startswith("#") and not line.startswith("fixed:"):
                    known.append(json.loads(line))
    return known


class Report:
    def __init__(self, prop, tier, seed, level):
        self.prop, self.tier, self.seed, self.level = prop, tier, seed, level
        self.t0 = time.time()
        self.violations = []      # (key, replay path, summary)
        self.known_hits = {}      # key -> (what, count)
        self.coverage = {}
        self.assumptions = []
        self.known = [k for k in load_known() if k.get("property") == prop and k.get("status") == "known"]
        self.wd = os.path.join(WORK, prop)

    def finding(self, key, case, obs, mism, what=None):
        """a disagreement between spec and implementation on one case"""
        for k in self.known:
            if k["key"] == key:
                w, c = self.known_hits.get(key, (k.get("what", ""), 0))
                self.known_hits[key] = (w, c + 1)
                return False
        os.makedirs(self.wd, exist_ok=True)
        rid = re.sub(r"[^A-Za-z0-9_.-]", "_", str(case.get("id", len(self.violations))))
        path = os.path.join(self.wd, "replay_%s.json" % rid)
        with open(path, "w") as fh:
            json.dump({"property": self.prop, "key": key, "case": case, "observed": obs, "mismatch": mism,
                       "what": what}, fh, indent=1, ensure_ascii=False)
        self.violations.append((key, path, what or json.dumps(mism)[:300]))
        return True

    def finish(self):
        wall = time.time() - self.t0
        cov = dict(self.coverage)
        ev = {"property_id": self.prop, "tier": self.tier, "seed": self.seed, "level": self.level,
              "coverage": cov, "assumptions": self.assumptions, "wall_s": round(wall, 2),
              "violations": len(self.violations)}
        if self.known_hits:
            cov["known_findings_hit"] = {k: c for k, (w, c) in self.known_hits.items()}
        os.makedirs(os.path.join(ROOT, "evidence"), exist_ok=True)
        with open(os.path.join(ROOT, "evidence", self.prop + ".json"), "w") as fh:
            json.dump(ev, fh, indent=1, ensure_ascii=False)
        for key, (what, c) in sorted(self.known_hits.items()):
            print("KNOWN-FINDING: property=%s %s [%s] (%d cases)" % (self.prop, what, key, c))
        seen = set()
        for key, path, summary in self.violations:
            if key in seen:
                continue
            seen.add(key)
            print("VIOLATION property=%s replay=%s" % (self.prop, path))
            print("  key=%s %s" % (key, summary[:400]))
        print("%s %s: %d violations, %d known-finding keys, %.1fs; coverage: %s" % (
            self.prop, self.tier, len(self.violations), len(self.known_hits), wall,
            json.dumps({k: v for k, v in cov.items() if k not in ("samples", "rule")})[:600]))
        sys.stdout.flush()
        return 1 if self.violations else 0


def sample_cases(cases, n=3):
    res = []
    for c in cases[:n]:
        s = {k: c[k] for k in c if k in ("id", "files", "expect", "key", "budgets", "gc", "ops")}
        res.append(s)
    return res


def replay(mod, prop, path):
    """re-run the case stored in a replay file and compare again"""
    with open(path) as fh:
        r = json.load(fh)
    case = r["case"]
    wd = workdir(prop + "_replay")
    obs, _ = run_harness([case], wd, jobs=1)
    mism = compare(case.get("expect", {}), obs[0]) if "expect" in case else r.get("mismatch")
    print(json.dumps({"observed": obs[0], "mismatch": mism}, indent=1, ensure_ascii=False)[:4000])
    if mism:
        print("VIOLATION property=%s replay=%s" % (prop, path))
        return 1
    return 0


def variants(case, budget_sets, extra=None):
    """the same program under several drive settings; the expectation is shared"""
    res = []
    for i, b in enumerate(budget_sets):
        c = dict(case)
        c["id"] = "%s@b%d" % (case["id"], i)
        c["budgets"] = b
        if extra:
            c.update(extra)
        res.append(c)
    return res


def gen_simulate(prop, module, n, seed, env=None, depth=3, timeout=1800, cfg=None):
    """run a generator spec with `tlc -simulate`, one JSON file per behaviour in OUTDIR"""
    wd = os.path.join(WORK, prop)
    outdir = os.path.join(wd, "gen_" + os.path.basename(module)[:-4])
    shutil.rmtree(outdir, ignore_errors=True)
    os.makedirs(outdir, exist_ok=True)
    e = {"OUTDIR": outdir}
    if env:
        e.update(env)
    res = tlc(module, cfg=cfg, simulate=n, depth=depth, seed=seed, env=e, timeout=timeout)
    tlc_ok(res, module)
    return load_case_files(outdir), res


def gen_enumerate(prop, module, env=None, timeout=1800, cfg=None, workers=1):
    """run an enumerating spec (model checking mode); cases come as CASE lines and/or files in OUTDIR"""
    wd = os.path.join(WORK, prop)
    outdir = os.path.join(wd, "enum_" + os.path.basename(module)[:-4])
    shutil.rmtree(outdir, ignore_errors=True)
    os.makedirs(outdir, exist_ok=True)
    e = {"OUTDIR": outdir, "OUT": os.path.join(outdir, "cases.ndjson")}
    if env:
        e.update(env)
    res = tlc(module, cfg=cfg, env=e, timeout=timeout, workers=workers)
    tlc_ok(res, module)
    cases = res.cases() + load_case_files(outdir) + load_ndjson(os.path.join(outdir, "cases.ndjson"))
    return cases, res


def check_cases(rep, cases, wd, name="cases", jobs=None, timeout=20, keyfn=None, what=None):
    """run cases that carry an `expect` record and file a finding for every mismatch; returns obs"""
    obs, wall = run_harness(cases, wd, name=name, jobs=jobs, timeout=timeout)
    for c, o in zip(cases, obs):
        mism = compare(c.get("expect", {}), o)
        if mism:
            key = c.get("key") or (keyfn(c, o, mism) if keyfn else "%s|%s" % (rep.prop, c["id"]))
            rep.finding(key, c, o, mism, what)
    return obs


def decode_segments(case):
    """transport only: text that contains non-ASCII characters leaves TLC as a list of segments
    {"s": ascii} / {"cp": [code points]}; concatenate them into ordinary strings (files_seg -> files,
    expect_seg.<field> -> expect.<field>)."""
    def cat(segs):
        out = []
        for s in segs:
            if "s" in s:
                out.append(s["s"])
            else:
                out.append("".join(chr(c) for c in s["cp"]))
        return "".join(out)
    c = dict(case)
    if "files_seg" in c:
        c["files"] = {k: cat(v) for k, v in c.pop("files_seg").items()}
    if "expect_seg" in c:
        e = dict(c.get("expect", {}))
        for k, v in c.pop("expect_seg").items():
            e[k] = cat(v)
        c["expect"] = e
    return c
