#!/usr/bin/env python3
"""validate MANIFEST.json and evidence files against the schemas (uses the tooling venv's jsonschema)"""
import json, sys, glob, os
import jsonschema
root = os.path.dirname(os.path.dirname(os.path.abspath(__file__)))
m = json.load(open(os.path.join(root, "MANIFEST.json")))
jsonschema.validate(m, json.load(open("/root/.vp/MANIFEST.schema.json")))
props = [json.loads(l)["id"] for l in open(os.path.join(root, "properties.jsonl"))]
claimed = [c["property_id"] for c in m["checks"]]
na = [n["property_id"] for n in m.get("not_applicable", [])]
assert sorted(claimed + na) == sorted(props), (set(props) - set(claimed) - set(na), set(claimed) & set(na))
es = json.load(open("/root/.vp/EVIDENCE.schema.json"))
for c in m["checks"]:
    f = os.path.join(root, c["evidence_file"])
    if os.path.exists(f):
        ev = json.load(open(f))
        jsonschema.validate(ev, es)
        assert ev["level"] == c["level_claimed"]["category"], (c["property_id"], ev["level"])
    else:
        print("missing evidence", f)
print("manifest ok: %d claimed, %d not applicable" % (len(claimed), len(na)))
