"""C04: the compiler terminates with a result or diagnostics on any text.
Inputs: spec/front/Mutants.tla enumerated by TLC (spec/props/C04.tla, random + exhaustive); the harness runs
abra_core::check and abra_core::compile_bytecode on each; spec/front/Pipeline.tla (TLC, C04v.cfg) decides the
legality of every observation and gives illegal ones their finding key."""
import collections
import os
import re

import vlib
from props import frontlib


def run(prop, tier, seed):
    rep = vlib.Report(prop, tier, seed, "exploration")
    wd = vlib.workdir(prop)
    cases, info, par = frontlib.generate(prop, tier, seed, wd)
    hcases, dropped = frontlib.to_harness(cases, {"mode": "both"})
    obs, hwall = vlib.run_harness(hcases, wd, jobs=frontlib.JOBS, timeout=10)

    # a worker that died (abort / time limit) took the whole case with it: it is believed only if it reproduces, and the
    # second run tells which API it was: `check` alone first, `compile_bytecode` alone for those where check returns
    crashed = [i for i, o in enumerate(obs) if o.get("check") in ("abort", "timeout") or o.get("compile") in ("abort", "timeout")]
    confirmed = flaky = 0
    if crashed:
        o1, w1 = vlib.run_harness([dict(hcases[i], mode="check") for i in crashed], wd, name="confirm_check",
                                  jobs=min(frontlib.JOBS, len(crashed)), timeout=10)
        hwall += w1
        rest = []
        for i, o in zip(crashed, o1):
            if o.get("check") in ("ok", "diag"):
                rest.append((i, o))
            else:
                confirmed += 1
                obs[i] = dict(o, compile=o.get("check"))       # compile_bytecode runs the same analysis first
        if rest:
            o2, w2 = vlib.run_harness([dict(hcases[i], mode="compile") for i, _ in rest], wd, name="confirm_compile",
                                      jobs=min(frontlib.JOBS, len(rest)), timeout=10)
            hwall += w2
            for (i, oc), o in zip(rest, o2):
                if o.get("compile") in ("ok", "diag"):
                    flaky += 1            # did not reproduce: machine load, not a finding
                else:
                    confirmed += 1
                obs[i] = dict(o, check=oc.get("check"), check_text=oc.get("check_text"))

    rows = []
    for c, o in zip(hcases, obs):
        chk, cmp_ = o.get("check"), o.get("compile")
        row = {"id": c["id"], "check": chk or "none", "compile": cmp_ or "none",
               "ctext": bool((o.get("check_text") or "").strip()), "dtext": bool((o.get("diag_text") or "").strip()),
               "csite": frontlib._site(o.get("check_panic_loc"), o.get("check_panic")) if chk == "panic" else "",
               "dsite": frontlib._site(o.get("panic_loc"), o.get("panic")) if cmp_ == "panic" else ""}
        if not (chk in ("ok", "diag") and cmp_ in ("ok", "diag") and (row["ctext"] or chk == "ok") and (row["dtext"] or cmp_ == "ok")):
            row["lex"] = frontlib._solid_lex(c["files"]["main.abra"])
        rows.append(row)

    verdicts, vres = frontlib.validate(prop, wd, rows)
    byid = {c["id"]: (c, o) for c, o in zip(hcases, obs)}
    for cid, v in verdicts.items():
        c, o = byid[cid]
        for key in v["keys"]:
            case = {"id": cid, "mode": "both", "files": c["files"], "expect": v["expect"], "key": key, "gen": c["gen"], "op": c["op"],
                    "prog": c["prog"]}
            rep.finding(key, case, o, vlib.compare(v["expect"], o) or [{"field": "diagnostics", "want": "non-empty", "got": ""}],
                        "check/compile_bytecode did not return a result or diagnostics: check=%s compile=%s on %r" % (
                            o.get("check"), o.get("compile"), c["files"]["main.abra"][:160]))

    outcomes = collections.Counter("%s/%s" % (r["check"], r["compile"]) for r in rows)
    kinds = collections.Counter()
    for o in obs:
        for m in re.findall(r"^error: (.*)$", o.get("check_text") or "", re.M):
            kinds[re.sub(r"`[^`]*`", "`_`", m)[:60]] += 1
    rep.coverage = dict(info, **{
        "evaluations": len(hcases), "distinct_nontrivial": sum(1 for c in hcases if c["gen"] != "orig"),
        "rule": "inputs enumerated by TLC from spec/front/Mutants.tla: the exhaustive part (all seeds, all corpus programs, every "
                "mutant {del,dup,swap,repl by each of %d alphabet tokens,ins bracket,code point before/inside,every prefix} of "
                "corpus programs with <= %d solid lexemes, token soup to length %d, skeleton diagonals=%s) plus %d random "
                "behaviours (seed %d) over the whole corpus, token soup and filled skeletons; identical texts merged; "
                "non-trivial = not an unmodified corpus program" % (
                    len(_alphabet_size(cases)), par["maxsolid"], par["souplen"], bool(par["skeldiag"]), par["n_random"], seed),
        "exhaustive_part": True, "by_generator": dict(collections.Counter(c["gen"] for c in hcases)),
        "by_operator": dict(collections.Counter(c["op"] for c in hcases)), "outcomes": dict(outcomes),
        "distinct_diagnostic_messages": len(kinds), "top_diagnostics": dict(kinds.most_common(12)),
        "dropped_unencodable": dropped, "merged_identical_texts": len(cases) - dropped - len(hcases),
        "observations_validated_by_tlc": vres.distinct, "illegal": len(verdicts),
        "crashes_confirmed_by_rerun": confirmed, "crashes_not_reproduced": flaky, "harness_wall_s": round(hwall, 1),
        "samples": [{"id": c["id"], "files": c["files"]} for c in hcases if c["gen"] != "orig"][:3],
    })
    rep.assumptions = ["the property's 'all valid UTF-8 texts' is approximated by the mutation space of spec/front/Mutants.tla over /verif/corpus "
                       "(extracted from the project's tests, examples and module tests) plus grammar garbage; texts far from any program are not covered",
                       "per-case limits: 10 s wall, 4 GiB address space, 512 MiB stack; exceeding them counts as not terminating / aborting",
                       "the harness is built with debug assertions and overflow checks (arithmetic overflow panics are reported as panics)"]
    return rep.finish()


def _alphabet_size(cases):
    return {c["a"] for c in cases if c.get("op") == "repl"} or {0}
