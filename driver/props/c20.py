"""C20: immutable bindings cannot be assigned, and assignment never crashes (spec/front/AssignRules.tla, spec/props/C20.tla)."""
import vlib
from props import ecommon


def run(prop, tier, seed):
    rep = vlib.Report(prop, tier, seed, "translation_validation")
    wd = vlib.workdir(prop)
    cfg = "C20.cfg" if tier == "quick" else "C20_thorough.cfg"
    # exhaustive enumeration: nothing random, `seed` only recorded
    cases, states, twall = ecommon.enumerate_sharded(prop, "C20.tla", cfg, 2 if tier == "quick" else 4)
    run_cases, obs, failed, hwall = ecommon.judge(rep, cases, wd, "assignment")
    fset = set(failed)
    forms = {c["form"] for c in run_cases}
    ops = {c["op"] for c in run_cases}
    rules = {c["rule"] for c in run_cases}
    if len(forms) < 29 or len(ops) < 6 or rules != {"diag", "effect", "either"}:
        raise vlib.ToolError("C20 enumeration is degenerate: %d forms, %d operators, rules %s" % (len(forms), len(ops), rules))
    # how the either-or-diagnostic forms were actually treated (measured, informational)
    either = [(c, o) for c, o in zip(run_cases, obs) if c["rule"] == "either" and c["id"] not in fset]
    rep.coverage = {
        "programs": len(run_cases), "disagreements_checked": len(run_cases), "evaluations": len(run_cases),
        "distinct_nontrivial": len({c["files"]["main.abra"] for c in run_cases}),
        "exhaustive": True,
        "rule": "TLC enumerates (states = cases) binding form x operator (x second operator in the thorough tier) x int/float x "
                "function/top level x zero divisor (%s); every program assigns to the binding and prints it; distinct = distinct "
                "program texts (each is non-trivial: it contains the assignment under test)" % cfg,
        "tlc_states": states, "tlc_wall_s": round(twall, 1), "harness_wall_s": round(hwall, 1),
        "out_of_model_discarded(float %=)": len(cases) - len(run_cases),
        "by_rule": ecommon.count_by(run_cases, "rule"),
        "by_form": ecommon.count_by(run_cases, "form"),
        "by_operator": ecommon.count_by(run_cases, "op"),
        "by_type_ctx": ecommon.count_by(run_cases, "ty", "ctx"),
        "zero_divisor_cases": sum(1 for c in run_cases if c["zero"]),
        "expected_runtime_errors": sum(1 for c in run_cases if c["expect"].get("status") == "error"),
        "either_forms_accepted_with_effect": sum(1 for c, o in either if o.get("compile") == "ok"),
        "either_forms_rejected": sum(1 for c, o in either if o.get("compile") == "diag"),
        "agreeing": len(run_cases) - len(fset),
        "agreeing_by_rule": ecommon.count_by([c for c in run_cases if c["id"] not in fset], "rule"),
        "disagreeing_by_form": ecommon.count_by([c for c in run_cases if c["id"] in fset], "form"),
        "finding_keys": ecommon.finding_keys(rep),
        "samples": vlib.sample_cases([c for c in run_cases if c["form"] == "vartup" and c["op"] == "*="][:1] +
                                     [c for c in run_cases if c["form"] == "param" and c["op"] == "-="][:1], 2),
    }
    rep.assumptions = [
        "AssignRules!Rule transcribes variables.md / operators.md 'Assignment' / lambdas.md as weakened by the property statement: "
        "let and captured variables => diagnostic; var, array element, struct field => effect per AbraSem; for variable, "
        "parameter, match binding => either",
        "`x op= e` is `x = x op e` (operators.md); float `%=` is outside the reference model and dropped",
        "values: int 7 op 3 (or 0), float 7.5 op 2.0",
    ]
    return rep.finish()
