"""C03: every program accepted by the checker compiles to bytecode."""
import json
import os
import vlib

PROPS = os.path.join(vlib.SPEC, "props")
DOCUMENTED = {"panic", "oob", "overflow", "divzero"}


def run(prop, tier, seed):
    rep = vlib.Report(prop, tier, seed, "exploration")
    wd = vlib.workdir(prop)
    fam, res = vlib.gen_enumerate(prop, os.path.join(PROPS, "C03.tla"),
                                  cfg=os.path.join(PROPS, "C03.cfg" if tier == "quick" else "C03_thorough.cfg"), timeout=1500)
    if tier == "quick":
        fam = [c for i, c in enumerate(fam) if (i + seed) % 2 == 0]
    gen, _ = vlib.gen_simulate(prop, os.path.join(PROPS, "C02.tla"), 150 if tier == "quick" else 3000, seed)
    cases = []
    for c in fam:
        d = dict(c)
        d["budgets"] = [50]
        d["maxsteps"] = 100000
        cases.append(d)
    for c in gen:
        d = {"id": c["id"], "mode": "both", "run": True, "files": c["files"], "budgets": [-1]}
        cases.append(d)
    obs, _ = vlib.run_harness(cases, wd, jobs=12, timeout=30)
    accepted = rejected = 0
    for c, o in zip(cases, obs):
        chk = o.get("check")
        # defect families: payload x kind of the innermost function boundary x whether that boundary is itself nested in a function
        fam_key = "%s|under-%s%s" % (c["payload"], c["boundary"], "-nested" if c.get("nboundaries", 0) >= 2 else "") \
            if "payload" in c else c["id"]
        if c.get("payload") == "index-compound-user":
            fam_key = "compound-assignment-through-user-Index"     # one defect whatever the surrounding contexts are
        if chk == "ok":
            accepted += 1
            if c.get("mustreject"):
                rep.finding("C03|accepted-but-meaningless|%s" % fam_key, c, o, [{"check": "ok"}],
                            "break/continue with no enclosing loop in the same function body was accepted by the checker")
            if o.get("compile") != "ok":
                rep.finding("C03|check-ok-compile-%s|%s" % (o.get("compile"), fam_key), c, o,
                            [{"compile": o.get("compile"), "panic": o.get("panic"), "loc": o.get("panic_loc")}],
                            "accepted by the checker, compile_bytecode: %s %s" % (o.get("compile"), (o.get("panic") or o.get("diag_text") or "")[:200]))
            elif c.get("run", True):
                st = o.get("status")
                ok = st == "done" or (st == "error" and (o.get("err") or {}).get("kind") in DOCUMENTED)
                if not ok and not c.get("mustreject"):
                    rep.finding("C03|accepted-runs-into-fault|%s" % fam_key, c, o, [{"status": st, "panic": o.get("panic")}],
                                "accepted and compiled, but the run ends with %s %s" % (st, o.get("panic", "")))
        elif chk == "diag":
            rejected += 1
        else:
            rep.finding("C03|checker-%s|%s" % (chk, fam_key), c, o, [{"check": chk, "panic": o.get("check_panic"), "loc": o.get("check_panic_loc")}],
                        "the checker did not return: %s %s" % (chk, o.get("check_panic", "")))
    rep.coverage = {
        "evaluations": len(cases), "distinct_nontrivial": len({json.dumps(c["files"], sort_keys=True) for c in cases}),
        "rule": "nesting family of spec/props/C03.tla (optional function wrapper x context chain x payload; %s) + AbraGen programs; "
                "distinct = distinct program texts; non-trivial: every program reaches the checker" % ("half, by seed" if tier == "quick" else "complete"),
        "family_programs": len(fam), "generated_programs": len(gen), "accepted_by_checker": accepted, "rejected_by_checker": rejected,
        "must_reject_cases": sum(1 for c in fam if c.get("mustreject")), "tlc_states": res.distinct,
        "samples": [{"id": c["id"], "source": c["files"]["main.abra"]} for c in cases[:2]],
    }
    rep.assumptions = ["a lambda or task body is its own function body for break/continue", "no output comparison here (C02 does that)"]
    return rep.finish()
