"""C23: `?` and `!` follow option/result semantics (spec/front/TryPos.tla, spec/props/C23.tla)."""
import vlib
from props import ecommon


def run(prop, tier, seed):
    rep = vlib.Report(prop, tier, seed, "translation_validation")
    wd = vlib.workdir(prop)
    cfg = "C23.cfg" if tier == "quick" else "C23_thorough.cfg"
    # exhaustive enumeration: nothing random, `seed` only recorded
    cases, states, twall = ecommon.enumerate_sharded(prop, "C23.tla", cfg, 2 if tier == "quick" else 4)
    run_cases, obs, failed, hwall = ecommon.judge(rep, cases, wd, "try/unwrap operator")
    fset = set(failed)
    singles = [c for c in run_cases if c["pos2"] == ""]
    positions = {c["pos1"] for c in singles}
    if len(positions) < 40 or {c["car"] for c in run_cases} != {"option", "result"} or {c["ops"] for c in singles} != {"?", "!"}:
        raise vlib.ToolError("C23 enumeration is degenerate: %d positions" % len(positions))
    panics = [c for c in run_cases if c["expect"].get("status") == "error"]
    early = [c for c in run_cases if "?" in c["ops"]]
    if not panics or not early:
        raise vlib.ToolError("no failing `!` / no `?` case generated")
    not_compiled = sum(1 for o in obs if o.get("compile") != "ok")
    rep.coverage = {
        "programs": len(run_cases), "disagreements_checked": len(run_cases), "evaluations": len(run_cases),
        "distinct_nontrivial": len({c["files"]["main.abra"] for c in run_cases}),
        "exhaustive": True,
        "rule": "TLC enumerates (states = cases) operator position (40 positions; ordered pairs of %d core positions in the thorough "
                "tier) x ?/! x option/result x function/top level (%s); every program runs the function with succeeding and with "
                "failing operands and prints a trace; distinct = distinct program texts (all contain the operator under test)" % (len({c["pos2"] for c in run_cases if c["pos2"]}), cfg),
        "tlc_states": states, "tlc_wall_s": round(twall, 1), "harness_wall_s": round(hwall, 1),
        "out_of_model_discarded": len(cases) - len(run_cases),
        "positions": len(positions),
        "single_position_programs": len(singles), "position_pair_programs": len(run_cases) - len(singles),
        "by_operator": ecommon.count_by(run_cases, "ops"),
        "by_carrier_ctx": ecommon.count_by(run_cases, "car", "ctx"),
        "programs_expected_to_end_in_unwrap_panic": len(panics),
        "programs_with_early_return": len(early),
        "not_compiled": not_compiled,
        "agreeing": len(run_cases) - len(fset),
        "disagreeing_by_position": ecommon.count_by([c for c in run_cases if c["id"] in fset], "pos1", "pos2"),
        "finding_keys": ecommon.finding_keys(rep),
        "samples": vlib.sample_cases([c for c in singles if c["pos1"] == "arg2of3" and c["ops"] == "?"][:1] +
                                     [c for c in singles if c["pos1"] == "for" and c["ops"] == "!" and c["ctx"] == "fn"][:1], 2),
    }
    rep.assumptions = [
        "AbraSem `try` / `unwrap` transcribe error_handling.md: e? yields the payload or returns none/err from the enclosing "
        "function or lambda at once; e! yields the payload or panics inside the prelude's unwrap",
        "operands are calls that print; payloads are ints (arrays for receiver/indexee); err payload is a string",
        "the line of the panic inside prelude.abra is not specified (errloc.line = 0), file/function and the traceback are",
    ]
    return rep.finish()
