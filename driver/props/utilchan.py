"""Observation channels for the /repo/utils replay (C37 IdSet, C38 Arena). Orchestration only.

The replay code harness/src/utilsrun.rs is executed three ways:
  native : harness/target/release/abra_conform utils ...      (plain execution, real addresses)
  asan   : harness/utilsmiri built with -Zsanitizer=address    (AddressSanitizer, real addresses)
  miri   : cargo +nightly miri run in harness/utilsmiri        (Miri; flags select the aliasing model)
It writes one line per step; a sanitizer abort / crash shows as a case without its "end" line. This module
shards the cases over worker processes, restarts after an abort behind the aborted case and assembles one
observation per case:
  {"id", "status": "done"|"ub"|"crash"|"timeout", "steps": [{"op":..,"proj":..},..],
   "ub": {"step": k, "phase": "op"|"proj"|"end", "class": .., "msg": ..}}
The class is a normalisation of the tool's message, nothing more."""
import json
import os
import re
import subprocess
import threading
import time

import vlib

# (the three VERIF_UTILS* variables exist to point the check at another build of the replay crate, e.g. one linked
# against a patched copy of /repo/utils when validating the check itself)
CRATE = os.environ.get("VERIF_UTILSMIRI_CRATE", os.path.join(vlib.HARNESS_DIR, "utilsmiri"))
ASAN_BIN = os.path.join(os.environ.get("VERIF_UTILSMIRI_TARGET", os.path.join(vlib.HARNESS_DIR, "target", "utilsmiri")),
                        "x86_64-unknown-linux-gnu", "debug", "utilsmiri")
NATIVE = [os.environ["VERIF_UTILS_NATIVE"]] if os.environ.get("VERIF_UTILS_NATIVE") else [vlib.HARNESS, "utils"]
NIGHTLY = os.environ.get("VERIF_NIGHTLY", "nightly")
MAX_JOBS = max(1, int(os.environ.get("VERIF_JOBS", "4")))     # replay processes running at the same time
TLC_WORKERS = max(1, min(2, int(os.environ.get("VERIF_TLC_WORKERS", "2"))))
TLC_XMX = os.environ.get("VERIF_TLC_XMX", "3g")
MIRI_MODES = {
    "miri-tb": "-Zmiri-disable-isolation -Zmiri-tree-borrows",
    "miri-sb": "-Zmiri-disable-isolation",
    "miri-tb-noalign": "-Zmiri-disable-isolation -Zmiri-tree-borrows -Zmiri-disable-alignment-check",
}


HARNESS_KEYS = ("id", "kind", "ty", "probe", "nslots", "obs_from", "ops", "cap", "allocs")


def _cargo_env(extra=None):
    e = dict(os.environ, CARGO_NET_OFFLINE="true")
    e.pop("RUSTFLAGS", None)
    if extra:
        e.update(extra)
    return e


def _sync_manifest():
    """the replay crate depends on <repo>/utils by path; follow vlib.REPO (ABRA_REPO) like vlib.build_harness does"""
    manifest = os.path.join(CRATE, "Cargo.toml")
    with open(manifest) as fh:
        text = fh.read()
    want = re.sub(r'utils = \{ path = "[^"]*" \}', 'utils = { path = "%s/utils" }' % vlib.REPO, text)
    if want != text:
        with open(manifest, "w") as fh:
            fh.write(want)


def build_asan():
    _sync_manifest()
    t0 = time.time()
    p = subprocess.run(["cargo", "+" + NIGHTLY, "build", "--offline", "-q", "--target", "x86_64-unknown-linux-gnu",
                        "--features", "asan"],
                       cwd=CRATE, env=_cargo_env({"RUSTFLAGS": "-Zsanitizer=address -Zsanitizer-recover=address"}),
                       stdout=subprocess.PIPE, stderr=subprocess.STDOUT, text=True)
    if p.returncode != 0 or not os.path.exists(ASAN_BIN):
        print(p.stdout[-3000:])
        raise vlib.ToolError("AddressSanitizer build of harness/utilsmiri failed")
    return time.time() - t0


def build_miri(wd):
    """compile for Miri once (serially) so that the parallel runs only interpret"""
    _sync_manifest()
    t0 = time.time()
    empty = os.path.join(wd, "miri_warmup.ndjson")
    open(empty, "w").close()
    p = subprocess.run(["cargo", "+" + NIGHTLY, "miri", "run", "--offline", "-q", "--", empty, empty + ".obs"],
                       cwd=CRATE, env=_cargo_env({"MIRIFLAGS": MIRI_MODES["miri-tb"]}),
                       stdout=subprocess.PIPE, stderr=subprocess.STDOUT, text=True)
    if p.returncode != 0:
        print(p.stdout[-3000:])
        raise vlib.ToolError("Miri build/run of harness/utilsmiri failed")
    return time.time() - t0


def command(channel):
    if channel == "native":
        return list(NATIVE), None, dict(os.environ)
    if channel == "asan":
        return [ASAN_BIN], None, dict(os.environ, ASAN_OPTIONS="detect_leaks=0:symbolize=0:abort_on_error=0:halt_on_error=0:suppress_equal_pcs=0")
    if channel in MIRI_MODES:
        return (["cargo", "+" + NIGHTLY, "miri", "run", "--offline", "-q", "--"], CRATE,
                _cargo_env({"MIRIFLAGS": MIRI_MODES[channel]}))
    raise vlib.ToolError("unknown channel " + channel)


def classify(channel, rc, err, fatal_only=False):
    """normalise the tool's report. fatal_only: the text is the stderr of a process that died; reports of errors the
    sanitizer recovered from (they belong to earlier cases) must be ignored: only a report followed by ABORTING counts"""
    err = err or ""
    asan = list(re.finditer(r"ERROR: AddressSanitizer: ([A-Za-z-]+)", err))
    if asan and fatal_only and not err.rstrip().endswith("ABORTING"):
        asan = []
        err = err[-1500:]
    if asan:
        m = asan[-1] if fatal_only else asan[0]
        k = m.group(1)
        cls = {"heap-use-after-free": "use-after-free", "heap-buffer-overflow": "oob", "attempting": "double-free",
               "SEGV": "segv"}.get(k, k)
        acc = re.search(r"\n(READ|WRITE) of size (\d+)", err[m.start():])
        return cls, "AddressSanitizer: %s%s" % (k, (" (%s of size %s)" % (acc.group(1), acc.group(2))) if acc else "")
    m = re.search(r"error: Undefined Behavior: (.*)", err)
    if m:
        msg = m.group(1).strip()
        loc = re.search(r"-->\s*(\S+)", err[m.end():])
        low = msg.lower()
        if "alignment" in low:
            cls = "misaligned"
        elif "freed" in low or "dangling" in low or "use-after-free" in low or "deallocated" in low:
            cls = "use-after-free"
        elif "retag" in low or "borrow" in low or "forbidden" in low or "protect" in low:
            cls = "aliasing"
        elif "out-of-bounds" in low or "bounds" in low or "is only" in low or "beyond the end" in low:
            cls = "oob"
        else:
            cls = "other"
        where = os.path.basename(loc.group(1)) if loc else "?"
        return cls, "Miri: %s (at %s)" % (msg[:200], where)
    if "error: unsupported operation" in err or "error: abnormal termination" in err:
        return "tool", "Miri: " + err[-300:]
    m = re.search(r"unsafe precondition\(s\) violated: ([^\n]*)", err)
    if m:
        # the standard library's own debug check of an unsafe function's precondition (non-unwinding panic)
        what = m.group(1)
        return ("misaligned" if "aligned" in what else "precondition"), "Rust UB check: " + what[:200]
    m = re.search(r"misaligned pointer dereference: ([^\n]*)", err)
    if m:
        # rustc's debug check inserted at raw-pointer dereferences (non-unwinding panic)
        return "misaligned", "Rust debug check: misaligned pointer dereference: " + m.group(1)[:120]
    if "free():" in err or "malloc" in err or "corrupted" in err:
        return "heap-corruption", err.strip().splitlines()[-1][:200] if err.strip() else "abort"
    if rc is not None and rc < 0:
        return "signal", "killed by signal %d" % (-rc)
    return "exit", "exit code %s: %s" % (rc, err.strip()[-200:])


def _load_lines(path, offset=0):
    """observation lines from byte `offset` on -> (lines, new offset); a line torn by a kill or holding garbage bytes
    (dangling reads) is skipped"""
    res = []
    if not os.path.exists(path):
        return res, offset
    with open(path, "rb") as fh:
        fh.seek(offset)
        data = fh.read()
    end = data.rfind(b"\n") + 1          # only complete lines
    for raw in data[:end].split(b"\n"):
        raw = raw.strip()
        if not raw:
            continue
        try:
            res.append(json.loads(raw.decode("utf-8", "replace")))
        except ValueError:
            continue
    return res, offset + end


def _proj_expected(case, k):
    return k >= int(case.get("obs_from", 1))


def _assemble(case, lines):
    """lines: the observation lines of this case, in order"""
    steps = {}
    begun = ended = False
    last = None
    reported = None
    for ln in lines:
        if "ub" in ln and "k" in ln:
            # a sanitizer that continues after an error (ASan recover mode) reported during this step
            if reported is None:
                reported = ln
        elif ln.get("begin"):
            begun = True
        elif ln.get("end"):
            ended = True
        elif "k" in ln:
            st = steps.setdefault(ln["k"], {})
            if "op" in ln:
                st["op"] = ln["op"]
            if "proj" in ln:
                st["proj"] = ln["proj"]
            if "unsupported" in ln:
                st["unsupported"] = ln["unsupported"]
        elif "unsupported" in ln:
            steps.setdefault(0, {})["unsupported"] = ln["unsupported"]
        last = ln
    n = len(case.get("ops") or case.get("allocs") or [])
    obs = {"id": case["id"], "steps": [steps[k] for k in sorted(steps) if k > 0]}
    if any("unsupported" in s for s in steps.values()):
        obs["status"] = "unsupported"
        return obs, ended
    if reported is not None:
        cls, msg = classify("asan", 1, reported["ub"])
        obs["status"] = "ub"
        obs["ub"] = {"step": reported["k"], "phase": reported.get("phase"), "class": cls, "msg": msg}
        if ended:
            return obs, True
    if ended:
        obs["status"] = "done"
        return obs, True
    # where did it stop?
    if not begun or last is None or last.get("begin"):
        step, phase = 1, "op"
    elif "op" in last:
        k = last["k"]
        if _proj_expected(case, k):
            step, phase = k, "proj"
        elif k < n:
            step, phase = k + 1, "op"
        else:
            step, phase = k, "end"
    else:
        k = last["k"]
        step, phase = (k + 1, "op") if k < n else (k, "end")
    if n == 0:
        step, phase = 0, "end"
    obs["stop"] = {"step": step, "phase": phase}
    return obs, False


def run(channel, cases, wd, name, jobs=8, case_timeout=10.0, startup=30.0, isolate=False):
    """returns (observations in case order, stats). isolate: one process per case (for replays that may corrupt the
    heap of their own process without being stopped by a sanitizer)"""
    cmd, cwd, env = command(channel)
    n = len(cases)
    if n == 0:
        return [], {"processes": 0, "wall_s": 0.0}
    jobs = max(1, min(jobs, n))
    # every process reads its whole shard file, and a crash costs a restart: keep the files small
    jobs = max(jobs, -(-n // (400 if isolate else 2500)))
    shards = [list(range(j, n, jobs)) for j in range(jobs)]
    gate = threading.Semaphore(MAX_JOBS)      # more shards than processes allowed at once: they take turns
    results = [None] * n
    stats = {"processes": 0}
    errors = []
    lock = threading.Lock()

    def work(j):
        idxs = shards[j]
        cpath = os.path.join(wd, "%s.%s.%d.ndjson" % (name, channel, j))
        opath = os.path.join(wd, "%s.%s.%d.obs" % (name, channel, j))
        # only what the replay reads (the expectation stays with the driver; parsing it under Miri costs seconds)
        vlib.write_ndjson(cpath, [{k: cases[i][k] for k in HARNESS_KEYS if k in cases[i]} for i in idxs])
        if os.path.exists(opath):
            os.remove(opath)
        start = 0
        consumed = 0      # bytes of the observation file already attributed
        guard = 0
        while start < len(idxs):
            guard += 1
            if guard > 2 * len(idxs) + 3:
                raise vlib.ToolError("%s: no progress on shard %d" % (channel, j))
            tmo = startup + case_timeout * (len(idxs) - start)
            t0 = time.time()
            try:
                p = subprocess.run(cmd + [cpath, opath, "--from", str(start)] + (["--count", "1"] if isolate else []),
                                   cwd=cwd, env=env,
                                   stdout=subprocess.PIPE, stderr=subprocess.PIPE, text=True, timeout=tmo,
                                   errors="replace")
                rc, err, timed_out = p.returncode, p.stderr, False
            except subprocess.TimeoutExpired as te:
                rc, err, timed_out = None, (te.stderr or b"").decode("utf-8", "replace") if isinstance(te.stderr, bytes) else (te.stderr or ""), True
            with lock:
                stats["processes"] += 1
            new, consumed = _load_lines(opath, consumed)
            by_id = {}
            order = []
            for ln in new:
                if ln["id"] not in by_id:
                    by_id[ln["id"]] = []
                    order.append(ln["id"])
                by_id[ln["id"]].append(ln)
            pos = start
            stopped = False
            while pos < len(idxs):
                case = cases[idxs[pos]]
                obs, ended = _assemble(case, by_id.get(case["id"], []))
                if ended or obs.get("status") == "unsupported":
                    if not ended:
                        raise vlib.ToolError("%s: harness does not support case %s: %s" % (channel, case["id"], obs["steps"]))
                    results[idxs[pos]] = obs
                    pos += 1
                    continue
                # this case did not finish: the process died (or timed out) inside it
                if isolate and pos > start:
                    break            # the single case of this process is done; the next one gets its own process
                if rc == 0 and not timed_out:
                    raise vlib.ToolError("%s: replay exited normally but case %s is incomplete" % (channel, case["id"]))
                if obs.get("status") == "ub":
                    pass     # already reported by the sanitizer before the process died
                elif timed_out:
                    obs["status"] = "timeout"
                    obs["ub"] = dict(obs.pop("stop"), **{"class": "timeout", "msg": "no result within %.0fs" % tmo})
                else:
                    cls, msg = classify(channel, rc, err, fatal_only=True)
                    if cls in ("tool", "exit") and channel != "native":
                        raise vlib.ToolError("%s failed on case %s: %s" % (channel, case["id"], msg))
                    obs["status"] = "ub" if channel != "native" else "crash"
                    obs["ub"] = dict(obs.pop("stop"), **{"class": cls, "msg": msg})
                obs.pop("stop", None)
                results[idxs[pos]] = obs
                pos += 1
                stopped = True
                break
            start = pos
            if not stopped and start < len(idxs) and not isolate:
                raise vlib.ToolError("%s: shard %d stopped without a culprit" % (channel, j))

    def guarded(j):
        with gate:
            try:
                work(j)
            except Exception as e:  # noqa
                errors.append(e)

    t0 = time.time()
    threads = [threading.Thread(target=guarded, args=(j,)) for j in range(jobs)]
    for t in threads:
        t.start()
    for t in threads:
        t.join()
    if errors:
        e = errors[0]
        if isinstance(e, vlib.ToolError):
            raise e
        raise vlib.ToolError("%s channel: %r" % (channel, e))
    stats["wall_s"] = round(time.time() - t0, 1)
    if any(r is None for r in results):
        raise vlib.ToolError("%s: missing observations" % channel)
    return results, stats


def decode_tlc_lines(path):
    """cases written by TLC with CSVWrite("%1$s", <<ToJson(case)>>, file): one TLA+ string literal per line"""
    res = []
    if not os.path.exists(path):
        return res
    with open(path) as fh:
        for line in fh:
            line = line.strip()
            if not line:
                continue
            v = json.loads(line)
            res.append(json.loads(v) if isinstance(v, str) else v)
    return res


def install_replay(prop, fn):
    """`./check Cxx --replay file` goes through vlib.replay, which only knows program cases (harness exec mode);
    histories of this family are re-run by the property's own replay function instead"""
    orig = vlib.replay

    def patched(mod, p, path):
        if p == prop:
            return fn(p, path)
        return orig(mod, p, path)
    vlib.replay = patched


def prepare(channel, wd):
    if channel == "asan":
        build_asan()
    elif channel in MIRI_MODES:
        build_miri(wd)
