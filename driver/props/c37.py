"""C37: the interning set utils::id_set::IdSet is a sound, order-preserving id map, and every sequence of its
safe operations (incl. clone, then drop/clear of the original) is free of undefined behaviour.

1. TLC model-checks the pointer-level design model (spec/utils/IdSetImpl.tla) against the reference model
   (spec/utils/IdSet.tla): as written (expected: counterexample) and repaired (expected: refines).
2. TLC enumerates all histories up to a bounded length with the expected projection after every step
   (spec/props/C37.tla); the replay binary executes them on the real IdSet natively, under AddressSanitizer
   and (a stratified sample) under Miri; every step is compared with the expectation."""
import collections
import json
import os
import random
import time

import vlib
from props import utilchan

RISK_ORDER = ["", "shared-live", "reused-slot", "stale-slot", "freed-buffer"]


def _mc(cfg, workers, timeout):
    res = vlib.tlc(os.path.join(vlib.SPEC, "props", "C37mc.tla"), cfg=os.path.join(vlib.SPEC, "props", cfg),
                   workers=min(workers, utilchan.TLC_WORKERS), timeout=timeout, xmx=utilchan.TLC_XMX)
    return res


def _gen(prop, cfg, workers, timeout):
    wd = os.path.join(vlib.WORK, prop)
    out = os.path.join(wd, "gen_%s.ndjson" % cfg[:-4])
    if os.path.exists(out):
        os.remove(out)
    res = vlib.tlc(os.path.join(vlib.SPEC, "props", "C37.tla"), cfg=os.path.join(vlib.SPEC, "props", cfg),
                   workers=min(workers, utilchan.TLC_WORKERS), env={"OUT": out}, timeout=timeout, xmx=utilchan.TLC_XMX)
    vlib.tlc_ok(res, cfg)
    return utilchan.decode_tlc_lines(out), res


def _variant(case, ty, obs_from=None):
    c = dict(case)
    c["ty"] = ty
    c["id"] = "%s@%s" % (case["id"], ty)
    if obs_from is not None and obs_from > 1:
        c["obs_from"] = obs_from
        c["id"] += "@last"
    return c


def _first_deviation(case, obs):
    """-> None or (step, what, mismatch list); pure JSON comparison of the spec's expectation with the observation"""
    exp = case["expect"]
    obs_from = int(case.get("obs_from", 1))
    for k, e in enumerate(exp, start=1):
        if k > len(obs["steps"]):
            break
        o = obs["steps"][k - 1]
        if "op" in o and o["op"] != e["ret"]:
            return k, "value", [{"field": "step %d return" % k, "want": e["ret"], "got": o["op"]}]
        if "proj" in o and k >= obs_from and o["proj"] != e["slots"]:
            diffs = []
            for si, (w, g) in enumerate(zip(e["slots"], o["proj"])):
                for f in w:
                    if g.get(f) != w[f]:
                        diffs.append({"field": "step %d slot %d %s" % (k, si, f), "want": w[f], "got": g.get(f)})
            return k, "value", diffs[:6]
    if obs["status"] != case["expect_status"]:
        u = obs.get("ub", {})
        k = max(1, min(u.get("step", 1), len(exp)))
        return k, "%s:%s" % (obs["status"], u.get("class", "?")), [
            {"field": "status", "want": case["expect_status"],
             "got": "%s at step %s (%s): %s" % (obs["status"], u.get("step"), u.get("phase"), u.get("msg"))}]
    if len(obs["steps"]) != len(exp):
        return len(exp), "value", [{"field": "steps", "want": len(exp), "got": len(obs["steps"])}]
    return None


def _check(rep, channel, cases, obs, tally, filed):
    for c, o in zip(cases, obs):
        tally[channel]["runs"] += 1
        tally[channel]["steps"] += len(o["steps"])
        dev = _first_deviation(c, o)
        if dev is None:
            tally[channel]["agree"] += 1
            continue
        k, what, mism = dev
        # coarse observation class: wrong value / aliasing-model violation (Miri only) / memory error (sanitizer report, crash)
        coarse = "value" if what == "value" else "aliasing" if what.endswith(":aliasing") else \
            "timeout" if what.startswith("timeout") else "memory-error"
        key = "%s|%s" % (c["expect"][k - 1]["key"], coarse)
        tally[channel]["deviations"][key + " (" + what + ")"] += 1
        filed[key] += 1
        if filed[key] > 3 and key not in {k["key"] for k in rep.known}:
            continue            # same defect family: counted in coverage.channels, three replay files are enough
        small = dict(c, channel=channel, deviation_at_step=k, id="%s@%s" % (c["id"], channel))
        rep.finding(key, small, {"status": o["status"], "ub": o.get("ub"),
                                 "step": o["steps"][k - 1] if k <= len(o["steps"]) else None}, mism,
                    "IdSet history %s (%s, T=%s): %s" % (c["id"].split("@")[0], channel, c.get("ty"),
                                                         mism[0]["got"] if mism else what))


def replay(prop, path):
    """re-run one recorded history in its channel and compare again"""
    with open(path) as fh:
        r = json.load(fh)
    case = r["case"]
    wd = vlib.workdir(prop + "_replay")
    utilchan.prepare(case["channel"], wd)
    obs, _ = utilchan.run(case["channel"], [case], wd, "replay", jobs=1, case_timeout=120.0, startup=300.0)
    dev = _first_deviation(case, obs[0])
    print(json.dumps({"observed": obs[0], "deviation": dev}, indent=1)[:6000])
    if dev:
        print("VIOLATION property=%s replay=%s" % (prop, path))
        return 1
    return 0


utilchan.install_replay("C37", replay)


def _max_risk(case):
    return max((e["risk"] for e in case["expect"]), key=RISK_ORDER.index)


def run(prop, tier, seed):
    rep = vlib.Report(prop, tier, seed, "model_checking")
    wd = vlib.workdir(prop)
    quick = tier == "quick"
    rnd = random.Random(seed)
    t = {}

    # ---- 1. design-level model checking (one tool at a time: shared machine)
    t0 = time.time()
    mc = {"as": _mc("C37mc_aswritten.cfg" if quick else "C37mc_aswritten_thorough.cfg", 1, 600),
          "rep": _mc("C37mc_repaired.cfg" if quick else "C37mc_repaired_thorough.cfg", 2, 900)}
    t["model_checking_s"] = round(time.time() - t0, 1)

    # ---- 2. histories with expected projections
    t0 = time.time()
    # C37_clonedeep: histories that grow the original (up to 4 inserts incl. duplicates) before cloning it once
    cfgs = ["C37.cfg", "C37_clonedeep.cfg", "C37_regrow.cfg"] if quick else ["C37_thorough.cfg", "C37_slots3.cfg", "C37_clonedeep.cfg", "C37_regrow.cfg"]
    cases, gen_states, gen_trans = [], 0, 0
    seen = set()
    for cfg in cfgs:
        cs, res = _gen(prop, cfg, 2, 900)
        gen_states += res.distinct
        gen_trans += res.generated
        for c in cs:
            if c["id"] not in seen:
                seen.add(c["id"])
                cases.append(c)
    if not cases:
        raise vlib.ToolError("TLC generated no histories")
    t["generate_s"] = round(time.time() - t0, 1)

    # ---- 3. replay: native (all, 3 element types), ASan (all; + observe-only-at-end variant), Miri (sample)
    tally = collections.defaultdict(lambda: {"runs": 0, "steps": 0, "agree": 0, "deviations": collections.Counter()})
    filed = collections.Counter()
    results = {}
    t0 = time.time()
    native_cases = [_variant(c, ty) for c in cases for ty in (("string", "u32", "arr4") if quick else ("string", "arr4"))]
    results["native"] = (native_cases,) + utilchan.run("native", native_cases, wd, "native", jobs=4, case_timeout=1.0)
    utilchan.build_asan()
    asan_cases = [_variant(c, "string") for c in cases]
    last = [c for c in cases if len(c["ops"]) > 1 and any(o["op"] in ("clone", "move") for o in c["ops"])]
    if len(last) > 6000:
        last = sorted(rnd.sample(last, 6000), key=lambda c: c["id"])
    asan_cases += [_variant(c, "u32", len(c["ops"])) for c in last]
    results["asan"] = (asan_cases,) + utilchan.run("asan", asan_cases, wd, "asan", jobs=4, case_timeout=2.0)

    # Miri is slow to start (seconds per process) and dies at the first UB: a seed-chosen sample, stratified by the risk
    # class the as-written pointer model predicts so that every family is hit; histories for which that model predicts a
    # dangling pointer go last in their shard (scheduling only: no restart needed when the prediction is right)
    by_risk = collections.defaultdict(list)
    for c in cases:
        by_risk[_max_risk(c)].append(c)
    plan = {"miri-tb": (6 if quick else 8, 2 if quick else 8, 1 if quick else 4),
            "miri-sb": (3 if quick else 6, 0, 1 if quick else 3)}
    utilchan.build_miri(wd)
    for mode, (jobs, safe_per_job, risky_per_job) in plan.items():
        safe_pool = sorted(by_risk.get("", []) + by_risk.get("shared-live", []), key=lambda c: c["id"])
        risky_pool = sorted(by_risk.get("stale-slot", []) + by_risk.get("freed-buffer", []), key=lambda c: c["id"])
        if mode == "miri-sb":
            # Stacked Borrows: histories that insert at least twice into one instance (sample selection only)
            safe_pool, risky_pool = [], sorted(
                [c for c in cases
                 if max(collections.Counter(o["s"] for o in c["ops"] if o["op"] == "insert").values(), default=0) >= 2],
                key=lambda c: c["id"])
        safe = rnd.sample(safe_pool, min(jobs * safe_per_job, len(safe_pool)))
        risky = rnd.sample(risky_pool, min(jobs * risky_per_job, len(risky_pool)))
        mcases = [_variant(c, "string" if i % 3 else "u32", len(c["ops"]) if i % 4 == 3 else None)
                  for i, c in enumerate(safe + risky)]
        results[mode] = (mcases,) + utilchan.run(mode, mcases, wd, mode, jobs=jobs, case_timeout=60.0, startup=240.0)
    for ch in ("native", "asan", "miri-tb", "miri-sb"):
        ccases, obs, st = results[ch]
        _check(rep, ch, ccases, obs, tally, filed)
        t[ch + "_s"], t[ch + "_processes"] = st["wall_s"], st["processes"]
    t["replay_s"] = round(time.time() - t0, 1)

    mc_as, mc_rep = mc["as"], mc["rep"]
    cex = mc_as.cases()
    if not mc_as.violation:
        vlib.tlc_ok(mc_as, "C37mc as written")
    vlib.tlc_ok(mc_rep, "C37mc repaired")
    if mc_rep.violation:
        raise vlib.ToolError("the repaired IdSet design model violates its invariants: the reference is broken")

    # ---- evidence
    ops_count = collections.Counter(o["op"] for c in cases for o in c["ops"])
    dup_inserts = 0
    for c in cases:
        for k, (o, e) in enumerate(zip(c["ops"], c["expect"])):
            if o["op"] == "insert":
                before = c["expect"][k - 1]["slots"][o["s"]]["len"] if k > 0 else 0
                dup_inserts += 1 if e["slots"][o["s"]]["len"] == before else 0
    risk_count = collections.Counter(_max_risk(c) or "none" for c in cases)
    total_runs = sum(v["runs"] for v in tally.values())
    nontrivial = sum(1 for c in cases if len({o["op"] for o in c["ops"]}) >= 2)
    rep.coverage = {
        "states": gen_states + mc_rep.distinct + mc_as.distinct,
        "transitions": gen_trans + mc_rep.generated + mc_as.generated,
        "traces_validated_against_impl": total_runs,
        "evaluations": total_runs,
        "distinct_nontrivial": nontrivial,
        "exhaustive": True,
        "rule": "histories = all sequences of mutating operations enumerated by TLC (spec/props/C37.tla, configs %s), the full "
                "read-only API is projected after every step; distinct = distinct histories; non-trivial = uses at least two "
                "different operation kinds; every history is replayed natively for %d element types, under ASan for T=String (+ an "
                "observe-only-at-the-end variant with T=u32 of (at most 6000 of) the histories that clone), and a seed-%d stratified sample under Miri (Tree Borrows and Stacked Borrows)"
                % (",".join(cfgs), 3 if quick else 2, seed),
        "histories": len(cases),
        "history_steps_expected": sum(len(c["expect"]) for c in cases),
        "ops_by_kind": dict(ops_count), "duplicate_inserts": dup_inserts,
        "histories_by_aswritten_pointer_risk": dict(risk_count),
        "design_model": {
            "as_written": {"distinct_states": mc_as.distinct, "violation_found": bool(mc_as.violation),
                           "counterexamples": cex[:2]},
            "repaired": {"distinct_states": mc_rep.distinct, "states_generated": mc_rep.generated, "depth": mc_rep.depth,
                         "invariants_hold": not mc_rep.violation},
        },
        "channels": {ch: {"runs": v["runs"], "steps_observed": v["steps"], "agree": v["agree"],
                          "deviations_by_key": dict(v["deviations"])} for ch, v in tally.items()},
        "timing": t,
        "samples": [{"id": c["id"], "ops": c["ops"], "expect_last": c["expect"][-1]} for c in
                    (cases[:1] + [c for c in cases if _max_risk(c) == "freed-buffer"][:1])],
    }
    rep.assumptions = [
        "the reference model spec/utils/IdSet.tla (sequence of distinct values, id = position) is the contract stated in "
        "utils/src/id_set.rs; get_id of an absent value and Index outside 0..len-1 panic",
        "histories are bounded (length, 3 values, 2-3 instance slots); element types String, u32, [u64;4]",
        "undefined behaviour is observed through AddressSanitizer (memory errors only) on all histories and Miri on a sample; "
        "Miri's aliasing models (Tree/Stacked Borrows) are experimental",
    ]
    return rep.finish()
