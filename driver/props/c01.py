"""C01: accepted programs never hit an internal VM fault."""
import glob
import json
import os
import vlib
from props import schedlib

PROPS = os.path.join(vlib.SPEC, "props")
DOCUMENTED = {"panic", "oob", "overflow", "divzero"}


def fault_of(o):
    """internal fault classes of an observation (None = fine)"""
    st = o.get("status")
    if st in ("panic", "abort", "uaf", "timeout", "harness-panic"):
        return st
    if st == "error" and (o.get("err") or {}).get("kind") not in DOCUMENTED:
        return "internal-error-" + str((o.get("err") or {}).get("kind"))
    return None


def run(prop, tier, seed):
    rep = vlib.Report(prop, tier, seed, "model_checking")
    wd = vlib.workdir(prop)
    cov = {}
    # (1) risky forms, enumerated exhaustively by spec/props/C01.tla
    risky, res = vlib.gen_enumerate(prop, os.path.join(PROPS, "C01.tla"), timeout=1500)
    risky = [c for c in risky if c.get("inmodel")]
    cov["states"] = res.distinct
    cov["transitions"] = max(res.generated, 1)
    # (2) generated programs
    gen, _ = vlib.gen_simulate(prop, os.path.join(PROPS, "C02.tla"), 80 if tier == "quick" else 1500, seed)
    # (3) repository corpus (no expectation, outcome class only)
    corpus = []
    for f in sorted(glob.glob(os.path.join(vlib.ROOT, "corpus", "*.abra"))):
        src = open(f, encoding="utf-8").read()
        # programs that declare their own host functions cannot be run: the harness would have to know how to service them
        if "use " in src and "core/" not in src or "#foreign" in src or "#host" in src or "readline" in src or "raylib" in src:
            continue
        corpus.append({"id": "corpus_" + os.path.basename(f)[:-5], "files": {"main.abra": src}})
    if tier == "quick":
        corpus = corpus[seed % 4::4]
    cases = []
    budget_sets = [[1], [-1], [3, 7]] if tier == "quick" else [[1], [2], [3], [7], [100], [-1]]
    for c in risky:
        for bi, b in enumerate(budget_sets[:2]):
            d = dict(c)
            d["id"] = "%s@b%d" % (c["id"], bi)
            d["budgets"] = b
            if bi == 1:
                d["trace"] = 3
            d["maxsteps"] = 20000
            d["family"] = "risky"
            cases.append(d)
    for j, c in enumerate(gen):
        for bi, b in enumerate(budget_sets):
            d = dict(c)
            d["id"] = "%s@b%d" % (c["id"], bi)
            d["budgets"] = b
            d["family"] = "gen"
            if bi == 0 and j % (8 if tier == "quick" else 4) == 0:
                d["trace"] = 3
                d["maxsteps"] = 3000
            cases.append(d)
    for c in corpus:
        for bi, b in enumerate(budget_sets[:2]):
            d = dict(c)
            d["id"] = "%s@b%d" % (c["id"], bi)
            d["budgets"] = b
            d["family"] = "corpus"
            d["maxsteps"] = 400000
            cases.append(d)
    obs, _ = vlib.run_harness(cases, wd, jobs=12, timeout=40)
    nfault = 0
    accepted = 0
    for c, o in zip(cases, obs):
        if o.get("compile") != "ok":
            continue        # not accepted (or a compiler crash: C03/C04)
        accepted += 1
        f = fault_of(o)
        prog = c["id"].split("@")[0]
        if f:
            nfault += 1
            key = "C01|%s|%s" % (f, c.get("ctx", prog) if c["family"] == "risky" else prog)
            if c["family"] == "risky":
                key = "C01|operands-left-on-stack|%s-in-%s" % (c["jump"], c["ctx"])
            rep.finding(key, c, o, [{"fault": f, "panic": o.get("panic"), "err": o.get("err")}],
                        "internal fault %s: %s" % (f, o.get("panic") or (o.get("err") or {}).get("text")))
        elif c["family"] == "risky" and c.get("inmodel") and vlib.compare(c["expect"], o):
            rep.finding("C01|operands-left-on-stack|%s-in-%s" % (c["jump"], c["ctx"]), c, o, vlib.compare(c["expect"], o),
                        "a jump out of an operand position changes the program's result")
    runs = [(c, o) for c, o in zip(cases, obs) if o.get("events") and o.get("compile") == "ok"]
    # trace keys: per risky family (jump, ctx) rather than per program
    before = len(rep.violations)
    def keyfn(case, x):
        if case.get("family") == "risky" and x["kind"] == "stack-height-differs-on-reentry":
            return "C01|operands-left-on-stack|%s-in-%s" % (case["jump"], case["ctx"])
        if case.get("family") == "risky":
            return "C01|%s|%s-in-%s" % (x["kind"], case["jump"], case["ctx"])
        return "C01|%s|%s" % (x["kind"], case["id"].split("@")[0])
    schedlib.validate_traces(rep, prop, runs, wd, cov, keyfn=keyfn)
    cov.update({
        "traces_validated_against_impl": len(runs),
        "evaluations": len(cases), "distinct_nontrivial": len({json.dumps(c["files"], sort_keys=True) for c in cases}),
        "rule": "risky-form programs (loop kind x jump kind x operand context, exhaustive) + AbraGen programs + repository corpus, "
                "each under the tier's step budgets; distinct = distinct program texts; accepted = compiled",
        "risky_programs": len(risky), "generated_programs": len(gen), "corpus_programs": len(corpus),
        "accepted_runs": accepted, "faults": nfault,
        "samples": [{"id": c["id"], "budgets": c["budgets"], "source": c["files"]["main.abra"][:500]} for c in cases[:2]],
    })
    rep.coverage = cov
    rep.assumptions = ["'operand stack never desynchronises' is operationalised as: depth never below the frame base and the same "
                       "relative height whenever an instruction is re-entered (TraceSched)", "FFI / terminal programs of the corpus and those declaring their own host functions are skipped"]
    return rep.finish()
