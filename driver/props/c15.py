"""C15: integer arithmetic is exact or fails with the documented error.

Orchestration only.  spec/props/C15.tla (on top of spec/lib/I64.tla) enumerates operand pairs x operators x
operand forms and emits, per operation, the statements to run and the expected observation.  This driver
concatenates statements into programs (Header + statements of the operations of a batch; an operation that is
expected to stop the program, or that the spec marks `solo`, gets a program of its own), runs them on the real
compiler + VM, and compares the logged host-call arguments / error kind with the expectation.  A batch with
any disagreement is re-run one operation per program, so that one failure never hides another operation."""
import collections
import os
import shutil
import vlib
from props import vmlib

BATCH = 150


TLC_WORKERS = 2      # shared machine: at most 2 TLC workers, 3 GB heap, 4 harness jobs, one process at a time
TLC_XMX = "3g"
HARNESS_JOBS = 4


def tlc_enumerate(prop, mod, cfg, env=None, timeout=900):
    """model-checking mode, one JSON file per state in OUTDIR"""
    outdir = os.path.join(vlib.WORK, prop, "enum")
    shutil.rmtree(outdir, ignore_errors=True)
    os.makedirs(outdir)
    e = {"OUTDIR": outdir, "SHARD": "g"}
    e.update(env or {})
    res = vlib.tlc(mod, cfg=cfg, env=e, timeout=timeout, workers=TLC_WORKERS, xmx=TLC_XMX,
                   metadir=os.path.join(vlib.WORK, prop, "meta_enum"))
    vlib.tlc_ok(res, mod + " (grid)")
    return vlib.load_case_files(outdir), res


def tlc_simulate(prop, mod, cfg, n, seed, timeout=900):
    """`tlc -simulate num=n -seed seed`: one JSON file per behaviour in OUTDIR; reproducible for a given seed"""
    outdir = os.path.join(vlib.WORK, prop, "gen")
    shutil.rmtree(outdir, ignore_errors=True)
    os.makedirs(outdir)
    res = vlib.tlc(mod, cfg=cfg, simulate=n, depth=3, seed=seed, env={"OUTDIR": outdir, "SHARD": "0"}, timeout=timeout,
                   workers=1, xmx=TLC_XMX, metadir=os.path.join(vlib.WORK, prop, "meta_gen"))
    vlib.tlc_ok(res, mod + " (random)")
    return vlib.load_case_files(outdir), res


def load_pairs(cases, what):
    meta = [c for c in cases if c.get("id") == "meta"]
    pairs = [c for c in cases if c.get("id") != "meta"]
    if not meta or not pairs:
        raise vlib.ToolError("%s: TLC emitted no cases" % what)
    bad = [p["id"] for p in pairs if not p.get("modelok")]
    if bad:
        raise vlib.ToolError("%s: the integer model violates its own defining relations on %s" % (what, bad[:5]))
    return meta[0], pairs


def program(meta, pid, ops):
    """one harness case: Header + the statements of `ops`; expectation = concatenation of the ops' expectations"""
    host = []
    for o in ops:
        host += o["expect"]["host"]
    last = ops[-1]["expect"]
    exp = {"compile": "ok", "status": last["status"], "host": host}
    if "errkind" in last:
        exp["errkind"] = last["errkind"]
    return {"id": pid, "files": {"main.abra": meta["header"] + "".join(o["stmts"] for o in ops)},
            "hostfns": meta["hostfns"], "expect": exp, "ops": [o["id"] for o in ops]}


def got_kind(exp, o):
    if o.get("compile") != "ok":
        return "compile-" + str(o.get("compile"))
    if o.get("status") == "done":
        return "val" if exp["status"] != "done" or o.get("host") == exp["host"] else "wrongval"
    if o.get("status") == "error":
        return (o.get("err") or {}).get("kind", "error")
    return str(o.get("status"))


def run(prop, tier, seed):
    rep = vlib.Report(prop, tier, seed, "translation_validation")
    wd = vlib.workdir(prop)
    mod = os.path.join(vlib.SPEC, "props", "C15.tla")
    quick = tier == "quick"

    # ---- TLC: exhaustive grid, then seeded random pairs
    gcases, gres = tlc_enumerate(prop, mod, os.path.join(vlib.SPEC, "props", "C15.cfg" if quick else "C15_full.cfg"))
    meta, gpairs = load_pairs(gcases, "grid")
    rcases, rres = tlc_simulate(prop, mod, os.path.join(vlib.SPEC, "props", "C15_random.cfg"), 30 if quick else 400, seed)
    _, rpairs = load_pairs(rcases, "random")
    rwall, rstates = rres.wall, rres.generated
    ng = len(meta["grid"])
    if len(gpairs) != ng * ng:
        raise vlib.ToolError("grid enumeration incomplete: %d pair records for a grid of %d values" % (len(gpairs), ng))

    pairs = gpairs + rpairs
    ops = [o for p in pairs for o in p["ops"]]
    byid = {o["id"]: o for o in ops}
    if len(byid) != len(ops):
        raise vlib.ToolError("duplicate operation ids")

    # ---- round 1: batches of value-producing operations, single programs for the rest
    progs = []
    batchable = [o for o in ops if not o["solo"]]
    for i in range(0, len(batchable), BATCH):
        progs.append(program(meta, "b%d" % (i // BATCH), batchable[i:i + BATCH]))
    nbatches = len(progs)
    for o in ops:
        if o["solo"]:
            progs.append(program(meta, "s." + o["id"], [o]))
    obs, wall1 = vlib.run_harness(progs, wd, name="round1", timeout=60, jobs=HARNESS_JOBS)
    verdict = {}          # op id -> (case, obs, mism) ; mism == [] means agreed
    redo = []
    for c, o in zip(progs, obs):
        mism = vlib.compare(c["expect"], o)
        if len(c["ops"]) == 1:
            verdict[c["ops"][0]] = (c, o, mism)
        elif not mism:
            for i in c["ops"]:
                verdict[i] = (c, o, [])
        else:
            redo += c["ops"]
    # ---- round 2: every operation of a disagreeing batch on its own
    wall2 = 0.0
    if redo:
        progs2 = [program(meta, "s." + i, [byid[i]]) for i in redo]
        obs2, wall2 = vlib.run_harness(progs2, wd, name="round2", timeout=60, jobs=HARNESS_JOBS)
        for c, o in zip(progs2, obs2):
                verdict[c["ops"][0]] = (c, o, vlib.compare(c["expect"], o))
    if len(verdict) != len(ops):
        raise vlib.ToolError("lost operations: %d verdicts for %d operations" % (len(verdict), len(ops)))

    # ---- findings
    diag = 0
    disagree = collections.Counter()
    for o in ops:
        c, ob, mism = verdict[o["id"]]
        if not mism:
            continue
        if ob.get("compile") == "diag":
            diag += 1          # the generator and the compiler disagree about what a valid program is: tool problem
            continue
        want = o["expect"].get("errkind", "val")
        key = "%s|want=%s|got=%s" % (o["key"] or ("C15|" + o["op"]), want, got_kind(c["expect"], ob))
        disagree[key] += 1
        rep.finding(key, dict(c, op=o["op"], form=o["form"]), ob, mism,
                    "int `%s` (form %s): expected %s, observed %s; program: %s" % (
                        o["op"], o["form"], o["expect"], {"status": ob.get("status"), "err": (ob.get("err") or {}).get("kind"),
                                                          "host": [h.get("args") for h in ob.get("host", [])]}, o["stmts"].replace("\n", "; ")))
    if diag:
        raise vlib.ToolError("%d generated programs were rejected by the compiler (generator out of sync), e.g. %s" % (
            diag, next(verdict[o["id"]][1].get("diag_text", "")[:300] for o in ops
                       if verdict[o["id"]][1].get("compile") == "diag")))

    # ---- evidence (all numbers measured)
    cats = collections.Counter(o["cat"] for o in ops)
    forms = collections.Counter(o["form"] for o in ops)
    kinds = collections.Counter(p.get("kind") for p in pairs)
    keyed = collections.Counter(o["key"] for o in ops if o["key"])
    distinct = len({o["stmts"] for o in ops})
    nontrivial = len({(o["op"], p["a"], p["b"]) for p in pairs for o in p["ops"]
                      if o["cat"].split("|")[1] in ("overflow", "divzero") or len(p["a"]) > 9 or len(p["b"]) > 9})
    # instruction level: a sample of the programs is re-run with the VM hooks on; every executed instruction (operand values,
    # result, error kind), every optimizer rewrite and every assembled instruction is validated by spec/vm/TraceVM.tla
    vmcov = vmlib.trace_leg(rep, prop, progs, wd, 12 if quick else 400, jobs=6)
    rep.coverage = {
        **vmcov,
        "programs": len(progs) + len(redo), "disagreements_checked": len(ops),
        "evaluations": len(ops), "distinct_nontrivial": nontrivial,
        "rule": "one evaluation = one operation (operator x operand pair x operand form) whose observed result/error kind was "
                "compared with I64.tla; non-trivial = distinct (operator, a, b) with an expected error or an operand beyond 9 digits; "
                "grid pairs enumerated exhaustively by TLC (states = pairs), random pairs from tlc -simulate -seed %d" % seed,
        "exhaustive": True, "grid_values": ng, "grid_pairs": len(gpairs), "random_pairs": len(rpairs),
        "random_pair_kinds": dict(kinds), "distinct_operation_texts": distinct,
        "per_operator_outcome": dict(sorted(cats.items())), "per_form": dict(sorted(forms.items())),
        "suspect_family_cases": dict(keyed),
        "unspecified_not_compared(neg exponent pairs)": sum(p.get("unspec", 0) for p in pairs),
        "batches": nbatches, "single_op_programs": len(progs) - nbatches, "rerun_single": len(redo),
        "disagreements_by_key": dict(disagree),
        "tlc_states_grid": gres.distinct, "tlc_states_random": rstates,
        "tlc_wall_s": round(gres.wall + rwall, 1), "harness_wall_s": round(wall1 + wall2, 1),
        "samples": [{"id": o["id"], "stmts": o["stmts"], "expect": o["expect"]} for o in
                    [x for x in ops if x["cat"].endswith("overflow")][:1] + [x for x in ops if x["cat"] == "%|val"][-1:]
                    + [x for x in ops if x["cat"] == "/|divzero"][:1]],
    }
    rep.assumptions = [
        "spec/lib/I64.tla transcribes the documented semantics: 64-bit signed int; + - * unary- exact or overflow; / truncates; "
        "% is the non-negative (Euclidean) remainder; zero divisor -> division by zero; ^ exact or overflow for exponent >= 0",
        "`^` with a negative exponent is not defined by the reference: generated but not compared",
        "a negative literal as left operand is written in parentheses (the reading of `-2 ^ 2` is C31's subject)",
        "the error *kind* is compared (overflow vs division by zero), not the message text or location",
    ]
    return rep.finish()
