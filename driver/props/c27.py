"""C27: core/map and core/set behave like the dictionary / set model spec/lib2/AbraMap.tla.

TLC enumerates every history over the alphabets / key families / table-filling prefixes planned in
spec/props/C27.tla (model checking mode, state = history) and draws long random histories (simulation mode);
each maximal history is one program whose printed projection after every operation the model predicts.
The harness runs the programs, this module compares."""
import collections
import os
import vlib

MODULE = os.path.join(vlib.SPEC, "props", "C27.tla")
SIMCFG = os.path.join(vlib.SPEC, "props", "C27sim.cfg")
# resource use (the machine is shared): overridable through the environment
WORKERS = int(os.environ.get("VERIF_TLC_WORKERS", "2"))
JOBS = int(os.environ.get("VERIF_JOBS", "4"))


def enumerate_cases(prop, plan, timeout):
    """model checking mode: every state a history, maximal ones printed as CASE lines"""
    res = vlib.tlc(MODULE, env={"PLAN": plan}, workers=WORKERS, xmx="3g", timeout=timeout)
    vlib.tlc_ok(res, MODULE)
    return res.cases(), res


def simulate_cases(prop, plan, n, seed, depth, timeout):
    """simulation mode: one JSON file per random history"""
    outdir = os.path.join(vlib.WORK, prop, "sim")
    os.makedirs(outdir, exist_ok=True)
    res = vlib.tlc(MODULE, cfg=SIMCFG, simulate=n, depth=depth, seed=seed, env={"PLAN": plan, "OUTDIR": outdir},
                   xmx="3g", timeout=timeout)
    vlib.tlc_ok(res, MODULE)
    return vlib.load_case_files(outdir), res

PLAN = {"quick": {"plan": "quick", "sim": "simquick", "nsim": 100, "depth": 42, "tlc_timeout": 200},
        "thorough": {"plan": "thorough", "sim": "simthorough", "nsim": 800, "depth": 82, "tlc_timeout": 800}}


def run(prop, tier, seed):
    rep = vlib.Report(prop, tier, seed, "model_checking")
    wd = vlib.workdir(prop)
    plan = PLAN[tier]
    cases, res = enumerate_cases(prop, plan["plan"], plan["tlc_timeout"])
    if not cases:
        raise vlib.ToolError("no cases from TLC")
    n_enum = len(cases)
    sims, sres = simulate_cases(prop, plan["sim"], plan["nsim"], seed, plan["depth"], plan["tlc_timeout"])
    cases += sims
    if len({c["id"] for c in cases}) != len(cases):
        raise vlib.ToolError("duplicate case ids")

    obs, hwall = vlib.run_harness(cases, wd, jobs=JOBS)
    not_compiled = agree = 0
    for c, o in zip(cases, obs):
        if o.get("compile") != "ok":
            not_compiled += 1
            continue
        mism = vlib.compare(c["expect"], o)
        if not mism:
            agree += 1
            continue
        d = c.get("defect")
        if d and not vlib.compare(d["expect"], o):
            # exactly the deviation the specification describes as known for this key domain
            rep.finding(d["key"], c, o, mism, "key domain contains the minimum 64-bit integer: %s (%s) in %s" % (
                o.get("status"), (o.get("err") or {}).get("kind"), ((o.get("err") or {}).get("loc") or {}).get("fn")))
        else:
            rep.finding("%s|%s" % (c["key"], ",".join(sorted(m["field"] for m in mism))), c, o, mism,
                        "observation differs from the dictionary/set model after: " + "; ".join(c["ops"][-4:]))
    if not_compiled * 50 > len(cases):
        raise vlib.ToolError("%d of %d generated programs did not compile: renderer out of sync" % (not_compiled, len(cases)))

    fams = collections.Counter("%s/%s/%s<=%d" % (c["fam"], c["prefix"], c["alpha"], c["maxlen"]) for c in cases)
    kinds = collections.Counter(k for c in cases for k in c["kinds"])
    ending = collections.Counter(c.get("why", "done") for c in cases)
    lens = collections.Counter(c["len"] for c in cases)
    texts = {c["files"]["main.abra"] for c in cases if c["len"] >= 2}
    errs = [c for c in cases if c["expect"]["status"] == "error"]
    rep.coverage = {
        "states": res.distinct + sres.generated, "transitions": res.generated + sres.generated,
        "traces_validated_against_impl": len(cases),
        "evaluations": len(cases), "distinct_nontrivial": len(texts),
        "rule": "model checking mode: every history over the alphabet (R: 10 operations, F: 20 operations on 3 keys, values {1,2}) "
                "up to the job's length for each job (family x alphabet x table-filling prefix) of Plans[%s] in spec/props/C27.tla, "
                "one program per maximal history (length reached or first failing get), the projection printed after every operation "
                "validates every prefix; simulation: random histories (seed %d) over 10-20 keys, values = step numbers; "
                "non-trivial = history with >= 2 operations, distinct = distinct program texts" % (plan["plan"], seed),
        "exhaustive": True,
        "enumerated_maximal_histories": n_enum, "simulated_histories": len(sims),
        "histories_by_family/prefix/alphabet<=length": dict(sorted(fams.items())),
        "not_compiled_skipped": not_compiled, "agreeing": agree,
        "operations_by_kind": dict(sorted(kinds.items())), "total_operations": sum(kinds.values()),
        "ending": dict(sorted(ending.items())), "expected_runtime_errors": len(errs),
        "histories_with_peak_size>=5(table 4->8)": sum(1 for c in cases if c["peak"] >= 5),
        "histories_with_peak_size>=9(table 8->16)": sum(1 for c in cases if c["peak"] >= 9),
        "histories_with_peak_size>=17(table 16->32)": sum(1 for c in cases if c["peak"] >= 17),
        "histories_inserting_a_new_key_after_a_remove(slot reuse)": sum(1 for c in cases if c["reuse"] > 0),
        "histories_over_domain_with_MIN": sum(1 for c in cases if c["fam"] == "min"),
        "max_history_length": max(lens), "length_histogram": {str(k): v for k, v in sorted(lens.items())},
        "tlc_wall_s": round(res.wall + sres.wall, 1), "harness_wall_s": round(hwall, 1),
        "samples": vlib.sample_cases(cases[n_enum // 2:], 1) + vlib.sample_cases(errs, 1) + vlib.sample_cases(sims[-1:], 1),
    }
    rep.assumptions = [
        "spec/lib2/AbraMap.tla is the reference: map = function from keys to values, set = set of keys; get / m[k] of an absent key "
        "must be a runtime error (kind not fixed)",
        "different key texts of a family denote different keys under the key type's Equal (ints, strings, struct Key compared by id)",
        "values are ints; map<K, int> and set<K> only; iteration over maps is not part of the API and not covered",
        "exhaustiveness is relative to the listed alphabets, prefixes and length bounds",
    ]
    return rep.finish()
