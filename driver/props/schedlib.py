"""shared pieces of the scheduler/channel checks (C08-C11, C01): model checking of spec/vm/AbraSched.tla,
scenario programs from spec/vm/SchedPrograms.tla, embedder drives from spec/vm/Slicing.tla and trace validation
against spec/vm/TraceSched.tla"""
import json
import os
import vlib

VM = os.path.join(vlib.SPEC, "vm")
SCENARIOS = [1, 2, 3, 4, 5, 6, 7]

KINDS = {
    "C11": {"nested-run", "run-queue-differs-from-model", "step-outside-run", "ran-after-main-finished", "budget-exceeded",
            "not-the-front-thread", "ran-unrunnable-thread", "skip-outside-run", "skipped-not-the-front-thread",
            "skipped-runnable-thread", "kept-skipping-when-nothing-can-run", "scheduled-without-budget", "thread-id-reused",
            "dropped-unfinished-thread", "return-without-call", "steps-consumed-misreported", "status-kind-untruthful",
            "returned-without-reason", "host-call-serviced-inside-run", "serviced-thread-not-pending"},
    "C09": {"queue-length-after-write", "read-a-message-never-written", "message-out-of-order-or-altered",
            "queue-length-after-read", "read-blocked-although-message-available"},
    "C08": {"captured-heap-value-shared-not-copied"},
    "C01": {"operand-stack-below-frame-base", "stack-height-differs-on-reentry"},
}


def write_cfg(path, owner, invariants, budgets="{1, 2, 3, 5}", lazy="TRUE", spec=True):
    with open(path, "w") as fh:
        fh.write('CONSTANTS Budgets = %s PayloadOwner = "%s" Scns = {%s} ServiceLazily = %s\n'
                 % (budgets, owner, ", ".join(str(s) for s in SCENARIOS), lazy))
        fh.write("SPECIFICATION Spec\n" if spec else "INIT Init\nNEXT Next\n")
        if invariants:
            fh.write("INVARIANTS " + " ".join(invariants) + "\n")
        fh.write("CHECK_DEADLOCK FALSE\n")


def model_check(wd, invariants, tier, cov):
    """AbraSched with queue-owned payloads (the design that is claimed) must satisfy the invariants in every scenario,
    for every budget sequence and every servicing delay"""
    budgets = "{1, 2, 3, 5}" if tier == "quick" else "{0, 1, 2, 3, 5, 8}"
    cfg = os.path.join(wd, "sched.cfg")
    write_cfg(cfg, "queue", invariants, budgets)
    res = vlib.tlc(os.path.join(VM, "AbraSched.tla"), cfg=cfg, workers=4, timeout=1800)
    if res.violation or res.error or res.rc != 0:
        raise vlib.ToolError("AbraSched violates its invariants: model broken\n%s" % res.out[-2500:])
    cov["states"] = res.distinct
    cov["transitions"] = res.generated
    cov["model_scenarios"] = len(SCENARIOS)
    cov["model_invariants"] = invariants
    if tier != "quick":
        # informative: the design with writer-owned payloads (pinned tree) is unsafe at model level
        cfg = os.path.join(wd, "sched_writer.cfg")
        write_cfg(cfg, "writer", ["NoUseAfterFree"], budgets)
        res = vlib.tlc(os.path.join(VM, "AbraSched.tla"), cfg=cfg, workers=2, timeout=600)
        cov["writer_owned_payload_design_has_counterexample"] = bool(res.violation)


def scenario_cases(wd):
    cfg = os.path.join(wd, "prog.cfg")
    write_cfg(cfg, "queue", [], "{1}", spec=False)
    res = vlib.tlc(os.path.join(VM, "SchedPrograms.tla"), cfg=cfg, timeout=300)
    vlib.tlc_ok(res, "SchedPrograms")
    cs = sorted(res.cases(), key=lambda c: c["id"])
    if len(cs) != len(SCENARIOS):
        raise vlib.ToolError("SchedPrograms gave %d cases" % len(cs))
    return cs


def drives(wd, cfgname):
    out = os.path.join(wd, cfgname + ".drives.ndjson")
    res = vlib.tlc(os.path.join(VM, "Slicing.tla"), cfg=os.path.join(VM, cfgname + ".cfg"), env={"OUT": out}, timeout=300)
    vlib.tlc_ok(res, "Slicing")
    return vlib.load_ndjson(out)


def with_drive(case, i, d, extra=None):
    c = dict(case)
    c["id"] = "%s@d%d" % (case["id"], i)
    c["budgets"] = d["budgets"]
    c["delay"] = d["delay"]
    if extra:
        c.update(extra)
    return c


def validate_traces(rep, prop, runs, wd, cov, chunk=60, keyfn=None):
    """TLC validates the recorded event traces against TraceSched; only violation kinds that belong to `prop`
    are filed (the others belong to the check of their own property)."""
    total = steps = calls = msgs = 0
    byid = {}
    viols = []
    n = 0
    for i in range(0, len(runs), chunk):
        path = os.path.join(wd, "sched_traces_%d.ndjson" % n)
        with open(path, "w") as out:
            for case, obs in runs[i:i + chunk]:
                p = obs.get("events")
                if not p or not os.path.exists(p):
                    continue
                byid[case["id"]] = (case, obs)
                out.write(json.dumps({"e": "reset", "run": case["id"]}) + "\n")
                with open(p) as fh:
                    for line in fh:
                        out.write(line)
                        total += 1
                os.remove(p)
        res = vlib.tlc(os.path.join(VM, "TraceSched.tla"), env={"TRACE": path}, deque=True, timeout=1800, xmx="6g")
        v = None
        for line in res.out.splitlines():
            if line.startswith('<<"VERDICT", '):
                v = json.loads(json.loads(line[len('<<"VERDICT", '):-2]))
        if v is None or v["consumed"] != v["events"]:
            raise vlib.ToolError("TraceSched did not consume the whole trace %s\n%s" % (path, res.out[-2000:]))
        viols += v["violations"]
        steps += v["steps"]
        calls += v["calls"]
        msgs += v["messages"]
        os.remove(path)
        n += 1
    cov["trace_events_validated"] = total
    cov["instructions_validated"] = steps
    cov["run_n_steps_calls_validated"] = calls
    cov["channel_messages_validated"] = msgs
    mine = [x for x in viols if x["kind"] in KINDS[prop]]
    cov["trace_violations_other_properties"] = len(viols) - len(mine)
    for x in mine:
        case, obs = byid.get(x["run"], ({"id": x["run"]}, {}))
        key = keyfn(case, x) if keyfn else "%s|%s|%s" % (prop, x["kind"], case["id"].split("@")[0])
        rep.finding(key, case, obs, [x],
                    "trace rejected by TraceSched: %s %s (run %s, event %d)" % (x["kind"], x["info"], x["run"], x["line"]))
    return len(mine)
