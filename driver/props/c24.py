"""C24: built-in equality, ordering and hashing are lawful.
spec/props/C24.tla enumerates value universes and emits programs that report the full ==,!=,<,<=,>,>= tables (several
compiler paths) and the hashes; spec/props/C24V.tla validates the recorded tables against spec/lib2/Laws.tla (the laws,
and the expected truth values where the reference fixes them).  This module only moves JSON between them."""
import collections
import copy
import glob
import json
import os
import vlib
from props import bcommon


def _canaries(recs):
    """corrupted copies of real observations which a non-vacuous validator must reject: one recorded comparison
    result flipped (breaks a law whatever the values are), one recorded hash changed (breaks equal => equal hashes)"""
    res = []
    for r in recs:
        host = r["obs"].get("host") or []
        rels = [i for i, h in enumerate(host) if h["f"] in ("rel", "releq")]
        hs = [i for i, h in enumerate(host) if h["f"] == "hsh"]
        if not rels:
            continue
        for a in range(3, len(host[rels[0]]["args"])):
            c = copy.deepcopy(r)
            k = rels[(7 * a) % len(rels)]
            c["obs"]["host"][k]["args"][a] = not c["obs"]["host"][k]["args"][a]
            c["id"] = "%s~canary-flip%d" % (r["id"], a)
            c["canary"] = "flip"
            res.append(c)
        if hs:
            c = copy.deepcopy(r)
            c["obs"]["host"][hs[0]]["args"][1] += "0"
            c["id"] = r["id"] + "~canary-hash"
            c["canary"] = "hash"
            res.append(c)
        if len(res) >= 40:
            break
    return res


def run(prop, tier, seed):
    rep = vlib.Report(prop, tier, seed, "translation_validation")
    wd = vlib.workdir(prop)
    mod = os.path.join(vlib.SPEC, "props", "C24.tla")
    env = {"TIER": tier, "SEED": str(seed)}
    enum_cases, res_e = bcommon.gen_enumerate(prop, mod, env=env, timeout=800)
    nrand = 30 if tier == "quick" else 700
    rand_cases, res_r = bcommon.gen_simulate(prop, mod, nrand, seed, env=env, timeout=800,
                                          cfg=os.path.join(vlib.SPEC, "props", "C24R.cfg"))
    cases = enum_cases + rand_cases
    if not cases:
        raise vlib.ToolError("C24 generator produced no cases")
    obs, hwall = bcommon.run_harness(cases, wd, timeout=120)
    broken = sum(1 for o in obs if o.get("compile") != "ok" or o.get("status") in ("abort", "timeout"))
    if broken * 4 > len(cases):
        raise vlib.ToolError("%d of %d comparison programs did not compile or were aborted: harness/generator problem" % (broken, len(cases)))

    recs, used, dropped_optional = [], [], 0
    for c, o in zip(cases, obs):
        if c.get("optional") and (o.get("compile") != "ok" or o.get("status") != "done"):
            dropped_optional += 1       # special floats could not be produced: outside the model, not compared
            continue
        recs.append({k: c[k] for k in ("id", "ty", "vals", "n", "paths", "hasord", "hashash")})
        recs[-1]["obs"] = {k: o[k] for k in ("compile", "status", "host") if k in o}
        used.append((c, o))
    canaries = _canaries([r for r in recs if r["obs"].get("status") == "done" and r["n"] >= 2])
    allrecs = recs + canaries
    opath = os.path.join(wd, "observed.ndjson")
    vlib.write_ndjson(opath, allrecs)
    vdir = os.path.join(wd, "verdicts")
    os.makedirs(vdir, exist_ok=True)
    res_v = bcommon.tlc(os.path.join(vlib.SPEC, "props", "C24V.tla"), env={"OBS": opath, "OUTDIR": vdir, "TIER": tier},
                        timeout=1500)
    verdicts = {}
    for f in glob.glob(os.path.join(vdir, "v_*.json")):
        with open(f) as fh:
            v = json.load(fh)
        verdicts[v["id"]] = v
    if len(verdicts) != len(allrecs):
        raise vlib.ToolError("validator returned %d verdicts for %d records" % (len(verdicts), len(allrecs)))
    missed = [r["id"] for r in canaries if not verdicts[r["id"]]["findings"]]
    if missed or len(canaries) < 5:
        raise vlib.ToolError("C24V accepted corrupted observations (or none could be built): %s" % missed[:5])

    tot = collections.Counter()
    ran = 0
    for c, o in used:
        v = verdicts[c["id"]]
        for f in v["findings"]:
            rep.finding(f["key"], dict(c, id="%s~%s" % (c["id"], f["key"][4:])), {k: o.get(k) for k in ("compile", "status", "err", "panic", "diag_text", "host")},
                        [f], "%s (%d instances in universe %s of type %s)" % (f["what"], f["count"], c["id"], c["tytext"]))
        if v.get("ran"):
            ran += 1
            for k, n in v["stats"].items():
                tot[k] += n
    nontrivial = {c["files"]["main.abra"] for c, o in used if c["n"] >= 2}
    rep.coverage = {
        "programs": len(used), "disagreements_checked": tot["cells_compared"],
        "evaluations": tot["law_instances"] + tot["cells_compared"], "distinct_nontrivial": len(nontrivial),
        "rule": "one program per value universe (type + N values, built twice); evaluations = law instances checked on the "
                "recorded tables (reflexive, symmetric, transitive ==, != negation, <=/</>/>= consistency, totality, transitivity, "
                "equal => equal hashes; per path op/gen/iface/imm) + table cells compared with the truth value fixed by the "
                "reference; distinct_nontrivial = distinct programs with >= 2 values. Universes: exhaustive bool/void tuples (size "
                "2..4), nested pairs, arrays (length <= 3), boundary int/float/string samples; R: tlc -simulate seed %d" % seed,
        "exhaustive": True,
        "universes_by_family": dict(collections.Counter(c["fam"] for c, o in used)),
        "universes_by_outer_type": dict(collections.Counter(c["ctor"] for c, o in used)),
        "universes_with_order": sum(1 for c, o in used if c["hasord"]),
        "universes_with_hash": sum(1 for c, o in used if c["hashash"]),
        "universes_with_imm_path": sum(1 for c, o in used if len(c["paths"]) == 4),
        "universes_validated": ran, "max_universe_size": max(c["n"] for c, o in used),
        "value_pairs": tot["pairs"], "value_triples": tot["triples"], "law_instances": tot["law_instances"],
        "table_cells_compared_with_reference": tot["cells_compared"], "table_cells_only_laws(NaN,-0.0)": tot["cells_only_laws"],
        "equal_pairs_at_distinct_positions": tot["equal_pairs_at_distinct_positions"],
        "special_float_universes_dropped": dropped_optional,
        "validator_canaries_rejected": dict(collections.Counter(r["canary"] for r in canaries)),
        "tlc_states_generation": res_e.distinct + res_r.generated, "tlc_states_validation": res_v.distinct,
        "tlc_wall_s": round(res_e.wall + res_r.wall + res_v.wall, 1), "harness_wall_s": round(hwall, 1),
        "samples": vlib.sample_cases([dict(c, files={"main.abra": c["files"]["main.abra"][:900]}) for c in (cases[0], cases[-1])], 2),
    }
    rep.assumptions = [
        "spec/lib2/Laws.tla: expected truth values only where the reference fixes them (ints numeric, false < true, strings "
        "lexicographic, finite floats numeric, infinities as extended reals, tuples lexicographic, arrays by length and elements); "
        "NaN against anything and -0.0 against 0.0 are subject to the laws only",
        "arrays have Equal and Hash but no Ord; float has no Hash: those operators are not applicable and not observed",
        "strings: ASCII samples over the alphabet of Laws!Alphabet; ints as decimal spellings, boundary values plus seeded random ones",
        "special floats (NaN, infinities) are produced by 0.0/0.0, sqrt(-1.0), pow(10.0, 400.0); if a program using them does not "
        "run, the universe is dropped (counted)",
    ]
    return rep.finish()
