"""Shared orchestration for C18, C19, C20, C23 (enumerate with TLC, run, compare, count).
Nothing here knows what is correct: expectations (`expect`, optional alternatives `alts`), model membership
(`inmodel`) and defect-family keys (`key`) all come from the TLA+ specifications."""
import collections
import os
import vlib


def outcome_class(o, case=None):
    """coarse class of an observation; appended to the spec's input-class key so that a different kind of failure
    on the same input class is still reported as new"""
    if o.get("check") == "panic" or o.get("compile") == "panic":
        return "compile=panic"
    if o.get("compile") != "ok":
        return "compile=%s" % o.get("compile")
    if case is not None and (case.get("expect") or {}).get("compile") == "diag":
        return "accepted"
    if o.get("status") != "done":
        if o.get("status") == "error":
            return "status=error:%s" % ((o.get("err") or {}).get("kind"))
        return "status=%s" % o.get("status")
    return "wrong-output"


def mismatches(case, o):
    """[] when the observation satisfies `expect` or one of the alternatives in `alts`"""
    mism = vlib.compare(case.get("expect", {}), o)
    if mism:
        for alt in case.get("alts", []) or []:
            if not vlib.compare(alt, o):
                return []
    return mism


def judge(rep, cases, wd, what, name="cases", extra=None, timeout=20):
    """run the in-model cases, file a finding per disagreement; returns (run_cases, obs, failed ids)"""
    run_cases = []
    for c in cases:
        if not c.get("inmodel", True):
            continue
        c = dict(c)
        if extra:
            c.update(extra)
        run_cases.append(c)
    obs, wall = vlib.run_harness(run_cases, wd, name=name, timeout=timeout, jobs=harness_jobs())
    failed = []
    for c, o in zip(run_cases, obs):
        mism = mismatches(c, o)
        if mism:
            failed.append(c["id"])
            key = "%s|%s" % (c.get("key") or "%s|%s" % (rep.prop, c["id"]), outcome_class(o, c))
            rep.finding(key, c, o, mism, "%s: %s" % (what, key))
    return run_cases, obs, failed, wall


def count_by(cases, *fields):
    cnt = collections.Counter("/".join(str(c.get(f, "")) for f in fields) for c in cases)
    return dict(sorted(cnt.items()))


def finding_keys(rep):
    """keys of everything filed in this run (violations and known hits), with counts"""
    cnt = collections.Counter(k for k, _, _ in rep.violations)
    for k, (_, c) in rep.known_hits.items():
        cnt[k] += c
    return dict(sorted(cnt.items()))


def tlc_procs():
    """how many TLC processes may run side by side (VERIF_TLC_PROCS, default 1: the machine is shared)"""
    try:
        return max(1, min(8, int(os.environ.get("VERIF_TLC_PROCS", "1"))))
    except ValueError:
        return 1


def harness_jobs():
    try:
        return max(1, min(12, int(os.environ.get("VERIF_JOBS", "4"))))
    except ValueError:
        return 4


def enumerate_sharded(prop, module, cfg, nshards=None, env=None, timeout=1500):
    """an enumerating spec (states = cases) run as VERIF_TLC_PROCS TLC processes (default: one); the spec restricts its
    initial states to the shapes whose code is congruent to IOEnv.SHARD modulo IOEnv.NSHARDS.
    Returns (cases, states, wall)."""
    import concurrent.futures
    import time
    nshards = min(nshards or 1, tlc_procs())
    mod = os.path.join(vlib.SPEC, "props", module)
    cfgp = os.path.join(vlib.SPEC, "props", cfg)
    t0 = time.time()

    def one(i):
        e = {"SHARD": str(i), "NSHARDS": str(nshards)}
        if env:
            e.update(env)
        md = os.path.join(vlib.WORK, "_meta", "%s_%d_s%d" % (module[:-4], os.getpid(), i))
        res = vlib.tlc(mod, cfg=cfgp, env=e, timeout=timeout, workers=1, metadir=md, xmx="3g")
        vlib.tlc_ok(res, "%s shard %d" % (module, i))
        return res.cases(), res.distinct

    with concurrent.futures.ThreadPoolExecutor(max_workers=nshards) as ex:
        parts = list(ex.map(one, range(nshards)))
    cases = [c for p, _ in parts for c in p]
    states = sum(n for _, n in parts)
    if not cases:
        raise vlib.ToolError("%s produced no cases" % module)
    ids = [c["id"] for c in cases]
    if len(set(ids)) != len(ids):
        raise vlib.ToolError("%s produced duplicate case ids" % module)
    if states != len(cases):
        raise vlib.ToolError("%s: %d states but %d cases" % (module, states, len(cases)))
    cases.sort(key=lambda c: c["id"])
    return cases, states, time.time() - t0
