"""C17: string concatenation and comparison give byte-exact results at every step budget and under collection."""
import json
import os
import vlib

PROPS = os.path.join(vlib.SPEC, "props")
VM = os.path.join(vlib.SPEC, "vm")


def run(prop, tier, seed):
    rep = vlib.Report(prop, tier, seed, "translation_validation")
    wd = vlib.workdir(prop)
    progs, res = vlib.gen_enumerate(prop, os.path.join(PROPS, "C17.tla"),
                                    cfg=os.path.join(PROPS, "C17.cfg" if tier == "quick" else "C17_thorough.cfg"))
    progs = [vlib.decode_segments(c) for c in progs]
    # collection schedules that start a cycle inside the instruction: periodic plans with small periods
    lens = os.path.join(wd, "lens.ndjson")
    vlib.write_ndjson(lens, [{"id": "any", "steps": 40}])
    pdir = os.path.join(wd, "plans")
    os.makedirs(pdir, exist_ok=True)
    r2 = vlib.tlc(os.path.join(VM, "GcPlan.tla"), cfg=os.path.join(VM, "GcPlan.cfg"), env={"LENS": lens, "OUTDIR": pdir}, timeout=600)
    vlib.tlc_ok(r2, "GcPlan")
    plans = [p["gc"] for p in vlib.load_ndjson(os.path.join(pdir, "plans_any.ndjson")) if p["gc"].get("every")]
    budgets = [[k] for k in range(1, 13)] + [[-1], [1, 2, 3], [5, 1]]
    if tier == "quick":
        budgets = [[1], [2], [3], [5], [8], [12], [-1], [1, 2, 3]]
    cases = []
    k = 0
    for c in progs:
        for bi, b in enumerate(budgets):
            d = dict(c)
            d["id"] = "%s@b%d" % (c["id"], bi)
            d["budgets"] = b
            d["quarantine"] = True
            if bi % 2 == 1 or tier != "quick":
                d["gc"] = plans[k % len(plans)]
                k += 1
            cases.append(d)
    obs, _ = vlib.run_harness(cases, wd, jobs=12, timeout=60)
    for c, o in zip(cases, obs):
        mism = vlib.compare(c["expect"], o)
        if mism:
            # report the first differing line
            want = (c["expect"].get("out") or "").split("\n")
            got = (o.get("out") or "").split("\n")
            line = next((i for i, (w, g) in enumerate(zip(want, got)) if w != g), min(len(want), len(got)))
            rep.finding("C17|%s|%s" % (o.get("status"), c["id"].split("@")[0]), c, o,
                        [{"line": line, "want": want[line] if line < len(want) else None, "got": got[line] if line < len(got) else None,
                          "status": o.get("status"), "panic": o.get("panic")}],
                        "string result differs at pair line %d under budgets %s gc %s" % (line, c["budgets"], json.dumps(c.get("gc"))))
    npairs = sum(c["pairs"] for c in progs)
    rep.coverage = {
        "programs": len(progs), "disagreements_checked": len(cases),
        "evaluations": len(cases), "distinct_nontrivial": npairs,
        "rule": "every ordered pair of the structured string set of spec/props/C17.tla (exhaustive) x 7 operations, each program "
                "under the tier's step budgets and periodic collection schedules; distinct = distinct ordered pairs",
        "string_pairs": npairs, "budget_patterns": len(budgets), "gc_plans": len(plans), "exhaustive": True,
        "tlc_states": res.distinct,
        "samples": [{"id": progs[0]["id"], "source": progs[0]["files"]["main.abra"][:300], "expect_out": progs[0]["expect"]["out"][:200]}],
    }
    rep.assumptions = ["strings are valid UTF-8 sequences of code points from the set in spec/props/C17.tla",
                       "segments -> text is a transport step in the driver"]
    return rep.finish()
