"""Shared by the C24/C25/C28 drivers: vlib's generator helpers with bounded resources
(the machine is shared: at most 2 TLC workers, 3 GB heap, 4 harness jobs, one process at a time)."""
import os
import shutil
import vlib

WORKERS = 2
XMX = "3g"
JOBS = 4


def tlc(module, cfg=None, env=None, timeout=1800, **kw):
    res = vlib.tlc(module, cfg=cfg, env=env, timeout=timeout, workers=kw.pop("workers", WORKERS), xmx=XMX, **kw)
    vlib.tlc_ok(res, module)
    return res


def gen_enumerate(prop, module, env=None, timeout=1800, cfg=None):
    """enumerating spec (model checking mode); one JSON file per case in OUTDIR"""
    outdir = os.path.join(vlib.WORK, prop, "enum_" + os.path.basename(module)[:-4])
    shutil.rmtree(outdir, ignore_errors=True)
    os.makedirs(outdir, exist_ok=True)
    e = {"OUTDIR": outdir, "OUT": os.path.join(outdir, "cases.ndjson")}
    e.update(env or {})
    res = tlc(module, cfg=cfg, env=e, timeout=timeout)
    return res.cases() + vlib.load_case_files(outdir), res


def gen_simulate(prop, module, n, seed, env=None, depth=3, timeout=1800, cfg=None):
    """generator spec under `tlc -simulate`, one JSON file per behaviour in OUTDIR"""
    outdir = os.path.join(vlib.WORK, prop, "gen_" + os.path.basename(module)[:-4])
    shutil.rmtree(outdir, ignore_errors=True)
    os.makedirs(outdir, exist_ok=True)
    e = {"OUTDIR": outdir}
    e.update(env or {})
    res = tlc(module, cfg=cfg, env=e, timeout=timeout, workers=1, simulate=n, depth=depth, seed=seed)
    return vlib.load_case_files(outdir), res


def run_harness(cases, wd, timeout=30, name="cases"):
    return vlib.run_harness(cases, wd, name=name, jobs=JOBS, timeout=timeout)
