"""C11: the runtime reports completion, errors and host calls truthfully."""
import json
import os
import vlib
from props import schedlib

PROPS = os.path.join(vlib.SPEC, "props")


def run(prop, tier, seed):
    rep = vlib.Report(prop, tier, seed, "model_checking")
    wd = vlib.workdir(prop)
    cov = {}
    schedlib.model_check(wd, ["StepAccounting", "DoneTruthful", "ErrorTruthful", "ErrorReported"], tier, cov)
    # programs: the scheduler scenarios, generated task-free programs, host-call signatures
    scn = schedlib.scenario_cases(wd)
    gen, _ = vlib.gen_simulate(prop, os.path.join(PROPS, "C02.tla"), 40 if tier == "quick" else 400, seed)
    gen = [c for c in gen if c.get("inmodel")]
    host, hres = vlib.gen_enumerate(prop, os.path.join(PROPS, "C11host.tla"),
                                    cfg=os.path.join(PROPS, "C11host.cfg" if tier == "quick" else "C11host_thorough.cfg"))
    d_tasks = schedlib.drives(wd, "Slicing_tasks" if tier == "quick" else "Slicing_tasks_thorough")
    d_plain = schedlib.drives(wd, "Slicing" if tier == "quick" else "Slicing_thorough")
    cases = []
    for c in scn:
        for i, d in enumerate(d_tasks):
            tr = tier != "quick" or i % 3 == 0
            cases.append(schedlib.with_drive(c, i, d, {"trace": 11, "maxsteps": 50000} if tr else {"maxsteps": 50000}))
    ntr = 0
    for j, c in enumerate(gen):
        # a rotating subset of the drives per program; a bounded number of runs is traced (step events are bulky)
        for i, d in enumerate(d_plain):
            if (i + j) % 8 == 0:
                tr = (i + j) % 16 == 0 and ntr < (12 if tier == "quick" else 120)
                ntr += 1 if tr else 0
                cases.append(schedlib.with_drive(c, i, d, {"trace": 3, "maxsteps": 4000} if tr else None))
    for j, c in enumerate(host):
        for i, d in enumerate(d_plain):
            if (i + j) % 13 == 0:
                cases.append(schedlib.with_drive(c, i, d, {"trace": 3} if (i + j) % 39 == 0 or tier != "quick" else None))
    obs, _ = vlib.run_harness(cases, wd, jobs=12, timeout=30)
    ncomp = nlimit = 0
    for c, o in zip(cases, obs):
        if o.get("compile") != "ok":
            ncomp += 1
            continue
        if o.get("status") == "steplimit" and c.get("maxsteps"):
            # the driver's own bound on a traced run (it keeps the trace small), not an observation about the runtime:
            # the other drives of the same program run without it
            nlimit += 1
            continue
        mism = vlib.compare(c["expect"], o)
        if mism:
            fam = "host" if c["id"].startswith("h") else ("scenario" if c["id"].startswith("scn") else "program")
            rep.finding("C11|%s|%s|%s" % (fam, ",".join(sorted(m["field"] for m in mism)), c["id"].split("@")[0]), c, o, mism,
                        "reported status/result/host-call data differs from the specification")
    runs = [(c, o) for c, o in zip(cases, obs) if o.get("events")]
    schedlib.validate_traces(rep, prop, runs, wd, cov)
    cov.update({
        "traces_validated_against_impl": len(runs),
        "evaluations": len(cases), "distinct_nontrivial": len({c["id"] for c in cases}),
        "rule": "program x embedder drive (budget pattern, servicing delay) from spec/vm/Slicing.tla; programs = AbraSched scenarios, "
                "AbraGen programs, all host signatures of the tier's arity (exhaustive); distinct = distinct (program, drive)",
        "host_signatures": len(host), "scenario_programs": len(scn), "generated_programs": len(gen), "not_compiled_skipped": ncomp, "traced_runs_cut_by_the_drivers_step_bound": nlimit,
        "drives_tasks": len(d_tasks), "drives_plain": len(d_plain),
        "samples": [{"id": c["id"], "budgets": c["budgets"], "delay": c["delay"], "source": c["files"]["main.abra"][:300]} for c in cases[:2]] +
                   [vlib.sample_cases(host, 1)[0]],
    })
    rep.coverage = cov
    rep.assumptions = ["the embedder services every pending host call between two run_n_steps calls (possibly after `delay` extra calls)",
                       "thread programs of the model are the six scenarios of AbraSched; FFI feature off"]
    return rep.finish()
