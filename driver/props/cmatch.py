"""Shared orchestration for C12 / C13 / C14 (match exhaustiveness, redundancy, first-match and bindings).

Nothing in here knows what is correct: the arm lists, the program texts, the line tables, the expected
verdicts (exhaustive / redundant arms / admissible printed lines) and the finding keys all come from
spec/front/AbraMatch.tla + MatchCases.tla + MatchEnum.tla through TLC; reported missing patterns are
turned into bare syntax trees here and judged by TLC (spec/props/C12W.tla).  This module only runs the
tools, maps diagnostics to the matches by the line numbers the specification emitted, assembles run
files from specification-produced function texts and call statements, and compares."""
import concurrent.futures
import json
import os
import re
import shutil

import vlib

MSG_NONEXH = "This match expression doesn't cover every case"
MSG_REDUND = "This match expression has redundant cases"


# ------------------------------------------------------------------ generation (TLC)
def _tlc_gen(prop, outdir, env, simulate=None, seed=None, timeout=1500):
    module = os.path.join(vlib.SPEC, "props", prop + ".tla")
    os.makedirs(outdir, exist_ok=True)
    e = dict(env, OUTDIR=outdir)
    meta = os.path.join(vlib.WORK, "_meta", "%s_%s_%d" % (prop, os.path.basename(outdir), os.getpid()))
    if simulate is not None:
        res = vlib.tlc(module, simulate=simulate, depth=2, seed=seed, env=e, timeout=timeout, xmx="3g", metadir=meta)
    else:
        res = vlib.tlc(module, env=e, timeout=timeout, xmx="3g", metadir=meta)
    vlib.tlc_ok(res, "%s (%s)" % (module, os.path.basename(outdir)))
    return res


def sizes_of(res):
    for line in res.out.splitlines():
        if line.startswith('<<"SIZES", "'):
            return json.loads(json.loads(line[len('<<"SIZES", '):-2]))
    return None


def generate(prop, tier, seed, wd, calls, nshard=None, nsim=None):
    """-> (batches, info).  Exhaustive part: NSHARD TLC runs in model-checking mode (states = files);
    sampled part: one `tlc -simulate -seed` run, one file of K sampled arm lists per behaviour."""
    nshard = nshard or (4 if tier == "quick" else 8)
    nsim = nsim if nsim is not None else (25 if tier == "quick" else 400)
    base = {"TIER": tier, "CALLS": "1" if calls else "0", "NSHARD": str(nshard), "SHARD": "0", "MODE": "enum"}
    jobs = []
    with concurrent.futures.ThreadPoolExecutor(max_workers=nshard + 1) as ex:
        for s in range(nshard):
            env = dict(base, SHARD=str(s))
            jobs.append(ex.submit(_tlc_gen, prop, os.path.join(wd, "enum_%d" % s), env))
        simjob = None
        if nsim > 0:
            env = dict(base, MODE="sim")
            simjob = ex.submit(_tlc_gen, prop, os.path.join(wd, "sim"), env, nsim, seed)
        results = [j.result() for j in jobs]
        simres = simjob.result() if simjob else None
    batches = []
    for s in range(nshard):
        batches += vlib.load_case_files(os.path.join(wd, "enum_%d" % s))
    n_enum = len(batches)
    sim_batches = vlib.load_case_files(os.path.join(wd, "sim")) if nsim > 0 else []
    for b in sim_batches:
        b["sampled"] = True
    batches += sim_batches
    sizes = sizes_of(results[0]) or {}
    states = sum(r.distinct - 1 for r in results)          # minus the initial state of every shard
    if sizes and states != sizes.get("batches"):
        raise vlib.ToolError("enumeration incomplete: %d files for %s batches" % (states, sizes.get("batches")))
    if n_enum != states:
        raise vlib.ToolError("enumeration wrote %d files for %d states" % (n_enum, states))
    info = {"sizes": sizes, "tlc_states": states, "tlc_wall_s": round(max(r.wall for r in results), 1),
            "enum_files": n_enum, "sim_files": len(sim_batches),
            "sim_states": simres.generated if simres else 0}
    return batches, info


# ------------------------------------------------------------------ static observation
def line_of(text, off):
    return text.count("\n", 0, off) + 1


def parse_check_text(text):
    """formatted diagnostics -> [(message, line, [missing pattern texts])]"""
    res = []
    for blk in re.split(r"(?m)^error: ", text or "")[1:]:
        msg = blk.split("\n", 1)[0].strip()
        m = re.search(r"┌─ ([^:\n]+):(\d+):(\d+)", blk)
        line = int(m.group(2)) if m else 0
        wits = re.findall(r"(?m)^\s*= \t`(.*)`\s*$", blk)
        res.append((msg, line, wits))
    return res


def static_observe(batches, wd, name="static"):
    """run every batch file through the checker; -> {g: obs} with
    obs = {nonexh, wits, redundant (set of 1-based arm indices), anomaly}"""
    cases = [{"id": b["id"], "mode": "check", "diags": True, "files": b["files"]} for b in batches]
    obs, wall = vlib.run_harness(cases, wd, name=name, timeout=60)
    per = {}
    solo = []
    for b, o in zip(batches, obs):
        r = _attribute(b["matches"], b["files"]["main.abra"], o)
        if r is None:
            solo += [(b, m) for m in b["matches"]]
        else:
            per.update({(b["id"], m["g"]): r[m["g"]] for m in b["matches"]})
    n_solo = len(solo)
    if solo:
        # a checker panic / foreign diagnostic hides the verdicts of the whole file: re-check each match alone
        scases, shifted = [], []
        for b, m in solo:
            hdr = b["header"]
            text = "\n".join(hdr + m["fn"]) + "\n"
            shift = (len(hdr) + 2) - m["line"]
            mm = dict(m, line=m["line"] + shift, armlines=[x + shift for x in m["armlines"]])
            shifted.append(mm)
            scases.append({"id": "%s_%s" % (b["id"], m["g"]), "mode": "check", "diags": True, "files": {"main.abra": text}})
        sobs, w2 = vlib.run_harness(scases, wd, name=name + "_solo", timeout=60)
        wall += w2
        for (b, m), mm, c, o in zip(solo, shifted, scases, sobs):
            r = _attribute([mm], c["files"]["main.abra"], o)
            if r is None:
                per[(b["id"], m["g"])] = {"anomaly": {k: o.get(k) for k in ("check", "check_panic", "check_panic_loc", "check_text", "diags")
                                                      if o.get(k)}, "solo_text": c["files"]["main.abra"]}
            else:
                per[(b["id"], m["g"])] = r[m["g"]]
    return per, {"static_wall_s": round(wall, 1), "files_checked": len(cases), "solo_rechecks": n_solo}


def _attribute(matches, text, o):
    """map the diagnostics of one file to its matches by line; None if the file's verdicts are unusable"""
    if o.get("check") not in ("ok", "diag"):
        return None
    by_line = {m["line"]: m for m in matches}
    arm_of = {}
    for m in matches:
        for i, ln in enumerate(m["armlines"]):
            arm_of[ln] = (m["g"], i + 1)
    res = {m["g"]: {"nonexh": False, "wits": [], "redundant": set()} for m in matches}
    if o.get("check") == "ok":
        return res
    diags = o.get("diags")
    if not isinstance(diags, list):
        return None
    for d in diags:
        if d.get("msg") not in (MSG_NONEXH, MSG_REDUND) or d.get("file") != "main.abra":
            return None
        ln = line_of(text, d["start"])
        if ln not in by_line:
            return None
        g = by_line[ln]["g"]
        if d["msg"] == MSG_NONEXH:
            res[g]["nonexh"] = True
        else:
            for lab in d.get("labels", []):
                a = arm_of.get(line_of(text, lab["start"]))
                if a is None or a[0] != g:
                    return None
                res[g]["redundant"].add(a[1])
    for msg, ln, wits in parse_check_text(o.get("check_text")):
        if msg == MSG_NONEXH:
            if ln not in by_line or not res[by_line[ln]["g"]]["nonexh"]:
                return None
            res[by_line[ln]["g"]]["wits"] += wits
    return res


# ------------------------------------------------------------------ reported missing patterns -> syntax trees
class _P:
    def __init__(self, s):
        self.s, self.i = s, 0

    def peek(self, t):
        return self.s.startswith(t, self.i)

    def eat(self, t):
        if self.peek(t):
            self.i += len(t)
            return True
        return False

    def pat(self):
        if self.eat("("):
            if self.eat(")"):
                return {"k": "tup", "ps": []}
            ps = [self.pat()]
            sep = None
            while True:
                if self.eat(", "):
                    s = ","
                elif self.eat(" | "):
                    s = "|"
                else:
                    break
                if sep not in (None, s):
                    raise ValueError("mixed separators")
                sep = s
                ps.append(self.pat())
            if not self.eat(")"):
                raise ValueError("expected )")
            if sep == "|":
                return {"k": "orpat", "ps": ps}
            return {"k": "tup", "ps": ps} if len(ps) > 1 else ps[0]
        m = re.compile(r"[0-9]+(\.[0-9]*)?").match(self.s, self.i)
        if m:
            self.i = m.end()
            return {"k": "num", "s": m.group(0)}
        m = re.compile(r"[A-Za-z_][A-Za-z0-9_]*").match(self.s, self.i)
        if not m:
            raise ValueError("unexpected input at %d" % self.i)
        w = m.group(0)
        self.i = m.end()
        if w == "_":
            return {"k": "wild"}
        if self.eat("("):
            fs = []
            if not self.eat(")"):
                while True:
                    fm = re.compile(r"([A-Za-z_][A-Za-z0-9_]*) = ").match(self.s, self.i)
                    if not fm:
                        raise ValueError("expected field name")
                    self.i = fm.end()
                    fs.append({"f": fm.group(1), "p": self.pat()})
                    if self.eat(")"):
                        break
                    if not self.eat(", "):
                        raise ValueError("expected , or )")
            return {"k": "struct", "n": w, "fs": fs}
        if self.eat(" of "):
            return {"k": "word", "w": w, "args": [self.pat()]}
        return {"k": "word", "w": w, "args": []}


def parse_witness(text):
    """`Rect of (_, 0)`, `Point(x = _, y = true)`, `(true, some of _)`, `()`, `_`, `1.0`, `abc` -> tree;
    a pure change of representation, the tree is interpreted by spec/front/AbraMatch.tla (Elab)"""
    p = _P(text)
    try:
        t = p.pat()
        if p.i != len(text):
            raise ValueError("trailing input")
        return t
    except ValueError:
        return {"k": "unparsed", "text": text}


def validate_witnesses(prop, tier, records, wd):
    """records: [{id, ti, arms, wits(trees), texts}] -> {id: {verdicts, keys}} decided by TLC (C12W.tla)"""
    if not records:
        return {}, None
    obsf = os.path.join(wd, "witness_obs.ndjson")
    outf = os.path.join(wd, "witness_verdicts.ndjson")
    vlib.write_ndjson(obsf, records)
    if os.path.exists(outf):
        os.remove(outf)
    res = vlib.tlc(os.path.join(vlib.SPEC, "props", "C12W.tla"), timeout=1200, xmx="3g",
                   env={"TIER": tier, "OBS": obsf, "OUT": outf, "MODE": "enum", "SHARD": "0", "NSHARD": "1", "CALLS": "0",
                        "OUTDIR": wd})
    vlib.tlc_ok(res, "C12W")
    verdicts = vlib.load_ndjson(outf)
    if len(verdicts) != len(records):
        raise vlib.ToolError("witness validation returned %d verdicts for %d records" % (len(verdicts), len(records)))
    return {v["id"]: v for v in verdicts}, res


# ------------------------------------------------------------------ run-time observation
def run_accepted(batches, per, wd, name="run"):
    """for every file: the matches the compiler accepted (no diagnostic) and the specification calls
    exhaustive are put into one program (header + functions + calls, all specification-produced text);
    -> [(batch, match, call, printed line or None, run status)]"""
    cases, plan = [], []
    for b in batches:
        ms = [m for m in b["matches"] if m["calls"] and _accepted(per.get((b["id"], m["g"])))]
        if not ms:
            continue
        cases.append(_run_case(b["id"] + "_run", b["header"], ms))
        plan.append((b, ms))
    if not cases:
        return [], {"run_files": 0, "run_wall_s": 0.0, "run_solo": 0}
    obs, wall = vlib.run_harness(cases, wd, name=name, timeout=60)
    rows, solo = [], []
    for (b, ms), o in zip(plan, obs):
        lines = (o.get("out") or "").split("\n")
        n = sum(len(m["calls"]) for m in ms)
        if o.get("compile") == "ok" and o.get("status") == "done" and len(lines) == n + 1 and lines[-1] == "":
            k = 0
            for m in ms:
                for c in m["calls"]:
                    rows.append((b, m, c, lines[k], "done"))
                    k += 1
        else:
            solo += [(b, m) for m in ms]
    if solo:
        # something in the file failed at compile or run time: run every match of it alone, one call per program
        scases = []
        for b, m in solo:
            for j, c in enumerate(m["calls"]):
                scases.append({"id": "%s_%s_%d" % (b["id"], m["g"], j),
                               "files": {"main.abra": "\n".join(b["header"] + m["fn"] + [c["stmt"]]) + "\n"}})
        sobs, w2 = vlib.run_harness(scases, wd, name=name + "_solo", timeout=60)
        wall += w2
        k = 0
        for b, m in solo:
            for c in m["calls"]:
                o = sobs[k]
                k += 1
                st = o.get("status") if o.get("compile") == "ok" else "compile:" + str(o.get("compile"))
                out = o.get("out") or ""
                line = out[:-1] if out.endswith("\n") and out.count("\n") == 1 else None
                rows.append((b, m, c, line if st == "done" else None, st if st != "done" or line is not None else "output:" + out[:80]))
    return rows, {"run_files": len(cases), "run_wall_s": round(wall, 1), "run_solo": len(solo)}


def _accepted(r):
    return r is not None and "anomaly" not in r and not r["nonexh"] and not r["redundant"]


def _run_case(cid, header, ms):
    lines = list(header)
    for m in ms:
        lines += m["fn"]
    for m in ms:
        lines += [c["stmt"] for c in m["calls"]]
    return {"id": cid, "files": {"main.abra": "\n".join(lines) + "\n"}}


# ------------------------------------------------------------------ evidence helpers
def universe_counts(batches):
    ms = [(b, m) for b in batches for m in b["matches"]]
    enum = [m for b, m in ms if not b.get("sampled")]
    samp = [m for b, m in ms if b.get("sampled")]
    bylen, byty = {}, {}
    for m in enum:
        bylen[len(m["arms"])] = bylen.get(len(m["arms"]), 0) + 1
        byty[m["tyname"]] = byty.get(m["tyname"], 0) + 1
    allm = enum + samp
    return {
        "lists_enumerated": len(enum), "lists_sampled": len(samp),
        "enumerated_by_length": {str(k): v for k, v in sorted(bylen.items())},
        "enumerated_by_type": byty,
        "sampled_by_length": _hist(len(m["arms"]) for m in samp),
        "spec_exhaustive": sum(1 for m in allm if m["exhaustive"]),
        "spec_nonexhaustive": sum(1 for m in allm if not m["exhaustive"]),
        "spec_lists_with_redundant_arm": sum(1 for m in allm if any(m["redundant"])),
        "lists_with_or_pattern": sum(1 for m in allm if m["hasor"]),
        "distinct_arm_lists": len({(m["tyname"], m["armstxt"]) for m in allm}),
    }


def _hist(it):
    h = {}
    for x in it:
        h[str(x)] = h.get(str(x), 0) + 1
    return dict(sorted(h.items()))


def sample_match(b, m):
    return {"id": "%s/m%s" % (b["id"], m["g"]), "type": m["tyname"], "arms": m["armstxt"], "fn": m["fn"],
            "expect": {"exhaustive": m["exhaustive"], "redundant": m["redundant"]}}


def clean_big_dirs(wd):
    """the generated case files are large; keep only what a replay needs (replay_*.json hold their own case)"""
    for d in os.listdir(wd):
        if d.startswith("enum_") or d == "sim":
            shutil.rmtree(os.path.join(wd, d), ignore_errors=True)
