"""Shared orchestration for C12 / C13 / C14 (match exhaustiveness, redundancy, first-match and bindings).

Nothing in here knows what is correct: the arm lists, the program texts, the line tables, the expected
verdicts (exhaustive / redundant arms / admissible printed lines) and the finding keys all come from
spec/front/AbraMatch.tla + MatchCases.tla + MatchEnum.tla through TLC; reported missing patterns are
turned into bare syntax trees here and judged by TLC (spec/props/C12W.tla).  This module only runs the
tools, maps diagnostics to the matches by the line numbers the specification emitted, assembles run
files from specification-produced function texts and call statements, and compares."""
import json
import os
import re
import shutil

import vlib

MSG_NONEXH = "This match expression doesn't cover every case"
MSG_REDUND = "This match expression has redundant cases"


# ------------------------------------------------------------------ generation (TLC)
def _tlc_gen(prop, outdir, env, simulate=None, seed=None, timeout=1500, workers=1):
    module = os.path.join(vlib.SPEC, "props", prop + ".tla")
    os.makedirs(outdir, exist_ok=True)
    e = dict(env, OUTDIR=outdir)
    if simulate is not None:
        res = vlib.tlc(module, simulate=simulate, depth=2, seed=seed, env=e, timeout=timeout, xmx="3g", workers=1)
    else:
        res = vlib.tlc(module, env=e, timeout=timeout, xmx="3g", workers=workers)
    vlib.tlc_ok(res, "%s (%s)" % (module, os.path.basename(outdir)))
    return res


def jvm_env(tier):
    """short TLC runs are dominated by JVM start-up and JIT: quick tier runs with the C1 compiler only"""
    return {"JAVA_TOOL_OPTIONS": "-XX:TieredStopAtLevel=1 -XX:ParallelGCThreads=2"} if tier == "quick" else {}


def sizes_of(res):
    for line in res.out.splitlines():
        if line.startswith('<<"SIZES", "'):
            return json.loads(json.loads(line[len('<<"SIZES", '):-2]))
    return None


JOBS = 4          # harness processes at a time (shared machine)
NCHAIN = 2        # TLC workers of the enumeration run


def generate(prop, tier, seed, wd, calls, nsim=None):
    """-> (batches, info).  Exhaustive part: one TLC run in model-checking mode (states = files, two interleaved
    chains for two workers); sampled part: one `tlc -simulate -seed` run, one file of K sampled arm lists per
    behaviour.  The two runs are made one after the other."""
    nsim = nsim if nsim is not None else (10 if tier == "quick" else 60)
    base = dict(jvm_env(tier), TIER=tier, CALLS="1" if calls else "0", NSHARD="1", SHARD="0", NCHAIN=str(NCHAIN), MODE="enum")
    res = _tlc_gen(prop, os.path.join(wd, "enum"), base, workers=NCHAIN)
    simres = _tlc_gen(prop, os.path.join(wd, "sim"), dict(base, MODE="sim"), nsim, seed) if nsim > 0 else None
    batches = vlib.load_case_files(os.path.join(wd, "enum"))
    n_enum = len(batches)
    sim_batches = vlib.load_case_files(os.path.join(wd, "sim")) if nsim > 0 else []
    for b in sim_batches:
        b["sampled"] = True
    batches += sim_batches
    sizes = sizes_of(res) or {}
    states = res.distinct - NCHAIN          # minus the initial state of every chain
    if sizes and states != sizes.get("batches"):
        raise vlib.ToolError("enumeration incomplete: %d files for %s batches" % (states, sizes.get("batches")))
    if n_enum != states:
        raise vlib.ToolError("enumeration wrote %d files for %d states" % (n_enum, states))
    info = {"sizes": sizes, "tlc_states": states, "tlc_wall_s": round(res.wall + (simres.wall if simres else 0), 1),
            "enum_files": n_enum, "sim_files": len(sim_batches),
            "sim_states": simres.generated if simres else 0}
    return batches, info


# ------------------------------------------------------------------ static observation
def line_of(text, off):
    return text.count("\n", 0, off) + 1


def parse_check_text(text):
    """formatted diagnostics -> [(message, line of the match, [missing pattern texts], [underlined lines])]
    (codespan layout: `error: <msg>`, `┌─ file:line:col`, numbered source lines `NN │ ...`, an underline
    `   │ │     -----` below a labelled line, notes `= ...`)"""
    res = []
    for blk in re.split(r"(?m)^error: ", text or "")[1:]:
        msg = blk.split("\n", 1)[0].strip()
        m = re.search(r"┌─ ([^:\n]+):(\d+):(\d+)", blk)
        line = int(m.group(2)) if m else 0
        wits = re.findall(r"(?m)^\s*= \t`(.*)`\s*$", blk)
        marked, cur = [], None
        for ln in blk.split("\n"):
            mm = re.match(r"^\s*(\d+) │", ln)
            if mm:
                cur = int(mm.group(1))
            elif re.match(r"^\s*│[ │]*\s-+\s*$", ln) and cur is not None:
                marked.append(cur)
        res.append((msg, line, wits, marked, m.group(1) if m else ""))
    return res


def _split(ms, parts=4):
    n = len(ms)
    if n <= parts:
        return [[m] for m in ms]
    step = (n + parts - 1) // parts
    return [ms[k:k + step] for k in range(0, n, step)]


def _assemble(header, ms):
    """header + the functions of ms (specification-produced text); the line numbers of the matches and arms are
    those of the specification, shifted by the number of lines that were left out"""
    lines, out = list(header), []
    for m in ms:
        shift = (len(lines) + 2) - m["line"]
        out.append(dict(m, line=m["line"] + shift, armlines=[x + shift for x in m["armlines"]]))
        lines += m["fn"]
    return "\n".join(lines) + "\n", out


def static_observe(batches, wd, name="static"):
    """run every batch file through the checker; -> {(batch id, g): obs} with
    obs = {nonexh, wits, redundant (set of 1-based arm indices)} or {anomaly}.
    A checker panic / foreign diagnostic hides the verdicts of a whole file: such a file is split (4 ways,
    repeatedly) until the matches without a verdict are isolated."""
    per = {}
    pending = []
    for b in batches:
        iso = [m for m in b["matches"] if m.get("isolate")]
        if not iso:
            pending.append((b, b["matches"], b["files"]["main.abra"], b["matches"]))
            continue
        groups = [[m for m in b["matches"] if not m.get("isolate")]] + [[m] for m in iso]
        for part in groups:
            if part:
                t, sh = _assemble(b["header"], part)
                pending.append((b, part, t, sh))
    wall, n_files, level = 0.0, 0, 0
    while pending:
        # the structured diagnostics (a second analysis of the file) are requested for every 10th file only; they must
        # agree with what is read off the formatted text (see _attribute)
        cases = [{"id": "%s_%d_%d" % (b["id"], level, k), "mode": "check", "diags": k % 10 == 0, "files": {"main.abra": text}}
                 for k, (b, ms, text, shifted) in enumerate(pending)]
        obs, w = vlib.run_harness(cases, wd, name="%s_%d" % (name, level), timeout=60, jobs=JOBS)
        wall += w
        n_files += len(cases)
        nxt = []
        for (b, ms, text, shifted), o in zip(pending, obs):
            r = _attribute(shifted, text, o)
            if r is not None:
                per.update({(b["id"], m["g"]): r[m["g"]] for m in ms})
            elif len(ms) == 1:
                per[(b["id"], ms[0]["g"])] = {"anomaly": {k: o.get(k) for k in ("check", "check_panic", "check_panic_loc", "check_text", "diags")
                                                          if o.get(k)}}
            else:
                for part in _split(ms):
                    t, sh = _assemble(b["header"], part)
                    nxt.append((b, part, t, sh))
        pending = nxt
        level += 1
    return per, {"static_wall_s": round(wall, 1), "files_checked": n_files, "split_levels": level - 1}


def _attribute(matches, text, o):
    """map the diagnostics of one file to its matches by line; None if the file's verdicts are unusable.
    Source: the formatted diagnostics (check_text); when the case was run with `diags` the structured
    diagnostics must tell the same story (ToolError otherwise)."""
    if o.get("check") not in ("ok", "diag"):
        return None
    by_line = {m["line"]: m for m in matches}
    arm_of = {}
    for m in matches:
        for i, ln in enumerate(m["armlines"]):
            arm_of[ln] = (m["g"], i + 1)
    res = {m["g"]: {"nonexh": False, "wits": [], "redundant": set()} for m in matches}
    if o.get("check") == "ok":
        return res
    blocks = parse_check_text(o.get("check_text"))
    if not blocks:
        return None
    for msg, ln, wits, marked, fname in blocks:
        if msg not in (MSG_NONEXH, MSG_REDUND) or fname != "main.abra" or ln not in by_line:
            return None
        g = by_line[ln]["g"]
        if msg == MSG_NONEXH:
            res[g]["nonexh"] = True
            res[g]["wits"] += wits
        else:
            for x in marked:
                a = arm_of.get(x)
                if a is None or a[0] != g:
                    return None
                res[g]["redundant"].add(a[1])
            if not marked:
                return None
    diags = o.get("diags")
    if isinstance(diags, list):
        res2 = {m["g"]: {"nonexh": False, "redundant": set()} for m in matches}
        for d in diags:
            ln = line_of(text, d["start"])
            if d.get("msg") not in (MSG_NONEXH, MSG_REDUND) or ln not in by_line:
                raise vlib.ToolError("structured and formatted diagnostics disagree: %r" % d)
            g = by_line[ln]["g"]
            if d["msg"] == MSG_NONEXH:
                res2[g]["nonexh"] = True
            for lab in d.get("labels", []):
                a = arm_of.get(line_of(text, lab["start"]))
                if a is None or a[0] != g:
                    raise vlib.ToolError("structured diagnostic label outside its match: %r" % d)
                res2[g]["redundant"].add(a[1])
        for g in res:
            if res[g]["nonexh"] != res2[g]["nonexh"] or res[g]["redundant"] != res2[g]["redundant"]:
                raise vlib.ToolError("structured and formatted diagnostics disagree on match %s: %r vs %r" % (g, res[g], res2[g]))
    return res


# ------------------------------------------------------------------ reported missing patterns -> syntax trees
class _P:
    def __init__(self, s, greedy=False):
        self.s, self.i, self.greedy = s, 0, greedy

    def peek(self, t):
        return self.s.startswith(t, self.i)

    def eat(self, t):
        if self.peek(t):
            self.i += len(t)
            return True
        return False

    def pat(self):
        if self.eat("("):
            if self.eat(")"):
                return {"k": "tup", "ps": []}
            ps = [self.pat()]
            sep = None
            while True:
                if self.eat(", "):
                    s = ","
                elif self.eat(" | "):
                    s = "|"
                else:
                    break
                if sep not in (None, s):
                    raise ValueError("mixed separators")
                sep = s
                ps.append(self.pat())
            if not self.eat(")"):
                raise ValueError("expected )")
            if sep == "|":
                return {"k": "orpat", "ps": ps}
            return {"k": "tup", "ps": ps} if len(ps) > 1 else ps[0]
        m = re.compile(r"[0-9]+(\.[0-9]*)?").match(self.s, self.i)
        if m:
            self.i = m.end()
            return {"k": "num", "s": m.group(0)}
        m = re.compile(r"[A-Za-z_][A-Za-z0-9_]*").match(self.s, self.i)
        if not m:
            raise ValueError("unexpected input at %d" % self.i)
        w = m.group(0)
        self.i = m.end()
        if w == "_":
            return {"k": "wild"}
        if self.eat("("):
            fs = []
            if not self.eat(")"):
                while True:
                    fm = re.compile(r"([A-Za-z_][A-Za-z0-9_]*) = ").match(self.s, self.i)
                    if not fm:
                        raise ValueError("expected field name")
                    self.i = fm.end()
                    fs.append({"f": fm.group(1), "p": self.pat()})
                    if self.eat(")"):
                        break
                    if not self.eat(", "):
                        raise ValueError("expected , or )")
            return {"k": "struct", "n": w, "fs": fs}
        if self.eat(" of "):
            args = [self.pat()]
            while self.greedy and self.eat(", "):
                args.append(self.pat())
            return {"k": "word", "w": w, "args": args}
        return {"k": "word", "w": w, "args": []}


def parse_witness(text):
    """`Rect of (_, 0)`, `Point(x = _, y = true)`, `(true, some of _)`, `()`, `_`, `1.0`, `abc` -> tree;
    a pure change of representation, the tree is interpreted by spec/front/AbraMatch.tla (Elab)"""
    for greedy in (False, True):       # `C of a, b`: first with one argument after `of`, then with as many as follow
        p = _P(text, greedy)
        try:
            t = p.pat()
            if p.i == len(text):
                return t
        except ValueError:
            pass
    return {"k": "unparsed", "text": text}


def validate_witnesses(prop, tier, records, wd):
    """records: [{id, ti, arms, wits(trees), texts}] -> {id: {verdicts, keys}} decided by TLC (C12W.tla)"""
    if not records:
        return {}, None
    obsf = os.path.join(wd, "witness_obs.ndjson")
    outf = os.path.join(wd, "witness_verdicts.ndjson")
    vlib.write_ndjson(obsf, records)
    if os.path.exists(outf):
        os.remove(outf)
    res = vlib.tlc(os.path.join(vlib.SPEC, "props", "C12W.tla"), timeout=1200, xmx="3g",
                   env={**jvm_env(tier), "TIER": tier, "OBS": obsf, "OUT": outf, "MODE": "enum", "SHARD": "0", "NSHARD": "1", "CALLS": "0",
                        "NCHAIN": "1", "OUTDIR": wd})
    vlib.tlc_ok(res, "C12W")
    verdicts = vlib.load_ndjson(outf)
    if len(verdicts) != len(records):
        raise vlib.ToolError("witness validation returned %d verdicts for %d records" % (len(verdicts), len(records)))
    return {v["id"]: v for v in verdicts}, res


# ------------------------------------------------------------------ run-time observation
def run_matches(batches, select, wd, name="run"):
    """every file: the selected matches that carry calls are put into one program (header + functions + calls, all
    specification-produced text) and run.  A file that does not compile loses the matches its diagnostics point
    at (-> rejected) and is retried; any other failure splits the file until single matches remain, which are
    then run one call per program.  -> rows [(batch, match, call, printed line or None, status)], rejected, info"""
    pending = []
    for b in batches:
        ms = [m for m in b["matches"] if m["calls"] and select(b, m)]
        for part in [[m for m in ms if not m.get("isolate")]] + [[m] for m in ms if m.get("isolate")]:
            if part:
                pending.append((b, part))
    rows, rejected = [], []
    wall, n_files, level, n_single = 0.0, 0, 0, 0
    while pending:
        cases, metas = [], []
        for k, (b, ms) in enumerate(pending):
            text, shifted = _assemble(b["header"], ms)
            stmts = [c["stmt"] for m in ms for c in m["calls"]]
            cases.append({"id": "%s_r%d_%d" % (b["id"], level, k), "diags": True,
                          "files": {"main.abra": text + "\n".join(stmts) + "\n"}})
            metas.append(shifted)
        obs, w = vlib.run_harness(cases, wd, name="%s_%d" % (name, level), timeout=60, jobs=JOBS)
        wall += w
        n_files += len(cases)
        nxt = []
        for (b, ms), shifted, c, o in zip(pending, metas, cases, obs):
            lines = (o.get("out") or "").split("\n")
            n = sum(len(m["calls"]) for m in ms)
            if o.get("compile") == "ok" and o.get("status") == "done" and len(lines) == n + 1 and lines[-1] == "":
                k = 0
                for m in ms:
                    for cl in m["calls"]:
                        rows.append((b, m, cl, lines[k], "done"))
                        k += 1
                continue
            bad = _offenders(shifted, c["files"]["main.abra"], o) if o.get("compile") == "diag" else None
            if bad:
                rejected += [(b, m) for m in ms if m["g"] in bad]
                rest = [m for m in ms if m["g"] not in bad]
                if rest:
                    nxt.append((b, rest))
            elif len(ms) > 1:
                nxt += [(b, part) for part in _split(ms)]
            else:
                n_single += 1
                rows += _run_single(b, ms[0], wd, name)
        pending = nxt
        level += 1
    return rows, rejected, {"run_files": n_files, "run_wall_s": round(wall, 1), "run_split_levels": max(level - 1, 0),
                            "matches_run_call_by_call": n_single}


def _offenders(shifted, text, o):
    """the matches a compile diagnostic points into (by the line tables); None if some diagnostic points elsewhere"""
    diags = o.get("diags")
    if not isinstance(diags, list) or not diags:
        return None
    bad = set()
    for d in diags:
        if d.get("file") != "main.abra":
            return None
        ln = line_of(text, d["start"])
        hit = [m["g"] for m in shifted if m["line"] - 1 <= ln <= m["line"] + len(m["arms"]) + 2]
        if not hit:
            return None
        bad.add(hit[0])
    return bad


def _run_single(b, m, wd, name):
    """one match alone: first through the checker (status `notaccepted:...` if it does not accept the match: not a
    run-time matter), then one program per call"""
    text = "\n".join(b["header"] + m["fn"]) + "\n"
    cases = [{"id": "%s_%s_chk" % (b["id"], m["g"]), "mode": "check", "files": {"main.abra": text}}]
    cases += [{"id": "%s_%s_%d" % (b["id"], m["g"], j), "files": {"main.abra": text + c["stmt"] + "\n"}}
              for j, c in enumerate(m["calls"])]
    obs, _ = vlib.run_harness(cases, wd, name=name + "_single", timeout=60, jobs=JOBS)
    if obs[0].get("check") != "ok":
        return [(b, m, c, None, "notaccepted:" + str(obs[0].get("check"))) for c in m["calls"]]
    rows = []
    for c, o in zip(m["calls"], obs[1:]):
        st = o.get("status") if o.get("compile") == "ok" else "compile:" + str(o.get("compile"))
        out = o.get("out") or ""
        line = out[:-1] if out.endswith("\n") and out.count("\n") == 1 else None
        if st == "done" and line is None:
            st = "output:" + out[:80]
        rows.append((b, m, c, line if st == "done" else None, st))
    return rows


def accepted(r):
    return r is not None and "anomaly" not in r and not r["nonexh"] and not r["redundant"]


# ------------------------------------------------------------------ evidence helpers
def universe_counts(batches):
    ms = [(b, m) for b in batches for m in b["matches"]]
    enum = [m for b, m in ms if not b.get("sampled")]
    samp = [m for b, m in ms if b.get("sampled")]
    bylen, byty = {}, {}
    for m in enum:
        bylen[len(m["arms"])] = bylen.get(len(m["arms"]), 0) + 1
        byty[m["tyname"]] = byty.get(m["tyname"], 0) + 1
    allm = enum + samp
    return {
        "lists_enumerated": len(enum), "lists_sampled": len(samp),
        "enumerated_by_length": {str(k): v for k, v in sorted(bylen.items())},
        "enumerated_by_type": byty,
        "sampled_by_length": _hist(len(m["arms"]) for m in samp),
        "spec_exhaustive": sum(1 for m in allm if m["exhaustive"]),
        "spec_nonexhaustive": sum(1 for m in allm if not m["exhaustive"]),
        "spec_lists_with_redundant_arm": sum(1 for m in allm if any(m["redundant"])),
        "lists_with_or_pattern": sum(1 for m in allm if m["hasor"]),
        "distinct_arm_lists": len({(m["tyname"], m["armstxt"]) for m in allm}),
    }


def _hist(it):
    h = {}
    for x in it:
        h[str(x)] = h.get(str(x), 0) + 1
    return dict(sorted(h.items()))


def sample_match(b, m):
    return {"id": "%s/m%s" % (b["id"], m["g"]), "type": m["tyname"], "arms": m["armstxt"], "fn": m["fn"],
            "expect": {"exhaustive": m["exhaustive"], "redundant": m["redundant"]}}


class Limiter:
    """file at most `cap` findings per key (each finding writes a replay file); count all of them"""

    def __init__(self, rep, cap=3):
        self.rep, self.cap, self.counts = rep, cap, {}

    def finding(self, key, case, obs, mism, what):
        n = self.counts.get(key, 0)
        self.counts[key] = n + 1
        if n < self.cap:
            self.rep.finding(key, case, obs, mism, what)

    def summary(self):
        fam = {}
        for k, n in self.counts.items():
            f = "|".join(k.split("|")[:3]) if k.count("|") <= 2 else "|".join(k.split("|")[:2]) + "|..."
            fam[f] = fam.get(f, 0) + n
        return fam


def gen_destruct(tier, wd):
    """let / for destructuring programs with expected output (spec/props/C14D.tla; states = files)"""
    outdir = os.path.join(wd, "destruct")
    os.makedirs(outdir, exist_ok=True)
    res = vlib.tlc(os.path.join(vlib.SPEC, "props", "C14D.tla"), timeout=600, xmx="3g", workers=1,
                   env={**jvm_env(tier), "TIER": tier, "MODE": "enum", "SHARD": "0", "NSHARD": "1", "NCHAIN": "1", "CALLS": "0",
                        "OUTDIR": outdir})
    vlib.tlc_ok(res, "C14D")
    cases = vlib.load_case_files(outdir)
    if res.distinct - 1 != len(cases):
        raise vlib.ToolError("C14D wrote %d files for %d states" % (len(cases), res.distinct - 1))
    return cases, res


def clean_big_dirs(wd):
    """the generated case files are large; keep only what a replay needs (replay_*.json hold their own case)"""
    for d in os.listdir(wd):
        if d in ("enum", "sim"):
            shutil.rmtree(os.path.join(wd, d), ignore_errors=True)
