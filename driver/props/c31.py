"""C31: expressions parse according to the documented precedence table.

spec/front/Prec.tla + spec/props/C31.tla define the table, the grammar it denotes, the minimal-parenthesis
printer and the reference value of every tree; TLC enumerates the trees and emits, per tree, the line
`println(<minimal text>)` with its expected observation.  This driver only transports: it concatenates the
spec-emitted declaration block and println lines into programs (many lines per program for throughput, every
suspicious line is re-run alone as the single program the spec defines), runs the harness and compares."""
import collections
import glob
import json
import os

import vlib

MODULE = os.path.join(vlib.SPEC, "props", "C31.tla")
CFG_ALL = os.path.join(vlib.SPEC, "props", "C31.cfg")
CFG_SIM = os.path.join(vlib.SPEC, "props", "C31Sim.cfg")
BATCH = 40
JOBS = int(os.environ.get("VERIF_JOBS", "4"))     # harness worker processes (shared machine: keep small)
MAX_REPLAYS_PER_KEY = 3
MAX_NEW_KEYS = 25


def _tlc_enum(tag, env, wd):
    res = vlib.tlc(MODULE, cfg=CFG_ALL, env=env, timeout=900, workers=1, xmx="3g",
                   metadir=os.path.join(wd, "meta_" + tag))
    if res.error or res.rc != 0:
        with open(os.path.join(wd, "tlc_%s.out" % tag), "w") as fh:
            fh.write(res.out)
    vlib.tlc_ok(res, "C31 enumeration " + tag)
    recs = res.cases()
    header = [r for r in recs if r.get("header")]
    items = [r for r in recs if not r.get("header")]
    if len(header) != 1:
        raise vlib.ToolError("C31 enumeration %s: no header record" % tag)
    if len(items) != res.distinct:
        raise vlib.ToolError("C31 enumeration %s: %d items for %d states" % (tag, len(items), res.distinct))
    for i, it in enumerate(items):
        it["id"] = "%s-%06d" % (tag, i)
        it["src"] = "exhaustive"
    return header[0], items, res


def _tlc_sim(tag, env, n, seed, wd):
    outdir = os.path.join(wd, "sim_" + tag)
    os.makedirs(outdir, exist_ok=True)
    e = dict(env, OUTDIR=outdir)
    res = vlib.tlc(MODULE, cfg=CFG_SIM, env=e, simulate=n, depth=3, seed=seed, timeout=900, workers=1, xmx="3g",
                   metadir=os.path.join(wd, "meta_" + tag))
    vlib.tlc_ok(res, "C31 sample " + tag)
    recs = res.cases()
    header = [r for r in recs if r.get("header")]
    items = []
    for f in sorted(glob.glob(os.path.join(outdir, "*.json")), key=lambda p: (len(p), p)):
        with open(f) as fh:
            for j, it in enumerate(json.load(fh)):
                it["id"] = "%s-%s-%02d" % (tag, os.path.basename(f)[:-5], j)
                it["src"] = "sample"
                items.append(it)
    if len(header) != 1 or not items:
        raise vlib.ToolError("C31 sample %s: nothing generated" % tag)
    return header[0], items, res


def _single(it, pres):
    """the program the spec defines for one item: declaration block + the println line"""
    c = {"id": it["id"], "files": {"main.abra": pres[(it["a"], it["n"])] + it["line"]}, "expect": it["expect"],
         "text": it["text"]}
    if "known" in it:
        c["known"] = it["known"]
    return c


def run(prop, tier, seed):
    rep = vlib.Report(prop, tier, seed, "translation_validation")
    wd = vlib.workdir(prop)
    quick = tier == "quick"
    # one TLC process at a time (shared machine); the leaf-form selection C31_FORMS is defined in spec/props/C31.tla
    jobs = []
    if quick:
        jobs.append(("enum", "q", {"C31_NA": 1, "C31_A": 1, "C31_TY": "all", "C31_FORMS": "quickmix"}))
        jobs.append(("sim", "s0", {"C31_NA": 4, "C31_A": 0, "C31_TY": "all", "C31_FORMS": "none"}, 40, seed))
    else:
        for a in (1, 2):
            for ty in ("int", "bool", "str"):
                jobs.append(("enum", "x%s%d" % (ty[0], a), {"C31_NA": 2, "C31_A": a, "C31_TY": ty, "C31_FORMS": "all"}))
        jobs.append(("sim", "s0", {"C31_NA": 4, "C31_A": 0, "C31_TY": "all", "C31_FORMS": "none"}, 800, seed))
    pres, items, tlc_states, tlc_wall = {}, [], 0, 0.0
    for j in jobs:
        if j[0] == "enum":
            header, its, res = _tlc_enum(j[1], j[2], wd)
        else:
            header, its, res = _tlc_sim(j[1], j[2], j[3], j[4], wd)
        for p in header["pres"].values():
            pres[(p["a"], p["n"])] = p["pre"]
        items += its
        tlc_states += res.distinct
        tlc_wall += res.wall

    inmodel = [it for it in items if it.get("inmodel")]
    # ---- programs: many println lines per program; lines expected to fail at run time run alone
    alone = [it for it in inmodel if it["expect"]["status"] != "done"]
    groups = collections.defaultdict(list)
    for it in inmodel:
        if it["expect"]["status"] == "done":
            groups[(it["a"], it["n"])].append(it)
    batches = []
    for key in sorted(groups):
        g = groups[key]
        for i in range(0, len(g), BATCH):
            batches.append(g[i:i + BATCH])
    bcases = [{"id": "batch%05d" % i, "files": {"main.abra": pres[(b[0]["a"], b[0]["n"])] + "".join(x["line"] for x in b)}}
              for i, b in enumerate(batches)]
    bobs, hwall = vlib.run_harness(bcases, wd, name="batches", jobs=JOBS) if bcases else ([], 0.0)
    suspicious, batch_fail = [], 0
    for b, o in zip(batches, bobs):
        want = "".join(x["expect"]["out"] for x in b)
        if o.get("compile") == "ok" and o.get("status") == "done" and o.get("out") == want:
            continue
        lines = (o.get("out") or "").split("\n")
        if o.get("compile") == "ok" and o.get("status") == "done" and len(lines) == len(b) + 1:
            suspicious += [x for x, l in zip(b, lines) if x["expect"]["out"] != l + "\n"]
        else:
            batch_fail += 1
            suspicious += b
    # ---- every suspicious or error-expecting line again as the single program the spec defines
    scases = [_single(it, pres) for it in alone + suspicious]
    sobs, swall = vlib.run_harness(scases, wd, name="singles", jobs=JOBS) if scases else ([], 0.0)
    recorded = collections.Counter()
    mism_by_key = collections.Counter()
    new_keys = set()
    confirmed = 0
    for c, o in zip(scases, sobs):
        mism = vlib.compare(c["expect"], o)
        if not mism:
            continue
        confirmed += 1
        k = c.get("known")
        if k and not vlib.compare(k["expect"], o):
            key = k["key"]
            what = ("`%s`: a `-` directly in front of a numeric literal is folded into the literal before precedence is "
                    "applied; observed %r, the documented table gives %r" % (c["text"], o.get("out"), c["expect"].get("out")))
        else:
            key = "C31|" + c["text"]
            what = "`%s`: observed %r / %s, the documented table gives %r" % (
                c["text"], o.get("out"), o.get("status") or o.get("compile"), c["expect"])
            new_keys.add(key)
            if len(new_keys) > MAX_NEW_KEYS:
                mism_by_key["(further new keys not filed)"] += 1
                continue
        mism_by_key[key] += 1
        if recorded[key] < MAX_REPLAYS_PER_KEY:
            if rep.finding(key, c, o, mism, what):
                recorded[key] += 1
    batch_only = len(suspicious) - sum(1 for c, o in zip(scases[len(alone):], sobs[len(alone):]) if vlib.compare(c["expect"], o))

    ops = collections.Counter(op for it in inmodel for op in it["ops"])
    forms = collections.Counter(f for it in inmodel for f in it["forms"])
    depth = collections.Counter(str(it["depth"]) for it in inmodel)
    nontrivial = {(it["a"], it["text"]) for it in inmodel if it["ops"]}
    fam = [it for it in inmodel if "known" in it]
    exh = [it for it in items if it["src"] == "exhaustive"]
    rep.coverage = {
        "programs": len(inmodel), "disagreements_checked": len(inmodel),
        "evaluations": len(inmodel), "distinct_nontrivial": len(nontrivial),
        "rule": "one evaluation = one expression tree printed with minimal parentheses and compared with the value of the tree "
                "under the documented table; non-trivial = at least one operator and inside the reference model (|int| < 2^30); "
                "distinct = distinct (value assignment, expression text). Exhaustive part: every well-typed tree of depth <= 2 over "
                "all 15 binary and 2 prefix operators (%s); sample part: tlc -simulate seed %d, depth <= 3, all leaf forms"
                % ("int-typed trees with every leaf-form combination; bool- and string-typed trees with all int leaves in one form and all "
                   "bool leaves in one form (3 of the 6 form pairs); 1 value assignment" if quick else
                   "every leaf-form combination, 2 value assignments", seed),
        "exhaustive": True, "exhaustive_depth2_trees": len(exh), "sampled_depth3_trees": len(items) - len(exh),
        "generated": len(items), "out_of_model_discarded": len(items) - len(inmodel),
        "expected_runtime_errors": len(alone), "with_parentheses": sum(1 for it in inmodel if it["parens"] > 0),
        "per_operator": dict(sorted(ops.items())), "per_leaf_form": dict(sorted(forms.items())), "per_depth": dict(sorted(depth.items())),
        "known_family_cases": len(fam),
        "known_family_value_visible": sum(1 for it in fam if it["expect"] != it["known"]["expect"]),
        "harness_programs": len(bcases) + len(scases), "batches": len(bcases), "batches_failed_as_a_whole": batch_fail,
        "lines_rerun_alone": len(scases), "mismatch_only_inside_batch": batch_only, "confirmed_mismatches": confirmed,
        "mismatches_by_key": dict(mism_by_key), "tlc_states": tlc_states, "tlc_wall_s": round(tlc_wall, 1),
        "harness_wall_s": round(hwall + swall, 1),
        "samples": vlib.sample_cases([_single(it, pres) for it in (fam[:1] + inmodel[-2:])], 3),
    }
    rep.assumptions = [
        "spec/front/Prec.tla transcribes the table of book/src/language_reference/operators.md; the grammar it denotes is "
        "precedence climbing with left associativity, a prefix operator of precedence p taking everything that binds tighter than p",
        "values come from spec/lang/AbraSem.tla (ints |n| < 2^30); grouping is observed through values under 1-4 fixed value assignments, "
        "so a mis-grouping that does not change the value under these assignments is not seen",
        "separate `println(e)` lines of one program do not influence each other (used for throughput only: every line that "
        "disagrees inside a batch is re-run alone before it is reported)",
    ]
    return rep.finish()
