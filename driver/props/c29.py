"""C29: comments and optional separators never change a program.

spec/front/Trivia.tla states the law and defines the re-printing (Variant) of a canonical rendering with line comments,
block comments, blank lines, `;` / line break between statements and line break / `,` between list elements;
spec/props/C29.tla emits, per base program, the canonical case with the outcome predicted by the reference semantics and
the variants (each naming the canonical case it must agree with, the fields to compare and the predicted outcome).
This driver runs everything through the harness and compares JSON: canonical vs prediction (a disagreement there is not a
C29 matter: counted, its variants skipped), variant vs canonical observation and vs prediction."""
import collections
import glob
import json
import os

import vlib

MODULE = os.path.join(vlib.SPEC, "props", "C29.tla")
CFG_SIM = os.path.join(vlib.SPEC, "props", "C29.cfg")
CFG_EX = os.path.join(vlib.SPEC, "props", "C29Ex.cfg")
MAX_REPLAYS_PER_KEY = 3
JOBS = int(os.environ.get("VERIF_JOBS", "4"))     # harness worker processes (shared machine: keep small)
MAX_NEW_KEYS = 25


def _sim(tag, n, seed, wd):
    outdir = os.path.join(wd, "gen_" + tag)
    os.makedirs(outdir, exist_ok=True)
    res = vlib.tlc(MODULE, cfg=CFG_SIM, env={"OUTDIR": outdir, "C29_LEN": 0}, simulate=n, depth=3, seed=seed, timeout=900,
                   workers=1, xmx="3g", metadir=os.path.join(wd, "meta_" + tag))
    vlib.tlc_ok(res, "C29 generation " + tag)
    groups = []
    for f in sorted(glob.glob(os.path.join(outdir, "*.json")), key=lambda p: (len(p), p)):
        with open(f) as fh:
            g = json.load(fh)
        g["base"]["id"] = tag + g["base"]["id"]
        for v in g["variants"]:
            v["id"] = tag + v["id"]
            v["same_as"] = tag + v["same_as"]
        groups.append(g)
    if not groups:
        raise vlib.ToolError("C29 generation %s: nothing generated" % tag)
    return groups, res


def _exhaustive(maxlen, wd):
    res = vlib.tlc(MODULE, cfg=CFG_EX, env={"C29_LEN": maxlen, "OUTDIR": wd}, timeout=900, workers=1, xmx="3g",
                   metadir=os.path.join(wd, "meta_ex"))
    vlib.tlc_ok(res, "C29 exhaustive comment texts")
    recs = res.cases()
    base = [r for r in recs if r.get("id") == "fixed"]
    vs = [r for r in recs if r.get("id") != "fixed"]
    if len(base) != 1 or len(vs) + 1 != res.distinct:
        raise vlib.ToolError("C29 exhaustive: %d cases for %d states" % (len(recs), res.distinct))
    for i, v in enumerate(vs):
        v["id"] = "x%05d" % i
    return [{"base": base[0], "variants": vs}], res


def _first_line(text):
    for l in (text or "").splitlines():
        l = l.strip()
        if l:
            return l[:80]
    return ""


def run(prop, tier, seed):
    rep = vlib.Report(prop, tier, seed, "translation_validation")
    wd = vlib.workdir(prop)
    quick = tier == "quick"
    # one TLC process at a time (shared machine)
    results = [_exhaustive(2 if quick else 3, wd)]
    for k in range(1 if quick else 3):
        results.append(_sim("s%d" % k, 20 if quick else 70, seed * 16 + k, wd))
    groups = [g for r in results for g in r[0]]
    tlc_states = sum(r[1].distinct for r in results)
    tlc_wall = sum(r[1].wall for r in results)

    cases = []
    for g in groups:
        cases.append(g["base"])
        cases += g["variants"]
    obs, hwall = vlib.run_harness(cases, wd, name="cases", jobs=JOBS)
    by_id = {c["id"]: o for c, o in zip(cases, obs)}

    recorded, mism_by_key, new_keys = collections.Counter(), collections.Counter(), set()
    n_base_bad = n_base_nocompile = n_base_outmodel = n_checked = n_differs = 0
    kinds = collections.Counter()
    nblock = 0
    fam = 0
    fam_mismatch = 0
    checked_variants = []
    nontrivial_texts = set()
    for g in groups:
        b = g["base"]
        ob = by_id[b["id"]]
        if ob.get("compile") != "ok":
            n_base_nocompile += 1       # generator / typing mismatch or C03 matter: not a C29 statement
            continue
        if b.get("inmodel"):
            if vlib.compare(b["expect"], ob):
                n_base_bad += 1         # the canonical text already disagrees with the reference semantics: C02's finding
                continue
        else:
            n_base_outmodel += 1        # no prediction: the variants are still compared with the canonical observation
        for v in g["variants"]:
            ov = by_id[v["id"]]
            n_checked += 1
            kinds[v["kind"]] += 1
            nblock += v.get("nblock", 0)
            if v["files"]["main.abra"] != b["files"]["main.abra"]:
                n_differs += 1
                nontrivial_texts.add(v["files"]["main.abra"])
            checked_variants.append(v)
            if not b.get("inmodel"):
                v.pop("expect", None)       # no prediction outside the reference model: only the relation is checked
            if "known" in v:
                fam += 1
            mism = []
            for f in v["cmp"]:
                if ov.get(f) != ob.get(f):
                    mism.append({"field": f, "want": ob.get(f), "got": ov.get(f), "relation": "same as " + v["same_as"]})
            if (ov.get("err") or {}).get("kind") != (ob.get("err") or {}).get("kind"):
                mism.append({"field": "errkind", "want": (ob.get("err") or {}).get("kind"), "got": (ov.get("err") or {}).get("kind"),
                             "relation": "same as " + v["same_as"]})
            if "expect" in v:
                mism += [m for m in vlib.compare(v["expect"], ov) if m["field"] not in [x["field"] for x in mism]]
            if not mism:
                continue
            if "known" in v:
                key = v["known"]["key"]
                fam_mismatch += 1
                what = "a block comment whose body contains `*` or `/` is not skipped as a whole: %s instead of %s" % (
                    ov.get("compile") if ov.get("compile") != "ok" else ov.get("status"), ob.get("status"))
            else:
                detail = "compile:" + _first_line(ov.get("diag_text") or ov.get("panic")) if ov.get("compile") != "ok" \
                    else ",".join(m["field"] for m in mism)
                key = "C29|%s|%s" % (v["kind"], detail)
                what = "re-printed program (%s) behaves differently from the canonical text: %s" % (v["kind"], json.dumps(mism)[:300])
                new_keys.add(key)
                if len(new_keys) > MAX_NEW_KEYS:
                    mism_by_key["(further new keys not filed)"] += 1
                    continue
            mism_by_key[key] += 1
            if recorded[key] < MAX_REPLAYS_PER_KEY:
                if rep.finding(key, v, ov, mism, what):
                    recorded[key] += 1

    rep.coverage = {
        "programs": len(groups), "disagreements_checked": n_checked,
        "evaluations": n_checked, "distinct_nontrivial": len(nontrivial_texts),
        "rule": "one evaluation = one re-printed program compared with its canonical rendering (compile, status, output, result, "
                "error kind) and with the outcome predicted by the reference semantics; non-trivial = the text differs from the "
                "canonical text; distinct = distinct texts. Random part: AbraGen programs (tlc -simulate, seed %d) x 8 plans (line "
                "comments, blank lines, `;` joins, line break for `,`/inline `;`, block comments without / with `*` `/`, 2 x mix); "
                "exhaustive part: every block comment body / line comment text of length <= %d over {a * / space \" newline|'} at "
                "6 / 4 insertion points of a fixed program" % (seed, 2 if quick else 3),
        "exhaustive": True, "variants_differing_from_canonical": n_differs,
        "per_kind": dict(sorted(kinds.items())), "block_comments_inserted": nblock,
        "canonical_not_compiled_skipped": n_base_nocompile, "canonical_disagrees_with_reference_skipped": n_base_bad,
        "canonical_out_of_model_relational_only": n_base_outmodel,
        "known_family_cases": fam, "known_family_mismatches": fam_mismatch,
        "mismatches_by_key": dict(mism_by_key), "harness_programs": len(cases),
        "tlc_states": tlc_states, "tlc_wall_s": round(tlc_wall, 1), "harness_wall_s": round(hwall, 1),
        "samples": vlib.sample_cases([v for v in checked_variants if v["kind"] == "mix"][:1] + checked_variants[:1], 2),
    }
    if n_base_nocompile * 5 > len(groups):
        raise vlib.ToolError("%d of %d canonical programs did not compile: generator out of sync" % (n_base_nocompile, len(groups)))
    rep.assumptions = [
        "Render.tla's canonical text separates tokens by single blanks and writes list / inline statement separators as ', ' / '; ' "
        "(token boundaries are recognised on that text, outside string literals)",
        "outcome = compile status, run status, output, result value, error kind; line numbers in error locations legitimately move and "
        "are not compared for variants",
        "programs are limited to AbraGen's grammar; the reference prediction needs ints |n|<2^30 and dyadic floats (otherwise only the "
        "relation variant = canonical is checked)",
    ]
    return rep.finish()
