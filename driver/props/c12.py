"""C12: an accepted match always has a matching arm; reported gaps are real.

Oracle (all in TLA+): spec/front/AbraMatch.tla Exhaustive / Unmatched by brute force over Values(ty);
the compiler must report `doesn't cover every case` exactly for the non-exhaustive arm lists, every missing
pattern it lists must cover an unmatched value (decided by TLC in spec/props/C12W.tla), and every accepted
match must run one of its arms for every value of the type."""
import vlib
from props import cmatch


def solo_case(b, m, expect):
    return {"id": "%s_m%s" % (b["id"], m["g"]), "mode": "check", "diags": True,
            "files": {"main.abra": "\n".join(b["header"] + m["fn"]) + "\n"}, "expect": expect,
            "type": m["tyname"], "arms": m["armstxt"]}


def run(prop, tier, seed):
    rep = vlib.Report(prop, tier, seed, "translation_validation")
    wd = vlib.workdir(prop)
    lim = cmatch.Limiter(rep)
    batches, info = cmatch.generate(prop, tier, seed, wd, calls=True)
    per, sinfo = cmatch.static_observe(batches, wd)

    # ---- (1) reported non-exhaustive  <=>  not Exhaustive
    n_cmp = n_rejected = n_panics = 0
    wit_records, wit_index = [], {}
    for b in batches:
        for m in b["matches"]:
            r = per[(b["id"], m["g"])]
            if "anomaly" in r:
                n_panics += 1
                lim.finding(m["key12fail"],
                            solo_case(b, m, {"check": "diag" if not m["exhaustive"] or any(m["redundant"]) else "ok"}),
                            r["anomaly"], [{"field": "check", "want": "a verdict", "got": r["anomaly"].get("check")}],
                            "the checker neither accepts nor rejects match %s over %s: %s" % (
                                m["armstxt"], m["tyname"], str(r["anomaly"].get("check_panic") or r["anomaly"])[:200]))
                continue
            n_cmp += 1
            if r["nonexh"] != (not m["exhaustive"]):
                want = "diag" if not m["exhaustive"] or any(m["redundant"]) else "ok"
                lim.finding(m["key12"], solo_case(b, m, {"check": want}),
                            {"nonexhaustive_reported": r["nonexh"], "missing": r["wits"]},
                            [{"field": "nonexhaustive_reported", "want": not m["exhaustive"], "got": r["nonexh"]}],
                            "match over %s with arms [%s]: specification says %s (%d of %d values unmatched), compiler %s%s" % (
                                m["tyname"], m["armstxt"], "exhaustive" if m["exhaustive"] else "NOT exhaustive",
                                m["nunmatched"], m["nvalues"], "reports it non-exhaustive" if r["nonexh"] else "accepts it",
                                (" (missing: %s)" % ", ".join(r["wits"])) if r["wits"] else ""))
            if r["nonexh"]:
                n_rejected += 1
                rid = "%s/%s" % (b["id"], m["g"])
                wit_index[rid] = (b, m, r)
                wit_records.append({"id": rid, "ti": m["ti"], "arms": m["arms"], "texts": r["wits"],
                                    "wits": [cmatch.parse_witness(w) for w in r["wits"]]})

    # ---- (2) every reported missing pattern covers an unmatched value (TLC decides)
    verdicts, wres = cmatch.validate_witnesses(prop, tier, wit_records, wd)
    vcount = {}
    n_lenient = 0
    for rid, v in verdicts.items():
        b, m, r = wit_index[rid]
        if not v["verdicts"] and not m["exhaustive"]:
            lim.finding("C12|non-exhaustive-report-without-missing-patterns|%s|%s" % (m["tyname"], m["armstxt"]),
                        solo_case(b, m, {"check": "diag"}), {"missing": r["wits"]},
                        [{"field": "missing", "want": "at least one pattern", "got": []}], "no missing pattern listed")
        n_lenient += sum(1 for x in v["lenient"] if x)
        for w, vd, key in zip(r["wits"], v["verdicts"], v["keys"]):
            vcount[vd] = vcount.get(vd, 0) + 1
            if vd in ("bad", "empty"):
                lim.finding(key, solo_case(b, m, {"check": "diag"}), {"missing": r["wits"]},
                            [{"field": "missing pattern", "want": "covers an unmatched value", "got": w, "verdict": vd}],
                            "match over %s with arms [%s]: reported missing pattern `%s` %s" % (
                                m["tyname"], m["armstxt"], w,
                                "is not a pattern of the scrutinee type" if vd == "bad" else "covers no unmatched value"))

    # ---- (3) accepted matches run one of their arms for every value
    rows, _rej, rinfo = cmatch.run_matches(batches, lambda b, m: cmatch.accepted(per.get((b["id"], m["g"]))), wd)
    n_calls = 0
    for b, m, c, line, status in rows:
        if status.startswith("notaccepted:"):
            continue
        n_calls += 1
        ok = status == "done" and line is not None and any(line == p or line.startswith(p + ":") for p in m_prefixes(m))
        if not ok:
            case = {"id": "%s_m%s_v%d" % (b["id"], m["g"], m["calls"].index(c)),
                    "files": {"main.abra": "\n".join(b["header"] + m["fn"] + [c["stmt"]]) + "\n"},
                    "expect": {"status": "done"}, "type": m["tyname"], "arms": m["armstxt"]}
            lim.finding(m["key12run"], case,
                        {"status": status, "line": line},
                        [{"field": "out", "want": {"oneof-prefix": m_prefixes(m)}, "got": line}],
                        "accepted match over %s [%s]: %s did not run one of the arms (status %s, printed %r)" % (
                            m["tyname"], m["armstxt"], c["stmt"], status, line))

    uni = cmatch.universe_counts(batches)
    ms = [(b, m) for b in batches for m in b["matches"]]
    samples = [cmatch.sample_match(b, m) for b, m in ms if not m["exhaustive"] and len(m["arms"]) == 2][:1] + \
              [cmatch.sample_match(b, m) for b, m in ms if m["exhaustive"] and m["hasor"] and len(m["arms"]) == 2][:1]
    cov = dict(uni)
    cov.update({
        "programs": len(ms), "disagreements_checked": n_cmp + sum(vcount.values()) + n_calls,
        "evaluations": n_cmp + sum(vcount.values()) + n_calls, "distinct_nontrivial": uni["distinct_arm_lists"],
        "rule": "every type of MatchCases!TyU x every arm list over Pool[ti] up to MaxLen(ti) (tlc model checking, states = files of "
                "20 matches) + sampled lists of 2..5 arms (tlc -simulate -seed %d); non-trivial = distinct (type, arm list); each is "
                "compared on: non-exhaustive reported <=> ~Exhaustive; each reported missing pattern judged by TLC (C12W); each "
                "accepted match run on every value of Values(ty)" % seed,
        "exhaustive": True,
        "static_verdicts_compared": n_cmp, "compiler_reported_nonexhaustive": n_rejected,
        "missing_patterns_judged_by_tlc": sum(vcount.values()), "missing_pattern_verdicts": vcount,
        "missing_patterns_read_leniently": n_lenient,
        "runtime_calls_checked": n_calls, "checker_failures": n_panics,
        "universe": info["sizes"], "tlc_states": info["tlc_states"], "tlc_wall_s": info["tlc_wall_s"],
        "sim_behaviours": info["sim_files"], "samples": samples,
    })
    cov.update(sinfo)
    cov.update(rinfo)
    cov["disagreeing_cases_by_family"] = lim.summary()
    if wres is not None:
        cov["witness_tlc_wall_s"] = round(wres.wall, 1)
    rep.coverage = cov
    rep.assumptions = [
        "spec/front/AbraMatch.tla transcribes patterns.md / enums.md / structs.md; int, float, string are represented by the pool "
        "literals plus one fresh value (sound for patterns that mention only pool literals)",
        "exhaustive only up to the enumerated lengths (MaxLen per type); longer lists and top-level or-patterns of the larger types are sampled",
        "diagnostics are attributed to matches by the line numbers the specification emitted with the text",
    ]
    cmatch.clean_big_dirs(wd)
    return rep.finish()


def m_prefixes(m):
    return m["prefixes"]
