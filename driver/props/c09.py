"""C09: channels deliver each value once, in order, as a valid independent copy."""
import json
import os
import vlib
from props import schedlib, c06

PROPS = os.path.join(vlib.SPEC, "props")
VM = os.path.join(vlib.SPEC, "vm")


def run(prop, tier, seed):
    rep = vlib.Report(prop, tier, seed, "model_checking")
    wd = vlib.workdir(prop)
    cov = {}
    schedlib.model_check(wd, ["NoUseAfterFree", "Fifo", "Confluence"], tier, cov)
    scn = schedlib.scenario_cases(wd)
    # producer/consumer programs with heap payloads of several kinds, generated from spec/props/C09gen.tla
    gen, gres = vlib.gen_enumerate(prop, os.path.join(PROPS, "C09gen.tla"))
    progs = scn + gen
    d_tasks = schedlib.drives(wd, "Slicing_tasks" if tier == "quick" else "Slicing_tasks_thorough")
    # collection schedules (the writer or the reader collects between write and read)
    lens = os.path.join(wd, "lens.ndjson")
    vlib.write_ndjson(lens, [{"id": "any", "steps": 120}])
    pdir = os.path.join(wd, "plans")
    os.makedirs(pdir, exist_ok=True)
    res = vlib.tlc(os.path.join(VM, "GcPlan.tla"), cfg=os.path.join(VM, "GcPlan.cfg"), env={"LENS": lens, "OUTDIR": pdir}, timeout=600)
    vlib.tlc_ok(res, "GcPlan")
    plans = [p["gc"] for p in vlib.load_ndjson(os.path.join(pdir, "plans_any.ndjson"))]
    cases = []
    k = 0
    for c in progs:
        for i, d in enumerate(d_tasks):
            # every drive with native pacing; a rotating collection schedule on top
            # quarantine turns stale accesses into observations but also keeps reclaimed objects (and what they own) alive,
            # which would hide a message that depends on its writer's heap in other ways: alternate
            extra = {"maxsteps": 60000, "quarantine": i % 2 == 0}
            gc = plans[k % len(plans)]
            k += 1
            if gc.get("mode") != "native":
                extra["gc"] = gc
            if tier != "quick" or i % 4 == 0:
                extra["trace"] = 8
            cases.append(schedlib.with_drive(c, i, d, extra))
    # compositional payloads (spec/props/C08deep.tla with Via = "send"): a mutable array at the end of every path of value
    # constructors is sent, both ends mutate their value afterwards; the reader's copy is independent of the writer's
    deep, dres = vlib.gen_enumerate(prop, os.path.join(PROPS, "C08deep.tla"),
                                    cfg=os.path.join(PROPS, "C09deep.cfg" if tier == "quick" else "C09deep_thorough.cfg"))
    cov["compositional_payload_programs"] = len(deep)
    for j, c in enumerate(deep):
        for i, d in enumerate(d_tasks):
            if (i + j) % (10 if tier == "quick" else 4) == 0:
                extra = {"maxsteps": 60000, "quarantine": (i + j) % 2 == 0}
                gc = plans[k % len(plans)]
                k += 1
                if gc.get("mode") != "native":
                    extra["gc"] = gc
                cases.append(schedlib.with_drive(c, i, d, extra))
    obs, _ = vlib.run_harness(cases, wd, jobs=12, timeout=40)
    for c, o in zip(cases, obs):
        mism = vlib.compare(c["expect"], o)
        if mism:
            kind = o.get("status") if o.get("status") in ("uaf", "panic", "abort") else "output"
            rep.finding("C09|%s|%s" % (kind, c["id"].split("@")[0]), c, o, mism,
                        "budgets %s delay %d gc %s: %s %s" % (c["budgets"], c["delay"], json.dumps(c.get("gc")), o.get("status"), o.get("panic", "")))
    runs = [(c, o) for c, o in zip(cases, obs) if o.get("events")]
    schedlib.validate_traces(rep, prop, runs, wd, cov)
    cov.update({
        "traces_validated_against_impl": len(runs),
        "evaluations": len(cases), "distinct_nontrivial": len({c["id"] for c in cases}),
        "rule": "producer/consumer program x embedder drive x collection schedule; distinct = distinct (program, drive)",
        "programs": len(progs), "payload_programs": len(gen), "drives": len(d_tasks), "gc_plans": len(plans),
        "samples": [{"id": c["id"], "budgets": c["budgets"], "delay": c["delay"], "gc": c.get("gc"), "source": c["files"]["main.abra"][:400]}
                    for c in (cases[:1] + cases[-1:])],
    })
    rep.coverage = cov
    rep.assumptions = ["messages are identified by content (every written value is distinct within a program)",
                       "quarantine hook turns use of reclaimed memory into an observation"]
    return rep.finish()
