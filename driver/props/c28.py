"""C28: values are rendered as text exactly as documented.
spec/lib2/Show.tla defines the documented rendering; spec/props/C28.tla enumerates types/values and emits
programs with the expected output; the harness runs them; this module only compares."""
import collections
import os
import vlib
from props import bcommon


# the opaque tokens of C28.tla (TLA+ strings are ASCII): replaced alike in the program text and in the expected output
TOKENS = {"~U1~": "\u00e9", "~U2~": "\u2192\U0001F600", "~U3~": "e\u0301"}


def subst(x):
    if isinstance(x, str):
        for k, v in TOKENS.items():
            x = x.replace(k, v)
        return x
    if isinstance(x, list):
        return [subst(v) for v in x]
    if isinstance(x, dict):
        return {k: subst(v) for k, v in x.items()}
    return x


def non_ascii(c):
    c["files"] = subst(c["files"])
    c["expect"] = subst(c["expect"])


def run(prop, tier, seed):
    rep = vlib.Report(prop, tier, seed, "translation_validation")
    wd = vlib.workdir(prop)
    mod = os.path.join(vlib.SPEC, "props", "C28.tla")
    env = {"TIER": tier, "SEED": str(seed)}
    enum_cases, res_e = bcommon.gen_enumerate(prop, mod, env=env, timeout=800)
    nrand = 100 if tier == "quick" else 1500
    rand_cases, res_r = bcommon.gen_simulate(prop, mod, nrand, seed, env=env, timeout=800,
                                          cfg=os.path.join(vlib.SPEC, "props", "C28R.cfg"))
    cases = enum_cases + rand_cases
    if not cases:
        raise vlib.ToolError("C28 generator produced no cases")
    for c in cases:
        c["maxsteps"] = 20000000
        non_ascii(c)
    obs = bcommon.run_harness(cases, wd, timeout=30)[0]
    not_compiled = 0
    for c, o in zip(cases, obs):
        if o.get("compile") != "ok":
            # every emitted program is well typed according to the language reference: a rejected or crashing
            # compilation is a finding against the rendering check's input class, reported under its own key
            not_compiled += 1
            rep.finding("C28|compile|" + c["ty"], c, o, [{"field": "compile", "want": "ok", "got": o.get("compile")}],
                        "program rendering values of type %s did not compile: %s" % (c["ty"], (o.get("diag_text") or o.get("panic") or "")[:200]))
            continue
        mism = vlib.compare(c["expect"], o)
        if mism:
            rep.finding(c["key"], c, o, mism, "rendered text of values of type %s differs from spec/lib2/Show.tla" % c["ty"])
    if not_compiled * 20 > len(cases):
        raise vlib.ToolError("%d of %d generated programs did not compile: generator out of sync" % (not_compiled, len(cases)))
    by_fam = collections.Counter(c["fam"] for c in cases)
    by_ctor = collections.Counter(c["ctor"] for c in cases)
    by_depth = collections.Counter(str(c["depth"]) for c in cases)
    values = sum(c["nvals"] for c in cases)
    lines = sum(c["nlines"] for c in cases)
    distinct = len({c["files"]["main.abra"] for c in cases})
    rep.coverage = {
        "programs": len(cases), "disagreements_checked": len(cases) - not_compiled,
        "evaluations": lines, "distinct_nontrivial": distinct,
        "rule": "one program per type; evaluations = rendered texts compared (values x 7 routes: println, print, str..x, x..str, "
                "x..x, x.str(), ToString.str(x)); distinct = distinct program texts. F0/F1: all leaf and depth-1 types over "
                "{int,bool,void,string,float} (quick: a seeded fifth of the 625 four-tuples); F2/F3: all chains of 8 one-hole constructor contexts of depth 2/3 over the 5 leaves "
                "(F3: %s); R: tlc -simulate seed %d random types depth<=3, tuples<=4, arrays width<=3" %
                ("all 2560" if tier == "thorough" else "seeded 1/16 sample", seed),
        "exhaustive": True,
        "types_by_family": dict(by_fam), "types_by_outer_constructor": dict(by_ctor), "types_by_depth": dict(by_depth),
        "values_rendered": values, "programs_with_empty_arrays": sum(1 for c in cases if c["empties"]),
        "not_compiled": not_compiled, "tlc_states_enumeration": res_e.distinct, "tlc_states_random": res_r.generated,
        "tlc_wall_s": round(res_e.wall + res_r.wall, 1),
        "samples": vlib.sample_cases([cases[0], cases[len(enum_cases) // 2], cases[-1]], 3),
    }
    rep.assumptions = [
        "spec/lib2/Show.tla transcribes the documented rendering (builtin_types.md, operators.md, interfaces.md)",
        "the spelling of an EMPTY array is not documented: any of '[  ]', '[ ]', '[]' is accepted, uniformly per program",
        "floats: only exact dyadic values n/2^e (e<=12, |n|<2^30); ints beyond 32 bits only as the boundary literals MIN/MAX; "
        "non-ASCII text only as three fixed sequences (2-, 3-, 4-byte characters, a combining mark) inside two of the string values",
        "types are exhaustive to depth 1 and over constructor chains to depth 3; values per type are a covering set "
        "(every leaf value, widths 0..3, none/some, ok/err), not the full product",
    ]
    return rep.finish()
