"""C16: float arithmetic, conversions and comparisons follow the spec.

Orchestration only.  spec/props/C16.tla (on top of spec/lib/Flt.tla, an exact IEEE-754 binary64 model) enumerates
operand pairs x operators x operand forms and emits per operation: statements, the bit patterns the host function
getf()/geti() must supply, and the expected observation (exact bits | one of the NaN patterns | error kind | open).
This driver concatenates statements into programs, runs them on the real compiler + VM, compares, checks the
relational law "all operand forms of one operation agree" (groups given by the spec) and hands the observed
comparison truth tables to spec/props/C16Laws.tla, which validates the total-order laws with TLC."""
import collections
import json
import os
import re
import vlib
from props import vmlib
from props.c15 import tlc_enumerate, tlc_simulate, TLC_XMX, HARNESS_JOBS

BATCH = 150
CMPNAME = {"<": "lt", "<=": "le", ">": "gt", ">=": "ge", "==": "eq", "!=": "ne"}


def program(meta, pid, ops):
    hostfns = []
    for h in meta["hostfns"]:
        h = dict(h)
        if h["name"] == "getf":
            h["rets"] = [r for o in ops for r in o["frets"]]
        if h["name"] == "geti":
            h["rets"] = [r for o in ops for r in o["irets"]]
        hostfns.append(h)
    return {"id": pid, "files": {"main.abra": meta["header"] + "".join(o["stmts"] for o in ops)},
            "hostfns": hostfns, "ops": [o["id"] for o in ops]}


def vexpect(o):
    """the spec's expectation of a one-operation program as a vlib.compare expectation (used by ./check --replay):
    the host log is the getf()/geti() calls of the statements followed by the report call"""
    gets = [{"f": "getf", "args": [], "tid": 0} for _ in o["frets"]] + [{"f": "geti", "args": [], "tid": 0} for _ in o["irets"]]
    e = o["exp"]
    call = lambda args: {"f": o["rep"], "args": args, "tid": 0}
    if e["k"] == "eq":
        return {"compile": "ok", "status": "done", "host": gets + [call(e["args"])]}
    if e["k"] == "oneof":
        return {"compile": "ok", "status": "done", "host": {"oneof": [gets + [call(a)] for a in e["alts"]]}}
    if e["k"] == "err":
        return {"compile": "ok", "status": "error", "errkind": e["errkind"], "host": gets}
    return {"compile": "ok", "status": "done"}


def reports(o):
    return [h["args"] for h in o.get("host", []) if h.get("f", "").startswith("report")]


def sig_single(o):
    """observation of a one-operation program as plain JSON"""
    if o.get("compile") != "ok":
        return {"k": "compile-" + str(o.get("compile"))}
    if o.get("status") == "done":
        r = reports(o)
        return {"k": "val", "args": r[0]} if len(r) == 1 else {"k": "reports=%d" % len(r)}
    if o.get("status") == "error":
        return {"k": "err", "errkind": (o.get("err") or {}).get("kind")}
    return {"k": str(o.get("status"))}


def agrees(exp, sig):
    if exp["k"] == "any":
        return sig["k"] == "val"
    if exp["k"] == "eq":
        return sig["k"] == "val" and sig["args"] == exp["args"]
    if exp["k"] == "oneof":
        return sig["k"] == "val" and sig["args"] in exp["alts"]
    if exp["k"] == "err":
        return sig["k"] == "err" and sig["errkind"] == exp["errkind"]
    raise vlib.ToolError("unknown expectation kind %r" % exp)


def klass(meta, sig):
    if sig["k"] == "val":
        return "nan" if sig["args"] and sig["args"][0] in meta["nan"] else "val"
    if sig["k"] == "err":
        return str(sig["errkind"])
    return sig["k"]


def run(prop, tier, seed):
    rep = vlib.Report(prop, tier, seed, "translation_validation")
    wd = vlib.workdir(prop)
    props = os.path.join(vlib.SPEC, "props")
    mod = os.path.join(props, "C16.tla")
    quick = tier == "quick"

    # ---- TLC: exhaustive grid + seeded random bit patterns
    gcases, gres = tlc_enumerate(prop, mod, os.path.join(props, "C16.cfg" if quick else "C16_full.cfg"))
    meta = [c for c in gcases if c.get("id") == "meta"]
    gpairs = [c for c in gcases if c.get("id") != "meta"]
    if not meta or not gpairs:
        raise vlib.ToolError("grid: TLC emitted no cases")
    meta = meta[0]
    ng = len(meta["grid"])
    if len(gpairs) != ng * ng + 1:
        raise vlib.ToolError("grid enumeration incomplete: %d records for a grid of %d values" % (len(gpairs), ng))
    rcases, rres = tlc_simulate(prop, mod, os.path.join(props, "C16_random.cfg"), 20 if quick else 600, seed)
    rwall, rstates = rres.wall, rres.generated
    rpairs = [c for c in rcases if c.get("id") != "meta"]
    pairs = gpairs + rpairs
    ops = [o for p in pairs for o in p["ops"]]
    byid = {o["id"]: o for o in ops}
    if len(byid) != len(ops):
        raise vlib.ToolError("duplicate operation ids")

    # ---- round 1: batches of operations that are expected to return, single programs for the rest
    progs = []
    batchable = [o for o in ops if not o["solo"]]
    for i in range(0, len(batchable), BATCH):
        progs.append(program(meta, "b%d" % (i // BATCH), batchable[i:i + BATCH]))
    nbatches = len(progs)
    progs += [program(meta, "s." + o["id"], [o]) for o in ops if o["solo"]]
    obs, wall1 = vlib.run_harness(progs, wd, name="round1", timeout=60, jobs=HARNESS_JOBS)
    sig = {}      # op id -> observation signature
    raw = {}      # op id -> (program, raw observation)
    redo = []
    for c, o in zip(progs, obs):
        if len(c["ops"]) == 1:
            sig[c["ops"][0]] = sig_single(o)
            raw[c["ops"][0]] = (c, o)
            continue
        r = reports(o)
        if o.get("compile") == "ok" and o.get("status") == "done" and len(r) == len(c["ops"]):
            for i, a in zip(c["ops"], r):
                sig[i] = {"k": "val", "args": a}
                raw[i] = (c, o)
            if all(agrees(byid[i]["exp"], sig[i]) for i in c["ops"]):
                continue
        redo += c["ops"]      # something stopped or disagreed: look at every operation of the batch on its own
    wall2 = 0.0
    if redo:
        progs2 = [program(meta, "s." + i, [byid[i]]) for i in redo]
        obs2, wall2 = vlib.run_harness(progs2, wd, name="round2", timeout=60, jobs=HARNESS_JOBS)
        for c, o in zip(progs2, obs2):
            sig[c["ops"][0]] = sig_single(o)
            raw[c["ops"][0]] = (c, o)
    if len(sig) != len(ops):
        raise vlib.ToolError("lost operations: %d observations for %d operations" % (len(sig), len(ops)))
    diag = [o for o in ops if sig[o["id"]]["k"] == "compile-diag"]
    if diag:
        raise vlib.ToolError("%d generated programs were rejected by the compiler (generator out of sync), e.g. %s: %s" % (
            len(diag), diag[0]["stmts"], raw[diag[0]["id"]][1].get("diag_text", "")[:300]))

    # ---- (1) expectation of every operation
    disagree = collections.Counter()
    failed = set()
    for o in ops:
        s = sig[o["id"]]
        if agrees(o["exp"], s):
            continue
        failed.add(o["id"])
        want = {"eq": "val", "oneof": "nan", "any": "val", "err": o["exp"].get("errkind")}[o["exp"]["k"]]
        got = klass(meta, s)
        if want == "val" and got == "val":
            got = "wrongval"
        key = "%s|want=%s|got=%s" % (o["key"] or ("C16|" + o["op"]), want, got)
        disagree[key] += 1
        c, ob = raw[o["id"]]
        rep.finding(key, dict(program(meta, "s." + o["id"], [o]), op=o["op"], form=o["form"], expect=vexpect(o)), raw[o["id"]][1],
                    [{"field": "observation", "want": o["exp"], "got": s}],
                    "float `%s` (form %s): expected %s, observed %s; program: %s (getf -> %s)" % (
                        o["op"], o["form"], o["exp"], s, o["stmts"].replace("\n", "; "), o["frets"]))

    # ---- (2) relational law: the operand forms of one operation agree (only informative where the result is not
    #          already pinned to a single value by the model)
    groups = collections.defaultdict(list)
    for o in ops:
        groups[o["grp"]].append(o)
    rel_checked = 0
    for g, members in groups.items():
        if len(members) < 2 or all(m["exp"]["k"] in ("eq", "err") for m in members):
            continue
        ref = next((m for m in members if m["form"] in ("VV", "UV", "V")), members[0])
        for m in members:
            if m is ref or m["id"] in failed or ref["id"] in failed:
                continue
            rel_checked += 1
            if sig[m["id"]] != sig[ref["id"]]:
                key = "%s|%s-vs-%s" % (m["relkey"] or ("C16|%s|forms-differ" % m["op"]), m["form"], ref["form"])
                disagree[key] += 1
                rep.finding(key, dict(program(meta, "s." + m["id"], [m]), op=m["op"], form=m["form"], reference=ref["stmts"]),
                            raw[m["id"]][1], [{"field": "observation", "want": sig[ref["id"]], "got": sig[m["id"]]}],
                            "float `%s`: form %s gives %s but form %s gives %s; %s  versus  %s" % (
                                m["op"], m["form"], sig[m["id"]], ref["form"], sig[ref["id"]],
                                m["stmts"].replace("\n", "; "), ref["stmts"].replace("\n", "; ")))

    # ---- (3) comparison laws: observed truth tables of the grid, validated by TLC
    tables = collections.defaultdict(lambda: collections.defaultdict(dict))     # form -> x -> y -> {lt:..}
    for p in gpairs:
        for o in p["ops"]:
            if "cmp" in o and sig[o["id"]]["k"] == "val":
                cell = tables[o["form"]][o["cmp"]["x"]].setdefault(o["cmp"]["y"], {})
                cell[CMPNAME[o["op"]]] = sig[o["id"]]["args"][0]
    rows = []
    for form, t in sorted(tables.items()):
        vals = sorted(x for x in t if x in t[x])
        for x in vals:
            for y in vals:
                if y not in t[x] or len(t[x][y]) != 6:
                    raise vlib.ToolError("incomplete comparison table for form %s at (%s, %s)" % (form, x, y))
        rows.append({"form": form, "vals": vals, "T": {x: {y: t[x][y] for y in vals} for x in vals}})
    obs_path = os.path.join(wd, "cmp_tables.ndjson")
    vlib.write_ndjson(obs_path, rows)
    lres = vlib.tlc(os.path.join(props, "C16Laws.tla"), env={"OBS": obs_path}, timeout=600, workers=1, xmx=TLC_XMX)
    vlib.tlc_ok(lres, "C16Laws")
    lawstats, lawviol = None, []
    for line in lres.out.splitlines():
        m = re.match(r'<<"(LAWSTATS|LAWVIOL)", (".*")>>$', line)
        if m:
            v = json.loads(json.loads(m.group(2)))
            if m.group(1) == "LAWSTATS":
                lawstats = v
            else:
                lawviol.append(v)
    if lawstats is None or lawstats["violations"] != len(lawviol):
        raise vlib.ToolError("could not read the verdict of C16Laws")
    for v in lawviol:
        key = "C16|cmp|law=%s|form=%s" % (v["law"], v["form"])
        disagree[key] += 1
        rep.finding(key, {"id": "law.%s.%s.%s.%s.%s" % (v["law"].replace(" ", "_"), v["form"], v["x"], v["y"], v["z"]), "law": v,
                          "table": next(r for r in rows if r["form"] == v["form"])}, {}, [v],
                    "comparison law `%s` violated in form %s for bit patterns x=%s y=%s z=%s" % (v["law"], v["form"], v["x"], v["y"], v["z"]))

    # ---- evidence (all numbers measured)
    cats = collections.Counter(o["cat"] for o in ops)
    forms = collections.Counter(o["form"] for o in ops)
    kinds = collections.Counter(p.get("kind") for p in pairs)
    expk = collections.Counter(o["exp"]["k"] for o in ops)
    nontrivial = len({(o["op"], p["a"], p["b"] if "cmp" in o or o["grp"].split(".")[-1] in ("add", "sub", "mul", "div", "pow") else "")
                      for p in pairs for o in p["ops"] if o["cat"].split("|")[1] not in ("exact", "predicted", "direct", "let")})
    # instruction level: a sample of the programs is re-run with the VM hooks on; every executed instruction (operand values,
    # result, error kind), every optimizer rewrite and every assembled instruction is validated by spec/vm/TraceVM.tla
    vmcov = vmlib.trace_leg(rep, prop, progs, wd, 12 if quick else 400, jobs=6)
    rep.coverage = {
        **vmcov,
        "programs": len(progs) + len(redo), "disagreements_checked": len(ops) + rel_checked,
        "evaluations": len(ops), "distinct_nontrivial": nontrivial,
        "rule": "one evaluation = one operation (operator x operand bit patterns x operand form) observed on the real VM and compared "
                "with Flt.tla; non-trivial = distinct (operator, operands) whose expected outcome is a rounded result, a NaN, an error, "
                "an integer conversion or open (relational check only); grid pairs enumerated exhaustively by TLC (states = pairs), "
                "random bit patterns from tlc -simulate -seed %d" % seed,
        "exhaustive": True, "grid_values": ng, "grid_pairs": ng * ng, "random_pairs": len(rpairs),
        "random_pair_kinds": {k: v for k, v in kinds.items() if k not in ("grid", "extra")},
        "expectation_kinds": dict(expk), "relational_checks": rel_checked,
        "per_operator_outcome": dict(sorted(cats.items())), "per_form": dict(sorted(forms.items())),
        "suspect_family_cases": dict(collections.Counter(o["key"] for o in ops if o["key"])),
        "comparison_laws": lawstats, "comparison_forms": [r["form"] for r in rows],
        "batches": nbatches, "single_op_programs": len(progs) - nbatches, "rerun_single": len(redo),
        "disagreements_by_key": dict(disagree),
        "tlc_states_grid": gres.distinct, "tlc_states_random": rstates,
        "tlc_wall_s": round(gres.wall + rwall + lres.wall, 1), "harness_wall_s": round(wall1 + wall2, 1),
        "samples": [{"id": o["id"], "stmts": o["stmts"], "getf": o["frets"], "expect": o["exp"]} for o in
                    [x for x in ops if x["cat"] == "+|rounded"][:1] + [x for x in ops if x["cat"] == "/|divzero"][:1]
                    + [x for x in ops if x["cat"] == "*|nan"][:1]],
        "level_note": "decided: + - * / sqrt floor ceil round, int<->float conversion and decimal literals with exact IEEE-754 "
                      "round-to-nearest-even; pow and sin/cos/tan/asin/acos/atan/log/log2/log10 only on the IEEE/C special operands and "
                      "exact integer powers. NOT decided: accuracy of inexact pow and of the elementary functions (open results are "
                      "only checked for agreement between operand forms); NaN payloads; int_from_float outside the int range.",
    }
    rep.assumptions = [
        "spec/lib/Flt.tla is IEEE-754 binary64 round-to-nearest-even (cross-checked during development against a hardware "
        "implementation on 4000 random operations); a zero divisor is a division-by-zero error (C16 statement)",
        "the sign of a generated NaN is not fixed by IEEE-754: either default quiet NaN is accepted for a single operation, but "
        "a folded constant must be the same bit pattern as the run-time result (observable through the total-order comparisons)",
        "comparisons: any total (pre)order consistent with numeric order on ordinary values is accepted; laws validated by TLC "
        "on the observed truth tables (C16Laws.tla)",
        "`%` on floats (operators.md says it works, the type checker rejects it) is outside the C16 statement and not exercised",
    ]
    return rep.finish()
