"""C06: garbage collection never frees an object the program can still reach.
(i) TLC model-checks spec/vm/AbraGC.tla (all interleavings of mutator and collector increments);
(ii) programs (GcStress + generated) x collection schedules enumerated by spec/vm/GcPlan.tla are replayed on the
     real VM with quarantine on: observation must equal AbraSem's expectation;
(iii) the recorded collector events of those runs are validated by TLC against spec/vm/TraceGC.tla."""
import json
import os
import vlib

VM = os.path.join(vlib.SPEC, "vm")


def model_check(rep, tier, cov):
    # the design that is claimed safe: RescanRoots = TRUE
    cfg = "MCAbraGC_fixed_small.cfg" if tier == "quick" else "MCAbraGC_fixed.cfg"
    res = vlib.tlc(os.path.join(VM, "AbraGC.tla"), cfg=os.path.join(VM, cfg), workers=4 if tier == "quick" else 10,
                   timeout=3000)
    if res.violation or res.error or res.rc != 0:
        raise vlib.ToolError("AbraGC (RescanRoots=TRUE) does not satisfy its invariants: the model itself is broken\n" + res.out[-3000:])
    cov["states"] = res.distinct
    cov["transitions"] = res.generated
    cov["model_cfg"] = cfg
    cov["model_depth"] = res.depth
    # informative: the collector as written in the pinned tree (roots scanned once) is unsafe at design level
    res2 = vlib.tlc(os.path.join(VM, "AbraGC.tla"), cfg=os.path.join(VM, "MCAbraGC_asis.cfg"), workers=2, timeout=600)
    cov["scan_roots_once_design_has_counterexample"] = bool(res2.violation)
    # ... and of "rescan only the running frame" (RescanScope = "frame"): a caller slot that received a white value is missed
    res3 = vlib.tlc(os.path.join(VM, "AbraGC.tla"), cfg=os.path.join(VM, "MCAbraGC_framescan.cfg"), workers=2, timeout=600)
    cov["rescan_running_frame_only_design_has_counterexample"] = bool(res3.violation)
    if not res2.violation or not res3.violation:
        raise vlib.ToolError("AbraGC.tla no longer refutes the two unsafe collector designs: the model lost its teeth")


def gen_programs(prop, tier, seed):
    nrand = 10 if tier == "quick" else 60
    wd = os.path.join(vlib.WORK, prop)
    outdir = os.path.join(wd, "progs")
    os.makedirs(outdir, exist_ok=True)
    res = vlib.tlc(os.path.join(vlib.SPEC, "props", "C06gen.tla"), simulate=1, depth=200, seed=seed,
                   env={"OUTDIR": outdir}, extra=[], timeout=900,
                   cfg=os.path.join(vlib.SPEC, "props", "C06gen.cfg" if tier == "quick" else "C06gen_thorough.cfg"))
    vlib.tlc_ok(res, "C06gen")
    return [c for c in vlib.load_case_files(outdir) if c.get("inmodel")]


def validate_traces(rep, runs, wd, cov, chunk=150):
    """concatenate recorded traces (reset events in between) and let TLC validate them against TraceGC"""
    total_events = 0
    verdicts = []
    nchunks = 0
    byid = {}
    for i in range(0, len(runs), chunk):
        part = runs[i:i + chunk]
        path = os.path.join(wd, "traces_%d.ndjson" % nchunks)
        with open(path, "w") as out:
            for case, obs in part:
                p = obs.get("events")
                if not p or not os.path.exists(p):
                    continue
                byid[case["id"]] = (case, obs)
                out.write(json.dumps({"e": "reset", "run": case["id"]}) + "\n")
                with open(p) as fh:
                    for line in fh:
                        out.write(line)
                        total_events += 1
                os.remove(p)
        res = vlib.tlc(os.path.join(VM, "TraceGC.tla"), env={"TRACE": path}, deque=True, timeout=1800, xmx="6g")
        v = None
        for line in res.out.splitlines():
            if line.startswith('<<"VERDICT", '):
                v = json.loads(json.loads(line[len('<<"VERDICT", '):-2]))
        if v is None or v["consumed"] != v["events"]:
            raise vlib.ToolError("TraceGC did not consume the whole trace %s\n%s" % (path, res.out[-2000:]))
        verdicts.append(v)
        os.remove(path)
        nchunks += 1
    viols = [x for v in verdicts for x in v["violations"]]
    cov["trace_events_validated"] = total_events
    cov["collection_cycles_validated"] = sum(v["cycles"] for v in verdicts)
    cov["sweep_increments_validated"] = sum(v["sweeps"] for v in verdicts)
    for x in viols:
        case, obs = byid.get(x["run"], ({"id": x["run"]}, {}))
        prog = case["id"].split("@")[0]
        rep.finding("C06|%s|%s" % (x["kind"], prog), case, obs, [x],
                    "collector trace rejected by TraceGC: %s objects %s (run %s, event %d)" % (x["kind"], x["info"], x["run"], x["line"]))
    return len(viols)


def run(prop, tier, seed):
    rep = vlib.Report(prop, tier, seed, "model_checking")
    wd = vlib.workdir(prop)
    cov = {}
    model_check(rep, tier, cov)
    progs = gen_programs(prop, tier, seed)
    # 1. collection off: the reference run, also gives the execution length
    off = []
    for c in progs:
        d = dict(c)
        d["gc"] = {"mode": "off"}
        d["quarantine"] = True
        off.append(d)
    obs_off, _ = vlib.run_harness(off, wd, name="off")
    usable = []
    for c, o in zip(progs, obs_off):
        if o.get("compile") == "ok" and not vlib.compare(c["expect"], o):
            usable.append((c, o["steps"]))
    if len(usable) < 9:
        raise vlib.ToolError("only %d programs usable for GC replay" % len(usable))
    # 2. schedules from the spec
    lens = os.path.join(wd, "lens.ndjson")
    vlib.write_ndjson(lens, [{"id": c["id"], "steps": max(1, min(n, 1500))} for c, n in usable])
    pdir = os.path.join(wd, "plans")
    os.makedirs(pdir, exist_ok=True)
    res = vlib.tlc(os.path.join(VM, "GcPlan.tla"), cfg=os.path.join(VM, "GcPlan.cfg" if tier == "quick" else "GcPlan_thorough.cfg"),
                   env={"LENS": lens, "OUTDIR": pdir}, timeout=900)
    vlib.tlc_ok(res, "GcPlan")
    cases = []
    traced = 0
    for c, n in usable:
        plans = vlib.load_ndjson(os.path.join(pdir, "plans_%s.ndjson" % c["id"]))
        for p in plans:
            d = dict(c)
            d["id"] = "%s@p%d" % (c["id"], p["n"])
            if p["gc"].get("mode") != "native":
                d["gc"] = p["gc"]
            d["quarantine"] = True
            # trace every run of the short programs, a third of the long ones (snapshots are large)
            if n <= 500 or p["n"] % 3 == 0 or tier == "thorough" and n <= 1500:
                d["trace"] = 4
                traced += 1
            cases.append(d)
    obs, _ = vlib.run_harness(cases, wd, name="replay", jobs=12, timeout=30)
    nuaf = 0
    for c, o in zip(cases, obs):
        mism = vlib.compare(c["expect"], o)
        if mism:
            kind = "uaf" if o.get("status") == "uaf" else "behaviour-differs-from-collection-off"
            nuaf += 1
            rep.finding("C06|%s|%s" % (kind, c["id"].split("@")[0]), c, o, mism,
                        "schedule %s: %s %s" % (json.dumps(c.get("gc")), o.get("status"), o.get("panic", "")))
    runs = [(c, o) for c, o in zip(cases, obs) if o.get("events")]
    nviol = validate_traces(rep, runs, wd, cov)
    cov.update({
        "traces_validated_against_impl": len(runs),
        "evaluations": len(cases), "distinct_nontrivial": len({json.dumps(c.get("gc"), sort_keys=True) + c["id"].split("@")[0] for c in cases}),
        "rule": "program x collection schedule; schedules from spec/vm/GcPlan.tla (every start point with the tier's stride, "
                "increments {everything, one object}, periodic multi-cycle pacings); non-trivial = distinct (program, schedule)",
        "programs": len(usable), "schedules_replayed": len(cases), "replay_mismatches": nuaf, "trace_violations": nviol,
        "samples": [{"id": c["id"], "gc": c.get("gc"), "source": c["files"]["main.abra"][:400]} for c in cases[:2]],
    })
    rep.coverage = cov
    rep.assumptions = ["AbraGC abstracts byte budgets to per-object increments and instruction classes to their heap effect",
                       "bounded model: see model_cfg; replayed programs are GcStress + AbraGen programs",
                       "quarantine hook keeps reclaimed memory so that stale accesses are observed instead of being undefined behaviour"]
    return rep.finish()
