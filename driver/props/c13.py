"""C13: an arm is reported redundant exactly when no value can reach it.

Oracle (TLA+): spec/front/AbraMatch.tla RedundantSet by brute force over Values(ty) (literals compared by the
value they denote, so `1.0` / `1.00`, `1` / `01`, "a" / "\\x61" are the same pattern).  The set of arms the
compiler flags in `This match expression has redundant cases` must equal it, for every enumerated / sampled
arm list."""
import vlib
from props import cmatch


def run(prop, tier, seed):
    rep = vlib.Report(prop, tier, seed, "translation_validation")
    wd = vlib.workdir(prop)
    lim = cmatch.Limiter(rep)
    batches, info = cmatch.generate(prop, tier, seed, wd, calls=False)
    per, sinfo = cmatch.static_observe(batches, wd)
    n_lists = n_arms = n_skipped = 0
    n_red_spec = n_red_obs = 0
    respelled = 0
    for b in batches:
        for m in b["matches"]:
            r = per[(b["id"], m["g"])]
            if "anomaly" in r:
                n_skipped += 1          # the checker gave no verdict at all (panic): a C12 finding, nothing to compare here
                continue
            n_lists += 1
            for i, want in enumerate(m["redundant"]):
                n_arms += 1
                got = (i + 1) in r["redundant"]
                n_red_spec += want
                n_red_obs += got
                if got != want:
                    case = {"id": "%s_m%s" % (b["id"], m["g"]), "mode": "check", "diags": True,
                            "files": {"main.abra": "\n".join(b["header"] + m["fn"]) + "\n"},
                            "expect": {"check": "diag" if any(m["redundant"]) or not m["exhaustive"] else "ok"},
                            "type": m["tyname"], "arms": m["armstxt"], "arm": i + 1}
                    lim.finding(m["key13"][i], case, {"flagged_redundant": sorted(r["redundant"])},
                                [{"field": "arm %d flagged redundant" % (i + 1), "want": want, "got": got}],
                                "match over %s with arms [%s]: arm %d is %s, the compiler %s (flags %s)" % (
                                    m["tyname"], m["armstxt"], i + 1,
                                    "unreachable (every value it matches is matched by an earlier arm)" if want else "reachable",
                                    "flags it as redundant" if got else "does not flag it", sorted(r["redundant"]) or "no arm"))
            if m["respelled"]:
                respelled += 1
    uni = cmatch.universe_counts(batches)
    ms = [(b, m) for b in batches for m in b["matches"]]
    samples = [cmatch.sample_match(b, m) for b, m in ms if any(m["redundant"]) and len(m["arms"]) == 2][:1] + \
              [cmatch.sample_match(b, m) for b, m in ms if m["respelled"]][:1]
    cov = dict(uni)
    cov.update({
        "programs": len(ms), "disagreements_checked": n_arms, "evaluations": n_arms,
        "distinct_nontrivial": uni["distinct_arm_lists"],
        "rule": "every type of MatchCases!TyU x every arm list over Pool[ti] up to MaxLen(ti) (tlc model checking, states = files of "
                "20 matches) + sampled lists of 2..5 arms (tlc -simulate -seed %d); non-trivial = distinct (type, arm list); compared "
                "per arm: flagged redundant <=> Redundant(i)" % seed,
        "exhaustive": True,
        "lists_compared": n_lists, "arms_compared": n_arms, "arms_redundant_by_spec": n_red_spec,
        "arms_flagged_by_compiler": n_red_obs, "lists_with_respelled_equal_literals": respelled,
        "lists_without_checker_verdict_skipped": n_skipped,
        "universe": info["sizes"], "tlc_states": info["tlc_states"], "tlc_wall_s": info["tlc_wall_s"],
        "sim_behaviours": info["sim_files"], "samples": samples,
    })
    cov.update(sinfo)
    cov["disagreeing_cases_by_family"] = lim.summary()
    rep.coverage = cov
    rep.assumptions = [
        "spec/front/AbraMatch.tla transcribes patterns.md; int, float, string are represented by the pool literals plus one fresh value",
        "exhaustive only up to the enumerated lengths (MaxLen per type); longer lists are sampled",
        "redundant-arm labels are attributed to arms by the line numbers the specification emitted with the text",
    ]
    cmatch.clean_big_dirs(wd)
    return rep.finish()
