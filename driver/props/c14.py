"""C14: match and destructuring select the first matching arm and bind correctly.

Oracle (TLA+): spec/front/AbraMatch.tla FirstArm / BindsAlt, shown with Show: for every arm list the compiler
accepts and every value of Values(ty) the generated function must return "<g>:<first arm>:<bound values>"
(spec/front/MatchCases.tla CallOf gives the admissible lines); `let` / `for` destructuring programs with their
exact expected output come from spec/props/C14D.tla."""
import os

import vlib
from props import cmatch


def run(prop, tier, seed):
    rep = vlib.Report(prop, tier, seed, "translation_validation")
    wd = vlib.workdir(prop)
    lim = cmatch.Limiter(rep)
    batches, info = cmatch.generate(prop, tier, seed, wd, calls=True)
    # every arm list the specification calls exhaustive and free of redundant arms is compiled and run; the ones the
    # compiler rejects nevertheless (C12 / C13 matters) are dropped and counted
    rows, rejected, rinfo = cmatch.run_matches(batches, lambda b, m: True, wd)
    n_calls = n_binds = n_or = 0
    arms_hit = {}
    matches_run = set()
    n_notacc = 0
    for b, m, c, line, status in rows:
        if status.startswith("notaccepted:"):
            n_notacc += 1               # the checker rejects / fails on this match: a C12 / C13 matter, nothing to run
            continue
        n_calls += 1
        matches_run.add((b["id"], m["g"]))
        arms_hit[c["arm"]] = arms_hit.get(c["arm"], 0) + 1
        n_binds += 1 if any(":" in a[len(m["prefixes"][c["arm"] - 1]):] for a in c["allowed"]) else 0
        n_or += 1 if m["hasor"] else 0
        if status != "done" or line not in c["allowed"]:
            case = {"id": "%s_m%s_v%d" % (b["id"], m["g"], m["calls"].index(c)),
                    "files": {"main.abra": "\n".join(b["header"] + m["fn"] + [c["stmt"]]) + "\n"},
                    "expect": {"status": "done", "out": {"oneof": [a + "\n" for a in c["allowed"]]}},
                    "type": m["tyname"], "arms": m["armstxt"]}
            lim.finding(c["key"], case, {"status": status, "line": line},
                        [{"field": "out", "want": {"oneof": c["allowed"]}, "got": line}],
                        "match over %s [%s], %s: expected arm %d (printed line one of %s), got status %s, line %r" % (
                            m["tyname"], m["armstxt"], c["stmt"], c["arm"], c["allowed"], status, line))

    # ---- let / for destructuring
    dcases, dres = cmatch.gen_destruct(tier, wd)
    vlib.check_cases(rep, dcases, wd, name="destruct", jobs=cmatch.JOBS, what="let/for destructuring output differs from AbraMatch!BindsAlt")

    uni = cmatch.universe_counts(batches)
    ms = [(b, m) for b in batches for m in b["matches"]]
    run_ms = [(b, m) for b, m in ms if (b["id"], m["g"]) in matches_run]
    samples = [dict(cmatch.sample_match(b, m), calls=m["calls"][:3]) for b, m in run_ms if m["hasor"] and len(m["arms"]) >= 2][:1] + \
              [{"id": c["id"], "files": c["files"], "expect": c["expect"]} for c in dcases[:1]]
    cov = dict(uni)
    cov.update({
        "programs": len(run_ms) + sum(c["npats"] * 2 for c in dcases),
        "disagreements_checked": n_calls + sum(c["ncalls"] for c in dcases),
        "evaluations": n_calls + sum(c["ncalls"] for c in dcases),
        "distinct_nontrivial": len({(m["tyname"], m["armstxt"]) for b, m in run_ms}),
        "rule": "every arm list of the C12 universe (exhaustive enumeration + tlc -simulate -seed %d samples) that the compiler accepts, "
                "called with every value of Values(ty): printed line must be one CallOf admits (first matching arm, bound values); "
                "non-trivial = distinct accepted (type, arm list); plus every irrefutable pattern of depth <= 2 over 9 product types "
                "in `let` and `for`" % seed,
        "exhaustive": True,
        "matches_run": len(run_ms), "match_calls_checked": n_calls, "calls_with_bound_values": n_binds,
        "calls_on_matches_with_or_patterns": n_or, "calls_by_expected_arm": {str(k): v for k, v in sorted(arms_hit.items())},
        "destructuring_files": len(dcases), "destructuring_patterns": sum(c["npats"] for c in dcases),
        "destructuring_lines_checked": sum(c["ncalls"] for c in dcases),
        "universe": info["sizes"], "tlc_states": info["tlc_states"] + dres.distinct - 1, "tlc_wall_s": info["tlc_wall_s"],
        "sim_behaviours": info["sim_files"], "samples": samples,
    })
    cov.update(rinfo)
    cov["disagreeing_cases_by_family"] = lim.summary()
    cov["spec_accepted_but_rejected_by_compiler_skipped"] = len(rejected)
    cov["calls_skipped_checker_gives_no_acceptance"] = n_notacc
    rep.coverage = cov
    rep.assumptions = [
        "spec/front/AbraMatch.tla transcribes patterns.md; when both alternatives of an or-pattern match with different bindings either "
        "binding is admitted (the reference does not document or-patterns)",
        "only matches the compiler accepts are run (rejections are C12 / C13 matters); bound values are observed through ToString "
        "(prelude implementations for builtin types, generated `implement ToString` for the user types)",
        "exhaustive only up to the enumerated lengths (MaxLen per type); longer lists are sampled",
    ]
    cmatch.clean_big_dirs(wd)
    return rep.finish()
