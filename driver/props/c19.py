"""C19: lambdas capture values at creation, including for nested lambdas (spec/front/LamCapture.tla, spec/props/C19.tla)."""
import vlib
from props import ecommon


def run(prop, tier, seed):
    rep = vlib.Report(prop, tier, seed, "translation_validation")
    wd = vlib.workdir(prop)
    cfg = "C19.cfg" if tier == "quick" else "C19_thorough.cfg"
    # exhaustive enumeration: nothing random, `seed` only recorded
    cases, states, twall = ecommon.enumerate_sharded(prop, "C19.tla", cfg, 2 if tier == "quick" else 4)
    run_cases, obs, failed, hwall = ecommon.judge(rep, cases, wd, "lambda capture")
    fset = set(failed)
    for src in ("let", "var", "param", "loop", "match"):
        for d in (1, 2, 3):
            if not any(c["src"] == src and c["depth"] == d for c in run_cases):
                raise vlib.ToolError("no case with source %s at depth %d" % (src, d))
    if not any(c["reassign"] == "ba" for c in run_cases) or not any(c["transitive"] for c in run_cases):
        raise vlib.ToolError("reassignment / inner-only use cases missing")
    ok = [c for c in run_cases if c["id"] not in fset]
    rep.coverage = {
        "programs": len(run_cases), "disagreements_checked": len(run_cases), "evaluations": len(run_cases),
        "distinct_nontrivial": len({c["files"]["main.abra"] for c in run_cases}),
        "exhaustive": True,
        "rule": "TLC enumerates (states = cases) every shape of LamCapture up to depth 3 (%s): each program creates nested lambdas "
                "that read a captured variable, reassigns it before/after creation where the binding form allows, and invokes "
                "every lambda value twice; distinct = distinct program texts (all are non-trivial: each contains a capture)" % cfg,
        "tlc_states": states, "tlc_wall_s": round(twall, 1), "harness_wall_s": round(hwall, 1),
        "out_of_model_discarded": len(cases) - len(run_cases),
        "by_depth": ecommon.count_by(run_cases, "depth"),
        "by_source_level": ecommon.count_by(run_cases, "src", "lvl"),
        "by_reach(levels between binding and deepest reader)": ecommon.count_by(run_cases, "reach"),
        "by_reassignment(b=before,a=after creation)": ecommon.count_by(run_cases, "reassign"),
        "by_mode_ctx": ecommon.count_by(run_cases, "mode", "ctx"),
        "read_only_by_inner_lambda": sum(1 for c in run_cases if c["transitive"]),
        "agreeing": len(ok), "agreeing_by_depth": ecommon.count_by(ok, "depth"),
        "agreeing_read_only_by_inner_lambda": sum(1 for c in ok if c["transitive"]),
        "disagreeing_by_depth_src": ecommon.count_by([c for c in run_cases if c["id"] in fset], "depth", "src"),
        "finding_keys": ecommon.finding_keys(rep),
        "samples": vlib.sample_cases([c for c in run_cases if c["depth"] == 3 and c["reassign"] == "ba"][:1] +
                                     [c for c in run_cases if c["depth"] == 2 and c["mode"] == "ret"][:1], 2),
    }
    rep.assumptions = [
        "AbraSem closures (a copy of the creating environment, fresh parameters and locals per call) transcribe lambdas.md "
        "'captures ... by value at the time the lambda is created'",
        "captured values are ints; nesting depth <= 3; one or two captured variables",
    ]
    return rep.finish()
