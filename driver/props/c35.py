"""C35: go-to-definition and hover agree with the compiler.
spec/front/Lsp.tla generates programs with nested scopes and shadowing and knows, by construction, the declaring
occurrence, the type and the value of every identifier use.  Per program two harness cases: (1) compile + run: the
output must be the spec's `out` (confirms against the compiler itself which declaration each printed use resolves
to; a program where the compiler disagrees is outside this property and only counted), (2) editor queries at every
byte offset inside every use / literal: definition_at must be the declaring token's range, type_at the type string."""
import collections
import os

import vlib
from props import frontlib


def run(prop, tier, seed):
    rep = vlib.Report(prop, tier, seed, "translation_validation")
    wd = vlib.workdir(prop)
    n = 400 if tier == "quick" else 3000
    mod = os.path.join(vlib.SPEC, "props", "C35.tla")
    gen = vlib.tlc(mod, simulate=n, depth=2, seed=seed, env=frontlib.TLC_ENV, metadir=os.path.join(wd, "meta_g"), xmx=frontlib.XMX, timeout=1500)
    vlib.tlc_ok(gen, mod)
    cases = gen.cases()
    if len(cases) != n:
        raise vlib.ToolError("generator emitted %d of %d programs" % (len(cases), n))
    hc = []
    for c in cases:
        files = {"main.abra": frontlib.assemble(c["parts"])}
        hc.append({"id": c["id"] + ".run", "files": files, "expect": {"compile": "ok", "status": "done", "out": c["out"]}})
        hc.append({"id": c["id"] + ".lsp", "mode": "lsp", "files": files, "forget": False, "answers": True,
                   "offsets": [q["off"] for q in c["queries"]]})
    obs, hwall = vlib.run_harness(hc, wd, jobs=frontlib.JOBS, timeout=20)
    confirmed, flaky, _, w2 = frontlib.confirm_crashes(hc, obs, wd, ("lsp", "compile", "status"))   # machine load must not look like a crash
    hwall += w2

    not_compiled = collections.Counter()
    scope_differs = []
    analysed = 0
    nq = ndef = ntype = 0
    kinds = collections.Counter()
    for i, c in enumerate(cases):
        rcase, lcase, ro, lo = hc[2 * i], hc[2 * i + 1], obs[2 * i], obs[2 * i + 1]
        if ro.get("compile") != "ok":
            # the generated program is rejected or crashes the compiler: C03/C04 matter (or generator out of sync)
            not_compiled[(ro.get("compile") or "?") + ": " + (ro.get("panic") or (ro.get("diag_text") or "").strip().split("\n")[0])[:80]] += 1
            # names are resolved before types are checked: where the editor still answers, the declaration it returns must be
            # the innermost binding in scope (second clause of the property); hover is not judged on a rejected program
            if lo.get("lsp") == "ok" and len(lo.get("answers") or []) == len(c["queries"]):
                for q, a in zip(c["queries"], lo["answers"]):
                    if "def" in q and a.get("def") is not None and a.get("def") != q["def"]:
                        one = dict(lcase, id="%s.def.%d" % (c["id"], q["off"]), offsets=[q["off"]])
                        rep.finding(q["kdef"], one, {"off": q["off"], "def": a.get("def")},
                                    [{"field": "def", "want": q["def"], "got": a.get("def"), "query": q}],
                                    "go-to-definition at offset %d (`%s`) returns a declaration that is not the innermost binding in "
                                    "scope (the compiler rejects the program)" % (q["off"], q["name"]))
                        break
            continue
        if vlib.compare(rcase["expect"], ro):
            # the compiler itself resolves / evaluates differently from lexical scoping: not an editor matter (C21)
            scope_differs.append({"id": c["id"], "files": rcase["files"], "want_out": c["out"], "got_out": ro.get("out"), "status": ro.get("status")})
            # ... but the property also says which declaration go-to-definition has to return: "the same name, and the
            # innermost binding in scope".  Where the editor follows the compiler to another declaration, that is reported.
            if lo.get("lsp") == "ok" and len(lo.get("answers") or []) == len(c["queries"]):
                for q, a in zip(c["queries"], lo["answers"]):
                    if "def" in q and a.get("def") != q["def"]:
                        one = dict(lcase, id="%s.def.%d" % (c["id"], q["off"]), offsets=[q["off"]])
                        rep.finding("C35|definition-not-innermost-binding-in-scope|%s" % q["dk"], one, {"off": q["off"], "def": a.get("def")},
                                    [{"field": "def", "want": q["def"], "got": a.get("def"), "query": q}],
                                    "go-to-definition at offset %d (`%s`) returns a declaration that is not the innermost binding in "
                                    "scope (the compiled program behaves accordingly)" % (q["off"], q["name"]))
                        break
            continue
        if lo.get("lsp") != "ok" or len(lo.get("answers") or []) != len(c["queries"]):
            rep.finding("C35|analysis-unavailable|%s" % lo.get("lsp"), lcase, lo, [{"field": "lsp", "want": "ok", "got": lo.get("lsp")}],
                        "editor analysis gave no answers for a program the compiler accepts")
            continue
        analysed += 1
        reported = set()
        for q, a in zip(c["queries"], lo["answers"]):
            nq += 1
            kinds[q["kind"] + ":" + q["dk"]] += 1
            checks = []
            if "def" in q:
                ndef += 1
                checks.append(("def", q["def"], a.get("def"), q["kdef"]))
            ntype += 1
            checks.append(("type", q["type"], a.get("type"), q["ktype"]))
            for field, want, got, key in checks:
                if want != got and key not in reported:
                    reported.add(key)
                    one = dict(lcase, id="%s.%s.%d" % (c["id"], field, q["off"]), offsets=[q["off"]], key=key)
                    rep.finding(key, one, {"off": q["off"], field: got}, [{"field": field, "want": want, "got": got, "query": q}],
                                "%s at offset %d (`%s`) differs from the declaration/type the compiler uses" % (field, q["off"], q["name"]))
    if (sum(not_compiled.values()) + len(scope_differs)) * 2 > len(cases):
        raise vlib.ToolError("%d of %d generated programs unusable: generator out of sync (%s)" % (
            sum(not_compiled.values()) + len(scope_differs), len(cases), dict(not_compiled)))

    rep.coverage = {
        "programs": len(cases), "disagreements_checked": ndef + ntype,
        "evaluations": nq, "distinct_nontrivial": len({hc[2 * i]["files"]["main.abra"] for i, c in enumerate(cases) if c["nshadowed"] > 0}),
        "rule": "programs generated by spec/front/Lsp.tla under tlc -simulate (seed %d); evaluations = byte offsets queried (every offset inside "
                "every identifier use and literal); non-trivial = distinct program texts in which at least one queried use has a name "
                "bound more than once (shadowing exercised)" % seed,
        "programs_compared": analysed, "definition_answers_checked": ndef, "hover_answers_checked": ntype,
        "queries_by_kind": dict(kinds), "uses_of_shadowed_names": sum(c["nshadowed"] for c in cases),
        "uses": sum(c["nuse"] for c in cases), "declarations": sum(c["ndecl"] for c in cases),
        "programs_with_non_ascii_prefix": sum(1 for c in cases if c["nonascii"]),
        "not_compiled_skipped": dict(not_compiled),
        "compiler_resolution_differs_skipped": len(scope_differs), "compiler_resolution_differs_samples": scope_differs[:2],
        "crashes_not_reproduced": flaky, "tlc_states": gen.generated, "harness_wall_s": round(hwall, 1),
        "samples": [{"id": h["id"], "files": h["files"], "expect": h["expect"]} for h in hc[:4:2]],
    }
    rep.assumptions = ["lexical scoping as defined in spec/front/Lsp.tla (innermost binding; initialiser resolved before its binding; function bodies "
                       "see parameters and locals only); programs on which the compiler's own output contradicts this model are skipped and counted",
                       "only uses of let/var/parameter/lambda-parameter/for/match bindings and of top-level functions are generated (no struct "
                       "fields, enum variants, member functions, imports)",
                       "hover is checked on identifier uses and literals, not on compound expressions or declaring occurrences"]
    return rep.finish()
