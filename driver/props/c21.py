"""C21: names resolve to the innermost visible declaration; imports are exact.
spec/props/C21.tla enumerates layouts (states) and evaluates spec/front/AbraResolve.tla on them; this
driver only runs TLC, runs the programs, and compares
JSON: printed identities, the set of unresolved-identifier diagnostics (file, line, column, length) and the set
of clash messages."""
import collections
import glob
import json
import os
import re
import vlib

MODULE = os.path.join(vlib.SPEC, "props", "C21.tla")
NSLICES = 16        # initial states of the enumeration (TLC's two workers share them)


def enumerate_family(prop, fam, tier, seed):
    """one TLC run per family; every non-initial state of the run is one layout"""
    wd = os.path.join(vlib.WORK, prop)
    outdir = os.path.join(wd, "enum_%s" % fam)
    os.makedirs(outdir, exist_ok=True)
    env = {"C21_FAM": fam, "C21_TIER": tier, "C21_SEED": seed, "C21_NSLICES": NSLICES, "OUTDIR": outdir}
    res = vlib.tlc(MODULE, env=env, workers=2, xmx="3g", timeout=1500, metadir=os.path.join(wd, "meta_%s" % fam))
    vlib.tlc_ok(res, "%s fam=%s" % (MODULE, fam))
    cases = []
    for f in sorted(glob.glob(os.path.join(outdir, "*.json"))):
        with open(f) as fh:
            cases += json.load(fh)
    return cases, res.distinct - NSLICES, res.wall


ERR = re.compile(r"^error: (.*)$")
LOC = re.compile(r"┌─ (.*):(\d+):(\d+)$")
UND = re.compile(r"^\s*│\s*(-+)")


def parse_check_text(text):
    """the checker's rendered diagnostics -> [{msg, file, line, col, len}] (first label of each)"""
    items, cur = [], None
    for line in text.split("\n"):
        m = ERR.match(line)
        if m:
            cur = {"msg": m.group(1), "file": None, "line": 0, "col": 0, "len": 0}
            items.append(cur)
            continue
        if cur is None:
            continue
        if cur["file"] is None:
            m = LOC.search(line)
            if m:
                cur["file"], cur["line"], cur["col"] = m.group(1), int(m.group(2)), int(m.group(3))
        elif cur["len"] == 0:
            m = UND.match(line)
            if m:
                cur["len"] = len(m.group(1))
    return items


def diag_sets(case, obs):
    """project the observed diagnostics onto the two kinds the specification speaks about"""
    text = obs.get("check_text")
    if not isinstance(text, str):
        return None, None, 0
    diags = parse_check_text(text)
    unres = {(d["file"], d["line"], d["col"], d["len"]) for d in diags if d["msg"] == case["msg_unresolved"]}
    clash = {d["msg"] for d in diags if d["msg"].endswith(case["clash_suffix"])}
    other = sum(1 for d in diags if d["msg"] != case["msg_unresolved"] and not d["msg"].endswith(case["clash_suffix"]))
    return unres, clash, other


def compare_case(case, obs):
    mism = vlib.compare(case["expect"], obs)
    xd = case["expect_diags"]
    other = 0
    if case["mode"] == "check" and not mism:
        unres, clash, other = diag_sets(case, obs)
        if unres is None:
            return [{"field": "check_text", "want": "rendered diagnostics", "got": obs.get("check_text")}], 0
        ignore = {(p["file"], p["line"], p["col"], p["len"]) for p in case["ignore"]}
        want_unres = {(p["file"], p["line"], p["col"], p["len"]) for p in xd["unresolved"]}
        got_unres = unres - ignore
        if want_unres != got_unres:
            mism.append({"field": "unresolved", "want": sorted(want_unres), "got": sorted(got_unres)})
        if set(xd["clash"]) != clash:
            mism.append({"field": "clash", "want": sorted(xd["clash"]), "got": sorted(clash)})
    return mism, other


def run_with_retry(cases, wd, chunk=800):
    """run in chunks (fresh workers: the harness never drops the analysis result of a case that asks for structured
    diagnostics, so a worker's address space grows; not used here any more, but cheap).  A watchdog timeout or a
    worker abort on these small programs is almost always machine load / the address-space limit: run those cases
    again, alone and with a long limit, before the observation is compared (a real crash or non-termination
    reproduces and still ends up as a finding)"""
    obs, wall = [], 0.0
    for k in range(0, len(cases), chunk):
        o, w = vlib.run_harness(cases[k:k + chunk], wd, name="cases_%d" % (k // chunk), jobs=4, timeout=60)
        obs += o
        wall += w
    late = [i for i, o in enumerate(obs)
            if {"timeout", "abort"} & {o.get("compile"), o.get("status"), o.get("check")}]
    if late:
        again, w2 = vlib.run_harness([cases[i] for i in late], wd, name="retry", jobs=1, timeout=600)
        for i, o in zip(late, again):
            obs[i] = o
        wall += w2
    return obs, wall, len(late)


def run(prop, tier, seed):
    rep = vlib.Report(prop, tier, seed, "translation_validation")
    wd = vlib.workdir(prop)
    cases, states, tlc_wall = [], {}, {}
    for fam in ("imp", "timp", "scope"):
        cs, st, wall = enumerate_family(prop, fam, tier, seed)
        if not cs:
            raise vlib.ToolError("family %s: TLC produced no cases" % fam)
        states[fam], tlc_wall[fam] = st, round(wall, 1)
        cases += cs
    for c in cases:
        # transport encoding: the specification emits a file as its sequence of lines
        c["files"] = {n: "\n".join(ls) + "\n" for n, ls in c["files"].items()}
    obs, hwall, retried = run_with_retry(cases, wd)
    other_diags = 0
    for c, o in zip(cases, obs):
        mism, other = compare_case(c, o)
        other_diags += other
        if mism:
            key = c.get("key") or "C21|%s|%s|%s" % (c["layout"]["fam"], ",".join(sorted(m["field"] for m in mism)), c["id"])
            rep.finding(key, c, o, mism, "resolution differs from spec/front/AbraResolve.tla: %s" % json.dumps(mism)[:300])

    verdicts = collections.Counter(t for c in cases for f in c["tags"] for t in f)
    variants = collections.Counter(c["variant"] for c in cases)
    full = [c for c in cases if c["variant"] == "full"]
    forms = collections.Counter()
    kinds = collections.Counter()
    for c in full:
        l = c["layout"]
        if l["fam"] in ("imp", "timp"):
            for f in (l["f1"], l["f2"], l["f12"]):
                forms[f["form"] + ("1" if len(f["names"]) == 1 else "N" if f["names"] else "")] += 1
        else:
            kinds[l["k1"]] += 1
            kinds[l["k2"]] += 1
    texts = {json.dumps(c["files"], sort_keys=True) for c in cases}
    rep.coverage = {
        "programs": len(cases), "disagreements_checked": len(cases), "evaluations": len(cases),
        "distinct_nontrivial": len(texts),
        "rule": "exhaustive enumeration by TLC of the layout boxes of spec/props/C21.tla (state = layout): family imp = declared "
                "names of main/m1/m2 x import form of m1 and of m2 in main x import form of m2 in m1 (+ missing file, "
                "declarations after use); family scope = top-level let x (kind, binder) of two nested scopes x later let x "
                "function parameter; distinct = distinct program texts; every program contains >= 20 identifier uses",
        "exhaustive": True,
        "layouts": {k: v for k, v in states.items()}, "tlc_states": sum(states.values()), "tlc_wall_s": tlc_wall,
        "harness_wall_s": round(hwall, 1), "cases_retried_after_timeout_or_abort": retried,
        "variants": dict(variants),
        "use_verdicts": dict(verdicts),
        "programs_expect_ok": sum(1 for c in cases if c["mode"] == "run"),
        "programs_expect_unresolved": sum(1 for c in cases if c["nunres"] > 0),
        "programs_expect_clash": sum(1 for c in cases if c["nclash"] > 0),
        "programs_with_for_leak_uses": sum(1 for c in cases if c["ntaint"] > 0),
        "import_forms": dict(forms), "scope_kinds": dict(kinds),
        "other_diagnostics_ignored": other_diags,
        "samples": vlib.sample_cases([c for c in cases if c["variant"] == "pruned"][:1] + full[:1], 2),
    }
    rep.assumptions = [
        "spec/front/AbraResolve.tla transcribes namespaces.md and lexical block scoping; prelude names are disjoint from the generated names",
        "declarations are functions, local bindings are lambdas; types, interfaces, struct fields and enum variants as names are not covered",
        "a file is imported at most once per importing file (what a repeated import of one declaration should report is not decided by the documentation)",
        "when a name clashes, which declaration later uses denote is left open (those positions are ignored)",
        "diagnostics other than unresolved identifier / name clash are ignored (counted in other_diagnostics_ignored)",
    ]
    return rep.finish()
