"""C10: results do not depend on how the embedder slices execution."""
import json
import os
import vlib
from props import schedlib

PROPS = os.path.join(vlib.SPEC, "props")


def run(prop, tier, seed):
    rep = vlib.Report(prop, tier, seed, "model_checking")
    wd = vlib.workdir(prop)
    cov = {}
    # model: for every budget sequence and servicing delay the printed output of every scenario is the same
    schedlib.model_check(wd, ["Confluence", "StepAccounting"], tier, cov)
    scn = schedlib.scenario_cases(wd)
    gen, _ = vlib.gen_simulate(prop, os.path.join(PROPS, "C02.tla"), 60 if tier == "quick" else 600, seed)
    gen = [c for c in gen if c.get("inmodel")]
    d_tasks = schedlib.drives(wd, "Slicing_tasks" if tier == "quick" else "Slicing_tasks_thorough")
    d_plain = schedlib.drives(wd, "Slicing" if tier == "quick" else "Slicing_thorough")
    cases = []
    for c in scn:
        for i, d in enumerate(d_tasks):
            cases.append(schedlib.with_drive(c, i, d, {"maxsteps": 50000}))
    stride = 4 if tier == "quick" else 2
    for j, c in enumerate(gen):
        for i, d in enumerate(d_plain):
            if (i + j) % stride == 0:
                cases.append(schedlib.with_drive(c, i, d))
    # racing tasks (spec/props/C10race.tla): no expected output, all drives of one program must agree (Confluence)
    race, rres = vlib.gen_enumerate(prop, os.path.join(PROPS, "C10race.tla"),
                                    cfg=os.path.join(PROPS, "C10race.cfg" if tier == "quick" else "C10race_thorough.cfg"))
    if tier == "quick":
        race = [c for i, c in enumerate(race) if (i + seed) % 3 == 0]
    d_race = [d for d in d_tasks if d["delay"] in (0, 1)]
    for c in race:
        for i, d in enumerate(d_race):
            cases.append(schedlib.with_drive(dict(c, race=True), i, d, {"maxsteps": 50000}))
    obs, _ = vlib.run_harness(cases, wd, jobs=12, timeout=40)
    ncomp = 0
    by_prog = {}
    for c, o in zip(cases, obs):
        if o.get("compile") != "ok":
            ncomp += 1
            continue
        prog = c["id"].split("@")[0]
        sig = json.dumps([o.get("status"), o.get("out"), o.get("result"), (o.get("err") or {}).get("kind"), (o.get("err") or {}).get("loc"),
                          (o.get("err") or {}).get("trace")], sort_keys=True)
        by_prog.setdefault(prog, {}).setdefault(sig, []).append(c["id"])
        if c.get("race"):
            if o.get("status") != "done":
                rep.finding("C10|race|%s|%s" % (o.get("status"), prog), c, o, [{"field": "status", "want": "done", "got": o.get("status")}],
                            "a racing-tasks program did not finish under budgets %s delay %d" % (c["budgets"], c["delay"]))
            continue
        mism = vlib.compare(c["expect"], o)
        if mism:
            rep.finding("C10|%s|%s" % (",".join(sorted(m["field"] for m in mism)), prog), c, o, mism,
                        "observation under budgets %s delay %d differs from the slicing-independent expectation" % (c["budgets"], c["delay"]))
    # relational form as well: all drives of one program agree with each other
    disagree = [p for p, sigs in by_prog.items() if len(sigs) > 1]
    first = {c["id"].split("@")[0]: (c, o) for c, o in reversed(list(zip(cases, obs)))}
    for p in disagree:
        if not p.startswith("race"):
            continue            # programs with an expectation were reported above, drive by drive
        sigs = by_prog[p]
        odd = sorted(sigs.items(), key=lambda kv: len(kv[1]))[0][1][0]
        c = next(x for x in cases if x["id"] == odd)
        o = obs[cases.index(c)]
        rep.finding("C10|race|drives-disagree|%s" % p, c, o, [{"outcomes": {k: v[:4] for k, v in sigs.items()}}],
                    "the printed result of a racing-tasks program depends on the slicing: budgets %s delay %d give %s, other drives "
                    "give something else" % (c["budgets"], c["delay"], (o.get("out") or "").strip()))
    cov.update({
        "traces_validated_against_impl": len(cases) - ncomp,
        "evaluations": len(cases), "distinct_nontrivial": len({c["id"] for c in cases}),
        "rule": "program x embedder drive from spec/vm/Slicing.tla (every budget pattern of period <= MaxLen over Small, large and zero "
                "budgets, unbounded, servicing delays); each run replays one behaviour of the slicing model on the real runtime",
        "scenario_programs": len(scn), "generated_programs": len(gen), "not_compiled_skipped": ncomp,
        "racing_task_programs": len(race), "racing_task_drives": len(d_race),
        "drives_tasks": len(d_tasks), "drives_plain": len(d_plain), "programs_with_disagreeing_drives": len(disagree),
        "samples": [{"id": c["id"], "budgets": c["budgets"], "delay": c["delay"], "source": c["files"]["main.abra"][:300]} for c in cases[:2]],
    })
    rep.coverage = cov
    rep.assumptions = ["task programs are the AbraSched scenarios (tasks communicate only through channels, one printing task)",
                       "unbounded budgets are not used for task programs (a blocked reader spins until the budget is exhausted)"]
    return rep.finish()
