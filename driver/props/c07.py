"""C07: unreachable memory is reclaimed and a dropped runtime frees everything.
(a) TLC checks the liveness property Reclaims of spec/vm/AbraGC.tla under fairness;
(b) collector traces of churn programs are validated against TraceGC (garbage alive at the start of a cycle is
    gone at its end) and the observed peak heap sizes against the Bounded law of spec/props/C07gen.tla;
(c) create/run/drop histories enumerated from spec/vm/MemLedger.tla are replayed with a counting allocator and the
    recorded ledgers validated by TLC against the ledger law."""
import json
import os
import vlib
from props import c06

VM = os.path.join(vlib.SPEC, "vm")
PROPS = os.path.join(vlib.SPEC, "props")

LEDGER_PROGRAM = ('let s = "hello" .. " world"\nlet names = ["a", "bb", "ccc"]\nvar i = 0\nwhile i < 40 {\n  i += 1\n'
                  '  let t = [i, i]\n  println(s .. t .. names[i % 3])\n}\n')


def verdict_of(res, what):
    for line in res.out.splitlines():
        if line.startswith('<<"VERDICT", '):
            return json.loads(json.loads(line[len('<<"VERDICT", '):-2]))
    raise vlib.ToolError("no verdict from TLC for %s\n%s" % (what, res.out[-2000:]))


def run(prop, tier, seed):
    rep = vlib.Report(prop, tier, seed, "model_checking")
    wd = vlib.workdir(prop)
    cov = {}
    # (a) liveness on the model
    cfg = "MCAbraGC_live.cfg" if tier == "quick" else "MCAbraGC_live_thorough.cfg"
    res = vlib.tlc(os.path.join(VM, "AbraGC.tla"), cfg=os.path.join(VM, cfg), workers=4, timeout=3000)
    if res.violation or res.error or res.rc != 0:
        raise vlib.ToolError("AbraGC does not satisfy Reclaims under fairness: model broken\n" + res.out[-3000:])
    cov["states"] = res.distinct
    cov["transitions"] = res.generated
    cov["liveness_cfg"] = cfg

    # (b) churn programs: traces + heap bound
    outdir = os.path.join(wd, "churn")
    os.makedirs(outdir, exist_ok=True)
    res = vlib.tlc(os.path.join(PROPS, "C07gen.tla"), env={"OUTDIR": outdir}, timeout=1200)
    vlib.tlc_ok(res, "C07gen")
    churn = [c for c in vlib.load_case_files(outdir) if c.get("inmodel")]
    cases = []
    for c in churn:
        d = dict(c)
        d["stats"] = True
        d["budgets"] = [50]
        d["trace"] = 4
        cases.append(d)
    obs, _ = vlib.run_harness(cases, wd, name="churn", jobs=8, timeout=60)
    peaks = {}
    for c, o in zip(cases, obs):
        mism = vlib.compare(c["expect"], o)
        if mism:
            rep.finding("C07|churn-output|%s" % c["kind"], c, o, mism, "churn program output differs from the reference")
        peaks.setdefault(c["kind"], {})[c["n"]] = o.get("peak_heap", 0)
    recs = []
    for kind, d in sorted(peaks.items()):
        ns = sorted(d)
        if len(ns) == 2 and d[ns[0]] > 0:
            recs.append({"kind": kind, "peak1": d[ns[0]], "peak2": d[ns[1]], "n1": ns[0], "n2": ns[1]})
    # (b2) task churn (spec/props/C07tasks.tla): real allocations (counting allocator of the harness) while programs that
    # keep spawning short-lived tasks run, under a small, a large and an unbounded budget; same Bounded law
    tprogs, _ = vlib.gen_enumerate(prop, os.path.join(PROPS, "C07tasks.tla"), cfg=os.path.join(PROPS, "C07tasks.cfg"))
    tcases = []
    for c in tprogs:
        for b in ([50], [20000], [-1]):
            tcases.append(dict(c, id="%s@b%d" % (c["id"], b[0]), budgets=b, stats=True, maxsteps=3000000, bkey=b[0]))
    tobs, _ = vlib.run_harness(tcases, wd, name="taskchurn", jobs=6, timeout=120)
    tpeaks = {}
    for c, o in zip(tcases, tobs):
        mism = vlib.compare(c["expect"], o)
        if mism:
            rep.finding("C07|churn-output|%s" % c["kind"], c, o, mism, "task churn program output differs from the expected sum")
            continue
        tpeaks.setdefault("%s@budget%d" % (c["kind"], c["bkey"]), {})[c["n"]] = o.get("peak_live", 0)
    for kind, d in sorted(tpeaks.items()):
        ns = sorted(d)
        if len(ns) == 2 and d[ns[0]] > 0:
            recs.append({"kind": kind, "peak1": d[ns[0]], "peak2": d[ns[1]], "n1": ns[0], "n2": ns[1]})
    cov["task_churn_runs"] = len(tcases)
    obsfile = os.path.join(wd, "peaks.ndjson")
    vlib.write_ndjson(obsfile, recs)
    res = vlib.tlc(os.path.join(PROPS, "C07gen.tla"), cfg=os.path.join(PROPS, "C07val.cfg"), env={"OBS": obsfile, "OUTDIR": outdir}, timeout=600)
    v = verdict_of(res, "heap bound")
    bad = v["bad"]
    for kind in (bad.values() if isinstance(bad, dict) else bad):
        r = [x for x in recs if x["kind"] == kind][0]
        rep.finding("C07|heap-not-bounded|%s" % kind, {"id": kind, "peaks": r}, r, [r],
                    "peak heap grows with the loop length although reachable data is bounded: %s" % json.dumps(r))
    cov["heap_bound_pairs_checked"] = v["checked"]
    cov["peaks"] = recs
    runs = [(c, o) for c, o in zip(cases, obs) if o.get("events")]
    cov2 = {}
    # TraceGC files its violations under C06 keys; rename for this property
    before = len(rep.violations)
    c06.validate_traces(rep, runs, wd, cov2, chunk=4)
    rep.violations = [(k.replace("C06|", "C07|"), p, s) if i >= before else (k, p, s) for i, (k, p, s) in enumerate(rep.violations)]
    cov["churn_cycles_validated"] = cov2.get("collection_cycles_validated", 0)
    cov["churn_trace_events"] = cov2.get("trace_events_validated", 0)

    # (c) ledger histories
    res = vlib.tlc(os.path.join(VM, "MemLedger.tla"),
                   cfg=os.path.join(VM, "MemLedger_hist.cfg" if tier == "quick" else "MemLedger_hist_thorough.cfg"),
                   workers=4, timeout=1200)
    vlib.tlc_ok(res, "MemLedger histories")
    hists = res.cases()
    cov["ledger_history_states"] = res.distinct
    lcases = [{"id": "h%d" % i, "mode": "ledger", "files": {"main.abra": LEDGER_PROGRAM}, "ops": h["ops"]}
              for i, h in enumerate(hists)]
    lobs, _ = vlib.run_harness(lcases, wd, name="ledger", jobs=8, timeout=60)
    lrecs = []
    for c, o in zip(lcases, lobs):
        if "ledger" not in o:
            raise vlib.ToolError("ledger run failed: %s" % json.dumps(o)[:300])
        lrecs.append({"id": c["id"], "ops": c["ops"], "ledger": o["ledger"]})
    lfile = os.path.join(wd, "ledgers.ndjson")
    vlib.write_ndjson(lfile, lrecs)
    res = vlib.tlc(os.path.join(VM, "MemLedger.tla"), cfg=os.path.join(VM, "MemLedger_val.cfg"), env={"OBS": lfile}, timeout=1200)
    v = verdict_of(res, "ledger")
    if v["checked"] != len(lrecs):
        raise vlib.ToolError("ledger validation incomplete")
    byid = {r["id"]: r for r in lrecs}
    bad = v["bad"]
    for hid in (bad.values() if isinstance(bad, dict) else bad):
        r = byid[hid]
        leak = [x["live"] for x, op in zip(r["ledger"], r["ops"])]
        rep.finding("C07|ledger-not-zero-after-drop", {"id": hid, "mode": "ledger", "files": {"main.abra": LEDGER_PROGRAM}, "ops": r["ops"]},
                    r, [{"ledger": r["ledger"]}], "memory is still allocated when no runtime is alive: live bytes after each op %s" % leak)
    cov.update({
        "traces_validated_against_impl": len(lrecs) + len(runs),
        "evaluations": len(lrecs) + len(cases), "distinct_nontrivial": len(lrecs) + len(cases),
        "rule": "every well-formed create/run/drop history over the tier's runtimes and length (exhaustive, symmetry-reduced) "
                "+ churn programs at two loop lengths; all distinct",
        "exhaustive": True,
        "ledger_histories": len(lrecs),
        "samples": [lrecs[len(lrecs) // 2], {"churn": churn[0]["files"]["main.abra"]}],
    })
    rep.coverage = cov
    rep.assumptions = ["live bytes are measured with a counting global allocator inside the harness process, after a warm-up life cycle",
                       "process RSS / allocator fragmentation are not observed"]
    return rep.finish()
