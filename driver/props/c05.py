"""C05: optimization and literal operands never change program behaviour."""
import json
import os
import vlib
from props import vmlib, frontlib

PROPS = os.path.join(vlib.SPEC, "props")


def run(prop, tier, seed):
    rep = vlib.Report(prop, tier, seed, "translation_validation")
    wd = vlib.workdir(prop)
    # (1) operator x operands x form grid
    cfg = os.path.join(wd, "grid.cfg")
    src = open(os.path.join(PROPS, "C05.cfg" if tier == "quick" else "C05_thorough.cfg")).read()
    if tier == "quick":
        src = src.replace("Part = 1", "Part = %d" % (seed % 5 + 1))
    open(cfg, "w").write(src)
    grid, res = vlib.gen_enumerate(prop, os.path.join(PROPS, "C05.tla"), cfg=cfg, timeout=1500)
    # (2) generated programs, optimizer on/off
    gen, _ = vlib.gen_simulate(prop, os.path.join(PROPS, "C02.tla"), 120 if tier == "quick" else 3000, seed)
    gen = [c for c in gen if c.get("inmodel")]
    cases = []
    for c in grid + gen:
        for opt in (True, False):
            d = dict(c)
            d["id"] = "%s@%s" % (c["id"], "opt" if opt else "noopt")
            d["opt"] = opt
            cases.append(d)
    obs, _ = vlib.run_harness(cases, wd, jobs=12, timeout=30)
    nskip = 0
    outcomes = {}
    for c, o in zip(cases, obs):
        if o.get("compile") != "ok" and "group" not in c:
            nskip += 1
            continue
        sig = json.dumps([o.get("compile"), o.get("status"), o.get("out"), (o.get("err") or {}).get("kind")])
        outcomes.setdefault(c.get("group", c["id"].split("@")[0]), {}).setdefault(sig, []).append(c["id"])
        if not c.get("inmodel"):
            continue
        mism = vlib.compare(c["expect"], o)
        if mism:
            if "group" in c:
                key = "C05|%s|op=%s|form=%s|%s" % (c["ty"], c["op"], c["form"], "opt" if c["opt"] else "noopt")
                # the defect families are per operator and form; the operands are in the replay file
            else:
                key = "C05|program|%s" % c["id"]
            rep.finding(key, c, o, mism, "outcome differs from the form-independent reference outcome")
    # relational part (covers the cases outside the reference model, e.g. inexact float results):
    # all forms and both optimizer settings of one operation must agree with each other
    for grp, sigs in outcomes.items():
        if len(sigs) > 1:
            members = sorted(sigs.items(), key=lambda kv: len(kv[1]))
            odd = members[0][1][0]
            c = next(x for x in cases if x["id"] == odd)
            if c.get("inmodel"):
                continue        # already reported against the reference above
            o = obs[cases.index(c)]
            rep.finding("C05|forms-disagree|%s|op=%s" % (c.get("ty"), c.get("op")), c, o,
                        [{"outcomes": {k: v for k, v in sigs.items()}}], "operand forms / optimizer settings disagree with each other")
    # (3) instruction level: every peephole rewrite the optimizer applied, every assembled instruction and every executed
    # instruction of a sample of the programs is validated against spec/vm/AbraVM.tla (TraceVM.tla)
    # sample: the optimized program of one grid case per (type, operator, operand form) - every rewrite shape the grid can
    # provoke is then logged at least once, whatever part of the grid this run took - plus generated programs (both settings)
    nprog = 40 if tier == "quick" else 500
    seen_shape = set()
    pick = []
    for c in cases:
        if "group" in c and c["opt"]:
            shape = (c["ty"], c["op"], c["form"])
            if shape not in seen_shape or tier != "quick":
                seen_shape.add(shape)
                pick.append(c)
    gens = [c for c in cases if "group" not in c and c.get("inmodel")]
    pick += gens[::max(1, len(gens) // (2 * nprog))][:2 * nprog]
    if tier != "quick":
        pick = pick[::max(1, len(pick) // 1500)]
    vmcov = vmlib.trace_leg(rep, prop, pick, wd, len(pick), jobs=8, maxsteps=1500)
    # (4) the optimizer and the assembler on the repository's own programs (compile only): every rewrite applied to the
    # corpus extracted from the tests, examples and module tests - and, with them, to the prelude - is validated
    corpus = [{"id": "corpus:" + p["name"], "files": {"main.abra": p["text"]}}
              for p in frontlib.corpus_programs(2500 if tier == "quick" else None)]
    ccov = vmlib.trace_leg(rep, prop, corpus, wd, 60 if tier == "quick" else len(corpus), jobs=8,
                           flags=vmlib.T_OPT | vmlib.T_ASM, mode="compile", name="corpus")
    rep.coverage = {
        **vmcov,
        "corpus_programs_compiled_with_hooks": ccov.get("vm_traced_runs", 0),
        "corpus_peephole_rewrites_validated": ccov.get("peephole_rewrites_validated", 0),
        "corpus_peephole_rewrites_outside_model": ccov.get("peephole_rewrites_outside_model", 0),
        "corpus_assembled_instructions_validated": ccov.get("assembled_instructions_validated", 0),
        "programs": len(grid) + len(gen), "disagreements_checked": len(cases),
        "evaluations": len(cases), "distinct_nontrivial": len(grid) + len(gen),
        "rule": "(type, operator, left, right, operand form) grid of spec/props/C05.tla (%s) + AbraGen programs, each with the optimizer "
                "on and off; distinct = distinct programs" % ("one fifth, selected by the seed" if tier == "quick" else "complete"),
        "grid_cases": len(grid), "generated_programs": len(gen), "not_compiled_skipped": nskip,
        "out_of_model_relational_only": sum(1 for c in grid if not c.get("inmodel")),
        "exhaustive": tier != "quick", "tlc_states": res.distinct,
        "samples": vlib.sample_cases(grid, 2),
    }
    rep.assumptions = ["operand values from the small grids of C05.tla (64-bit boundaries are C15's, IEEE special values C16's)",
                       "hook: the optimizer is switched off through verif::set_opt_off"]
    return rep.finish()
