"""C38: arena allocation (utils::arena::Arena) is memory-safe for values of any size and alignment.

1. TLC model-checks the bump-allocator model spec/utils/Arena.tla: as written (expected: counterexamples to
   Aligned and InBounds) and repaired (expected: InBounds, Aligned, Disjoint hold for all base residues).
2. TLC generates allocation sequences (exhaustive short ones, seed-random long ones); the replay binary runs
   them on the real Arena natively, under AddressSanitizer and (a sample) under Miri, recording the address
   of every returned reference and reading every value back after every allocation.
3. TLC validates the recorded observations against the property's predicates (spec/props/C38val.tla) and names
   the defect family of every deviation."""
import collections
import json
import os
import random
import time

import vlib
from props import utilchan

P = os.path.join(vlib.SPEC, "props")


def _mc(cfg, workers, timeout):
    return vlib.tlc(os.path.join(P, "C38mc.tla"), cfg=os.path.join(P, cfg), workers=min(workers, utilchan.TLC_WORKERS),
                    timeout=timeout, xmx=utilchan.TLC_XMX)


def _gen(prop, cfg, workers, timeout, simulate=None, seed=None):
    wd = os.path.join(vlib.WORK, prop)
    out = os.path.join(wd, "gen_%s.ndjson" % cfg[:-4])
    if os.path.exists(out):
        os.remove(out)
    res = vlib.tlc(os.path.join(P, "C38.tla"), cfg=os.path.join(P, cfg), workers=min(workers, utilchan.TLC_WORKERS),
                   xmx=utilchan.TLC_XMX, env={"OUT": out},
                   timeout=timeout, simulate=simulate, depth=(8 if simulate else None), seed=seed)
    vlib.tlc_ok(res, cfg)
    return utilchan.decode_tlc_lines(out), res


def _record(case, channel, o):
    """case + observation in the shape spec/props/C38val.tla reads"""
    steps = []
    for s in o["steps"]:
        if "op" not in s:
            continue
        steps.append(dict(s["op"], intact=s.get("proj", [])))
    rec = {"id": case["id"], "channel": channel, "cap": case["cap"], "allocs": case["allocs"], "aw": case["aw"],
           "status": o["status"], "steps": steps}
    if o["status"] != "done":
        u = o.get("ub", {})
        rec["ub"] = {"step": int(u.get("step", 0)), "phase": str(u.get("phase")), "class": str(u.get("class")),
                     "msg": str(u.get("msg"))[:300]}
    return rec


def _validate(wd, recs):
    obs_path = os.path.join(wd, "observations.ndjson")
    vlib.write_ndjson(obs_path, recs)
    val = vlib.tlc(os.path.join(P, "C38val.tla"), env={"OBS": obs_path}, timeout=900, xmx=utilchan.TLC_XMX)
    vlib.tlc_ok(val, "C38val")
    verdicts = val.cases()
    summary = [v for v in verdicts if v.get("summary")]
    if not summary or summary[0]["records"] != len(recs):
        raise vlib.ToolError("C38val did not evaluate all %d records" % len(recs))
    return [v for v in verdicts if not v.get("summary")], summary[0]


def replay(prop, path):
    """re-run one recorded allocation sequence in its channel and let TLC judge it again"""
    with open(path) as fh:
        r = json.load(fh)
    case = r["case"]
    wd = vlib.workdir(prop + "_replay")
    utilchan.prepare(case["channel"], wd)
    obs, _ = utilchan.run(case["channel"], [case], wd, "replay", jobs=1, case_timeout=120.0, startup=300.0,
                          isolate=(case["channel"] == "native"))
    verdicts, _ = _validate(wd, [_record(case, case["channel"], obs[0])])
    print(json.dumps({"observed": obs[0], "verdict": verdicts}, indent=1)[:6000])
    if verdicts:
        print("VIOLATION property=%s replay=%s" % (prop, path))
        return 1
    return 0


utilchan.install_replay("C38", replay)


def run(prop, tier, seed):
    rep = vlib.Report(prop, tier, seed, "model_checking")
    wd = vlib.workdir(prop)
    quick = tier == "quick"
    rnd = random.Random(seed)
    t = {}

    # ---- 1. design-level model checking (one tool at a time: shared machine)
    t0 = time.time()
    mc = {}
    mc["aligned"] = _mc("C38mc_aswritten_aligned.cfg", 1, 600)
    mc["inbounds"] = _mc("C38mc_aswritten_inbounds.cfg", 1, 600)
    mc["disjoint"] = _mc("C38mc_aswritten_disjoint.cfg", 2, 600)
    mc["rep"] = _mc("C38mc_repaired.cfg" if quick else "C38mc_repaired_thorough.cfg", 2, 1500)
    if not quick:
        mc["deep"] = _mc("C38mc_repaired_deep.cfg", 2, 900)      # 6 allocations over a reduced type alphabet
    t["model_checking_s"] = round(time.time() - t0, 1)
    cex = {}
    for name in ("aligned", "inbounds", "disjoint"):
        r = mc[name]
        if not r.violation:
            vlib.tlc_ok(r, "C38mc as written / " + name)
        cex[name] = {"violation_found": bool(r.violation), "distinct_states": r.distinct,
                     "counterexample": (r.cases() or [None])[0]}
    reps = [mc[n] for n in ("rep", "deep") if n in mc]
    for r in reps:
        vlib.tlc_ok(r, "C38mc repaired")
        if r.violation:
            raise vlib.ToolError("the repaired allocator model violates the property: the reference is broken")

    # ---- 2. allocation sequences
    t0 = time.time()
    ex, res1 = _gen(prop, "C38.cfg" if quick else "C38_thorough.cfg", 2, 900)
    sim, res2 = _gen(prop, "C38_sim.cfg", 1, 900, simulate=(20 if quick else 150), seed=seed)
    cases, seen = [], set()
    for c in ex + sim:
        if c["id"] not in seen:
            seen.add(c["id"])
            cases.append(c)
    if not cases:
        raise vlib.ToolError("TLC generated no allocation sequences")
    t["generate_s"] = round(time.time() - t0, 1)

    # ---- 3. replay
    results = {}
    t0 = time.time()
    utilchan.build_asan()
    results["asan"] = (cases,) + utilchan.run("asan", cases, wd, "asan", jobs=4, case_timeout=2.0)
    # natively an out-of-bounds write corrupts the heap of the replay process itself and nothing stops it: one process
    # per sequence, so that a crash is attributed to the sequence that caused it
    # (a seed-chosen part of them: a third in the quick tier, at most 20000 in the thorough tier; ASan above has run all of
    # them with real addresses already)
    nnat = max(200, len(cases) // 3) if quick else 20000
    nat = cases if len(cases) <= nnat else sorted(rnd.sample(cases, nnat), key=lambda c: c["id"])
    results["native"] = (nat,) + utilchan.run("native", nat, wd, "native", jobs=4, case_timeout=5.0, isolate=True)

    def predicted_ub(c):
        return any(a["oob"] for a in c["aw"]) or any(x["align"] > 1 for x in c["allocs"])

    # Miri dies at the first UB and starts slowly: a seed-chosen sample; sequences for which the as-written model
    # predicts trouble go last in their shard (scheduling only)
    utilchan.build_miri(wd)
    safe_pool = sorted([c for c in cases if not predicted_ub(c)], key=lambda c: c["id"])
    risky_pool = sorted([c for c in cases if predicted_ub(c)], key=lambda c: c["id"])
    plan = {"miri-tb": (4 if quick else 12, 2 if quick else 10, 1 if quick else 4),
            "miri-tb-noalign": (3 if quick else 10, 1 if quick else 6, 1 if quick else 4)}
    for mode, (jobs, spj, rpj) in plan.items():
        mc_cases = rnd.sample(safe_pool, min(jobs * spj, len(safe_pool))) + \
            rnd.sample(risky_pool, min(jobs * rpj, len(risky_pool)))
        results[mode] = (mc_cases,) + utilchan.run(mode, mc_cases, wd, mode, jobs=jobs, case_timeout=60.0, startup=240.0)
    t["replay_s"] = round(time.time() - t0, 1)

    # ---- 4. validation by TLC
    t0 = time.time()
    recs = []
    chan = collections.defaultdict(lambda: {"runs": 0, "steps": 0, "done": 0, "deviations": collections.Counter()})
    case_of = {}
    for ch, (ccases, obs, st) in results.items():
        t[ch + "_s"], t[ch + "_processes"] = st["wall_s"], st["processes"]
        for c, o in zip(ccases, obs):
            r = _record(c, ch, o)
            recs.append(r)
            case_of[(c["id"], ch)] = (c, o)
            chan[ch]["runs"] += 1
            chan[ch]["steps"] += len(r["steps"])
            chan[ch]["done"] += 1 if r["status"] == "done" else 0
    verdicts, summary0 = _validate(wd, recs)
    t["validate_s"] = round(time.time() - t0, 1)
    filed = collections.Counter()
    for v in verdicts:
        c, o = case_of[(v["id"], v["channel"])]
        keys = []
        for x in v["viol"]:
            if x["key"] not in keys:
                keys.append(x["key"])
        for key in keys:
            chan[v["channel"]]["deviations"][key] += 1
            filed[key] += 1
            if filed[key] > 3 and key not in {k["key"] for k in rep.known}:
                continue        # same defect family: counted in coverage.channels, three replay files are enough
            mism = [{"field": "%s@%d" % (x["pred"], x["k"]), "want": "holds", "got": x["detail"]}
                    for x in v["viol"] if x["key"] == key]
            first = mism[0]
            rep.finding(key, dict(c, channel=v["channel"], id="%s@%s" % (c["id"], v["channel"])),
                        {"status": o["status"], "ub": o.get("ub"), "steps": o["steps"]}, mism,
                        "Arena %s (%s): %s %s" % (c["id"], v["channel"], first["field"], first["got"]))

    total = len(recs)
    sizes = collections.Counter("%da%d" % (a["size"], a["align"]) for c in cases for a in c["allocs"])
    rep.coverage = {
        "states": sum(r.distinct for r in reps) + res1.distinct + res2.generated
                  + sum(mc[n].distinct for n in ("aligned", "inbounds", "disjoint")),
        "transitions": sum(r.generated for r in reps) + res1.generated + res2.generated,
        "traces_validated_against_impl": total,
        "evaluations": total,
        "distinct_nontrivial": sum(1 for c in cases if len({(a["size"], a["align"]) for a in c["allocs"]}) >= 2),
        "rule": "allocation sequences = all sequences of (size, align) requests up to the configured length over %d types and "
                "%d initial capacities enumerated by TLC (exhaustive part: %d), plus seed-%d random sequences of length 6 (%d); "
                "distinct = distinct (capacity, sequence); non-trivial = at least two different (size, align) types; each is "
                "replayed under ASan, natively in its own process (quick tier: a third of them, thorough: at most 20000), a seed-chosen sample under Miri; all observations are judged "
                "by TLC (C38val.tla)" % (len(sizes), len({c["cap"] for c in cases}), len(ex), seed, len(sim)),
        "sequences": len(cases), "exhaustive_part": len(ex), "random_part": len(sim),
        "requests_by_type": dict(sizes),
        "sequences_with_buffer_switch": sum(1 for c in cases if len({a["buf"] for a in c["aw"]}) > 1),
        "sequences_aswritten_model_predicts_oob": sum(1 for c in cases if any(a["oob"] for a in c["aw"])),
        "sequences_with_align_gt_1": sum(1 for c in cases if any(a["align"] > 1 for a in c["allocs"])),
        "allocations_larger_than_previous_buffer": sum(
            1 for c in cases for i, (x, a) in enumerate(zip(c["allocs"], c["aw"]))
            if i > 0 and a["buf"] != c["aw"][i - 1]["buf"] and x["size"] > c["aw"][i - 1]["buflen"]),
        "design_model": {"as_written": cex,
                         "repaired": [{"distinct_states": r.distinct, "states_generated": r.generated,
                                       "allocations": r.depth - 1, "invariants_hold": not r.violation} for r in reps]},
        "validation": summary0,
        "channels": {ch: {"runs": v["runs"], "steps_observed": v["steps"], "completed": v["done"],
                          "deviations_by_key": dict(v["deviations"])} for ch, v in chan.items()},
        "timing": t,
        "samples": [{"id": c["id"], "cap": c["cap"], "allocs": c["allocs"], "aw": c["aw"]} for c in (cases[:1] + sim[:1])],
    }
    rep.assumptions = [
        "spec/utils/Arena.tla states the property (InBounds, Aligned on the address, Disjoint) and a repaired reference "
        "allocator; buffer base addresses are arbitrary modulo MaxAlign because Box<[MaybeUninit<u8>]> has alignment 1",
        "in-bounds is not observable from addresses alone (the buffers are private; no hook added to /repo/utils): it is "
        "observed as AddressSanitizer / Miri reports; alignment, overlap and value integrity are observed natively",
        "bounded: sizes, alignments, sequence length and initial capacities of the configs; Copy types only (no destructors)",
    ]
    return rep.finish()
