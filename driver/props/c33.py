"""C33: diagnostics point at the offending source text.
spec/front/Diag.tla defines erroneous templates with the offending token marked, contexts with a slot in an earlier
string literal / comment, and variants that fill the slot with non-ASCII code points.  TLC (spec/props/C33.tla)
enumerates every combination; the harness reports the editor diagnostics (message + primary byte range) of each text;
TLC (C33v.cfg) checks every diagnostic against the oracle (InFile, OnBoundary, Shift relative to the ASCII baseline,
Covers the marked token in the baseline) and keys the violations."""
import collections
import os

import vlib
from props import frontlib


def run(prop, tier, seed):
    rep = vlib.Report(prop, tier, seed, "exploration")
    wd = vlib.workdir(prop)
    mod = os.path.join(vlib.SPEC, "props", "C33.tla")
    maxfill = 1 if tier == "quick" else 4
    quick = "1" if tier == "quick" else "0"
    env = dict(frontlib.TLC_ENV, MAXFILL=maxfill, QUICK=quick, OBS=os.devnull)
    gen = vlib.tlc(mod, env=env, metadir=os.path.join(wd, "meta_g"), xmx=frontlib.XMX, timeout=900)
    vlib.tlc_ok(gen, mod)
    cases = gen.cases()
    if not cases or gen.distinct != len(cases):
        raise vlib.ToolError("generator emitted %d cases for %d states" % (len(cases), gen.distinct))
    hcases = [{"id": c["id"], "mode": "lsp", "offsets": [], "forget": False,
               "files": {"main.abra": frontlib.assemble(c["parts"])}} for c in cases]
    obs, hwall = vlib.run_harness(hcases, wd, jobs=frontlib.JOBS, timeout=20)
    confirmed, flaky, _, w2 = frontlib.confirm_crashes(hcases, obs, wd, ("lsp",))       # machine load must not look like a crash
    hwall += w2
    byid = {c["id"]: (c, h, o) for c, h, o in zip(cases, hcases, obs)}

    def main_diags(o):
        # in source order: the order of the error list itself is not part of the property (and varies between runs)
        ds = [{"msg": d["msg"], "start": d["start"], "end": d["end"]} for d in o.get("diags") or [] if d.get("file") == "main.abra"]
        return sorted(ds, key=lambda d: (d["start"], d["end"], d["msg"]))

    rows = []
    no_analysis = 0
    other_file_diags = 0
    for c, h, o in zip(cases, hcases, obs):
        b = byid[c["base"]][2]
        if o.get("lsp") != "ok" or b.get("lsp") != "ok":
            no_analysis += 1          # the analysis itself crashed: C34's matter, nothing to compare here
            continue
        other_file_diags += sum(1 for d in o.get("diags") or [] if d.get("file") != "main.abra")
        rows.append({"id": c["id"], "t": c["t"], "c": c["c"], "f": c["f"], "v": c["v"], "diags": main_diags(o), "base": main_diags(b)})

    obs_path = os.path.join(wd, "obs_summary.ndjson")
    vlib.write_ndjson(obs_path, rows)
    val = vlib.tlc(mod, cfg=mod[:-4] + "v.cfg", env=dict(frontlib.TLC_ENV, MAXFILL=maxfill, QUICK=quick, OBS=obs_path),
                   metadir=os.path.join(wd, "meta_v"), xmx=frontlib.XMX, timeout=900)
    vlib.tlc_ok(val, mod + " (validation)")
    if val.distinct != len(rows):
        raise vlib.ToolError("validation covered %d of %d observations" % (val.distinct, len(rows)))

    keycount = collections.Counter()
    untriggered = set()
    for v in val.cases():
        c, h, o = byid[v["id"]]
        if not v.get("triggered", True):
            untriggered.add(c["template"])
        if v.get("legal"):
            continue
        for n, key in enumerate(v["keys"]):
            keycount[key] += 1
            bad = [b for b in v.get("bad") or [] if b["key"] == key]
            case = dict(h, id=h["id"] if n == 0 else "%s~%d" % (h["id"], n), key=key, template=c["template"], context=c["context"],
                        marks=c["marks"], slot=c["slot"], dbytes=c["dbytes"], dchars=c["dchars"], baseline=byid[c["base"]][1]["files"])
            rep.finding(key, case, {"diags": main_diags(o), "baseline_diags": main_diags(byid[c["base"]][2])}, bad,
                        "diagnostic range wrong: %s in %r" % (bad[:1], h["files"]["main.abra"][:120]))
    if untriggered:
        # a template whose diagnostic kind is not produced any more says nothing: generator / implementation out of sync
        raise vlib.ToolError("templates that do not trigger their diagnostic: %s" % sorted(untriggered))

    ndiags = sum(len(r["diags"]) for r in rows)
    rep.coverage = {
        "evaluations": ndiags, "distinct_nontrivial": sum(1 for c in cases if c["dbytes"] != c["dchars"]),
        "rule": "evaluations = diagnostics checked against the oracle of spec/front/Diag.tla; inputs = every (template x context x filler<=%d x "
                "variant) enumerated by TLC; non-trivial = inputs whose slot holds non-ASCII text (byte and character offsets differ)" % maxfill,
        "exhaustive": True, "inputs": len(cases), "templates": len({c["template"] for c in cases}),
        "contexts": len({c["context"] for c in cases}), "variants": len({c["v"] for c in cases}),
        "inputs_by_template": dict(collections.Counter(c["template"] for c in cases)),
        "tlc_states_generator": gen.distinct, "observations_validated_by_tlc": val.distinct,
        "analysis_crashed_skipped": no_analysis, "crashes_not_reproduced": flaky, "diagnostics_in_other_files_ignored": other_file_diags,
        "violating_inputs_by_key": dict(keycount), "harness_wall_s": round(hwall, 1),
        "samples": [{"id": h["id"], "files": h["files"]} for c, h in zip(cases, hcases) if c["dbytes"] != c["dchars"]][:3],
    }
    rep.assumptions = ["only the primary range (first label) of each diagnostic is judged; secondary labels and the rendered text are not",
                       "the relational clause compares with the ASCII baseline of the same template: it cannot demand more than the "
                       "implementation already gives for ASCII; the absolute clause (Covers) relies on the marks in Diag.tla",
                       "diagnostic kinds not reachable from the templates of Diag.tla are not covered"]
    return rep.finish()
