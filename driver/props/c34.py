"""C34: editor analysis never crashes on incomplete code.
Inputs: spec/front/Mutants.tla enumerated by TLC (spec/props/C34.tla, random with a large share of prefixes +
exhaustive); the harness runs check_lsp, errors() and definition_at / type_at / completions_at at every
character-boundary offset (each query under its own catch_unwind); spec/front/Pipeline.tla (TLC, C34v.cfg)
decides the legality of every observation and gives illegal ones their finding key."""
import collections

import vlib
from props import frontlib


def run(prop, tier, seed):
    rep = vlib.Report(prop, tier, seed, "exploration")
    wd = vlib.workdir(prop)
    cases, info, par = frontlib.generate(prop, tier, seed, wd)
    hcases, dropped = frontlib.to_harness(cases, {"mode": "lsp", "offsets": "all", "perquery": True, "forget": False})
    obs, hwall = vlib.run_harness(hcases, wd, jobs=frontlib.JOBS, timeout=10)
    confirmed, flaky, _, w2 = frontlib.confirm_crashes(hcases, obs, wd, ("lsp",))
    hwall += w2

    rows = []
    queries = 0
    qpanic_sites = collections.Counter()
    for c, o in zip(hcases, obs):
        queries += o.get("queries") or 0
        qs = []
        for q in o.get("qpanics") or []:
            s = {"q": q["q"], "site": frontlib._site(q.get("loc"), q.get("msg"))}
            qpanic_sites[s["q"] + "|" + s["site"]] += 1
            if s not in qs:
                qs.append(s)
        row = {"id": c["id"], "lsp": o.get("lsp") or "none", "qsites": qs,
               "site": frontlib._site(o.get("panic_loc"), o.get("panic")) if o.get("lsp") == "panic" and not qs else ""}
        if row["lsp"] != "ok":
            row["lex"] = frontlib._solid_lex(c["files"]["main.abra"])
        rows.append(row)

    verdicts, vres = frontlib.validate(prop, wd, rows)
    byid = {c["id"]: (c, o) for c, o in zip(hcases, obs)}
    for cid, v in verdicts.items():
        c, o = byid[cid]
        o = dict(o)
        allq = o.get("qpanics") or []
        for n, key in enumerate(v["keys"]):
            case = {"id": cid if n == 0 else "%s~%d" % (cid, n), "mode": "lsp", "offsets": "all", "perquery": True, "forget": False,
                    "files": c["files"], "expect": v["expect"], "key": key, "gen": c["gen"], "op": c["op"], "prog": c["prog"]}
            mine = [q for q in allq if key.endswith("|" + frontlib._site(q.get("loc"), q.get("msg"))) and key.split("|")[1] == q["q"]]
            if allq:
                o["qpanics_total"] = len(allq)
                o["qpanics"] = mine[:4]
            rep.finding(key, case, o, vlib.compare(v["expect"], o),
                        "editor analysis crashed: lsp=%s %s on %r" % (o.get("lsp"), (mine or [o.get("panic")])[0],
                                                                     c["files"]["main.abra"][:160]))

    rep.coverage = dict(info, **{
        "evaluations": queries, "distinct_nontrivial": sum(1 for c in hcases if c["gen"] != "orig"),
        "rule": "evaluations = editor queries answered (definition_at, type_at, completions_at at every character-boundary offset) "
                "over the inputs enumerated by TLC from spec/front/Mutants.tla: exhaustive part (all seeds, all corpus programs, every "
                "mutant incl. every prefix of corpus programs with <= %d solid lexemes, token soup to length %d, skeleton diagonals=%s) "
                "plus %d random behaviours (seed %d; %d%% of the random mutants are prefixes); identical texts merged; non-trivial = "
                "inputs that are not an unmodified corpus program" % (
                    par["maxsolid"], par["souplen"], bool(par["skeldiag"]), par["n_random"], seed, par["truncpct"]),
        "inputs": len(hcases), "exhaustive_part": True,
        "by_generator": dict(collections.Counter(c["gen"] for c in hcases)),
        "by_operator": dict(collections.Counter(c["op"] for c in hcases)),
        "outcomes": dict(collections.Counter(r["lsp"] for r in rows)),
        "inputs_with_diagnostics": sum(1 for o in obs if o.get("diags")),
        "query_panic_sites": dict(qpanic_sites),
        "dropped_unencodable": dropped, "merged_identical_texts": len(cases) - dropped - len(hcases),
        "observations_validated_by_tlc": vres.distinct, "illegal": len(verdicts), "crashes_confirmed_by_rerun": confirmed, "crashes_not_reproduced": flaky, "harness_wall_s": round(hwall, 1),
        "samples": [{"id": c["id"], "files": c["files"]} for c in hcases if c["gen"] != "orig"][:3],
    })
    rep.assumptions = ["'all prefixes and mutations' is the mutation space of spec/front/Mutants.tla over /verif/corpus; cursor offsets are all "
                       "character boundaries of the main file (byte offsets inside a multi-byte character are not queried)",
                       "per-case limits: 10 s wall, 4 GiB address space, 512 MiB stack",
                       "queries are issued against the main file only; the analysis result is dropped after the queries (also part of the observation)"]
    return rep.finish()
