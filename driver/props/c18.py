"""C18: named and default arguments behave like the positional call (spec/front/AbraArgs.tla, spec/props/C18.tla)."""
import vlib
from props import ecommon


def run(prop, tier, seed):
    rep = vlib.Report(prop, tier, seed, "translation_validation")
    wd = vlib.workdir(prop)
    cfg = "C18.cfg" if tier == "quick" else "C18_thorough.cfg"
    # exhaustive enumeration: nothing random, `seed` only recorded
    cases, states, twall = ecommon.enumerate_sharded(prop, "C18.tla", cfg, 2 if tier == "quick" else 4)
    run_cases, obs, failed, hwall = ecommon.judge(rep, cases, wd, "named/default argument call")
    accepted = [c for c in run_cases if c["cat"] == "ok"]
    misuse = [c for c in run_cases if c["cat"] != "ok"]
    fset = set(failed)
    # vacuity guards: every callee kind, every misuse class and every feature of accepted calls must occur
    kinds = {c["kind"] for c in run_cases}
    if len(kinds) < 6 or not accepted or not misuse:
        raise vlib.ToolError("C18 enumeration is degenerate: kinds=%s accepted=%d misuse=%d" % (kinds, len(accepted), len(misuse)))
    for f in ("N", "NR", "D", "ND", "NRD"):
        if not any(c["feat"] == f for c in accepted):
            raise vlib.ToolError("no accepted call with feature set %s generated" % f)
    for m in ("unknown", "extra", "duplicate", "missing", "posafternamed"):
        if not any(m in c["cat"].split("+") for c in misuse):
            raise vlib.ToolError("no misuse shape of class %s generated" % m)
    rep.coverage = {
        "programs": len(run_cases), "disagreements_checked": len(run_cases),
        "evaluations": len(run_cases),
        "distinct_nontrivial": len({c["files"]["main.abra"] for c in run_cases if c["cat"] != "ok" or c["feat"] != ""}),
        "exhaustive": True,
        "rule": "TLC enumerates (states = cases) callee kind x arity x default subset x every argument-label sequence over "
                "{positional, each parameter name, one unknown name} up to the length cap of %s; non-trivial = misuse shape or "
                "accepted call using named arguments / reordering / an omitted default; distinct = distinct program texts" % cfg,
        "tlc_states": states, "tlc_wall_s": round(twall, 1), "harness_wall_s": round(hwall, 1),
        "out_of_model_discarded": len(cases) - len(run_cases),
        "accepted_calls": len(accepted), "misuse_calls": len(misuse),
        "by_kind": ecommon.count_by(run_cases, "kind"),
        "by_arity_defaults": ecommon.count_by(run_cases, "arity", "defaults"),
        "accepted_by_feature(N=named,R=reordered,D=default omitted)": ecommon.count_by(accepted, "feat"),
        "misuse_by_class": ecommon.count_by(misuse, "cat"),
        "default_is_call_cases": sum(1 for c in run_cases if c["dkind"] == "call"),
        "agreeing": len(run_cases) - len(fset),
        "disagreeing_by_kind_class": ecommon.count_by([c for c in run_cases if c["id"] in fset], "kind", "cat"),
        "finding_keys": ecommon.finding_keys(rep),
        "samples": vlib.sample_cases([c for c in accepted if c["feat"] == "NRD"][:1] + [c for c in misuse if c["cat"] == "duplicate"][:1], 2),
    }
    rep.assumptions = [
        "AbraSem!ArgOrder (positional, then by name, then default; evaluated in parameter order) transcribes functions.md / "
        "structs.md / enums.md; x.m(args) = m(x, args) per member_functions.md",
        "parameters are ints; arity <= 3; argument expressions are calls of a printing identity function",
        "a call with more positional arguments than parameters is counted as misuse (not a positional call of the callee)",
        "a default that is a function call may be rejected with a diagnostic instead of being evaluated at the call",
    ]
    return rep.finish()
