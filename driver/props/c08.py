"""C08: a task works on its own copies of the values it captures."""
import json
import os
import vlib
from props import schedlib

PROPS = os.path.join(vlib.SPEC, "props")


def run(prop, tier, seed):
    rep = vlib.Report(prop, tier, seed, "model_checking")
    wd = vlib.workdir(prop)
    cov = {}
    # the copy model itself is the state space of spec/props/C08.tla: one state per (captured kind, mutating side)
    progs, res = vlib.gen_enumerate(prop, os.path.join(PROPS, "C08.tla"))
    cov["states"] = res.distinct
    cov["transitions"] = max(res.generated, 1)
    # compositional kinds (spec/props/C08deep.tla): the mutable array at the end of every path of value constructors
    deep, dres = vlib.gen_enumerate(prop, os.path.join(PROPS, "C08deep.tla"),
                                    cfg=os.path.join(PROPS, "C08deep.cfg" if tier == "quick" else "C08deep_thorough.cfg"))
    cov["states"] += dres.distinct
    ndeep = len(deep)
    progs = progs + deep
    d_tasks = schedlib.drives(wd, "Slicing_tasks" if tier == "quick" else "Slicing_tasks_thorough")
    cases = []
    for j, c in enumerate(progs):
        for i, d in enumerate(d_tasks):
            every = 3 if "path" not in c else 6
            if (tier != "quick" and "path" not in c) or (i + j) % (every if tier == "quick" else 4) == 0:
                extra = {"maxsteps": 60000, "quarantine": (i + j) % 2 == 0}
                if (i + j) % 6 == 0:
                    extra["trace"] = 8
                cases.append(schedlib.with_drive(c, i, d, extra))
    obs, _ = vlib.run_harness(cases, wd, jobs=12, timeout=40)
    ncomp = 0
    for c, o in zip(cases, obs):
        mism = vlib.compare(c["expect"], o)
        if mism:
            kind = o.get("status") if o.get("status") in ("uaf", "panic", "abort") else ("compile-" + str(o.get("compile")) if o.get("compile") != "ok" else "output")
            rep.finding("C08|%s|%s" % (kind, c["id"].split("@")[0]), c, o, mism,
                        "budgets %s delay %d: %s %s" % (c["budgets"], c["delay"], o.get("status"), o.get("panic", o.get("out"))))
    runs = [(c, o) for c, o in zip(cases, obs) if o.get("events")]
    schedlib.validate_traces(rep, prop, runs, wd, cov)
    cov.update({
        "traces_validated_against_impl": len(runs),
        "evaluations": len(cases), "distinct_nontrivial": len({c["id"] for c in cases}),
        "rule": "(captured value kind, mutating side) x embedder drive; kinds and sides enumerated exhaustively by spec/props/C08.tla",
        "programs": len(progs), "compositional_path_programs": ndeep, "drives": len(d_tasks), "exhaustive": True,
        "samples": [{"id": c["id"], "budgets": c["budgets"], "source": c["files"]["main.abra"], "expect": c["expect"]} for c in cases[:2]],
    })
    rep.coverage = cov
    rep.assumptions = ["nesting depth of captured values <= 2 (quick) / 3 (thorough) constructors around the mutable array; "
                       "the observation goes through a string channel"]
    return rep.finish()
