"""C32: runtime errors report the failing file, line and call stack."""
import json
import os
import vlib

PROPS = os.path.join(vlib.SPEC, "props")


def run(prop, tier, seed):
    rep = vlib.Report(prop, tier, seed, "translation_validation")
    wd = vlib.workdir(prop)
    progs, res = vlib.gen_enumerate(prop, os.path.join(PROPS, "C32.tla"), timeout=1500)
    progs = [c for c in progs if c.get("inmodel")]
    # generated programs that stop with a runtime error (single file), from the general generator
    gen, _ = vlib.gen_simulate(prop, os.path.join(PROPS, "C02.tla"), 200 if tier == "quick" else 4000, seed)
    gen = [c for c in gen if c.get("inmodel") and c["expect"]["status"] == "error"]
    cases = []
    for c in progs + gen:
        for bi, b in enumerate([[-1], [1]] if tier == "quick" else [[-1], [1], [3], [7, 2]]):
            d = dict(c)
            d["id"] = "%s@b%d" % (c["id"], bi)
            d["budgets"] = b
            cases.append(d)
    obs, _ = vlib.run_harness(cases, wd, jobs=12, timeout=30)
    nskip = 0
    for c, o in zip(cases, obs):
        if o.get("compile") != "ok":
            if "kind" in c:
                rep.finding("C32|did-not-compile|%s" % c["id"].split("@")[0], c, o, [{"compile": o.get("compile"), "text": (o.get("diag_text") or o.get("panic") or "")[:500]}],
                            "location program rejected by the compiler")
            else:
                nskip += 1
            continue
        mism = vlib.compare(c["expect"], o)
        if mism:
            fields = ",".join(sorted(m["field"] for m in mism))
            key = "C32|%s|%s" % (fields, "%s-%s-%s-%s" % (c["kind"], c["place"], c["layout"], c["hop"]) if "kind" in c else c["id"].split("@")[0])
            rep.finding(key, c, o, mism, "error kind/location/traceback differs from the reference")
    rep.coverage = {
        "programs": len(progs) + len(gen), "disagreements_checked": len(cases),
        "evaluations": len(cases), "distinct_nontrivial": len(progs) + len(gen),
        "rule": "(call depth, error kind, placement, file layout, lambda hop) enumerated exhaustively by spec/props/C32.tla + "
                "AbraGen programs that end in a runtime error; every program fails, distinct = distinct programs",
        "location_programs": len(progs), "generated_failing_programs": len(gen), "not_compiled_skipped": nskip,
        "tlc_states": res.distinct, "exhaustive": True,
        "samples": [{"id": progs[len(progs) // 2]["id"], "files": progs[len(progs) // 2]["files"], "expect": progs[len(progs) // 2]["expect"]}],
    }
    rep.assumptions = ["one statement per line (Render); expressions never span lines", "`e!` fails inside the prelude's unwrap: its line is unspecified"]
    return rep.finish()
