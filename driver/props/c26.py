"""C26: array operations match the list model spec/lib2/AbraArray.tla and fail cleanly.

TLC enumerates every history over the family alphabets of spec/props/C26.tla up to a bounded length (model
checking mode, state = history) and draws long random histories (simulation mode); every maximal history is
one program with the model's expected output / runtime error.  The harness runs them, this module compares."""
import collections
import os
import vlib

MODULE = os.path.join(vlib.SPEC, "props", "C26.tla")
SIMCFG = os.path.join(vlib.SPEC, "props", "C26sim.cfg")
# resource use (the machine is shared): overridable through the environment
WORKERS = int(os.environ.get("VERIF_TLC_WORKERS", "2"))
JOBS = int(os.environ.get("VERIF_JOBS", "4"))


def enumerate_cases(prop, plan, timeout):
    """model checking mode: every state a history, maximal ones printed as CASE lines"""
    res = vlib.tlc(MODULE, env={"PLAN": plan}, workers=WORKERS, xmx="3g", timeout=timeout)
    vlib.tlc_ok(res, MODULE)
    return res.cases(), res


def simulate_cases(prop, plan, n, seed, depth, timeout):
    """simulation mode: one JSON file per random history"""
    outdir = os.path.join(vlib.WORK, prop, "sim")
    os.makedirs(outdir, exist_ok=True)
    res = vlib.tlc(MODULE, cfg=SIMCFG, simulate=n, depth=depth, seed=seed, env={"PLAN": plan, "OUTDIR": outdir},
                   xmx="3g", timeout=timeout)
    vlib.tlc_ok(res, MODULE)
    return vlib.load_case_files(outdir), res


PLAN = {"quick": {"plan": "quick", "sim": "simquick", "nsim": 150, "depth": 32, "tlc_timeout": 200},
        "thorough": {"plan": "thorough", "sim": "simthorough", "nsim": 1000, "depth": 62, "tlc_timeout": 800}}


def run(prop, tier, seed):
    rep = vlib.Report(prop, tier, seed, "model_checking")
    wd = vlib.workdir(prop)
    plan = PLAN[tier]
    cases, res = enumerate_cases(prop, plan["plan"], plan["tlc_timeout"])
    if not cases:
        raise vlib.ToolError("no cases from TLC")
    n_enum = len(cases)
    sims, sres = simulate_cases(prop, plan["sim"], plan["nsim"], seed, plan["depth"], plan["tlc_timeout"])
    cases += sims
    states = res.distinct + sres.generated
    transitions = res.generated + sres.generated
    tlc_wall = res.wall + sres.wall
    ids = set()
    for c in cases:
        if c["id"] in ids:
            raise vlib.ToolError("duplicate case id " + c["id"])
        ids.add(c["id"])

    inmodel = [c for c in cases if c.get("inmodel")]
    obs, hwall = vlib.run_harness(inmodel, wd, jobs=JOBS)
    not_compiled = 0
    agree = 0
    for c, o in zip(inmodel, obs):
        if o.get("compile") != "ok":
            not_compiled += 1          # not a C26 matter (C03/C04); must stay rare, see below
            continue
        mism = vlib.compare(c["expect"], o)
        if not mism:
            agree += 1
            continue
        d = c.get("defect")
        if d and not vlib.compare(d["expect"], o):
            # exactly the deviation the specification describes as known for this class
            rep.finding(d["key"], c, o, mism, "pop on an empty array: %s instead of a runtime error (%s)" % (
                o.get("status"), (o.get("panic") or "")[:80]))
        else:
            rep.finding("%s|%s" % (c["key"], ",".join(sorted(m["field"] for m in mism))), c, o, mism,
                        "observation differs from the list model after: " + "; ".join(c["ops"][-4:]))
    if not_compiled * 50 > len(inmodel):
        raise vlib.ToolError("%d of %d generated programs did not compile: renderer out of sync" % (not_compiled, len(inmodel)))

    kinds = collections.Counter(k for c in inmodel for k in c["kinds"])
    outcome = collections.Counter(c.get("why", "done") for c in inmodel)
    lens = collections.Counter(c["len"] for c in inmodel)
    texts = {c["files"]["main.abra"] for c in inmodel if c["len"] >= 2}
    aliasing = {"assign:var", "assign:idx", "push:var", "set:var"}
    alias = sum(1 for c in inmodel if aliasing & set(c["kinds"]))
    clone = sum(1 for c in inmodel if any(k.startswith("assign:clone") for k in c["kinds"]))
    errs = [c for c in inmodel if c["expect"]["status"] == "error"]
    rep.coverage = {
        "states": states, "transitions": transitions, "traces_validated_against_impl": len(inmodel),
        "evaluations": len(inmodel), "distinct_nontrivial": len(texts),
        "rule": "model checking mode: every history over the family alphabet (flatR 14, flatM 33, flatF 55, nest 27 operations; values {0,1}) "
                "up to the job's length for each job of Plans[%s] in spec/props/C26.tla, one program per maximal history (length bound reached or first failing operation), "
                "every prefix is validated by the state print after each operation; simulation: random histories (seed %d) over "
                "a, b: array<int>, n, m: array<array<int>>, values 0..2; non-trivial = in-model history with >= 2 operations, "
                "distinct = distinct program texts" % (plan["plan"], seed),
        "exhaustive": True,
        "histories_by_family<=length": dict(sorted(collections.Counter("%s<=%d" % (c["fam"], c["maxlen"]) for c in cases).items())),
        "enumerated_maximal_histories": n_enum, "simulated_histories": len(cases) - n_enum,
        "out_of_model_discarded": len(cases) - len(inmodel), "not_compiled_skipped": not_compiled,
        "agreeing": agree, "operations_by_kind": dict(sorted(kinds.items())), "total_operations": sum(kinds.values()),
        "ending": dict(sorted(outcome.items())), "expected_runtime_errors": len(errs),
        "histories_with_two_allowed_orders_after_remove": sum(1 for c in inmodel if c["alts"] > 1),
        "histories_with_aliasing": alias, "histories_with_clone": clone,
        "length_histogram": {str(k): v for k, v in sorted(lens.items())},
        "max_history_length": max(lens) if lens else 0,
        "tlc_wall_s": round(tlc_wall, 1), "harness_wall_s": round(hwall, 1),
        "samples": vlib.sample_cases(inmodel[len(inmodel) // 2:], 1) + vlib.sample_cases(errs, 1) + vlib.sample_cases(inmodel[-1:], 1),
    }
    rep.assumptions = [
        "spec/lib2/AbraArray.tla is the reference: it transcribes builtin_types.md / standard_library.md; is_empty, swap, clear, "
        "remove are given their list meaning; after remove both the order-preserving and the swap-with-last result are allowed",
        "kind of the runtime error is only fixed for direct indexing (oob); pop/swap/remove failures may be any runtime error",
        "not decided: clone/filled of values with internal sharing, array.filled with array elements or negative count, "
        "mutation during iteration, sort*; element types other than int and array<int>",
        "exhaustiveness is relative to the listed alphabets and length bounds",
    ]
    return rep.finish()
