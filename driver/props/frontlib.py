"""Shared orchestration for the front-end robustness checks C04 / C34 (no correctness knowledge here).

* lexemes(text): a *purely syntactic* split of a program text into lexemes (whitespace / newline / comment /
  identifier / number / string / operator / other).  It is the input format of spec/front/Mutants.tla (the mutation
  operators are defined there, over these lexeme sequences); "".join(l["s"]) reproduces the text exactly.
* corpus_file(): writes the corpus (/verif/corpus/*.abra) as one ndjson record per program for TLC.
* assemble(case): joins the `parts` a spec emitted (strings and code points) into the file text.
"""
import glob
import json
import os
import re

import vlib

CORPUS = os.path.join(vlib.ROOT, "corpus")
TLC_ENV = {"JAVA_TOOL_OPTIONS": "-Dfile.encoding=UTF-8"}      # TLC strings then carry non-ASCII text unchanged

_OPS = ["\"\"\"", "->", "==", "!=", "<=", ">=", "+=", "-=", "*=", "/=", "%=", ".."]
_LEX = re.compile(
    r"(?P<nl>\n)"
    r"|(?P<ws>[ \t\r]+)"
    r"|(?P<com>//[^\n]*|/\*.*?\*/)"
    r"|(?P<str>\"\"\".*?\"\"\"|\"(?:\\.|[^\"\\\n])*\"|'(?:\\.|[^'\\\n])*')"
    r"|(?P<id>[A-Za-z_][A-Za-z0-9_]*)"
    r"|(?P<num>[0-9][0-9_]*(?:\.[0-9][0-9_]*)?)"
    r"|(?P<op>" + "|".join(re.escape(o) for o in _OPS) + r")"
    r"|(?P<oth>.)", re.S)


def lexemes(text):
    res = []
    for m in _LEX.finditer(text):
        k = m.lastgroup
        s = m.group(0)
        if k == "oth" and s.isascii() and not s.isspace():
            k = "op"                      # single-character punctuation
        res.append({"k": k, "s": s, "a": s.isascii()})
    assert "".join(l["s"] for l in res) == text
    return res


def corpus_programs(max_bytes=None):
    with open(os.path.join(CORPUS, "INDEX.json")) as fh:
        index = json.load(fh)
    progs = []
    for e in index:
        if max_bytes and e["bytes"] > max_bytes:
            continue
        with open(os.path.join(CORPUS, e["file"]), encoding="utf-8") as fh:
            text = fh.read()
        progs.append({"name": e["file"][:-5], "origin": e["origin"], "text": text})
    if not progs:
        raise vlib.ToolError("empty corpus: run driver/extract_corpus.py")
    return progs


def corpus_file(path, max_bytes=None):
    """ndjson for TLC: {name, lex: [{k, s, a}], solid: [positions of non-blank lexemes], nsolid}"""
    progs = corpus_programs(max_bytes)
    rows = []
    for p in progs:
        lx = lexemes(p["text"])
        solid = [i + 1 for i, l in enumerate(lx) if l["k"] not in ("ws", "nl", "com")]     # 1-based positions
        rows.append({"name": p["name"], "lex": lx, "solid": solid, "nsolid": len(solid)})
    vlib.write_ndjson(path, rows)
    return rows


def assemble(parts):
    """parts: sequence of {"s": text} / {"cp": code point}  ->  text"""
    out = []
    for p in parts:
        if "cp" in p:
            out.append(chr(p["cp"]))
        else:
            out.append(p["s"])
    return "".join(out)


def encodable(text):
    try:
        text.encode("utf-8")
        return True
    except UnicodeEncodeError:
        return False
