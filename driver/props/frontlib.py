"""Shared orchestration for the front-end robustness checks C04 / C34 (no correctness knowledge here).

* lexemes(text): a *purely syntactic* split of a program text into lexemes (whitespace / newline / comment /
  identifier / number / string / operator / other).  It is the input format of spec/front/Mutants.tla (the mutation
  operators are defined there, over these lexeme sequences); "".join(l["s"]) reproduces the text exactly.
* corpus_file(): writes the corpus (/verif/corpus/*.abra) as one ndjson record per program for TLC.
* assemble(case): joins the `parts` a spec emitted (strings and code points) into the file text.
"""
import glob
import json
import os
import re

import vlib

CORPUS = os.path.join(vlib.ROOT, "corpus")
TLC_ENV = {"JAVA_TOOL_OPTIONS": "-Dfile.encoding=UTF-8"}      # TLC strings then carry non-ASCII text unchanged
JOBS = max(1, int(os.environ.get("VERIF_JOBS", "4")))          # harness worker processes (shared machine: keep it small)
XMX = "3g"                                                     # TLC heap

_OPS = ["\"\"\"", "->", "==", "!=", "<=", ">=", "+=", "-=", "*=", "/=", "%=", ".."]
_LEX = re.compile(
    r"(?P<nl>\n)"
    r"|(?P<ws>[ \t\r]+)"
    r"|(?P<com>//[^\n]*|/\*.*?\*/)"
    r"|(?P<str>\"\"\".*?\"\"\"|\"(?:\\.|[^\"\\\n])*\"|'(?:\\.|[^'\\\n])*')"
    r"|(?P<id>[A-Za-z_][A-Za-z0-9_]*)"
    r"|(?P<num>[0-9][0-9_]*(?:\.[0-9][0-9_]*)?)"
    r"|(?P<op>" + "|".join(re.escape(o) for o in _OPS) + r")"
    r"|(?P<oth>.)", re.S)


def lexemes(text):
    res = []
    for m in _LEX.finditer(text):
        k = m.lastgroup
        s = m.group(0)
        if k == "oth" and s.isascii() and not s.isspace():
            k = "op"                      # single-character punctuation
        res.append({"k": k, "s": s, "a": s.isascii()})
    assert "".join(l["s"] for l in res) == text
    return res


def corpus_programs(max_bytes=None):
    with open(os.path.join(CORPUS, "INDEX.json")) as fh:
        index = json.load(fh)
    progs = []
    for e in index:
        if max_bytes and e["bytes"] > max_bytes:
            continue
        with open(os.path.join(CORPUS, e["file"]), encoding="utf-8") as fh:
            text = fh.read()
        progs.append({"name": e["file"][:-5], "origin": e["origin"], "text": text})
    if not progs:
        raise vlib.ToolError("empty corpus: run driver/extract_corpus.py")
    return progs


def corpus_file(path, max_bytes=None):
    """ndjson for TLC: {name, lex: [{k, s, a}], solid: [positions of non-blank lexemes], nsolid}"""
    progs = corpus_programs(max_bytes)
    rows = []
    for p in progs:
        lx = lexemes(p["text"])
        solid = [i + 1 for i, l in enumerate(lx) if l["k"] not in ("ws", "nl", "com")]     # 1-based positions
        rows.append({"name": p["name"], "lex": lx, "solid": solid, "nsolid": len(solid)})
    vlib.write_ndjson(path, rows)
    return rows


def assemble(parts):
    """parts: sequence of {"s": text} / {"cp": code point}  ->  text"""
    out = []
    for p in parts:
        if "cp" in p:
            out.append(chr(p["cp"]))
        else:
            out.append(p["s"])
    return "".join(out)


def encodable(text):
    try:
        text.encode("utf-8")
        return True
    except UnicodeEncodeError:
        return False


# ------------------------------------------------------------------ C04 / C34 driver (shared)
import collections
import time

TIERS = {
    # n_random: behaviours of the random enumerator; maxsolid/souplen/skeldiag: bounds of the exhaustive one;
    # max_bytes: corpus programs larger than this are left out (None = whole corpus)
    "C04": {"quick": dict(n_random=600, maxsolid=0, souplen=1, esouplen=4, lsouplen=2, argslen=4, lamlen=7, skeldiag=0, truncpct=0, max_bytes=2500),
            "thorough": dict(n_random=8000, maxsolid=3, souplen=1, esouplen=5, lsouplen=3, argslen=5, lamlen=9, skeldiag=1, truncpct=0, max_bytes=None)},
    "C34": {"quick": dict(n_random=500, maxsolid=0, souplen=1, esouplen=3, lsouplen=2, argslen=3, lamlen=6, skeldiag=0, truncpct=35, max_bytes=2500),
            "thorough": dict(n_random=8000, maxsolid=3, souplen=1, esouplen=4, lsouplen=3, argslen=4, lamlen=8, skeldiag=1, truncpct=35, max_bytes=None)},
}


def _site(loc, msg):
    # the site is the source file + message; line numbers are dropped so that keys survive unrelated edits of the file
    loc = re.sub(r":\d+$", "", loc or "?")
    s = "%s|%s" % (loc, " ".join((msg or "").split())[:90])
    return s.encode("ascii", "replace").decode("ascii")


def _solid_lex(text):
    return [l["s"] for l in lexemes(text) if l["k"] not in ("ws", "nl", "com")]


def generate(prop, tier, seed, wd):
    """run the random and the exhaustive enumerator of spec/front/FrontGen.tla; returns (cases, info)"""
    par = TIERS[prop][tier]
    corpus = os.path.join(wd, "corpus.ndjson")
    rows = corpus_file(corpus, par["max_bytes"])
    env = dict(TLC_ENV, CORPUS=corpus, MAXSOLID=par["maxsolid"], SOUPLEN=par["souplen"], ESOUPLEN=par["esouplen"], LSOUPLEN=par["lsouplen"], ARGSLEN=par["argslen"], LAMLEN=par["lamlen"], SKELDIAG=par["skeldiag"],
               TRUNCPCT=par["truncpct"], OBS=os.devnull)
    mod = os.path.join(vlib.SPEC, "props", prop + ".tla")
    res = {}
    # one TLC process at a time
    res["random"] = vlib.tlc(mod, cfg=mod[:-4] + ".cfg", simulate=par["n_random"], depth=2, seed=seed, env=env,
                             metadir=os.path.join(wd, "meta_r"), timeout=1500, xmx=XMX)
    vlib.tlc_ok(res["random"], mod + " (random)")
    res["exhaustive"] = vlib.tlc(mod, cfg=mod[:-4] + "x.cfg", env=env, metadir=os.path.join(wd, "meta_x"), timeout=1500, xmx=XMX)
    vlib.tlc_ok(res["exhaustive"], mod + " (exhaustive)")
    cases = []
    for kind in ("exhaustive", "random"):
        for c in res[kind].cases():
            c["src"] = kind
            cases.append(c)
    info = {"corpus_programs": len(rows), "tlc_random_states": res["random"].generated,
            "tlc_exhaustive_states": res["exhaustive"].distinct, "tlc_wall_s": round(sum(r.wall for r in res.values()), 1),
            "generated_random": sum(1 for c in cases if c["src"] == "random"),
            "generated_exhaustive": sum(1 for c in cases if c["src"] == "exhaustive")}
    return cases, info, par


def to_harness(cases, extra):
    """assemble texts, drop non-encodable ones (a prefix may split a surrogate pair), merge identical texts"""
    seen = {}
    out = []
    dropped = 0
    for c in cases:
        text = assemble(c["parts"])
        if not encodable(text):
            dropped += 1
            continue
        if text in seen:
            continue
        seen[text] = c["id"]
        h = {"id": c["id"], "files": {"main.abra": text}, "gen": c["gen"], "op": c["op"], "src": c["src"], "prog": c["prog"]}
        h.update(extra)
        out.append(h)
    return out, dropped


def validate(prop, wd, rows):
    """TLC decides: rows = observation records; returns ({id: verdict{key, expect}} for the illegal ones, TlcResult)"""
    obs_path = os.path.join(wd, "obs_summary.ndjson")
    vlib.write_ndjson(obs_path, rows)
    empty = os.path.join(wd, "empty.ndjson")
    open(empty, "w").close()
    mod = os.path.join(vlib.SPEC, "props", prop + ".tla")
    env = dict(TLC_ENV, CORPUS=empty, MAXSOLID=0, SOUPLEN=0, ESOUPLEN=0, LSOUPLEN=0, ARGSLEN=0, LAMLEN=0, SKELDIAG=0, TRUNCPCT=0, OBS=obs_path)
    r = vlib.tlc(mod, cfg=mod[:-4] + "v.cfg", env=env, metadir=os.path.join(wd, "meta_v"), timeout=900, xmx=XMX)
    vlib.tlc_ok(r, mod + " (validation)")
    if r.distinct != len(rows):
        raise vlib.ToolError("validation covered %d of %d observations" % (r.distinct, len(rows)))
    return {v["id"]: v for v in r.cases()}, r


def confirm_crashes(hcases, obs, wd, fields, extra_modes=()):
    """A worker death (abort / time limit) is only believed when it reproduces in a second, less loaded harness run
    (machine load must not become a finding).  Returns (number confirmed, number not reproduced, {id#mode: obs} for the
    extra single-API runs, wall).  obs entries of unreproduced crashes are replaced by the second observation."""
    def crashed(o):
        return any(o.get(f) in ("abort", "timeout") for f in fields)
    idx = [i for i, o in enumerate(obs) if crashed(o)]
    if not idx:
        return 0, 0, {}, 0.0
    again = []
    for i in idx:
        again.append(hcases[i])
        for m in extra_modes:
            again.append(dict(hcases[i], id=hcases[i]["id"] + "#" + m, mode=m))
    o2, wall = vlib.run_harness(again, wd, name="confirm", jobs=min(JOBS, len(again)), timeout=10)
    second = {c["id"]: o for c, o in zip(again, o2)}
    confirmed = flaky = 0
    for i in idx:
        o = second[hcases[i]["id"]]
        if crashed(o):
            confirmed += 1
        else:
            flaky += 1
            obs[i] = o
    return confirmed, flaky, second, wall
