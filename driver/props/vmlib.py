"""Transport for spec/vm/TraceVM.tla (instruction-level conformance, peephole translation validation, assembler check).

Nothing here knows what an instruction does.  The hook writes the Rust Debug text of instructions and numbers as decimal
strings; TLC wants structure and (because its integers have 32 bits) limb sequences.  This module only re-shapes:

  * parse_debug("AddIntImm(Top, Offset(-1), 7)") -> {"op": "AddIntImm", "args": [{"k": "top"}, {"k": "off", "n": -1},
    {"k": "num", "n": 7, "v": {"neg": false, "mag": [7]}}]}
  * decimal string -> {"neg", "mag"} (little-endian limbs base 10^4, the representation of spec/lib/I64.tla)
  * the text of a float constant -> sign, digit magnitude and scale (value = d / 10^k), or inf / nan
"""
import json
import os
import re

import vlib

VM = os.path.join(vlib.SPEC, "vm")
T_STEP, T_VAL, T_OPT, T_ASM = 2, 16, 32, 64
FLAGS = T_STEP | T_VAL | T_OPT | T_ASM
I32 = 2 ** 31 - 1


def mag(n):
    n = abs(int(n))
    out = []
    while n:
        out.append(n % 10000)
        n //= 10000
    return out


def num(s):
    n = int(s)
    return {"neg": n < 0, "mag": mag(n)}


def flit(text):
    """sign / digits / scale of a decimal float spelling (Rust f64 Display / FromStr syntax)"""
    t = text.strip()
    neg = t.startswith("-")
    if t[:1] in "+-":
        t = t[1:]
    low = t.lower()
    if low in ("inf", "infinity"):
        return {"neg": neg, "sp": "inf", "d": [], "k": 0}
    if low == "nan":
        return {"neg": neg, "sp": "nan", "d": [], "k": 0}
    m = re.fullmatch(r"([0-9]*)(?:\.([0-9]*))?(?:[eE]([+-]?[0-9]+))?", t)
    if not m or not (m.group(1) or m.group(2)):
        return None
    ip, fp, ex = m.group(1) or "", m.group(2) or "", int(m.group(3) or 0)
    digits = int((ip + fp) or "0")
    k = len(fp) - ex
    if k < 0:
        digits *= 10 ** (-k)
        k = 0
    if k > 400 or len(str(digits)) > 800:
        return None
    return {"neg": neg, "sp": "", "d": mag(digits), "k": k}


def _split_args(s):
    out, depth, cur, instr, esc = [], 0, "", False, False
    for c in s:
        if instr:
            cur += c
            if esc:
                esc = False
            elif c == "\\":
                esc = True
            elif c == '"':
                instr = False
            continue
        if c == '"':
            instr = True
            cur += c
        elif c in "([{":
            depth += 1
            cur += c
        elif c in ")]}":
            depth -= 1
            cur += c
        elif c == "," and depth == 0:
            out.append(cur.strip())
            cur = ""
        else:
            cur += c
    if cur.strip():
        out.append(cur.strip())
    return out


def _ascii(s):
    return s.encode("ascii", "backslashreplace").decode("ascii")


def _arg(a):
    a = a.strip()
    m = re.fullmatch(r"[a-z_]+:\s*(.*)", a)            # struct-like variant field `tag: 3`
    if m:
        a = m.group(1)
    if a == "Top":
        return {"k": "top"}
    m = re.fullmatch(r"Offset\((-?\d+)\)", a)
    if m:
        return {"k": "off", "n": int(m.group(1))}
    m = re.fullmatch(r"(?:CallData|ProgramCounter)\((\d+)\)", a)
    if m:
        a = m.group(1)
    if re.fullmatch(r"-?\d+", a):
        n = int(a)
        r = {"k": "num", "v": num(a)}
        if abs(n) <= I32:
            r["n"] = n
        return r
    if a in ("true", "false"):
        return {"k": "bool", "b": a == "true"}
    if a.startswith('"') and a.endswith('"'):
        try:
            s = json.loads(a)
        except ValueError:
            s = a[1:-1]
        r = {"k": "str", "s": _ascii(s)}
        f = flit(s)
        if f is not None:
            r["f"] = f
        return r
    return {"k": "other", "s": _ascii(a)}


def parse_debug(text):
    text = text.strip()
    m = re.fullmatch(r"([A-Za-z0-9_]+)\s*(?:\((.*)\)|\{(.*)\})?", text, re.S)
    if not m:
        return {"op": "?", "args": []}
    body = m.group(2) if m.group(2) is not None else m.group(3)
    args = [_arg(a) for a in _split_args(body)] if body is not None else []
    return {"op": m.group(1), "args": args}


def _val(j):
    t = j["t"]
    if t == "i":
        return {"t": "i", "v": num(j["v"])}
    if t == "f":
        return {"t": "f", "v": mag(j["v"])}
    if t == "b":
        return {"t": "b", "v": j["v"] not in ("0", 0, False, "false")}
    return {"t": "r", "v": str(j["v"])}


def _obj(o):
    if o["k"] == "struct":
        return {"k": "struct", "fs": [_val(x) for x in o["fs"]]}
    if o["k"] == "array":
        return {"k": "array", "len": o["len"], "es": [_val(x) for x in o["es"]]}
    return {"k": "variant", "tag": o["tag"], "val": _val(o["val"])}


def _side(s, consts):
    out = {"top": [_val(x) for x in s.get("top", [])],
           "slots": {k: _val(v) for k, v in s.get("slots", {}).items()}}
    if "objs" in s:
        out["objs"] = {k: _obj(o) for k, o in s["objs"].items()}
    if consts:
        out["ki"] = {k: num(v) for k, v in s.get("ki", {}).items()}
        out["kf"] = {k: mag(v) for k, v in s.get("kf", {}).items()}
    return out


def normalise(ev):
    """one hook event -> the record TraceVM.tla reads (None: not an event of this validator)"""
    e = ev.get("e")
    if e == "step":
        if "v0" not in ev:
            return None
        ins = parse_debug(ev["dbg"])
        return {"e": "step", "op": ins["op"], "args": ins["args"], "pc": ev["pc"], "pc1": ev["pc1"], "d0": ev["d0"],
                "d1": ev["d1"], "b0": ev["b0"], "b1": ev["b1"], "f0": ev["f0"], "f1": ev["f1"], "tid": ev["tid"], "st": ev["st"], "ek": parse_debug(ev.get("ek") or "None")["op"],
                "v0": _side(ev["v0"], True), "v1": _side(ev["v1"], False)}
    if e == "rewrite":
        return {"e": "rewrite", "before": [parse_debug(x) for x in ev["before"]],
                "after": [parse_debug(x) for x in ev["after"]],
                "text": _ascii(" ; ".join(ev["before"]) + "  =>  " + " ; ".join(ev["after"]))}
    if e == "asm":
        return {"e": "asm", "i": ev["i"], "asm": parse_debug(ev["asm"]), "vm": parse_debug(ev["vm"]),
                "ki": {k: num(v) for k, v in ev.get("ki", {}).items()},
                "kf": {k: _ascii(v) for k, v in ev.get("kf", {}).items()},
                "labels": {_ascii(k): v for k, v in ev.get("labels", {}).items()}}
    return None


def convert(run_id, trace_path, out, seen_rewrites=None, seen_asm=None):
    """append the normalised events of one recorded run; identical rewrite / asm events are validated once"""
    n = 0
    out.write(json.dumps({"e": "reset", "run": run_id}) + "\n")
    with open(trace_path) as fh:
        for line in fh:
            line = line.strip()
            if not line:
                continue
            ev = json.loads(line)
            if ev.get("e") == "rewrite" and seen_rewrites is not None:
                if line in seen_rewrites:
                    continue
                seen_rewrites.add(line)
            if ev.get("e") == "asm" and seen_asm is not None:
                k = json.dumps([ev["asm"], ev["vm"], ev.get("ki"), ev.get("kf"), ev.get("labels")], sort_keys=True)
                if k in seen_asm:
                    continue
                seen_asm.add(k)
            r = normalise(ev)
            if r is not None:
                out.write(json.dumps(r) + "\n")
                n += 1
    return n


def validate(runs, wd, chunk_events=40000, tag="vm"):
    """runs: [(run id, trace file)] -> (list of violations, coverage totals).  TLC (TraceVM.tla) decides."""
    totals = {}
    viols = []
    seen_rw, seen_asm = set(), set()
    part = 0
    i = 0
    while i < len(runs):
        path = os.path.join(wd, "%s_trace_%d.ndjson" % (tag, part))
        n = 0
        with open(path, "w") as out:
            while i < len(runs) and n < chunk_events:
                rid, tp = runs[i]
                i += 1
                if tp and os.path.exists(tp):
                    n += convert(rid, tp, out, seen_rw, seen_asm)
        if n == 0:
            os.remove(path)
            continue
        res = vlib.tlc(os.path.join(VM, "TraceVM.tla"), env={"TRACE": path}, deque=True, timeout=3000, xmx="6g")
        v = None
        for line in res.out.splitlines():
            if line.startswith('<<"VERDICT", '):
                v = json.loads(json.loads(line[len('<<"VERDICT", '):-2]))
        if v is None or v["consumed"] != v["events"]:
            raise vlib.ToolError("TraceVM did not consume the whole trace %s\n%s" % (path, res.out[-3000:]))
        viols += v["violations"]
        for k, x in v.items():
            if isinstance(x, int) and k not in ("consumed",):
                totals[k] = totals.get(k, 0) + x
        if not v["violations"]:
            os.remove(path)
        part += 1
    return viols, totals


def trace_leg(rep, prop, cases, wd, n, jobs=6, maxsteps=20000, timeout=90, flags=FLAGS, mode=None, name="traced"):
    """re-run a sample of `cases` with the instruction-level hooks on and let TraceVM.tla validate the recorded events;
    violations are filed on `rep`; returns the coverage counters"""
    if not cases or n <= 0:
        return {}
    stride = max(1, len(cases) // n)
    traced = [dict(c, id=c["id"] + "@vm", trace=flags, maxsteps=maxsteps) for c in cases[::stride][:n]]
    if mode:
        traced = [dict(c, mode=mode) for c in traced]
    tobs, _ = vlib.run_harness(traced, wd, name=name, jobs=jobs, timeout=timeout)
    runs = [(c["id"], o.get("events")) for c, o in zip(traced, tobs) if o.get("events")]
    viols, cov = validate(runs, wd, tag=name)
    byid = {c["id"]: (c, o) for c, o in zip(traced, tobs)}
    for x in viols:
        c, o = byid.get(x["run"], ({"id": x["run"]}, {}))
        if x["kind"].startswith("rewrite"):
            key = "%s|vm|%s|%s" % (prop, x["kind"], x["info"][:160])
        else:
            key = "%s|vm|%s|%s" % (prop, x["kind"], x["info"].split(",")[0].strip('<"> '))
        rep.finding(key, c, o, [x], "TraceVM rejects the event: %s %s (run %s, event %d)" % (x["kind"], x["info"][:300], x["run"], x["line"]))
    for p in [o.get("events") for o in tobs]:
        if p and os.path.exists(p):
            os.remove(p)
    return {"vm_traced_runs": len(runs), "vm_instruction_steps_validated": cov.get("steps_checked", 0),
            "vm_calls_returns_validated": cov.get("calls_returns", 0), "vm_steps_outside_model": cov.get("steps_unmodelled", 0),
            "vm_steps_value_undecided": cov.get("steps_undecided", 0), "peephole_rewrites_validated": cov.get("rewrites", 0),
            "peephole_rewrites_undecided": cov.get("rewrites_undecided", 0),
            "peephole_rewrites_outside_model": cov.get("rewrites_unmodelled", 0),
            "assembled_instructions_validated": cov.get("assembled", 0)}
