"""C25: sort / sort_by / sort_by_key yield a sorted permutation, stably for sort_by and sort_by_key.
spec/props/C25.tla enumerates inputs and emits programs; the harness records the sorted arrays (host calls);
spec/props/C25V.tla decides permutation / order / stability with the predicates of spec/lib2/Sort.tla.
This module only moves JSON between them."""
import collections
import copy
import glob
import json
import os
import vlib
from props import bcommon


def _canaries(cases, obs):
    """corrupted copies of real observations that any non-vacuous validator must reject:
    swap = two neighbouring recorded elements with different keys exchanged (breaks the order),
    dup  = one recorded element overwritten by its neighbour (breaks the permutation),
    eqswap = two neighbouring elements with equal keys exchanged in a method that must be stable"""
    res = []
    for c, o in zip(cases, obs):
        host = o.get("host") or []
        if o.get("status") != "done" or len(host) < 2:
            continue
        stable = {str(i + 1) for i, m in enumerate(c["methods"]) if m["stable"]}
        made = set()
        for i in range(len(host) - 1):
            a, b = host[i]["args"], host[i + 1]["args"]
            if a[0] != b[0]:
                continue
            kinds = []
            if a[1] != b[1]:
                kinds += ["swap", "dup"]
            elif a[2] != b[2] and a[0] in stable:
                kinds += ["eqswap"]
            for kind in kinds:
                if kind in made:
                    continue
                made.add(kind)
                h = copy.deepcopy(host)
                if kind == "dup":
                    h[i] = copy.deepcopy(h[i + 1])
                else:
                    h[i], h[i + 1] = h[i + 1], h[i]
                res.append({"id": "%s~canary-%s" % (c["id"], kind), "n": c["n"], "keys": c["keys"], "canary": kind,
                            "obs": {"compile": "ok", "status": "done", "host": h}})
        if len(res) >= 60:
            break
    return res


def run(prop, tier, seed):
    rep = vlib.Report(prop, tier, seed, "exploration")
    wd = vlib.workdir(prop)
    mod = os.path.join(vlib.SPEC, "props", "C25.tla")
    env = {"TIER": tier, "SEED": str(seed)}
    enum_cases, res_e = bcommon.gen_enumerate(prop, mod, env=env, timeout=800)
    nrand = 24 if tier == "quick" else 200
    rand_cases, res_r = bcommon.gen_simulate(prop, mod, nrand, seed, env=env, timeout=800,
                                          cfg=os.path.join(vlib.SPEC, "props", "C25R.cfg"))
    cases = enum_cases + rand_cases
    if not cases:
        raise vlib.ToolError("C25 generator produced no cases")
    obs, hwall = bcommon.run_harness(cases, wd, timeout=120)
    broken = sum(1 for o in obs if o.get("compile") != "ok" or o.get("status") in ("abort", "timeout"))
    if broken * 4 > len(cases):
        raise vlib.ToolError("%d of %d sorting programs did not compile or were aborted: harness/generator problem" % (broken, len(cases)))

    recs = []
    for c, o in zip(cases, obs):
        recs.append({"id": c["id"], "n": c["n"], "keys": c["keys"],
                     "obs": {k: o[k] for k in ("compile", "status", "host") if k in o}})
    canaries = _canaries(cases, obs)
    allrecs = recs + canaries
    # the validator reads the whole file into memory: hand it over in chunks of bounded size (3 GB heap)
    chunks, cur, cur_entries = [], [], 0
    for r in allrecs:
        k = len(r["obs"].get("host") or [])
        if cur and cur_entries + k > 250000:
            chunks.append(cur)
            cur, cur_entries = [], 0
        cur.append(r)
        cur_entries += k
    if cur:
        chunks.append(cur)
    verdicts = {}
    v_states = 0
    v_wall = 0.0
    for ci, chunk in enumerate(chunks):
        opath = os.path.join(wd, "observed_%d.ndjson" % ci)
        vlib.write_ndjson(opath, chunk)
        vdir = os.path.join(wd, "verdicts_%d" % ci)
        os.makedirs(vdir, exist_ok=True)
        res_v = bcommon.tlc(os.path.join(vlib.SPEC, "props", "C25V.tla"), timeout=1500,
                            env={"OBS": opath, "OUTDIR": vdir, "TIER": tier, "LEMMAS": "1" if ci == 0 else "0"})
        v_states += res_v.distinct
        v_wall += res_v.wall
        for f in glob.glob(os.path.join(vdir, "v_*.json")):
            with open(f) as fh:
                v = json.load(fh)
            verdicts[v["id"]] = v
    if len(verdicts) != len(allrecs):
        raise vlib.ToolError("validator returned %d verdicts for %d records" % (len(verdicts), len(allrecs)))

    # the validator must reject every corrupted observation, otherwise its acceptance means nothing
    # (a canary made from an observation that itself violates the specification says nothing: exchanging two equal
    #  elements of an unstable result may repair it)
    judged = [r for r in canaries if not verdicts[r["id"].split("~canary")[0]]["findings"]]
    missed = [r["id"] for r in judged if not verdicts[r["id"]]["findings"]]
    if missed or (len(judged) < 3 and len(canaries) == len(judged) and len(cases) > 20):
        raise vlib.ToolError("C25V accepted corrupted observations (or none could be built): %s" % missed[:5])

    sorts = stable_checks = strict_unstable = 0
    by_method = collections.Counter()
    for c, o in zip(cases, obs):
        v = verdicts[c["id"]]
        for f in v["findings"]:
            rep.finding(f["key"], dict(c, id="%s~%s" % (c["id"], f["key"][4:])), {k: o.get(k) for k in ("compile", "status", "err", "panic", "diag_text", "host")},
                        [f], f["what"])
        for m in v["methods"]:
            sorts += 1
            by_method[m["name"]] += 1
            if m["stable_required"]:
                stable_checks += 1
            elif "strict" in m["name"] and not m["stable_observed"] and not m["viol"]:
                strict_unstable += 1

    def runs(n):
        return "1" if n <= 32 else "2" if n <= 64 else "3-4" if n <= 128 else "5-8" if n <= 256 else "9-16" if n <= 512 else "17+"
    nontrivial = {tuple(c["keys"]) for c in cases if c["n"] >= 2 and c["distinct_keys"] >= 2}
    rep.coverage = {
        "programs": len(cases), "disagreements_checked": sorts,
        "evaluations": sorts, "distinct_nontrivial": len(nontrivial),
        "rule": "evaluations = (input array, sorting method) results validated by C25V.tla against Sort.tla (permutation, order, "
                "stability where required); distinct_nontrivial = distinct input key sequences with >= 2 elements and >= 2 "
                "different keys. E: all key sequences of length <= %d over 3 keys; S: 8 shapes x lengths around the run size 32 "
                "and its doublings; R: tlc -simulate seed %d" % (6 if tier == "thorough" else 5, seed),
        "exhaustive": True,
        "inputs_by_family": dict(collections.Counter(c["fam"] for c in cases)),
        "inputs_by_number_of_runs": dict(collections.Counter(runs(c["n"]) for c in cases)),
        "inputs_by_shape": dict(collections.Counter(c["shape"] for c in cases if c["fam"] != "E")),
        "structured_lengths": sorted({c["n"] for c in cases if c["fam"] == "S"}),
        "max_length": max(c["n"] for c in cases),
        "duplicate_heavy_inputs(<=3 keys, n>=8)": sum(1 for c in cases if c["distinct_keys"] <= 3 and c["n"] >= 8),
        "wide_range_inputs(all keys distinct, n>=8)": sum(1 for c in cases if c["distinct_keys"] == c["n"] and c["n"] >= 8),
        "results_by_method": dict(by_method), "stability_checks": stable_checks,
        "validator_canaries_rejected": dict(collections.Counter(r["canary"] for r in canaries)),
        "info_strict_comparator_results_not_stable": strict_unstable,
        "tlc_states_generation": res_e.distinct + res_r.generated, "tlc_states_validation": v_states, "validator_runs": len(chunks),
        "tlc_wall_s": round(res_e.wall + res_r.wall + v_wall, 1), "harness_wall_s": round(hwall, 1),
        "samples": vlib.sample_cases([dict(c, files={"main.abra": c["files"]["main.abra"][:600]}) for c in (cases[3], cases[-1])], 2),
    }
    rep.assumptions = [
        "stability is required only for reflexive comparators (`<=`-like total preorders: the parameter is named "
        "less_than_or_equal); for the strict comparator `<` only permutation and order are required",
        "keys are ints |k| <= 10^6; element types int, (int,int), (bool,int)",
        "for arrays longer than 48 the linear forms of the predicates are evaluated; their equivalence with the defining "
        "forms is checked by TLC on all inputs of length <= 4 (SortLemmas)",
    ]
    return rep.finish()
