"""C30: literals denote exactly the values they spell.

spec/front/Lit.tla defines what a spelling denotes (integers as canonical decimal strings with the 64-bit range test,
exactly representable floats with their IEEE bit pattern, strings as code-point sequences incl. the indentation rule
of multi-line literals); spec/props/C30.tla enumerates spellings and emits per spelling the source line
`report_<kind>(<literal>)` and the expected observation (the logged host call, or a diagnostic).
This driver only transports: it decodes code-point lists into text, concatenates the spec-emitted declaration block
and lines into programs (many lines per program for throughput; every suspicious line is re-run alone as the single
program the spec defines), runs the harness and compares."""
import collections
import glob
import json
import os

import vlib

MODULE = os.path.join(vlib.SPEC, "props", "C30.tla")
CFG_ALL = os.path.join(vlib.SPEC, "props", "C30.cfg")
CFG_SIM = os.path.join(vlib.SPEC, "props", "C30Sim.cfg")
BATCH = 40
JOBS = int(os.environ.get("VERIF_JOBS", "4"))     # harness worker processes (shared machine: keep small)
MAX_REPLAYS_PER_KEY = 3
MAX_NEW_KEYS = 25


def decode(x):
    """{"cp": [code points]} -> str (TLA+ strings are ASCII only; this is a transport decoding)"""
    if isinstance(x, dict):
        if set(x.keys()) == {"cp"}:
            return "".join(chr(c) for c in x["cp"])
        return {k: decode(v) for k, v in x.items()}
    if isinstance(x, list):
        return [decode(v) for v in x]
    return x


def _enum(tag, env, wd):
    res = vlib.tlc(MODULE, cfg=CFG_ALL, env=env, timeout=900, workers=1, xmx="3g", metadir=os.path.join(wd, "meta_" + tag))
    vlib.tlc_ok(res, "C30 enumeration")
    recs = [decode(r) for r in res.cases()]
    header = [r for r in recs if r.get("header")]
    items = [r for r in recs if not r.get("header")]
    if len(header) != 1 or len(items) != res.distinct:
        raise vlib.ToolError("C30 enumeration: %d items for %d states" % (len(items), res.distinct))
    for i, it in enumerate(items):
        it["id"] = "%s-%05d" % (tag, i)
        it["src"] = "exhaustive"
    return header[0], items, res


def _sim(tag, n, seed, wd):
    outdir = os.path.join(wd, "sim_" + tag)
    os.makedirs(outdir, exist_ok=True)
    res = vlib.tlc(MODULE, cfg=CFG_SIM, env={"OUTDIR": outdir, "C30_STRLEN": 0, "C30_LINES": 0, "C30_RICH": 1, "C30_FAMS": "all"}, simulate=n, depth=3,
                   seed=seed, timeout=900, workers=1, xmx="3g", metadir=os.path.join(wd, "meta_" + tag))
    vlib.tlc_ok(res, "C30 sample")
    header = [decode(r) for r in res.cases() if r.get("header")]
    items = []
    for f in sorted(glob.glob(os.path.join(outdir, "*.json")), key=lambda p: (len(p), p)):
        with open(f) as fh:
            for j, it in enumerate(json.load(fh)):
                it = decode(it)
                it["id"] = "%s-%s-%02d" % (tag, os.path.basename(f)[:-5], j)
                it["src"] = "sample"
                items.append(it)
    if len(header) != 1 or not items:
        raise vlib.ToolError("C30 sample: nothing generated")
    return header[0], items, res


def run(prop, tier, seed):
    rep = vlib.Report(prop, tier, seed, "translation_validation")
    wd = vlib.workdir(prop)
    quick = tier == "quick"
    # one TLC process at a time (shared machine)
    results = [_enum("e", {"C30_STRLEN": 2 if quick else 3, "C30_LINES": 2, "C30_RICH": 0 if quick else 1, "C30_FAMS": "all"}, wd)]
    if not quick:
        results.append(_enum("f", {"C30_STRLEN": 0, "C30_LINES": 3, "C30_RICH": 0, "C30_FAMS": "block"}, wd))
    for k in range(1 if quick else 2):
        results.append(_sim("s%d" % k, 10 if quick else 200, seed * 16 + k, wd))
    header = results[0][0]
    pre, hostfns = header["pre"], header["hostfns"]
    items = [it for r in results for it in r[1]]
    tlc_states = sum(r[2].distinct for r in results)
    tlc_wall = sum(r[2].wall for r in results)
    inmodel = [it for it in items if it.get("inmodel")]

    def single(it):
        c = {"id": it["id"], "files": {"main.abra": pre + it["line"]}, "hostfns": hostfns, "expect": it["expect"],
             "cat": it["cat"], "spelling": it["spelling"]}
        if "known" in it:
            c["known"] = it["known"]
        return c

    # ---- programs: many report lines per program; spellings that must be rejected, and spellings of a suspected defect
    # family (they would make the whole batch fail), run alone
    alone = [it for it in inmodel if it["expect"].get("compile") != "ok" or "known" in it]
    good = [it for it in inmodel if it["expect"].get("compile") == "ok" and "known" not in it]
    batches = [good[i:i + BATCH] for i in range(0, len(good), BATCH)]
    bcases = [{"id": "batch%05d" % i, "files": {"main.abra": pre + "".join(x["line"] for x in b)}, "hostfns": hostfns}
              for i, b in enumerate(batches)]
    bobs, hwall = vlib.run_harness(bcases, wd, name="batches", jobs=JOBS) if bcases else ([], 0.0)
    suspicious, batch_fail = [], 0
    for b, o in zip(batches, bobs):
        want = [h for x in b for h in x["expect"]["host"]]
        got = o.get("host") or []
        if o.get("compile") == "ok" and o.get("status") == "done" and got == want:
            continue
        if o.get("compile") == "ok" and o.get("status") == "done" and len(got) == len(b):
            suspicious += [x for x, h in zip(b, got) if x["expect"]["host"] != [h]]
        else:
            batch_fail += 1
            suspicious += b
    scases = [single(it) for it in alone + suspicious]
    sobs, swall = vlib.run_harness(scases, wd, name="singles", jobs=JOBS) if scases else ([], 0.0)
    recorded, mism_by_key, new_keys, confirmed = collections.Counter(), collections.Counter(), set(), 0
    for c, o in zip(scases, sobs):
        mism = vlib.compare(c["expect"], o)
        if not mism:
            continue
        confirmed += 1
        k = c.get("known")
        if k and not vlib.compare(k["expect"], o):
            key = k["key"]
        else:
            key = "C30|%s|%s" % (c["cat"], json.dumps(c["spelling"], ensure_ascii=True)[:80])
            new_keys.add(key)
            if len(new_keys) > MAX_NEW_KEYS:
                mism_by_key["(further new keys not filed)"] += 1
                continue
        mism_by_key[key] += 1
        if recorded[key] < MAX_REPLAYS_PER_KEY:
            got = (o.get("host") or [{}])[0].get("args") if o.get("compile") == "ok" else o.get("compile")
            what = "literal %s: observed %s, the spelling denotes %s" % (
                json.dumps(c["spelling"], ensure_ascii=False)[:120], json.dumps(got, ensure_ascii=False)[:120],
                json.dumps(c["expect"].get("host", [{}])[0].get("args", c["expect"]), ensure_ascii=False)[:120])
            if rep.finding(key, c, o, mism, what):
                recorded[key] += 1
    nsus = len(suspicious)
    batch_only = nsus - sum(1 for c, o in zip(scases[len(alone):], sobs[len(alone):]) if vlib.compare(c["expect"], o))

    cats = collections.Counter(it["cat"] for it in inmodel)
    kinds = collections.Counter(it["kind"] for it in inmodel)
    fam = [it for it in inmodel if "known" in it]
    exh = [it for it in items if it["src"] == "exhaustive"]
    rep.coverage = {
        "programs": len(inmodel), "disagreements_checked": len(inmodel),
        "evaluations": len(inmodel), "distinct_nontrivial": len({it["line"] for it in inmodel}),
        "rule": "one evaluation = one literal spelling whose value is observed exactly through a host call (ints as decimal "
                "strings, floats as IEEE bit patterns, strings as text) or whose rejection is observed as a diagnostic; all are "
                "non-trivial; distinct = distinct source lines. Exhaustive part: every `_` placement in 8 digit strings of <= 8 "
                "digits, 15 boundary magnitudes x 3 placements, each negated and not; %d numerators x %d binary exponents x 5 spelling "
                "variants x sign of exactly representable floats; every string of length <= %d over a 12-character alphabet x "
                "{\"..\", '..', \"\"\"..\"\"\"} x {raw, escaped}; every in-model multi-line layout with <= 2 lines (thorough: also <= 3 lines over the smaller "
                "indentation/line sets). Sample part: "
                "tlc -simulate seed %d (random 1-20 digit integers, random dyadic floats, strings of length 3-7, layouts of 2-4 lines)"
                % (7 if quick else 13, 4 if quick else 6, 2 if quick else 3, seed),
        "exhaustive": True, "exhaustive_items": len(exh), "sampled_items": len(items) - len(exh),
        "generated": len(items), "out_of_model_discarded": len(items) - len(inmodel),
        "per_kind": dict(sorted(kinds.items())), "per_category": dict(sorted(cats.items())),
        "expected_diagnostics": sum(1 for it in inmodel if it["expect"].get("compile") != "ok"), "known_family_cases": len(fam),
        "harness_programs": len(bcases) + len(scases), "batches": len(bcases), "batches_failed_as_a_whole": batch_fail,
        "lines_rerun_alone": len(scases), "mismatch_only_inside_batch": batch_only, "confirmed_mismatches": confirmed,
        "mismatches_by_key": dict(mism_by_key), "tlc_states": tlc_states, "tlc_wall_s": round(tlc_wall, 1),
        "harness_wall_s": round(hwall + swall, 1),
        "samples": vlib.sample_cases([single(it) for it in (fam[:1] + inmodel[5:6] + inmodel[-1:])], 3),
    }
    rep.assumptions = [
        "the harness services `#host fn report_*` calls and logs their arguments exactly (i64 as decimal string, f64 as bit pattern, string as text)",
        "floats: only spellings of dyadic rationals n/2^e (n < 2^20, e <= 9) are decided; nearest-binary64 rounding of arbitrary decimal "
        "spellings is NOT covered",
        "multi-line literals: only layouts on which every reading of 'strip the common indentation' agrees (indentations prefix-comparable, "
        "closing delimiter indented like the text); the rule itself is the one exercised by abra_core/tests (the book does not describe it)",
        "separate `report_x(lit)` lines of one program do not influence each other (used for throughput only: every line that disagrees "
        "inside a batch is re-run alone before it is reported)",
    ]
    return rep.finish()
