"""C22: generic and interface calls dispatch to the concrete type's code.
spec/props/C22.tla enumerates batches of checks over a bounded type universe (state = one program) and
spec/front/Generic.tla gives, per check, the lines it must print (names of the implementations entered, then
the result).  This driver runs TLC, runs the programs, splits the output at the marker lines and compares
check by check."""
import collections
import glob
import json
import os
import vlib

MODULE = os.path.join(vlib.SPEC, "props", "C22.tla")


def split_out(out):
    """marker line '#i' starts the output of check i"""
    blocks, cur = {}, None
    for line in out.split("\n"):
        if line.startswith("#") and line[1:].isdigit():
            cur = int(line[1:])
            blocks[cur] = []
        elif cur is not None:
            blocks[cur].append(line)
    return blocks


def run_with_retry(cases, wd, chunk=800):
    """the harness keeps the analysis result of every `lsp`/`diags` case alive (it is never dropped), so a worker's
    address space grows with the number of such cases: run in chunks (fresh workers).  A watchdog timeout or a
    worker abort on these small programs is almost always machine load / the address-space limit: run those cases
    again, alone and with a long limit, before the observation is compared (a real crash or non-termination
    reproduces and still ends up as a finding)"""
    obs, wall = [], 0.0
    for k in range(0, len(cases), chunk):
        o, w = vlib.run_harness(cases[k:k + chunk], wd, name="cases_%d" % (k // chunk), jobs=4, timeout=60)
        obs += o
        wall += w
    late = [i for i, o in enumerate(obs)
            if {"timeout", "abort"} & {o.get("compile"), o.get("status"), o.get("lsp")}]
    if late:
        again, w2 = vlib.run_harness([cases[i] for i in late], wd, name="retry", jobs=1, timeout=600)
        for i, o in zip(late, again):
            obs[i] = o
        wall += w2
    return obs, wall, len(late)


def run(prop, tier, seed):
    rep = vlib.Report(prop, tier, seed, "translation_validation")
    wd = vlib.workdir(prop)
    outdir = os.path.join(wd, "enum")
    os.makedirs(outdir, exist_ok=True)
    res = vlib.tlc(MODULE, env={"C22_TIER": tier, "C22_SEED": seed, "OUTDIR": outdir}, timeout=1500, xmx="3g",
                   metadir=os.path.join(wd, "meta"))
    vlib.tlc_ok(res, MODULE)
    cases = []
    for f in sorted(glob.glob(os.path.join(outdir, "*.json"))):
        with open(f) as fh:
            cases += json.load(fh)
    if not cases:
        raise vlib.ToolError("TLC produced no programs")
    for c in cases:
        # transport encoding: the specification emits a file, and the expected output, as sequences of lines
        c["files"] = {n: "\n".join(ls) + "\n" for n, ls in c["files"].items()}
        c["expect"]["out"] = "".join("\n".join([ck["mark"]] + ck["out"]) + "\n" for ck in c["checks"])
    obs, hwall, retried = run_with_retry(cases, wd)

    nchecks = 0
    failed_checks = 0
    for c, o in zip(cases, obs):
        nchecks += len(c["checks"])
        mism = vlib.compare(c["expect"], o)
        if not mism:
            continue
        if [m["field"] for m in mism] != ["out"]:
            detail = o.get("panic") or o.get("diag_text") or (o.get("err") or {}).get("text") or ""
            key = c.get("key") or "C22|program|%s|%s" % (",".join(sorted(m["field"] for m in mism)), c["id"])
            failed_checks += len(c["checks"])
            rep.finding(key, c, o, mism, "program %s does not compile/run: %s" % (c["id"], detail[:200]))
            continue
        blocks = split_out(o.get("out", ""))
        located = 0
        for ck in c["checks"]:
            want = ck["out"]
            got = blocks.get(ck["i"])
            if got is not None and got and got[-1] == "":
                got = got[:-1]          # the text after the last newline
            if got != want:
                failed_checks += 1
                located += 1
                key = c.get("key") or "C22|%s|%s|%s" % (ck["tmpl"], ck["ty"], c["layout"])
                sub = dict(c, checks=[ck], id="%s#%d" % (c["id"], ck["i"]))
                rep.finding(key, sub, {"out_of_check": got, "id": o.get("id")},
                            [{"field": "out", "want": want, "got": got}],
                            "%s at %s: %s prints %s, specification: %s" % (ck["tmpl"], ck["ty"], " ".join(ck["src"])[:120],
                                                                          json.dumps(got)[:150], json.dumps(want)[:150]))

        if not located:
            rep.finding(c.get("key") or "C22|program|out|%s" % c["id"], c, o, mism, "output of program %s differs outside the checks" % c["id"])

    by_tmpl = collections.Counter(ck["tmpl"] for c in cases for ck in c["checks"])
    by_iface = collections.Counter(ck["iface"] for c in cases for ck in c["checks"])
    by_axis = collections.Counter(c["axis"] for c in cases)
    by_layout = collections.Counter(c["layout"] for c in cases)
    impl_lines = collections.Counter(l for c in cases for ck in c["checks"] for l in ck["out"]
                                     if "." in l and l.split(".")[0] in ("ToString", "Equal", "Ord", "Num", "Clone", "Shape",
                                                                          "Iterable", "Iterator", "Index"))
    types = {ck["ty"] for c in cases for ck in c["checks"] if ck["tmpl"] != "show2"}
    type_pairs = {ck["ty"] for c in cases for ck in c["checks"] if ck["tmpl"] == "show2"}
    combos = {(ck["tmpl"], ck["ty"]) for c in cases for ck in c["checks"]}

    def shape(t):
        return "tuple" if t.startswith("(") else t.split("<")[0] if "<" in t else "base"
    rep.coverage = {
        "programs": len(cases), "disagreements_checked": nchecks, "evaluations": nchecks,
        "distinct_nontrivial": len(combos),
        "rule": "TLC enumerates spec/props/C22.tla exhaustively (state = one program): every template of spec/front/Generic.tla "
                "x every type of the bounded universe (base types int float string bool struct Pt enum Col; tuples, arrays, "
                "option, generic struct Bag<T> up to depth 2) x sample value pairs, batched per type, per template and in the "
                "file layouts single/lib/libgen; evaluations = checks (statement + expected lines), distinct = (template, type) pairs",
        "exhaustive": True,
        "tlc_states": res.distinct, "tlc_wall_s": round(res.wall, 1), "harness_wall_s": round(hwall, 1), "cases_retried_after_timeout_or_abort": retried,
        "types": len(types), "type_pairs_two_param_generic": len(type_pairs), "type_shapes": dict(collections.Counter(shape(t) for t in types)),
        "checks_by_template": dict(by_tmpl), "checks_by_interface": dict(by_iface),
        "programs_by_axis": dict(by_axis), "programs_by_layout": dict(by_layout),
        "expected_impl_entries": dict(impl_lines),
        "checks_failed": failed_checks,
        "samples": [{"id": c["id"], "check": c["checks"][len(c["checks"]) // 2]} for c in cases[:3]],
    }
    rep.assumptions = [
        "spec/front/Generic.tla transcribes the prelude's container implementations (ToString/Equal/Ord/Clone for tuples, arrays, option) "
        "and the implementations of spec/front/GenericLib.tla faithfully",
        "floats are multiples of 0.5, strings single letters; >= on bool is excluded (prelude Ord for bool belongs to C24)",
        "interface method calls inside generic functions use the `Iface.method(x)` form (the method-call form on a type variable is rejected by the checker)",
        "constraint checking (rejecting a type without an implementation) and functions generic over Iterable are not covered",
    ]
    return rep.finish()
