"""C36: host-function bindings carry arguments and results without loss.

Orchestration only.  What is correct is defined in spec/lib2/HostAbi.tla (the stack protocol and the layout of
compiled code), spec/lib2/HostText.tla (texts and the expected renderings) and spec/props/C36*.tla:
  1. TLC model-checks the marshalling protocol (C36Abi.tla, modes "spec" and "code") for all types up to a depth;
  2. TLC enumerates (C36X.tla) / samples (C36.tla) host-function signatures with argument values and emits, per case,
     the `#host` declarations, the calling Abra program and the expected observation;
  3. harness/hostgen is built once per chunk of <= ~800 (quick) / ~520 (thorough) cases: its build.rs runs the real
     generator abra_core::generate_host_function_enum on the declarations of the chunk, its main.rs decodes every host call
     with the generated HostFunctionArgs::from_vm, logs it, and answers with the generated HostFunctionRet::into_vm;
  4. every case runs in its own process; the observation {status, out, host} is compared with the expectation.
Everything runs one after the other (TLC with 1 worker and -Xmx3g; VERIF_JOBS case processes side by side, default 4).
Replay of a finding:  python3 driver/props/c36.py --replay work/C36/replay_<id>.json
"""
import concurrent.futures
import json
import os
import re
import shutil
import subprocess
import sys
import time

if __name__ == "__main__":
    sys.path.insert(0, os.path.dirname(os.path.dirname(os.path.abspath(__file__))))
import vlib

HOSTGEN = os.path.join(vlib.HARNESS_DIR, "hostgen")
HOSTGEN_BIN = os.path.join(HOSTGEN, "target", "debug", "abra_hostgen")
PROPS = os.path.join(vlib.SPEC, "props")
JOBS = max(1, int(os.environ.get("VERIF_JOBS", "4")))      # case processes run side by side
XMX = "3g"


def build_hostgen(src):
    lock = os.path.join(HOSTGEN, "Cargo.lock")
    if not os.path.exists(lock):
        shutil.copy(os.path.join(vlib.REPO, "Cargo.lock"), lock)
    env = dict(os.environ, CARGO_NET_OFFLINE="true", C36_SRC=src)
    t0 = time.time()
    try:
        p = subprocess.run(["timeout", "1500", "cargo", "build", "--offline", "-q"], cwd=HOSTGEN, env=env,
                           stdout=subprocess.PIPE, stderr=subprocess.STDOUT, text=True)
    except OSError as e:
        raise vlib.ToolError("cannot run cargo: %s" % e)
    if p.returncode != 0:
        raise vlib.ToolError("hostgen build failed (the generated bindings or the echo glue do not compile):\n" + p.stdout[-4000:])
    return time.time() - t0


def run_one(src, case, timeout=60, binary=None):
    try:
        p = subprocess.run(["timeout", str(timeout), binary or HOSTGEN_BIN, src, case["main"]],
                           stdout=subprocess.PIPE, stderr=subprocess.PIPE, text=True)
    except OSError as e:
        raise vlib.ToolError("cannot run abra_hostgen: %s" % e)
    line = p.stdout.strip().splitlines()[-1] if p.stdout.strip() else ""
    try:
        o = json.loads(line)
    except Exception:
        o = {"status": "timeout" if p.returncode == 124 else "abort", "out": "", "host": [],
             "msg": "rc=%s %s" % (p.returncode, p.stderr[-500:])}
    o["id"] = case["id"]
    return o


def write_sources(src, cases):
    os.makedirs(src, exist_ok=True)
    seen, decls = set(), []
    for c in cases:
        for t in c.get("types", []):
            if t["name"] not in seen:
                seen.add(t["name"])
                decls.append(t["decl"])
    for c in cases:
        decls.append(c["decl"])
        with open(os.path.join(src, c["main"]), "w") as fh:
            fh.write(c["text"])
    with open(os.path.join(src, "host.abra"), "w") as fh:
        fh.write("\n".join(decls))
    with open(os.path.join(src, "sigs.json"), "w") as fh:
        json.dump([c["sig"] for c in cases], fh)
    return len(seen)


def execute(src, cases, jobs=JOBS, binary=None):
    with concurrent.futures.ThreadPoolExecutor(max_workers=jobs) as ex:
        return list(ex.map(lambda c: run_one(src, c, binary=binary), cases))


def build_and_run(wd, cases, chunk=500):
    """one hostgen build per chunk of cases (the host file of a chunk declares every function of the chunk), then
    the cases of the chunk run, each in its own process"""
    nch = max(1, -(-len(cases) // chunk))
    size = -(-len(cases) // nch)
    chunks = [cases[i:i + size] for i in range(0, len(cases), size)]
    obs, build_s, run_s, ntypes = [], 0.0, 0.0, 0
    for i, ch in enumerate(chunks):
        src = os.path.join(wd, "chunk%d" % i, "src")
        ntypes += write_sources(src, ch)
        build_s += build_hostgen(src)
        t0 = time.time()
        obs += execute(src, ch)
        run_s += time.time() - t0
    return obs, build_s, run_s, ntypes, len(chunks)


def shape(c):
    """the case without the per-case numbering of its names"""
    return re.sub(r"\b(Sa|Ea|hf|hx|Hf|Hx)\d+", r"\1", c["decl"] + "\n" + c["text"])


def protocol_check(tier):
    """TLC model-checks HostAbi: all laws in mode "spec"; in mode "code" the layout laws fail exactly on the defect family"""
    suffix = "_d3" if tier == "thorough" else ""
    results = {}
    for mode, cfg in (("spec", "C36Abi%s.cfg" % suffix), ("code", "C36Abi_code%s.cfg" % suffix)):
        results[mode] = vlib.tlc(os.path.join(PROPS, "C36Abi.tla"), cfg=os.path.join(PROPS, cfg), timeout=2700, xmx=XMX)
    return results


def generate(prop, module, simulate=None, seed=None):
    """cases written by a generator spec, one JSON file per case in OUTDIR (as vlib.gen_simulate / gen_enumerate, with a heap bound)"""
    outdir = os.path.join(vlib.WORK, prop, "gen_" + os.path.basename(module)[:-4])
    shutil.rmtree(outdir, ignore_errors=True)
    os.makedirs(outdir, exist_ok=True)
    res = vlib.tlc(module, simulate=simulate, depth=3 if simulate else None, seed=seed, env={"OUTDIR": outdir},
                   timeout=1800, xmx=XMX)
    vlib.tlc_ok(res, module)
    return vlib.load_case_files(outdir), res


def expand_long(expect):
    """the closed form [long |-> [head, n, elem, a, b, sep, tail]] of C36long.tla written out (transport only)"""
    def one(h):
        if not (isinstance(h, dict) and "long" in h):
            return h
        L = h["long"]
        if L["elem"] == "int":
            items = (str(L["a"] * i + L["b"]) for i in range(L["n"]))
        else:
            items = ('"e%d"' % i for i in range(L["n"]))
        return L["head"] + L["sep"].join(items) + L["tail"]
    return dict(expect, host=[one(h) for h in expect.get("host", [])])


def shorten(x, limit=600):
    """long strings (the Debug text of a 65536-element array) cut in the middle for the report"""
    if isinstance(x, str) and len(x) > limit:
        return "%s ...[%d characters]... %s" % (x[:limit // 2], len(x), x[-limit // 2:])
    if isinstance(x, list):
        return [shorten(v, limit) for v in x]
    if isinstance(x, dict):
        return {k: shorten(v, limit) for k, v in x.items()}
    return x


def run(prop, tier, seed):
    rep = vlib.Report(prop, tier, seed, "translation_validation")
    wd = vlib.workdir(prop)

    # 1. protocol model checking
    mc = protocol_check(tier)

    # 2. cases from TLC
    xcases, xres = generate(prop, os.path.join(PROPS, "C36X.tla"))
    n = 80 if tier == "quick" else 1200
    rcases, rres = generate(prop, os.path.join(PROPS, "C36.tla"), simulate=n, seed=seed)
    lcases, lres = generate(prop, os.path.join(PROPS, "C36long.tla"))
    if tier == "quick":
        lcases = [c for i, c in enumerate(sorted(lcases, key=lambda c: c["id"])) if i % 2 == seed % 2 or "len:65536" in c["feat"]]
    cases = xcases + rcases + lcases
    if len(xcases) < 100 or len(rcases) < n or len(lcases) < 20:
        raise vlib.ToolError("generators produced %d + %d + %d cases" % (len(xcases), len(rcases), len(lcases)))

    # 3. the real binding generator + rustc on its output, 4. run
    obs, build_s, run_s, ntypes, nchunks = build_and_run(wd, cases, 800 if tier == "quick" else 520)

    pairs = {}
    for mode, res in mc.items():
        if res.violation:
            tail = "\n".join(l for l in res.out.splitlines() if not l.startswith(("Parsing", "Semantic", "Linting")))[-2500:]
            raise vlib.ToolError("HostAbi laws do not hold in mode %s (the specification is inconsistent with itself):\n%s" % (mode, tail))
        vlib.tlc_ok(res, "C36Abi " + mode)
        m = re.search(r'"pairs_ok", (\d+), "pairs_defect", (\d+)', res.out)
        if not m:
            raise vlib.ToolError("C36Abi %s: no summary line" % mode)
        pairs[mode] = (int(m.group(1)), int(m.group(2)))

    not_compiled = []
    stats = {"status": {}, "keyed_failed": 0, "keyed_passed": 0}
    with open(os.path.join(wd, "obs.ndjson"), "w") as fh:
        for c, o in zip(cases, obs):
            fh.write(json.dumps(shorten(o)) + "\n")
            stats["status"][o.get("status")] = stats["status"].get(o.get("status"), 0) + 1
            if o.get("status") == "compile":
                # the Abra compiler rejected the generated caller: generator out of sync, not a C36 matter
                not_compiled.append((c["id"], o.get("msg", "")[:300]))
                continue
            mism = shorten(vlib.compare(expand_long(c["expect"]), o))
            if mism:
                if c.get("key"):
                    stats["keyed_failed"] += 1
                key = c.get("key") or "C36|unexpected|%s|%s" % (",".join(sorted(m["field"] for m in mism)), c["id"])
                rep.finding(key, c, shorten(o), mism,
                            "host saw / Abra got back something else than what was passed: " +
                            json.dumps({"decl": c["decl"].split("\n")[1], "mismatch": mism})[:600])
            elif c.get("key"):
                stats["keyed_passed"] += 1
    if len(not_compiled) * 50 > len(cases):
        raise vlib.ToolError("%d of %d generated callers were rejected by the Abra compiler, e.g. %s"
                             % (len(not_compiled), len(cases), not_compiled[:2]))

    ran = [c for c, o in zip(cases, obs) if o.get("status") != "compile"]
    nontrivial = [c for c in ran if any(k in ("int", "float", "bool", "str") for k in c["feat"])]
    feats = {}
    for c in ran:
        for k in c["feat"]:
            feats[k] = feats.get(k, 0) + 1
    feats = dict(sorted(feats.items()))
    hist = lambda f: {str(k): sum(1 for c in ran if f(c) == k) for k in sorted({f(c) for c in ran})}  # noqa
    rep.coverage = {
        "programs": len(ran), "disagreements_checked": len(ran), "evaluations": len(ran),
        "distinct_nontrivial": len({shape(c) for c in nontrivial}),
        "rule": "exhaustive: every signature with one non-void parameter of a type of depth <= 1 (called by name / through a function value / through a function value with a void parameter in front) over int, float, bool, string, "
                "a #host struct, a #host enum (void allowed as component) x 3 representative values (C36X.tla, TLC model-checking "
                "mode, states = cases); random: signatures of arity 0..3, parameter types of depth <= 2 over the same atoms with "
                "per-case generated #host struct/enum definitions and random values (C36.tla, tlc -simulate seed %d); long: arrays of "
                "2^16-1, 2^16, 2^16+1, 2^16+300 and 2^17 ints / strings built by a loop and passed bare, in a tuple, in an option, as second "
                "array parameter (C36long.tla; quick tier: every 2^16 case and half of the others). "
                "non-trivial = at least one parameter that carries a scalar somewhere; distinct = distinct (declaration, caller) texts after "
                "removing the per-case numbering of names" % seed,
        "exhaustive_cases": len(xcases), "random_cases": len(rcases), "long_array_cases": len(lcases), "exhaustive": False,
        "exhaustive_part_complete": True,
        "host_functions_generated": len(cases), "host_types_generated": ntypes,
        "by_arity": hist(lambda c: c["arity"]), "by_depth": hist(lambda c: c["depth"]),
        "cases_per_feature": feats,
        "cases_in_known_defect_family": sum(1 for c in ran if c.get("key")),
        "cases_in_known_defect_family_failed": stats["keyed_failed"],
        "cases_outside_defect_families": sum(1 for c in ran if not c.get("key")),
        "observed_status": stats["status"], "callers_rejected_by_abra_compiler": len(not_compiled),
        "states": mc["spec"].distinct + mc["code"].distinct, "transitions": mc["spec"].generated + mc["code"].generated,
        "protocol_types_checked": mc["spec"].distinct,
        "protocol_pairs_spec_mode": {"all_laws_hold": pairs["spec"][0] + pairs["spec"][1]},
        "protocol_pairs_code_mode": {"layout_laws_hold": pairs["code"][0], "layout_laws_fail_exactly_defect_family": pairs["code"][1]},
        "traces_validated_against_impl": len(ran),
        "tlc_wall_s": {"abi_spec": round(mc["spec"].wall, 1), "abi_code": round(mc["code"].wall, 1),
                       "enumerate": round(xres.wall, 1), "simulate": round(rres.wall, 1)},
        "hostgen_builds": nchunks, "hostgen_build_s": round(build_s, 1), "run_s": round(run_s, 1),
        "samples": [{k: c[k] for k in ("id", "decl", "text", "expect", "sig") if k in c} | ({"key": c["key"]} if c.get("key") else {})
                    for c in (xcases[100:101] + rcases[:2])],
    }
    rep.assumptions = [
        "the layout of compiled code (HostAbi!Lay) is transcribed from abra_core/src/translate_bytecode.rs; the type mapping "
        "int/float/bool/string/void/option/result/array/tuple/#host type is the table of book/src/language_reference/foreign_functions.md",
        "the host observes the decoded arguments through #[derive(Debug)] added to the generated type definitions (the generated "
        "marshalling code is compiled unmodified); Abra observes the returned value through ToString",
        "scalars come from fixed pools (64-bit boundary ints, floats whose Debug text equals the literal, ASCII strings with quote and backslash)",
        "not covered: generic #host types, #host types in other namespaces, tuples with more than 12 components, NaN/infinite floats, non-ASCII strings",
    ]
    return rep.finish()


def replay(path):
    """python3 driver/props/c36.py --replay work/C36/replay_x.json : rebuild hostgen for that single case and rerun it"""
    with open(path) as fh:
        r = json.load(fh)
    c = r["case"]
    wd = vlib.workdir("C36_replay")
    src = os.path.join(wd, "src")
    write_sources(src, [c])
    build_hostgen(src)
    o = run_one(src, c)
    mism = shorten(vlib.compare(expand_long(c["expect"]), o))
    print(json.dumps({"observed": shorten(o), "mismatch": mism}, indent=1))
    if mism:
        print("VIOLATION property=C36 replay=%s" % path)
        return 1
    return 0


if __name__ == "__main__":
    if len(sys.argv) == 3 and sys.argv[1] == "--replay":
        sys.exit(replay(sys.argv[2]))
    print(__doc__)
    sys.exit(2)
