------------------------------- MODULE TraceVM -------------------------------
(***************************************************************************)
(* Validates three kinds of events recorded from the real compiler and VM  *)
(* against AbraVM.tla (hooks: vm_verif.rs T_STEP|T_VAL, T_OPT, T_ASM):     *)
(*                                                                         *)
(*  step     one executed instruction with the cells it could touch before *)
(*           and after: Exec on the recorded before-state must give the    *)
(*           recorded after-state (values, depth, next pc, error kind).    *)
(*  rewrite  one peephole rewrite the optimizer applied: the windows       *)
(*           before and after must be Equivalent from the symbolic start   *)
(*           state (i.e. for every operand value).                         *)
(*  asm      one assembled instruction: the encoding must be the one       *)
(*           AbraVM's tables prescribe (name, registers, constant-table    *)
(*           entries, label positions).                                    *)
(*                                                                         *)
(* Events are independent of each other; failed checks are recorded and    *)
(* the validator continues.  The driver only re-shapes the hook's JSON     *)
(* (Debug text of an instruction -> op + argument list, decimal strings -> *)
(* limb sequences); every decision is taken here.                          *)
(***************************************************************************)
EXTENDS AbraVM, Json, IOUtils

Rec == ndJsonDeserialize(IOEnv.TRACE)
N == Len(Rec)

VARIABLES l, cur, viol, nstep, nval, nopen, nskip, nrw, nrwopen, nrwskip, nasm, frames, nframe
vars == <<l, cur, viol, nstep, nval, nopen, nskip, nrw, nrwopen, nrwskip, nasm, frames, nframe>>

Ev == Rec[l]
Has(r, f) == f \in DOMAIN r
Key(n) == ToString(n)

\* ------------------------------------------------------------------ values from the trace
\* {t: "i", v: number} {t: "f", v: magnitude of the bit pattern} {t: "b", v: BOOLEAN} {t: "r", v: text}
NumOf(j) == Mk(j.neg, j.mag)
ValOf(j) == CASE j.t = "i" -> IV(NumOf(j.v))
              [] j.t = "f" -> FV(j.v)
              [] j.t = "b" -> BV(j.v)
              [] OTHER -> [t |-> "r", v |-> j.v]

\* objects recorded with a step: {k: "struct", fs} {k: "array", len, es} {k: "variant", tag, val}
ObjOf(j) == CASE j.k = "struct" -> [k |-> "struct", fs |-> [i \in 1..Len(j.fs) |-> ValOf(j.fs[i])]]
              [] j.k = "array" -> [k |-> "array", len |-> j.len, es |-> [i \in 1..Len(j.es) |-> ValOf(j.es[i])]]
              [] OTHER -> [k |-> "variant", tag |-> j.tag, val |-> ValOf(j.val)]
HeapOf(side) == IF Has(side, "objs") THEN [r \in DOMAIN side.objs |-> ObjOf(side.objs[r])] ELSE <<>>

\* a predicted cell against an observed one; uninterpreted predictions are not compared
IsNaNBits(b) == Decode(b).k = "nan"
Scalar(p, o) == CASE p.t \in {"i", "f", "b", "r"} -> p = o
                  [] p.t = "nan" -> o.t = "f" /\ IsNaNBits(o.v)
                  [] OTHER -> TRUE
\* a predicted object against a recorded one (its components are compared as cells; a component that is itself a fresh
\* object or an uninterpreted term is not compared further)
ObjMatch(p, o) ==
  /\ p.k = o.k
  /\ CASE p.k = "struct" -> Len(p.fs) = Len(o.fs) /\ \A i \in 1..Len(p.fs) : Scalar(p.fs[i], o.fs[i])
        [] p.k = "array" -> p.len = o.len /\ \A i \in 1..(IF Len(p.es) < Len(o.es) THEN Len(p.es) ELSE Len(o.es)) : Scalar(p.es[i], o.es[i])
        [] OTHER -> p.tag = o.tag /\ Scalar(p.val, o.val)
\* heap1: the objects recorded after the step
Match(p, o, heap1) ==
  IF p.t = "new" THEN o.t = "r" /\ (o.v \in DOMAIN heap1 => ObjMatch(p.obj, heap1[o.v]))
  ELSE Scalar(p, o)
Decided(p) == p.t \in {"i", "f", "b", "r", "nan"}

\* ------------------------------------------------------------------ step events
\* arguments of the executed instruction: numbers as the VM encodes them
RawArg(a) == a.n
StepArgs(ev) ==
  LET sg == Sig(ev.op) IN
  [i \in 1..Len(sg) |->
     LET a == ev.args[i] IN
     CASE sg[i] = "reg" -> DecReg(a.n)
       [] sg[i] = "off" -> Off(a.n)
       [] sg[i] = "ki" -> IV(NumOf(ev.v0.ki[Key(a.n)]))
       [] sg[i] = "kf" -> FV(ev.v0.kf[Key(a.n)])
       [] sg[i] = "b" -> BV(a.b)
       [] OTHER -> a.n]
ArgsOk(ev) ==
  LET sg == Sig(ev.op) IN
  /\ Len(ev.args) = Len(sg)
  /\ \A i \in 1..Len(sg) :
        /\ sg[i] = "b" => Has(ev.args[i], "b")
        /\ sg[i] # "b" => Has(ev.args[i], "n")
        /\ sg[i] = "ki" => Key(ev.args[i].n) \in DOMAIN ev.v0.ki
        /\ sg[i] = "kf" => Key(ev.args[i].n) \in DOMAIN ev.v0.kf

\* frame offsets the instruction names (decoded from its register / offset arguments), with the raw number they were
\* logged under
SlotRefs(ev) ==
  LET sg == Sig(ev.op) IN
  { <<(IF sg[i] = "reg" THEN DecReg(ev.args[i].n).n ELSE ev.args[i].n), Key(ev.args[i].n)>> :
      i \in { j \in 1..Len(sg) : \/ sg[j] = "off"
                                  \/ (sg[j] = "reg" /\ DecReg(ev.args[j].n).k = "off") } }

\* known cells: the top window (absolute indices depth-k .. depth-1) and the named frame slots (base + offset)
MemOf(ev, side, depth, base) ==
  LET w == side.top
      tops == { <<depth - Len(w) + i - 1, ValOf(w[i])>> : i \in 1..Len(w) }
      sl == { <<base + r[1], ValOf(side.slots[r[2]])>> : r \in { q \in SlotRefs(ev) : q[2] \in DOMAIN side.slots } }
      all == tops \cup sl
      idx == { p[1] : p \in all }
  IN [i \in idx |-> (CHOOSE p \in all : p[1] = i)[2]]

ErrName(e) == CASE e = "overflow" -> "IntegerOverflowUnderflow" [] e = "divzero" -> "DivisionByZero"
                [] e = "oob" -> "ArrayOutOfBounds" [] OTHER -> "?"

\* the checks of one step event: a set of [kind, info] records (empty = the step conforms)
StepViol(ev) ==
  LET ins == [op |-> ev.op, args |-> StepArgs(ev)]
      m0 == MemOf(ev, ev.v0, ev.d0, ev.b0)
      m1 == MemOf(ev, ev.v1, ev.d1, ev.b0)
      h1 == HeapOf(ev.v1)
      s0 == [mem |-> m0, len |-> ev.d0, base |-> ev.b0, ctl |-> Next, eff |-> <<>>, open |-> 0, env |-> [k |-> "sym"], heap |-> HeapOf(ev.v0)]
      s1 == Exec(s0, ins)
      bad(kind, info) == {[kind |-> kind, info |-> info]}
  IN IF s1.ctl.k = "skip" THEN {}
     ELSE IF s1.ctl.k = "err" THEN
        (IF ev.st # "err" THEN bad("vm-missed-error", <<ev.op, s1.ctl.e>>)
         ELSE IF s1.ctl.e = "wrongtype" THEN {}
         ELSE IF ev.ek # ErrName(s1.ctl.e) THEN bad("vm-wrong-error-kind", <<ev.op, s1.ctl.e, ev.ek>>) ELSE {})
     ELSE
        \* (an error is only spurious when the model decided the whole step: an uninterpreted operation may fail)
        (IF ev.st = "err" /\ s1.eff = <<>> /\ s1.open = 0 THEN bad("vm-spurious-error", <<ev.op, ev.ek>>) ELSE {})
        \cup (IF ev.st # "err" /\ s1.len # ev.d1 THEN bad("vm-stack-depth", <<ev.op, s1.len, ev.d1>>) ELSE {})
        \cup (IF ev.st # "err" /\ ev.b1 # ev.b0 THEN bad("vm-frame-base", <<ev.op>>) ELSE {})
        \cup (IF ev.st = "err" THEN {}
              ELSE IF s1.ctl.k = "jump" THEN (IF ev.pc1 # s1.ctl.to THEN bad("vm-jump-target", <<ev.op, s1.ctl.to, ev.pc1>>) ELSE {})
              ELSE IF s1.ctl.k = "next" THEN (IF ev.pc1 # ev.pc + 1 THEN bad("vm-fallthrough", <<ev.op, ev.pc1>>) ELSE {})
              ELSE {})
        \cup (IF ev.st = "err" THEN {}
              ELSE UNION { IF i < s1.len /\ ~Match(Cell(s1, i), m1[i], h1)
                           THEN bad("vm-value", <<ev.op, i - ev.b0, Cell(s1, i), m1[i]>>) ELSE {} : i \in DOMAIN m1 })
        \cup (IF ev.st = "err" THEN {}
              ELSE UNION { IF r \in DOMAIN h1 /\ ~ObjMatch(s1.heap[r], h1[r])
                           THEN bad("vm-heap", <<ev.op, s1.heap[r], h1[r]>>) ELSE {} : r \in DOMAIN s1.heap })

\* cells whose predicted content was decided (coverage), and whether the step left something undecided
StepDecided(ev) ==
  LET ins == [op |-> ev.op, args |-> StepArgs(ev)]
      s0 == [mem |-> MemOf(ev, ev.v0, ev.d0, ev.b0), len |-> ev.d0, base |-> ev.b0, ctl |-> Next, eff |-> <<>>, open |-> 0, env |-> [k |-> "sym"],
             heap |-> HeapOf(ev.v0)]
      s1 == Exec(s0, ins)
  IN s1.open = 0 /\ s1.ctl.k # "skip" /\ s1.eff = <<>>

Checkable(ev) == Has(ev, "v0") /\ Modelled(ev.op) /\ ev.op \notin Resumable /\ ev.st \in {"run", "err"} /\ ArgsOk(ev)

\* ------------------------------------------------------------------ calls and returns (frame discipline)
\* frames[tid]: the call frames the validator has seen pushed in this run: [ret, base, nargs].  vm.rs: Call pushes a frame
\* {pc of the next instruction, current base, nargs} and makes the current depth the new base; Return(n) stores the top of
\* the stack over the first argument (cell base - n), pops the frame and cuts the stack to base - frame.nargs + 1;
\* ReturnVoid cuts it to base - frame.nargs.
FrameOps == {"Call", "CallFuncObj", "Return", "ReturnVoid"}
FramesOf(t) == IF t \in DOMAIN frames THEN frames[t] ELSE <<>>
MagInt(m) == IF m = <<>> THEN 0 ELSE m[1] + (IF Len(m) >= 2 THEN m[2] * 10000 ELSE 0) + (IF Len(m) >= 3 THEN m[3] * 100000000 ELSE 0)
M27 == <<7728, 3421, 1>>                                  \* 2^27: a Call packs nargs into the 5 bits above the address
CallArgs(ev) == LET qr == MDivMod(ev.args[1].v.mag, M27) IN [nargs |-> MagInt(qr[1]), addr |-> MagInt(qr[2])]
FrameCheckable(ev) == Has(ev, "v0") /\ ev.op \in FrameOps /\ ev.st = "run" /\ Len(ev.args) = (IF ev.op = "ReturnVoid" THEN 0 ELSE 1)
TopVal(side) == side.top[Len(side.top)]
FrameViol(ev) ==
  LET bad(kind, info) == {[kind |-> kind, info |-> info]}
      fs == FramesOf(ev.tid)
      known == fs # <<>>
      fr == fs[Len(fs)]
  IN CASE ev.op = "Call" ->
            LET c == CallArgs(ev) IN
            (IF ev.pc1 # c.addr THEN bad("vm-call-target", <<c.addr, ev.pc1>>) ELSE {})
            \cup (IF ev.b1 # ev.d0 \/ ev.d1 # ev.d0 THEN bad("vm-call-frame", <<ev.d0, ev.b1, ev.d1>>) ELSE {})
            \cup (IF ev.f1 # ev.f0 + 1 THEN bad("vm-call-stack", <<ev.f0, ev.f1>>) ELSE {})
       [] ev.op = "CallFuncObj" ->
            (IF ev.b1 # ev.d0 - 1 \/ ev.d1 < ev.d0 - 1 THEN bad("vm-call-frame", <<ev.d0, ev.b1, ev.d1>>) ELSE {})
            \cup (IF ev.f1 # ev.f0 + 1 THEN bad("vm-call-stack", <<ev.f0, ev.f1>>) ELSE {})
       [] ev.op = "Return" ->
            (IF ev.f1 # ev.f0 - 1 THEN bad("vm-call-stack", <<ev.f0, ev.f1>>) ELSE {})
            \cup (IF ev.v0.top # <<>> /\ ev.v1.top # <<>> /\ ValOf(TopVal(ev.v1)) # ValOf(TopVal(ev.v0))
                  THEN bad("vm-return-value", <<"Return">>) ELSE {})
            \cup (IF ~known THEN {}
                  ELSE (IF ev.pc1 # fr.ret \/ ev.b1 # fr.base THEN bad("vm-return-frame", <<fr, ev.pc1, ev.b1>>) ELSE {})
                       \cup (IF ev.d1 # ev.b0 - fr.nargs + 1 THEN bad("vm-return-depth", <<fr, ev.b0, ev.d1>>) ELSE {})
                       \cup (IF ev.args[1].n # fr.nargs THEN bad("vm-return-arity", <<fr, ev.args[1].n>>) ELSE {}))
       [] ev.op = "ReturnVoid" ->
            (IF ev.f1 # ev.f0 - 1 THEN bad("vm-call-stack", <<ev.f0, ev.f1>>) ELSE {})
            \cup (IF ~known THEN {}
                  ELSE (IF ev.pc1 # fr.ret \/ ev.b1 # fr.base THEN bad("vm-return-frame", <<fr, ev.pc1, ev.b1>>) ELSE {})
                       \cup (IF ev.d1 # ev.b0 - fr.nargs THEN bad("vm-return-depth", <<fr, ev.b0, ev.d1>>) ELSE {}))
FramesAfter(ev) ==
  LET fs == FramesOf(ev.tid)
      push(f) == [t \in (DOMAIN frames) \cup {ev.tid} |-> IF t = ev.tid THEN Append(fs, f) ELSE frames[t]]
      pop == [t \in (DOMAIN frames) \cup {ev.tid} |-> IF t = ev.tid THEN (IF fs = <<>> THEN fs ELSE SubSeq(fs, 1, Len(fs) - 1)) ELSE frames[t]]
  IN CASE ev.op = "Call" -> push([ret |-> ev.pc + 1, base |-> ev.b0, nargs |-> CallArgs(ev).nargs])
       [] ev.op = "CallFuncObj" -> push([ret |-> ev.pc + 1, base |-> ev.b0, nargs |-> ev.args[1].n])
       [] OTHER -> pop

\* ------------------------------------------------------------------ rewrite events
\* symbolic instruction (driver: op + arguments {k: "top"} {k: "off", n} {k: "num", n, v} {k: "str", s, [f]} {k: "bool", b})
FltLit(a) ==   \* the binary64 a float constant's text denotes
  CASE a.f.sp = "inf" -> FV(WithSign(a.f.neg, MInfBits))
    [] a.f.sp = "nan" -> SomeNaN
    [] OTHER -> FV(LitBits(a.f.neg, a.f.d, a.f.k))
AsmArgOk(kind, a) ==
  CASE kind = "reg" -> a.k \in {"top", "off"}
    [] kind \in {"off", "n"} -> a.k = "num" /\ Has(a, "n")
    [] kind = "ki" -> a.k = "num"
    [] kind = "kf" -> a.k = "str" /\ Has(a, "f")
    [] kind \in {"s", "pc"} -> a.k = "str"
    [] kind = "b" -> a.k = "bool"
    [] OTHER -> FALSE
AsmIns(x) ==
  LET op == VmName(x.op)  sg == Sig(op) IN
  [op |-> op,
   args |-> [i \in 1..Len(sg) |->
               LET a == x.args[i] IN
               CASE sg[i] = "reg" -> (IF a.k = "top" THEN Top ELSE Off(a.n))
                 [] sg[i] = "off" -> Off(a.n)
                 [] sg[i] = "ki" -> IV(NumOf(a.v))
                 [] sg[i] = "kf" -> FltLit(a)
                 [] sg[i] = "b" -> BV(a.b)
                 [] sg[i] \in {"s", "pc"} -> a.s
                 [] OTHER -> a.n]]
AsmOk(x) == LET sg == Sig(VmName(x.op)) IN
  /\ Modelled(VmName(x.op)) /\ Len(x.args) = Len(sg) /\ \A i \in 1..Len(sg) : AsmArgOk(sg[i], x.args[i])
WindowOk(w) == \A i \in 1..Len(w) : AsmOk(w[i])
Window(w) == [i \in 1..Len(w) |-> AsmIns(w[i])]

\* "same": equal final symbolic states - the rewrite preserves behaviour for every operand value.
\* "different": not symbolically equal AND a concrete start state exists on which the two windows, both fully evaluated by the
\*   model, end differently (a witness: the alarm is never raised on algebra the symbolic comparison merely cannot see).
\* "undecided": neither (e.g. an algebraic identity the model does not normalise, or an operation it does not evaluate).
Witnesses(ev) ==
  { env \in Envs : LET a == Run(Start(env), Window(ev.before), 1)
                       b == Run(Start(env), Window(ev.after), 1)
                   IN a.open = 0 /\ b.open = 0 /\ ~(a.ctl.k = "err" /\ a.ctl.e = "wrongtype") /\ ~(b.ctl.k = "err" /\ b.ctl.e = "wrongtype")
                      /\ ~Equivalent(a, b) }
RewriteVerdict(ev) ==
  LET a == Run(Sym0, Window(ev.before), 1)
      b == Run(Sym0, Window(ev.after), 1)
  IN IF Equivalent(a, b) THEN "same"
     ELSE IF Witnesses(ev) # {} THEN "different"
     ELSE "undecided"

\* ------------------------------------------------------------------ asm events
\* ev.asm: symbolic instruction, ev.vm: [op, args (numbers)], ev.ki / ev.kf: constant-table entries by index,
\* ev.labels: positions of the labels the instruction names
CallData(nargs, addr) == addr + nargs * 134217728            \* nargs in the 5 high bits of 32
AsmViol(ev) ==
  LET x == ev.asm  v == ev.vm  op == VmName(x.op)  sg == Sig(op)
      bad(kind, info) == {[kind |-> kind, info |-> info]}
      num(i) == v.args[i].n
  IN IF v.op # op THEN bad("asm-opcode", <<x.op, v.op>>)
     ELSE IF x.op = "Call" THEN
        (IF Len(v.args) = 1 /\ x.args[2].s \in DOMAIN ev.labels /\ num(1) = CallData(x.args[1].n, ev.labels[x.args[2].s])
         THEN {} ELSE bad("asm-call", <<x.args[2].s>>))
     ELSE IF ~Modelled(op) THEN {}
     ELSE IF ~AsmOk(x) \/ Len(v.args) # Len(sg) THEN bad("asm-shape", <<x.op>>)
     ELSE UNION {
        LET a == x.args[i] IN
        CASE sg[i] = "reg" -> (IF num(i) = EncReg(IF a.k = "top" THEN Top ELSE Off(a.n)) THEN {} ELSE bad("asm-register", <<x.op, i>>))
          [] sg[i] \in {"off", "n"} -> (IF num(i) = a.n THEN {} ELSE bad("asm-number", <<x.op, i>>))
          [] sg[i] = "ki" -> (IF Key(num(i)) \in DOMAIN ev.ki /\ NumOf(ev.ki[Key(num(i))]) = NumOf(a.v) THEN {}
                              ELSE bad("asm-int-constant", <<x.op, i>>))
          [] sg[i] = "kf" -> (IF Key(num(i)) \in DOMAIN ev.kf /\ ev.kf[Key(num(i))] = a.s THEN {}
                              ELSE bad("asm-float-constant", <<x.op, i>>))
          [] sg[i] = "pc" -> (IF a.s \in DOMAIN ev.labels /\ ev.labels[a.s] = num(i) THEN {} ELSE bad("asm-label", <<x.op, a.s>>))
          [] sg[i] = "b" -> (IF v.args[i].b = a.b THEN {} ELSE bad("asm-bool", <<x.op>>))
          [] OTHER -> {} : i \in 1..Len(sg) }

\* ------------------------------------------------------------------ the validator
Init == /\ l = 1 /\ cur = "" /\ viol = <<>> /\ nstep = 0 /\ nval = 0 /\ nopen = 0 /\ nskip = 0
        /\ nrw = 0 /\ nrwopen = 0 /\ nrwskip = 0 /\ nasm = 0 /\ frames = <<>> /\ nframe = 0

Report(set) == viol \o [i \in 1..(IF set = {} THEN 0 ELSE 1) |->
                          LET x == CHOOSE y \in set : TRUE IN
                          [kind |-> x.kind, info |-> ToString(x.info), run |-> cur, line |-> l, n |-> Cardinality(set)]]

StepEv == /\ l <= N /\ Ev.e = "step" /\ l' = l + 1
          /\ IF FrameCheckable(Ev)
             THEN /\ viol' = Report(FrameViol(Ev))
                  /\ frames' = FramesAfter(Ev)
                  /\ nframe' = nframe + 1
                  /\ UNCHANGED <<nval, nopen, nskip>>
             ELSE IF Checkable(Ev)
             THEN /\ viol' = Report(StepViol(Ev))
                  /\ nval' = nval + 1
                  /\ nopen' = nopen + (IF StepDecided(Ev) THEN 0 ELSE 1)
                  /\ UNCHANGED nskip
                  /\ UNCHANGED <<frames, nframe>>
             ELSE /\ nskip' = nskip + 1 /\ UNCHANGED <<viol, nval, nopen, frames, nframe>>
          /\ nstep' = nstep + 1
          /\ UNCHANGED <<cur, nrw, nrwopen, nrwskip, nasm>>
RewriteEv == /\ l <= N /\ Ev.e = "rewrite" /\ l' = l + 1
             /\ IF WindowOk(Ev.before) /\ WindowOk(Ev.after)
                THEN LET v == RewriteVerdict(Ev) IN
                     /\ viol' = Report(IF v = "different"
                                       THEN {[kind |-> "rewrite-changes-behaviour", info |-> <<Ev.text, "witness", CHOOSE w \in Witnesses(Ev) : TRUE>>]}
                                       ELSE {})
                     /\ nrw' = nrw + 1
                     /\ nrwopen' = nrwopen + (IF v = "undecided" THEN 1 ELSE 0)
                     /\ UNCHANGED nrwskip
                ELSE /\ nrwskip' = nrwskip + 1 /\ UNCHANGED <<viol, nrw, nrwopen>>
             /\ UNCHANGED <<cur, nstep, nval, nopen, nskip, nasm, frames, nframe>>
AsmEv == /\ l <= N /\ Ev.e = "asm" /\ l' = l + 1
         /\ viol' = Report(AsmViol(Ev))
         /\ nasm' = nasm + 1
         /\ UNCHANGED <<cur, nstep, nval, nopen, nskip, nrw, nrwopen, nrwskip, frames, nframe>>
ResetEv == /\ l <= N /\ Ev.e = "reset" /\ l' = l + 1 /\ cur' = Ev.run /\ frames' = <<>>
           /\ UNCHANGED <<viol, nstep, nval, nopen, nskip, nrw, nrwopen, nrwskip, nasm, nframe>>
OtherEv == /\ l <= N /\ Ev.e \notin {"step", "rewrite", "asm", "reset"} /\ l' = l + 1
           /\ UNCHANGED <<cur, viol, nstep, nval, nopen, nskip, nrw, nrwopen, nrwskip, nasm, frames, nframe>>

NextEv == StepEv \/ RewriteEv \/ AsmEv \/ ResetEv \/ OtherEv
Spec == Init /\ [][NextEv]_vars

Done == l = N + 1
Verdict == Done => PrintT(<<"VERDICT", ToJson([consumed |-> l - 1, events |-> N, violations |-> viol,
                                                steps |-> nstep, steps_checked |-> nval, steps_undecided |-> nopen,
                                                steps_unmodelled |-> nskip, rewrites |-> nrw, rewrites_undecided |-> nrwopen,
                                                rewrites_unmodelled |-> nrwskip, assembled |-> nasm, calls_returns |-> nframe])>>)
=============================================================================
