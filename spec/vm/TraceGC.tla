------------------------------- MODULE TraceGC -------------------------------
(***************************************************************************)
(* Trace validation of the real collector against AbraGC's properties.     *)
(* The hooks (cfg abra_verif, T_GC) log, per green thread: every           *)
(* allocation, the start of a cycle, the end of marking and every sweep    *)
(* increment, each with a snapshot {roots, heap, marked, gray, edges} of   *)
(* the thread's heap taken at that moment (ids are allocation ordinals).   *)
(* Mutator instructions between collector events are not logged; the       *)
(* snapshots carry their effect.  Every event is checked, a failed check   *)
(* is recorded (with the line) and validation continues, so the whole      *)
(* trace is examined.                                                      *)
(*   C06  sweep: no object freed by a sweep increment is reachable from    *)
(*        the roots at that moment (Safe of AbraGC on the logged graph)    *)
(*   C07  cycle end: every object that was unreachable when the cycle      *)
(*        started has been freed by the end of that cycle                  *)
(*        at the start of every cycle heap_size equals the sum of the     *)
(*        sizes of the objects on the heap list (pacing relies on it)      *)
(*   protocol: phases alternate Idle -> Marking -> Sweeping -> Idle; an    *)
(*        allocation is black iff a cycle is in progress; heap_list holds  *)
(*        exactly the live allocations; grey stack empty when sweeping     *)
(*        starts; grey objects are marked.                                 *)
(***************************************************************************)
EXTENDS Naturals, Sequences, FiniteSets, TLC, Json, IOUtils

Rec == ndJsonDeserialize(IOEnv.TRACE)
N == Len(Rec)

VARIABLES l, phase, alive, unreach0, freedCyc, viol, nsweeps, ncycles, cur
vars == <<l, phase, alive, unreach0, freedCyc, viol, nsweeps, ncycles, cur>>

Rng(s) == {s[i] : i \in DOMAIN s}
Succs(edges, S) == {edges[i][2] : i \in {j \in DOMAIN edges : edges[j][1] \in S}}
RECURSIVE Reach(_, _, _)
Reach(edges, front, seen) == IF front = {} THEN seen
                             ELSE LET nxt == Succs(edges, front) \ seen IN Reach(edges, nxt, seen \cup nxt)
ReachOf(snap) == LET r == Rng(snap.roots) \ {0} IN Reach(snap.edges, r, r)

RECURSIVE SumSeq(_)
SumSeq(q) == IF q = <<>> THEN 0 ELSE q[1] + SumSeq(Tail(q))
\* C07: the collector's pacing relies on heap_size being the sum of the sizes of the allocated objects
AccountingOK(snap) == snap.heap_size = SumSeq(snap.sizes)

Get(f, t, d) == IF t \in DOMAIN f THEN f[t] ELSE d
Put(f, t, v) == [x \in DOMAIN f \cup {t} |-> IF x = t THEN v ELSE f[x]]
Bad(kind, info) == viol' = Append(viol, [line |-> l, run |-> cur, kind |-> kind, info |-> ToString(info)])

Init == /\ l = 1 /\ phase = <<>> /\ alive = <<>> /\ unreach0 = <<>> /\ freedCyc = <<>> /\ viol = <<>>
        /\ nsweeps = 0 /\ ncycles = 0 /\ cur = ""

Ev == Rec[l]
Step(e) == l <= N /\ Ev.e = e /\ l' = l + 1

AllocEv ==
  /\ Step("alloc")
  /\ LET t == Ev.tid  A == Get(alive, t, {}) IN
     /\ alive' = Put(alive, t, A \cup {Ev.id})
     /\ IF Ev.id \in A THEN Bad("alloc-id-not-fresh", Ev.id)
        ELSE IF Ev.black # (Get(phase, t, "Idle") # "Idle") THEN Bad("alloc-colour", <<Ev.id, Ev.black, Get(phase, t, "Idle")>>)
        ELSE UNCHANGED viol
  /\ UNCHANGED <<phase, unreach0, freedCyc, nsweeps, ncycles, cur>>

StartEv ==
  /\ Step("gc_start")
  /\ LET t == Ev.tid  s == Ev.snap  R == ReachOf(s) IN
     /\ phase' = Put(phase, t, "Marking")
     /\ unreach0' = Put(unreach0, t, Rng(s.heap) \ R)
     /\ freedCyc' = Put(freedCyc, t, {})
     /\ IF Get(phase, t, "Idle") # "Idle" THEN Bad("start-while-collecting", t)
        ELSE IF Rng(s.heap) # Get(alive, t, {}) THEN Bad("heap-list-differs-from-live-allocations", <<Rng(s.heap) \ Get(alive, t, {}), Get(alive, t, {}) \ Rng(s.heap)>>)
        ELSE IF ~((Rng(s.roots) \ {0}) \cap Rng(s.heap) \subseteq Rng(s.marked)) THEN Bad("root-not-marked-at-start", (Rng(s.roots) \cap Rng(s.heap)) \ Rng(s.marked))
        ELSE IF ~(Rng(s.gray) \subseteq Rng(s.marked)) THEN Bad("grey-not-marked", Rng(s.gray) \ Rng(s.marked))
        ELSE IF ~AccountingOK(s) THEN Bad("heap-size-differs-from-sum-of-object-sizes", <<s.heap_size, SumSeq(s.sizes)>>)
        ELSE UNCHANGED viol
  /\ UNCHANGED <<alive, nsweeps, ncycles, cur>>

MarkEndEv ==
  /\ Step("gc_mark_end")
  /\ LET t == Ev.tid  s == Ev.snap IN
     /\ phase' = Put(phase, t, "Sweeping")
     /\ IF Get(phase, t, "Idle") # "Marking" THEN Bad("mark-end-out-of-phase", t)
        ELSE IF s.gray # <<>> THEN Bad("sweeping-with-grey-objects", s.gray)
        \* AbraGC with RescanRoots (the design TLC proves safe) enters Sweeping only when every root is marked
        ELSE IF ~(((Rng(s.roots) \ {0}) \cap Rng(s.heap)) \subseteq Rng(s.marked)) THEN Bad("white-root-at-mark-end", ((Rng(s.roots) \ {0}) \cap Rng(s.heap)) \ Rng(s.marked))
        ELSE UNCHANGED viol
  /\ UNCHANGED <<alive, unreach0, freedCyc, nsweeps, ncycles, cur>>

SweepEv ==
  /\ Step("gc_sweep")
  /\ LET t == Ev.tid  s == Ev.before  F == Rng(Ev.freed)  R == ReachOf(s)
         fc == Get(freedCyc, t, {}) \cup F IN
     /\ alive' = Put(alive, t, Get(alive, t, {}) \ F)
     /\ freedCyc' = Put(freedCyc, t, fc)
     /\ phase' = Put(phase, t, IF Ev.done THEN "Idle" ELSE "Sweeping")
     /\ nsweeps' = nsweeps + 1
     /\ ncycles' = ncycles + (IF Ev.done THEN 1 ELSE 0)
     /\ IF Get(phase, t, "Idle") # "Sweeping" THEN Bad("sweep-out-of-phase", t)
        ELSE IF F \cap R # {} THEN Bad("freed-reachable-object", F \cap R)                        \* C06
        ELSE IF ~(F \subseteq Rng(s.heap)) THEN Bad("freed-object-not-in-heap-list", F \ Rng(s.heap))
        ELSE IF F \cap Rng(s.marked) # {} /\ FALSE THEN Bad("freed-marked-object", F \cap Rng(s.marked))
        ELSE IF Ev.done /\ ~(Get(unreach0, t, {}) \subseteq fc) THEN Bad("garbage-survived-cycle", Get(unreach0, t, {}) \ fc)   \* C07
        ELSE UNCHANGED viol
  /\ UNCHANGED <<unreach0, cur>>

\* several recorded runs are concatenated; a reset event starts the next one
ResetEv == /\ Step("reset")
           /\ cur' = Ev.run /\ phase' = <<>> /\ alive' = <<>> /\ unreach0' = <<>> /\ freedCyc' = <<>>
           /\ UNCHANGED <<viol, nsweeps, ncycles>>
OtherEv == /\ l <= N /\ Ev.e \notin {"alloc", "gc_start", "gc_mark_end", "gc_sweep", "reset"} /\ l' = l + 1
           /\ UNCHANGED <<phase, alive, unreach0, freedCyc, viol, nsweeps, ncycles, cur>>

Next == AllocEv \/ StartEv \/ MarkEndEv \/ SweepEv \/ ResetEv \/ OtherEv
Spec == Init /\ [][Next]_vars

\* one line of JSON with the verdict when the whole trace has been consumed
Done == l = N + 1
Report == Done => PrintT(<<"VERDICT", ToJson([consumed |-> l - 1, events |-> N, violations |-> viol,
                                               sweeps |-> nsweeps, cycles |-> ncycles])>>)
=============================================================================
