------------------------------- MODULE AbraVM -------------------------------
(***************************************************************************)
(* Instruction-level semantics of the Abra VM's scalar core: the operand   *)
(* stack / frame-slot machine with register operands (top of stack or a    *)
(* frame offset) and immediates.  One definition, Exec, is used in three   *)
(* ways:                                                                   *)
(*  * TraceVM.tla evaluates it on the concrete before-state of every       *)
(*    executed instruction recorded from the real VM and compares the      *)
(*    after-state (values, stack depth, slots, error kind, next pc);       *)
(*  * TraceVM.tla evaluates it *symbolically* (operands are symbols) on    *)
(*    the window before and after each peephole rewrite the real optimizer *)
(*    applied: equal final symbolic states = the rewrite preserves         *)
(*    behaviour for every operand value (translation validation);          *)
(*  * the encoding tables (Sig, AsmToVm) say how a symbolic instruction is *)
(*    assembled; TraceVM.tla checks every assembled instruction.           *)
(*                                                                         *)
(* Values: [t |-> "i", v |-> I64 number]   [t |-> "f", v |-> bit pattern]  *)
(*         [t |-> "b", v |-> BOOLEAN]      [t |-> "r", v |-> opaque]       *)
(*         [t |-> "sym", v |-> name]       [t |-> "app", op, args] (the    *)
(*         result of an operation this model does not interpret, or whose  *)
(*         operands are not concrete)                                      *)
(* Source of truth: abra_core/src/vm.rs `step`, assembly.rs                *)
(* `instr_to_vminstr`, language reference operators.md / builtin_types.md. *)
(***************************************************************************)
EXTENDS Flt, FiniteSets

IV(n) == [t |-> "i", v |-> n]
FV(bits) == [t |-> "f", v |-> bits]
BV(b) == [t |-> "b", v |-> b]
SymV(s) == [t |-> "sym", v |-> s]
App(op, args) == [t |-> "app", op |-> op, args |-> args]
SomeNaN == [t |-> "nan"]                      \* a NaN whose sign/payload the model does not fix
IsConc(x) == x.t \in {"i", "f", "b"}

Top == [k |-> "top"]
Off(n) == [k |-> "off", n |-> n]

\* ------------------------------------------------------------------ instruction classes (VM names)
IntBinOps == [AddInt |-> "+", SubtractInt |-> "-", MulInt |-> "*", DivideInt |-> "/", PowerInt |-> "^", Modulo |-> "%"]
IntImmOps == [AddIntImm |-> "+", SubIntImm |-> "-", MulIntImm |-> "*", DivideIntImm |-> "/", PowerIntImm |-> "^",
              ModuloImm |-> "%"]
IntCmpOps == [LessThanInt |-> "<", LessThanOrEqualInt |-> "<=", GreaterThanInt |-> ">", GreaterThanOrEqualInt |-> ">=",
              EqualInt |-> "=="]
IntCmpImmOps == [LessThanIntImm |-> "<", LessThanOrEqualIntImm |-> "<=", GreaterThanIntImm |-> ">",
                 GreaterThanOrEqualIntImm |-> ">=", EqualIntImm |-> "=="]
FltBinOps == [AddFloat |-> "+", SubFloat |-> "-", MulFloat |-> "*", DivFloat |-> "/", PowerFloat |-> "^"]
FltImmOps == [AddFloatImm |-> "+", SubFloatImm |-> "-", MulFloatImm |-> "*", DivFloatImm |-> "/", PowerFloatImm |-> "^"]
FltCmpOps == [LessThanFloat |-> "<", LessThanOrEqualFloat |-> "<=", GreaterThanFloat |-> ">",
              GreaterThanOrEqualFloat |-> ">=", EqualFloat |-> "=="]
FltCmpImmOps == [LessThanFloatImm |-> "<", LessThanOrEqualFloatImm |-> "<=", GreaterThanFloatImm |-> ">",
                 GreaterThanOrEqualFloatImm |-> ">=", EqualFloatImm |-> "=="]
\* dest, reg1, reg2 with a result this model leaves uninterpreted
OpaqueBin == {"BitXor", "Atan2", "EqualString", "LessThanString", "LessThanOrEqualString", "GreaterThanString",
              "GreaterThanOrEqualString", "ConcatStrings", "StringNthByte"}
WrapBin == [WrappingAdd |-> "+", WrappingMul |-> "*"]
FltUnOps == [Ceil |-> "ceil", Floor |-> "floor", Round |-> "round", SquareRoot |-> "sqrt"]
\* dest, reg with an uninterpreted result
OpaqueUn == {"Sin", "Cos", "Tan", "Asin", "Acos", "Atan", "Log", "Log2", "Log10", "StringFromInt", "StringFromFloat",
             "StringCountBytes"}
\* resumable string instructions re-execute themselves (pc unchanged) until the whole operation is done
Resumable == {"EqualString", "LessThanString", "LessThanOrEqualString", "GreaterThanString", "GreaterThanOrEqualString",
              "ConcatStrings"}

In(op, f) == op \in DOMAIN f

\* kinds of the encoded arguments of a VM instruction:
\*   "reg" (bit 15 = top of stack, else 15-bit signed frame offset)   "off" (i16 frame offset)
\*   "ki" / "kf" (index into the int / float constant table)          "n" (plain number)   "pc"   "b" (bool)
Sig(op) ==
  CASE op \in {"Pop", "Duplicate"} -> <<>>
    [] op \in {"LoadOffset", "StoreOffset"} -> <<"off">>
    [] op = "StoreOffsetImm" -> <<"off", "ki">>
    [] op = "PushNil" -> <<"n">>
    [] op = "PushBool" -> <<"b">>
    [] op = "PushInt" -> <<"ki">>
    [] op = "PushFloat" -> <<"kf">>
    [] op = "PushString" -> <<"s">>
    [] op = "PushAddr" -> <<"pc">>
    [] In(op, IntBinOps) \/ In(op, IntCmpOps) \/ In(op, FltBinOps) \/ In(op, FltCmpOps) \/ op \in OpaqueBin
       \/ In(op, WrapBin) \/ op = "EqualBool" -> <<"reg", "reg", "reg">>
    [] In(op, IntImmOps) \/ In(op, IntCmpImmOps) -> <<"reg", "reg", "ki">>
    [] In(op, FltImmOps) \/ In(op, FltCmpImmOps) -> <<"reg", "reg", "kf">>
    [] In(op, FltUnOps) \/ op \in OpaqueUn \/ op \in {"Not", "FloatFromInt", "IntFromFloat", "ArrayLength", "ArrayPop"}
         -> <<"reg", "reg">>
    [] op \in {"GetField", "SetField"} -> <<"n", "reg">>
    [] op \in {"GetIndex", "SetIndex", "ArrayPush"} -> <<"reg", "reg">>
    [] op = "ArrayPushIntImm" -> <<"reg", "ki">>
    [] op \in {"Jump", "JumpIf", "JumpIfFalse"} -> <<"pc">>
    [] op \in {"ConstructStruct", "ConstructArray", "MakeClosure", "ConstructVariant"} -> <<"n">>
    [] op \in {"DeconstructStruct", "DeconstructArray", "DeconstructVariant"} -> <<>>
    [] OTHER -> <<"?">>
Modelled(op) == Sig(op) # <<"?">>

\* decode an encoded register operand
DecReg(x) == IF x >= 32768 THEN Top ELSE IF x >= 16384 THEN Off(x - 32768) ELSE Off(x)
EncReg(r) == IF r.k = "top" THEN 32768 ELSE IF r.n < 0 THEN r.n + 32768 ELSE r.n

\* ------------------------------------------------------------------ pure operations on concrete scalars
\* results: [k |-> "val", v]  [k |-> "err", e]  [k |-> "open"]  (not decided here)
PVal(v) == [k |-> "val", v |-> v]
PErr(e) == [k |-> "err", e |-> e]
POpen == [k |-> "open"]

FromI64(r) == CASE r.k = "val" -> PVal(IV(r.v)) [] r.k = "err" -> PErr(r.e) [] OTHER -> POpen
FromFlt(r) == CASE r.k = "bits" -> PVal(FV(r.bits))
                [] r.k = "nan" -> PVal(SomeNaN)
                [] r.k = "err" -> PErr(r.e)
                [] OTHER -> POpen

Two64 == MAdd(M63, M63)
FlOne == MMul(MFromNat(1023), M52)                 \* bit pattern of 1.0
FlHalf == MMul(MFromNat(1022), M52)                \* bit pattern of 0.5
\* two's-complement wrap of an exact integer into 64 bits
Wrap64(x) == LET r == EMod(x, Mk(FALSE, Two64)) IN IF Cmp(r, Two63) >= 0 THEN Sub(r, Mk(FALSE, Two64)) ELSE r

\* IEEE-754 totalOrder on bit patterns (f64::total_cmp): sign of a - b
TotalCmp(a, b) ==
  LET na == MCmp(a, M63) >= 0   nb == MCmp(b, M63) >= 0 IN
  IF na # nb THEN (IF na THEN -1 ELSE 1)
  ELSE IF na THEN MCmp(b, a) ELSE MCmp(a, b)
CmpSign(op, c) == CASE op = "<" -> c < 0 [] op = "<=" -> c <= 0 [] op = ">" -> c > 0 [] op = ">=" -> c >= 0
                    [] op = "==" -> c = 0

IntArith(sym, a, b) ==
  IF sym = "%" /\ ~IsZero(b) THEN PVal(IV(EMod(a, b)))                        \* rem_euclid; MIN % -1 = 0
  ELSE FromI64(BinOp(sym, a, b))
FltArith(sym, a, b) ==
  LET x == Decode(a)  y == Decode(b) IN
  CASE sym = "+" -> FromFlt(FAdd(x, y))
    [] sym = "-" -> FromFlt(FSub(x, y))
    [] sym = "*" -> FromFlt(FMul(x, y))
    [] sym = "/" -> FromFlt(FDiv(x, y))
    [] OTHER -> POpen
FltUn(mode, a) ==
  LET x == Decode(a) IN
  IF mode = "sqrt" THEN FromFlt(FSqrt(x)) ELSE FromFlt(FRoundInt(mode, x))

\* ------------------------------------------------------------------ the micro machine
\* The VM keeps frame slots and operands in one value stack: cell `base + n` is frame slot n, cell `len - 1` is the top.
\* st: [mem: known cells (function from absolute index to value), len, base,
\*      ctl: [k: "next"] | [k: "jump", to] | [k: "cjump", c, on, to] | [k: "err", e],
\*      eff: sequence of side effects and uninterpreted / fallible operations in execution order,
\*      open: number of operations on concrete operands this model does not decide]
\* A cell that is not known reads as the symbol <<"cell", index>>.
Next == [k |-> "next"]
\* st.env says what an unknown cell holds: [k |-> "sym"] a symbol of its own; [k |-> "int" | "flt" | "bool", r] the value
\* number (index + r) of a fixed list of boundary values (used to look for a concrete witness, see TraceVM)
IntSamples == <<Zero, Big(1), Big(-1), Big(2), MinI64, MaxI64, Big(7)>>
FltSamples == <<<<>>, M63, FlOne, WithSign(TRUE, FlOne), MInfBits, QNaNBits, FlHalf>>      \* +0 -0 1 -1 inf NaN 0.5
Default(env, i) ==
  CASE env.k = "sym" -> SymV(<<"cell", i>>)
    [] env.k = "int" -> IV(IntSamples[((i + env.r) % Len(IntSamples)) + 1])
    [] env.k = "flt" -> FV(FltSamples[((i + env.r) % Len(FltSamples)) + 1])
    [] env.k = "bool" -> BV((i + env.r) % 2 = 0)
Cell(st, i) == IF i \in DOMAIN st.mem THEN st.mem[i] ELSE Default(st.env, i)
Upd(m, i, v) == [j \in (DOMAIN m) \cup {i} |-> IF j = i THEN v ELSE m[j]]
Push(st, v) == [st EXCEPT !.mem = Upd(st.mem, st.len, v), !.len = st.len + 1]
PopV(st) == Cell(st, st.len - 1)
PopS(st) == [st EXCEPT !.len = st.len - 1]
Slot(st, n) == Cell(st, st.base + n)
SetSlot(st, n, v) == [st EXCEPT !.mem = Upd(st.mem, st.base + n, v)]

RdV(st, r) == IF r.k = "top" THEN PopV(st) ELSE Slot(st, r.n)
RdS(st, r) == IF r.k = "top" THEN PopS(st) ELSE st
Wr(st, r, v) == IF r.k = "top" THEN Push(st, v) ELSE SetSlot(st, r.n, v)
Fail(st, e) == [st EXCEPT !.ctl = [k |-> "err", e |-> e]]
Effect(st, x) == [st EXCEPT !.eff = Append(st.eff, x)]

\* apply a pure result: a value is written to dest, an error stops the instruction before the write; an undecided
\* operation leaves its term (and is an effect, because it may fail)
\* operations that cannot fail on operands of the right type: an uninterpreted result of one of them is a plain term,
\* not an effect (nothing observable happens besides the value)
TotalOps == {<<"op", "Not">>, <<"op", "EqualBool">>, <<"op", "FloatFromInt">>, <<"op", "WrappingAdd">>, <<"op", "WrappingMul">>,
             <<"op", "Ceil">>, <<"op", "Floor">>, <<"op", "Round">>, <<"op", "SquareRoot">>,
             <<"flt", "+">>, <<"flt", "-">>, <<"flt", "*">>}
             \cup {<<"icmp", o>> : o \in {"<", "<=", ">", ">=", "=="}} \cup {<<"fcmp", o>> : o \in {"<", "<=", ">", ">=", "=="}}
Fin(st, dest, res, term, conc) ==
  CASE res.k = "val" -> Wr(st, dest, res.v)
    [] res.k = "err" -> Fail(st, res.e)
    [] OTHER -> LET s1 == [st EXCEPT !.open = st.open + (IF conc THEN 1 ELSE 0)] IN
                Wr(IF term.op \in TotalOps THEN s1 ELSE Effect(s1, term), dest, term)

\* dest, reg1, reg2: reg2 is read first, then reg1 (vm.rs), then dest is written.  ty = "any": uninterpreted operation
Bin3(st, ins, f(_, _), ty, name) ==
  LET d == ins.args[1]  r1 == ins.args[2]  r2 == ins.args[3]
      b == RdV(st, r2)  s1 == RdS(st, r2)
      a == RdV(s1, r1)  s2 == RdS(s1, r1)
      term == App(name, <<a, b>>)
  IN IF ty = "any" THEN Fin(s2, d, POpen, term, IsConc(a) /\ IsConc(b))
     ELSE IF a.t = ty /\ b.t = ty THEN Fin(s2, d, f(a.v, b.v), term, TRUE)
     ELSE IF IsConc(a) /\ IsConc(b) THEN Fail(s2, "wrongtype")
     ELSE Fin(s2, d, POpen, term, FALSE)
\* dest, reg1, immediate
Imm3(st, ins, f(_, _), ty, name) ==
  LET d == ins.args[1]  r1 == ins.args[2]  b == ins.args[3]
      a == RdV(st, r1)  s1 == RdS(st, r1)
      term == App(name, <<a, b>>)
  IN IF a.t = ty /\ b.t = ty THEN Fin(s1, d, f(a.v, b.v), term, TRUE)
     ELSE IF IsConc(a) THEN Fail(s1, "wrongtype")
     ELSE Fin(s1, d, POpen, term, FALSE)
Un2(st, ins, f(_), ty, name) ==
  LET d == ins.args[1]  r == ins.args[2]
      a == RdV(st, r)  s1 == RdS(st, r)
      term == App(name, <<a>>)
  \* (an operation the model does not interpret, applied to a concrete operand, is an unevaluated result: a run that
  \*  contains one is not "fully evaluated" and can never be a witness against a rewrite)
  IN IF ty = "any" THEN Fin(s1, d, POpen, term, IsConc(a))
     ELSE IF a.t = ty THEN Fin(s1, d, f(a.v), term, TRUE)
     ELSE IF IsConc(a) THEN Fail(s1, "wrongtype")
     ELSE Fin(s1, d, POpen, term, FALSE)

\* ---- heap objects (one level): st.heap maps the key of a reference to
\*   [k |-> "struct", fs]   [k |-> "array", len, es (the first elements, at most ArrCap)]   [k |-> "variant", tag, val]
\* Only objects recorded from the real VM are in it (the symbolic start state has an empty heap: data-structure
\* instructions on unknown references stay uninterpreted).  A freshly allocated object is the value [t |-> "new", obj].
ArrCap == 8
NewV(o) == [t |-> "new", obj |-> o]
HasObj(st, v, kind) == v.t = "r" /\ v.v \in DOMAIN st.heap /\ st.heap[v.v].k = kind
SetObj(st, v, o) == [st EXCEPT !.heap = [r \in DOMAIN st.heap |-> IF r = v.v THEN o ELSE st.heap[r]]]
Skip(st) == [st EXCEPT !.ctl = [k |-> "skip"]]               \* the model cannot follow this step (an object it was not shown)
\* an index as a TLC integer (-1: negative; 10^8: at least 10^8, beyond any array length that occurs)
SmallIdx(n) == IF n.neg THEN -1 ELSE IF Len(n.mag) >= 3 THEN 100000000
               ELSE IF n.mag = <<>> THEN 0 ELSE n.mag[1] + (IF Len(n.mag) = 2 THEN 10000 * n.mag[2] ELSE 0)
RECURSIVE PushSeq(_, _, _)
PushSeq(st, vs, i) == IF i > Len(vs) THEN st ELSE PushSeq(Push(st, vs[i]), vs, i + 1)
Rev(vs) == [i \in 1..Len(vs) |-> vs[Len(vs) + 1 - i]]
TopN(st, n) == [i \in 1..n |-> Cell(st, st.len - n + i - 1)]
PopN(st, n) == [st EXCEPT !.len = st.len - n]

\* the semantic name under which a register form and its immediate form denote the same operation
SemName(op) ==
  CASE In(op, IntBinOps) -> <<"int", IntBinOps[op]>>     [] In(op, IntImmOps) -> <<"int", IntImmOps[op]>>
    [] In(op, IntCmpOps) -> <<"icmp", IntCmpOps[op]>>    [] In(op, IntCmpImmOps) -> <<"icmp", IntCmpImmOps[op]>>
    [] In(op, FltBinOps) -> <<"flt", FltBinOps[op]>>     [] In(op, FltImmOps) -> <<"flt", FltImmOps[op]>>
    [] In(op, FltCmpOps) -> <<"fcmp", FltCmpOps[op]>>    [] In(op, FltCmpImmOps) -> <<"fcmp", FltCmpImmOps[op]>>
    [] op = "ArrayPushIntImm" -> <<"op", "ArrayPush">>
    [] OTHER -> <<"op", op>>

RECURSIVE PushZeros(_, _)
PushZeros(st, n) == IF n = 0 THEN st ELSE PushZeros(Push(st, IV(Zero)), n - 1)

\* ins: [op |-> VM name, args |-> decoded arguments: registers as Top/Off(n), constants as values, plain numbers]
Exec(st, ins) ==
  LET op == ins.op  nm == SemName(op) IN
  CASE op = "Pop" -> PopS(st)
    [] op = "Duplicate" -> Push(st, PopV(st))
    [] op = "LoadOffset" -> Push(st, Slot(st, ins.args[1].n))
    [] op = "StoreOffset" -> SetSlot(PopS(st), ins.args[1].n, PopV(st))
    [] op = "StoreOffsetImm" -> SetSlot(st, ins.args[1].n, ins.args[2])
    [] op = "PushNil" -> PushZeros(st, ins.args[1])
    [] op \in {"PushBool", "PushInt", "PushFloat"} -> Push(st, ins.args[1])
    [] op \in {"PushString", "PushAddr"} -> Push(st, App(nm, <<ins.args[1]>>))
    [] In(op, IntBinOps) -> Bin3(st, ins, LAMBDA a, b: IntArith(IntBinOps[op], a, b), "i", nm)
    [] In(op, IntImmOps) -> Imm3(st, ins, LAMBDA a, b: IntArith(IntImmOps[op], a, b), "i", nm)
    [] In(op, IntCmpOps) -> Bin3(st, ins, LAMBDA a, b: PVal(BV(CmpOp(IntCmpOps[op], a, b))), "i", nm)
    [] In(op, IntCmpImmOps) -> Imm3(st, ins, LAMBDA a, b: PVal(BV(CmpOp(IntCmpImmOps[op], a, b))), "i", nm)
    [] In(op, WrapBin) -> Bin3(st, ins, LAMBDA a, b: PVal(IV(Wrap64(IF WrapBin[op] = "+" THEN Add(a, b) ELSE Mul(a, b)))),
                               "i", nm)
    [] In(op, FltBinOps) -> Bin3(st, ins, LAMBDA a, b: FltArith(FltBinOps[op], a, b), "f", nm)
    [] In(op, FltImmOps) -> Imm3(st, ins, LAMBDA a, b: FltArith(FltImmOps[op], a, b), "f", nm)
    [] In(op, FltCmpOps) -> Bin3(st, ins, LAMBDA a, b: PVal(BV(CmpSign(FltCmpOps[op], TotalCmp(a, b)))), "f", nm)
    [] In(op, FltCmpImmOps) -> Imm3(st, ins, LAMBDA a, b: PVal(BV(CmpSign(FltCmpImmOps[op], TotalCmp(a, b)))), "f", nm)
    [] op = "EqualBool" -> Bin3(st, ins, LAMBDA a, b: PVal(BV(a = b)), "b", nm)
    [] op \in OpaqueBin -> Bin3(st, ins, LAMBDA a, b: POpen, "any", nm)
    [] In(op, FltUnOps) -> Un2(st, ins, LAMBDA a: FltUn(FltUnOps[op], a), "f", nm)
    [] op = "Not" -> Un2(st, ins, LAMBDA a: PVal(BV(~a)), "b", nm)
    [] op = "FloatFromInt" -> Un2(st, ins, LAMBDA a: FromFlt(FFromInt(a)), "i", nm)
    [] op = "IntFromFloat" -> Un2(st, ins, LAMBDA a: LET r == FToInt(Decode(a)) IN
                                                     IF r.k = "int" THEN PVal(IV(r.v)) ELSE POpen, "f", nm)
    [] op \in OpaqueUn -> Un2(st, ins, LAMBDA a: POpen, "any", nm)
    [] op = "GetField" ->                       \* index, reg: the field of the struct in reg is pushed
         LET s == RdV(st, ins.args[2])  s1 == RdS(st, ins.args[2])  term == App(nm, <<ins.args[1], s>>) IN
         IF HasObj(st, s, "struct") THEN Push(s1, st.heap[s.v].fs[ins.args[1] + 1])
         ELSE Push(Effect(s1, term), term)
    [] op = "SetField" ->                       \* index, reg: the struct is read from reg, then the new value is popped
         LET s == RdV(st, ins.args[2])  s1 == RdS(st, ins.args[2])  v == PopV(s1)  s2 == PopS(s1) IN
         IF HasObj(st, s, "struct")
         THEN SetObj(s2, s, [st.heap[s.v] EXCEPT !.fs[ins.args[1] + 1] = v])
         ELSE Effect(s2, App(nm, <<ins.args[1], s, v>>))
    [] op = "GetIndex" ->                       \* reg1 = array, reg2 = index: index read first, element pushed
         LET i == RdV(st, ins.args[2])  s1 == RdS(st, ins.args[2])
             a == RdV(s1, ins.args[1])  s2 == RdS(s1, ins.args[1])  term == App(nm, <<a, i>>) IN
         IF HasObj(st, a, "array") /\ i.t = "i"
         THEN LET o == st.heap[a.v]  k == SmallIdx(i.v) IN
              IF k < 0 \/ k >= o.len THEN Fail(s2, "oob")
              ELSE IF k < Len(o.es) THEN Push(s2, o.es[k + 1])
              ELSE Push(s2, term)
         ELSE Push(Effect(s2, term), term)
    [] op = "SetIndex" ->                       \* reg2 = new value (read first), reg1 = index, then the array is popped
         LET v == RdV(st, ins.args[2])  s1 == RdS(st, ins.args[2])
             i == RdV(s1, ins.args[1])  s2 == RdS(s1, ins.args[1])  a == PopV(s2)  s3 == PopS(s2) IN
         IF HasObj(st, a, "array") /\ i.t = "i"
         THEN LET o == st.heap[a.v]  k == SmallIdx(i.v) IN
              IF k < 0 \/ k >= o.len THEN Fail(s3, "oob")
              ELSE IF k < Len(o.es) THEN SetObj(s3, a, [o EXCEPT !.es[k + 1] = v])
              ELSE s3
         ELSE Effect(s3, App(nm, <<a, i, v>>))
    [] op \in {"ArrayPush", "ArrayPushIntImm"} ->   \* reg1 = array, reg2 = value (read first) / immediate
         LET imm == op = "ArrayPushIntImm"
             v == IF imm THEN ins.args[2] ELSE RdV(st, ins.args[2])
             s1 == IF imm THEN st ELSE RdS(st, ins.args[2])
             a == RdV(s1, ins.args[1])  s2 == RdS(s1, ins.args[1]) IN
         IF HasObj(st, a, "array")
         THEN LET o == st.heap[a.v] IN
              SetObj(s2, a, [o EXCEPT !.len = o.len + 1, !.es = IF o.len = Len(o.es) /\ o.len < ArrCap THEN Append(o.es, v) ELSE o.es])
         ELSE Effect(s2, App(nm, <<a, v>>))
    [] op = "ArrayLength" ->                    \* dest, reg
         LET a == RdV(st, ins.args[2])  s1 == RdS(st, ins.args[2])  term == App(nm, <<a>>) IN
         IF HasObj(st, a, "array") THEN Wr(s1, ins.args[1], IV(Big(st.heap[a.v].len)))
         ELSE Wr(Effect(s1, term), ins.args[1], term)
    [] op = "ArrayPop" ->                       \* dest, reg: the last element; an empty array is an out-of-bounds error
         LET a == RdV(st, ins.args[2])  s1 == RdS(st, ins.args[2])  term == App(nm, <<a>>) IN
         IF HasObj(st, a, "array")
         THEN LET o == st.heap[a.v] IN
              IF o.len = 0 THEN Fail(s1, "oob")
              ELSE IF o.len = Len(o.es)
                   THEN Wr(SetObj(s1, a, [o EXCEPT !.len = o.len - 1, !.es = SubSeq(o.es, 1, o.len - 1)]), ins.args[1], o.es[o.len])
                   ELSE Wr(SetObj(s1, a, [o EXCEPT !.len = o.len - 1]), ins.args[1], term)
         ELSE Wr(Effect(s1, term), ins.args[1], term)
    [] op \in {"ConstructStruct", "MakeClosure"} ->     \* the top n values (a closure: the code address and n captures) become
         LET n == ins.args[1] + (IF op = "MakeClosure" THEN 1 ELSE 0) IN      \* the fields of a new struct, bottom first
         Push(PopN(st, n), NewV([k |-> "struct", fs |-> TopN(st, n)]))
    [] op = "ConstructArray" ->
         LET n == ins.args[1]  vs == TopN(st, n) IN
         Push(PopN(st, n), NewV([k |-> "array", len |-> n, es |-> IF n <= ArrCap THEN vs ELSE SubSeq(vs, 1, ArrCap)]))
    [] op = "ConstructVariant" ->               \* tag: the top value becomes the payload of a new variant
         Push(PopS(st), NewV([k |-> "variant", tag |-> ins.args[1], val |-> PopV(st)]))
    [] op = "DeconstructStruct" ->              \* the fields are pushed last-first (the first field ends on top)
         LET s == PopV(st) IN
         IF HasObj(st, s, "struct") THEN PushSeq(PopS(st), Rev(st.heap[s.v].fs), 1) ELSE Skip(st)
    [] op = "DeconstructArray" ->
         LET a == PopV(st) IN
         IF HasObj(st, a, "array") /\ st.heap[a.v].len = Len(st.heap[a.v].es)
         THEN PushSeq(PopS(st), Rev(st.heap[a.v].es), 1) ELSE Skip(st)
    [] op = "DeconstructVariant" ->             \* the payload replaces the variant, the tag is pushed on top of it
         LET v == PopV(st) IN
         IF HasObj(st, v, "variant") THEN Push(Push(PopS(st), st.heap[v.v].val), IV(Big(st.heap[v.v].tag))) ELSE Skip(st)
    [] op = "Jump" -> [st EXCEPT !.ctl = [k |-> "jump", to |-> ins.args[1]]]
    [] op \in {"JumpIf", "JumpIfFalse"} ->
         \* (jumping on `not x` is jumping on x with the opposite sense)
         LET c0 == PopV(st)  s1 == PopS(st)
             neg == c0.t = "app" /\ c0.op = <<"op", "Not">>
             c == IF neg THEN c0.args[1] ELSE c0
             want == IF neg THEN op # "JumpIf" ELSE op = "JumpIf" IN
         IF c.t = "b" THEN (IF c.v = want THEN [s1 EXCEPT !.ctl = [k |-> "jump", to |-> ins.args[1]]] ELSE s1)
         ELSE IF IsConc(c) THEN Fail(s1, "wrongtype")
         ELSE [s1 EXCEPT !.ctl = [k |-> "cjump", c |-> c, on |-> want, to |-> ins.args[1]]]

\* a window of instructions: execution stops at the first instruction that does not fall through
RECURSIVE Run(_, _, _)
Run(st, code, i) == IF i > Len(code) \/ st.ctl # Next THEN st ELSE Run(Exec(st, code[i]), code, i + 1)

\* The symbolic start state of a window: nothing is known, every read produces a symbol.  Frame offsets are 15-bit, so with
\* this base and length no frame slot is an operand cell: the compiler's invariant that operands live above the frame
\* (TraceSched checks `depth never below the frame base` on every recorded step).
SymBase == 100000
SymLen == 200000
Start(env) == [mem |-> <<>>, len |-> SymLen, base |-> SymBase, ctl |-> Next, eff |-> <<>>, open |-> 0, env |-> env, heap |-> <<>>]
Sym0 == Start([k |-> "sym"])
\* concrete start states used to look for a witness when two windows are not symbolically equal
Envs == {[k |-> t, r |-> r] : t \in {"int", "flt", "bool"}, r \in 0..6}
\* Two windows are equivalent when they leave the same live cells, the same depth, the same control outcome and the same
\* sequence of effects.  (Cells at or above the final depth are dead: the next push overwrites them.)
Equivalent(s1, s2) ==
  /\ s1.len = s2.len /\ s1.ctl = s2.ctl /\ s1.eff = s2.eff /\ s1.heap = s2.heap
  /\ \A i \in (DOMAIN s1.mem) \cup (DOMAIN s2.mem) : i < s1.len => Cell(s1, i) = Cell(s2, i)

\* ------------------------------------------------------------------ assembling (assembly.rs instr_to_vminstr)
\* symbolic instruction names that differ from the VM's
AsmToVm == [SubInt |-> "SubtractInt", DivInt |-> "DivideInt", PowInt |-> "PowerInt", PowIntImm |-> "PowerIntImm",
            DivIntImm |-> "DivideIntImm", PowFloat |-> "PowerFloat", PowFloatImm |-> "PowerFloatImm"]
VmName(asmop) == IF asmop \in DOMAIN AsmToVm THEN AsmToVm[asmop] ELSE asmop
=============================================================================
