CONSTANTS NR = 2 MaxLen = 6 Budgets = {30, 4000}
INIT HInit
NEXT HNext
INVARIANT EmitHist
CHECK_DEADLOCK FALSE
