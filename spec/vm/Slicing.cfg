CONSTANTS Small = {1, 2, 3} MaxLen = 2 Large = {7, 64} Delays = {0, 1} WithUnbounded = TRUE
