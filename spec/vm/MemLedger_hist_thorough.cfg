CONSTANTS NR = 3 MaxLen = 8 Budgets = {30, 4000}
INIT HInit
NEXT HNext
INVARIANT EmitHist
CHECK_DEADLOCK FALSE
