------------------------------- MODULE GcStress -------------------------------
(***************************************************************************)
(* Stress programs for the collector, written from the counterexamples and *)
(* the action alphabet of AbraGC: each program keeps an object alive only  *)
(* through the path named in its comment while garbage is produced around  *)
(* it.  They are ASTs, so AbraSem gives the expected output and Render the *)
(* text.                                                                   *)
(***************************************************************************)
EXTENDS AbraGen

Arr(es) == [k |-> "arr", es |-> es]
Tup(es) == [k |-> "tup", es |-> es]
Idx(a, i) == [k |-> "idx", a |-> a, i |-> i]
Fld(o, f) == [k |-> "fld", o |-> o, f |-> f]
New(n, es) == [k |-> "new", n |-> n, args |-> [i \in 1..Len(es) |-> Arg(es[i])]]
LetP(p, e) == [k |-> "let", p |-> p, e |-> e, ty |-> ""]
While(c, b) == [k |-> "while", c |-> c, body |-> b]
For(x, it, b) == [k |-> "for", p |-> PB(x), it |-> it, body |-> b]
Count(e) == [k |-> "count", e |-> e]
Lam(ps, tys, b) == [k |-> "lam", ps |-> ps, ptys |-> tys, body |-> b]
TupP(ps) == [k |-> "tup", ps |-> ps]
Fn(n, ps, ret, body) == [n |-> n, ps |-> ps, ret |-> ret, body |-> body]
Par(n, ty) == [n |-> n, ty |-> ty, d |-> NoD]

Box == [k |-> "struct", n |-> "Box", fs |-> <<"inner", "tag">>, tys |-> <<"array<int>", "int">>, ds |-> <<NoD, NoD>>]
Types == StdTypes \o <<Box>>

\* S1: the popped element lives only on the operand stack / in a tuple built after the root scan (B18)
S1 == File1(Types, <<>>, <<
  Let("arr", Arr(<<Arr(<<I(1), I(2), I(3)>>), Arr(<<I(4), I(5), I(6)>>)>>)),
  Let("pad", Tup(<<I(0), I(0)>>)),
  Let("t", Tup(<<Tup(<<I(7), I(7)>>), MCall(V("arr"), "pop", <<>>)>>)),
  Let("junk", Arr(<<I(9), I(9), I(9)>>)),
  LetP(TupP(<<PB("a"), PB("b")>>), V("t")),
  PrintS(Bin("+", Idx(V("b"), I(0)), Idx(V("b"), I(2)))),
  PrintS(MCall(V("arr"), "len", <<>>)) >>)

\* S2: an element is loaded, then overwritten in its array; the loaded value is used afterwards
S2 == File1(Types, <<>>, <<
  Let("a", Arr(<<Arr(<<I(1)>>), Arr(<<I(2)>>)>>)),
  Var("i", I(0)),
  While(Bin("<", V("i"), I(4)), <<
     Assign(V("i"), "+=", I(1)),
     Let("x", Idx(V("a"), I(0))),
     Assign(Idx(V("a"), I(0)), "=", Arr(<<V("i"), V("i")>>)),
     Let("junk", Arr(<<I(8), I(8), I(8), I(8)>>)),
     PrintS(Bin("..", V("x"), Idx(V("a"), I(0)))) >>) >>)

\* S3: partially evaluated string concatenations and comparisons while garbage strings are produced
S3 == File1(Types, <<>>, <<
  Var("acc", S("")),
  For("i", Count(I(4)), <<
     Let("l", Bin("..", S("ab"), V("i"))),
     Let("r", Bin("..", S("cd"), V("i"))),
     Assign(V("acc"), "=", Bin("..", Bin("..", V("acc"), V("l")), V("r"))),
     PrintS(Bin("==", Bin("..", V("l"), V("r")), Bin("..", Bin("..", S("ab"), V("i")), V("r")))) >>),
  PrintS(V("acc")) >>)

\* S4: an array reachable only through a closure
S4 == File1(Types, <<>>, <<
  Let("f", [k |-> "blk", ss |-> <<Let("hidden", Arr(<<I(10), I(20), I(30)>>)),
                                  ExprS(Lam(<<"q">>, <<"int">>, Idx(V("hidden"), V("q"))))>>]),
  Var("s", I(0)),
  For("i", Count(I(3)), <<
     Let("junk", Arr(<<Arr(<<V("i")>>), Arr(<<V("i")>>)>>)),
     Assign(V("s"), "+=", Call("f", <<V("i")>>)) >>),
  PrintS(V("s")) >>)

\* S5: temporaries that exist only on the operand stack across calls that allocate
S5 == File1(Types,
  << Fn("mk", <<Par("n", "int")>>, "array<int>", <<Let("junk", Arr(<<V("n"), V("n"), V("n")>>)), ExprS(Arr(<<V("n"), Bin("+", V("n"), I(1))>>))>>),
     Fn("sum2", <<Par("a", "array<int>"), Par("b", "array<int>")>>, "int",
        <<Let("junk", Arr(<<I(0), I(0)>>)), ExprS(Bin("+", Idx(V("a"), I(1)), Idx(V("b"), I(0))))>>) >>,
  << PrintS(Call("sum2", <<Call("mk", <<I(1)>>), Call("mk", <<I(5)>>)>>)),
     PrintS(Tup(<<Call("mk", <<I(2)>>), Call("sum2", <<Call("mk", <<I(3)>>), Call("mk", <<I(4)>>)>>), Call("mk", <<I(6)>>)>>)) >>)

\* S6: fresh objects stored into an old (possibly already black) struct: the write barrier on SetField
S6 == File1(Types, <<>>, <<
  Let("bx", New("Box", <<Arr(<<I(0)>>), I(0)>>)),
  For("i", Count(I(5)), <<
     Let("junk", Arr(<<V("i"), V("i"), V("i")>>)),
     Assign(Fld(V("bx"), "inner"), "=", Arr(<<V("i"), Bin("*", V("i"), I(2))>>)),
     Assign(Fld(V("bx"), "tag"), "+=", Idx(Fld(V("bx"), "inner"), I(1))) >>),
  PrintS(Fld(V("bx"), "inner")),
  PrintS(Fld(V("bx"), "tag")) >>)

\* S7: fresh objects pushed into an old array (barrier on ArrayPush), with pops in between
S7 == File1(Types, <<>>, <<
  Let("keep", Arr(<<Arr(<<I(0)>>)>>)),
  For("i", Count(I(5)), <<
     ExprS(MCall(V("keep"), "push", <<Arr(<<V("i"), V("i")>>)>>)),
     Let("junk", Tup(<<V("i"), Arr(<<V("i")>>)>>)),
     If(Bin("==", Bin("%", V("i"), I(2)), I(1)), <<Let("last", MCall(V("keep"), "pop", <<>>)), PrintS(V("last"))>>, <<>>) >>),
  PrintS(V("keep")) >>)

\* S8: heap values inside options and tuples, taken apart by match / destructuring later
S8 == File1(Types, <<>>, <<
  Let("o", Some(I(7))),
  Let("t", Tup(<<Arr(<<I(1), I(2)>>), S("x")>>)),
  Let("sh", [k |-> "variant", q |-> "Shape", c |-> "Rect", es |-> <<I(3), I(4)>>]),
  For("i", Count(I(3)), <<Let("junk", Arr(<<Arr(<<V("i")>>)>>))>>),
  PrintS([k |-> "match", s |-> V("o"), arms |-> <<[p |-> [k |-> "var", c |-> "some", ps |-> <<PB("v")>>], e |-> V("v")],
                                                  [p |-> [k |-> "var", c |-> "none", ps |-> <<>>], e |-> I(0)]>>]),
  LetP(TupP(<<PB("a"), PB("b")>>), V("t")),
  PrintS(Bin("..", V("a"), V("b"))),
  PrintS([k |-> "match", s |-> V("sh"), arms |-> <<[p |-> [k |-> "var", c |-> "Rect", ps |-> <<PB("w"), PB("h")>>], e |-> Bin("*", V("w"), V("h"))],
                                                   [p |-> [k |-> "wild"], e |-> I(0)]>>]) >>)

\* S9: arrays of arrays: swap through a temporary, pop and push back
S9 == File1(Types, <<>>, <<
  Let("m", Arr(<<Arr(<<I(1)>>), Arr(<<I(2)>>), Arr(<<I(3)>>)>>)),
  For("i", Count(I(3)), <<
     Let("tmp", Idx(V("m"), I(0))),
     Assign(Idx(V("m"), I(0)), "=", Idx(V("m"), I(2))),
     Assign(Idx(V("m"), I(2)), "=", V("tmp")),
     Let("top", MCall(V("m"), "pop", <<>>)),
     Let("junk", Arr(<<I(5), I(5), I(5)>>)),
     ExprS(MCall(V("m"), "push", <<V("top")>>)),
     ExprS(MCall(V("top"), "push", <<V("i")>>)) >>),
  PrintS(V("m")) >>)

\* S10: a value moved from the heap into a local of a frame that is then suspended: marking can end inside the callees
S10 == File1(Types,
  << Fn("work", <<Par("n", "int")>>, "int",
        <<Let("junk", Arr(<<V("n"), V("n"), V("n")>>)), Let("j2", Arr(<<V("junk"), V("junk")>>)), ExprS(Bin("+", V("n"), I(1)))>>),
     Fn("taker", <<Par("a", "array<array<int>>")>>, "int",
        <<Let("x", MCall(V("a"), "pop", <<>>)),
          Let("k", Call("work", <<I(3)>>)),
          Let("k2", Call("work", <<V("k")>>)),
          ExprS(Bin("+", Bin("+", Idx(V("x"), I(0)), Idx(V("x"), I(1))), Bin("+", V("k"), V("k2"))))>>) >>,
  << PrintS(Call("taker", <<Arr(<<Arr(<<I(1), I(2)>>), Arr(<<I(3), I(4)>>), Arr(<<I(5), I(6)>>)>>)>>)),
     PrintS(Call("taker", <<Arr(<<Arr(<<I(7), I(8)>>), Arr(<<I(9), I(10)>>)>>)>>)) >>)

\* S11: the popped value goes into a parameter slot (below the frame base), then the function allocates and calls
S11 == File1(Types,
  << Fn("work", <<Par("n", "int")>>, "int",
        <<Let("junk", Arr(<<V("n"), V("n"), V("n")>>)), ExprS(Bin("+", V("n"), I(1)))>>),
     Fn("intop", <<Par("a", "array<array<int>>"), Par("s", "array<int>")>>, "int",
        <<Let("pad", Arr(<<I(0), I(0), I(0), I(0)>>)),
          Assign(V("s"), "=", MCall(V("a"), "pop", <<>>)),
          Let("k", Call("work", <<I(2)>>)),
          Let("junk", Arr(<<V("k"), V("k")>>)),
          ExprS(Bin("+", Idx(V("s"), I(0)), Bin("+", Idx(V("s"), I(1)), V("k"))))>>) >>,
  << PrintS(Call("intop", <<Arr(<<Arr(<<I(1), I(2)>>), Arr(<<I(3), I(4)>>)>>), Arr(<<I(0), I(0)>>)>>)),
     PrintS(Call("intop", <<Arr(<<Arr(<<I(5), I(6)>>), Arr(<<I(7), I(8)>>)>>), Arr(<<I(0), I(0)>>)>>)) >>)

Stress == <<S1, S2, S3, S4, S5, S6, S7, S8, S9, S10, S11>>
=============================================================================
