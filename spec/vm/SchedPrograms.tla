------------------------------- MODULE SchedPrograms -------------------------------
(***************************************************************************)
(* The scenarios of AbraSched as real Abra programs: every abstract        *)
(* instruction has one fixed rendering.  Payloads are arrays (heap         *)
(* objects allocated in the writer's heap).  The expected output of a      *)
(* scenario is AbraSched!Expected, which TLC has shown to be the only      *)
(* possible output under every budget sequence and servicing delay.        *)
(***************************************************************************)
EXTENDS AbraSched, Json, IOUtils

RECURSIVE JoinL(_)
JoinL(ls) == IF ls = <<>> THEN "" ELSE ls[1] \o "\n" \o JoinL(Tail(ls))
RECURSIVE ConcatL(_)
ConcatL(ss) == IF ss = <<>> THEN <<>> ELSE ss[1] \o ConcatL(Tail(ss))

RECURSIVE RI(_, _, _, _, _)
\* lines of instruction i of program p (n = running number for fresh names), ind = indentation
RI(sc, i, p, n, ind) ==
  CASE i.op = "chan"  -> <<ind \o "let c" \o ToString(i.c) \o ": channel<array<int>> = channel()">>
    [] i.op = "nop"   -> <<ind \o "let z" \o ToString(n) \o " = [" \o ToString(n) \o "]">>
    [] i.op = "spawn" -> <<ind \o "task {">> \o
                         ConcatL([j \in 1..Len(Scenario(sc)[i.p]) |-> RI(sc, Scenario(sc)[i.p][j], i.p, 100 * n + j, ind \o "  ")]) \o
                         <<ind \o "}">>
    [] i.op = "write" -> <<ind \o "c" \o ToString(i.c) \o ".write([" \o ToString(i.v) \o ", " \o ToString(n) \o "])">>
    [] i.op = "fwd"   -> <<ind \o "c" \o ToString(i.c) \o ".write([reg[0] + 100, " \o ToString(n) \o "])">>
    [] i.op = "read"  -> <<ind \o "reg = c" \o ToString(i.c) \o ".read()">>
    [] i.op = "print" -> <<ind \o "println(" \o ToString(i.v) \o ")">>
    [] i.op = "printreg" -> <<ind \o "println(reg[0])">>
    [] i.op = "fail"  -> <<ind \o "let q" \o ToString(n) \o " = 7 / (reg[0] - reg[0])">>
    [] i.op = "stop"  -> <<>>

Text(sc) == JoinL(<<"var reg = [0]">> \o
              ConcatL([j \in 1..Len(Scenario(sc)["main"]) |->
                 LET i == Scenario(sc)["main"][j] IN
                 IF i.op = "spawn"
                 THEN <<"task {", "  var reg = [0]">> \o
                      ConcatL([q \in 1..Len(Scenario(sc)[i.p]) |-> RI(sc, Scenario(sc)[i.p][q], i.p, 100 * j + q, "  ")]) \o <<"}">>
                 ELSE RI(sc, i, "main", j, "")]))

RECURSIVE OutText(_)
OutText(s) == IF s = <<>> THEN "" ELSE ToString(s[1]) \o "\n" \o OutText(Tail(s))
\* scenario 5 ends with a division by zero in the main program
MainFails(sc) == \E j \in 1..Len(Scenario(sc)["main"]) : Scenario(sc)["main"][j].op = "fail"
\* when the main program fails while another task prints, how much was printed before the failure depends on the schedule
WorkerPrints(sc) == \E p \in {"w1", "w2"} : \E j \in 1..Len(Scenario(sc)[p]) : Scenario(sc)[p][j].op \in {"print", "printreg"}
Case(sc) == [id |-> "scn" \o ToString(sc), files |-> ("main.abra" :> Text(sc)),
             expect |-> IF MainFails(sc) /\ WorkerPrints(sc) THEN [status |-> "error", errkind |-> "divzero"]
                        ELSE IF MainFails(sc) THEN [status |-> "error", out |-> OutText(ExpectedOf(sc)), errkind |-> "divzero"]
                        ELSE [status |-> "done", out |-> OutText(ExpectedOf(sc))]]
ASSUME \A sc \in Scns : PrintT(<<"CASE", ToJson(Case(sc))>>)
=============================================================================
