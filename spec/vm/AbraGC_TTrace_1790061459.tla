---- MODULE AbraGC_TTrace_1790061459 ----
EXTENDS Sequences, TLCExt, Toolbox, AbraGC, Naturals, TLC

_expression ==
    LET AbraGC_TEExpression == INSTANCE AbraGC_TEExpression
    IN AbraGC_TEExpression!expression
----

_trace ==
    LET AbraGC_TETrace == INSTANCE AbraGC_TETrace
    IN AbraGC_TETrace!trace
----

_inv ==
    ~(
        TLCGet("level") = Len(_TETrace)
        /\
        bases = (<<>>)
        /\
        stack = (<<1>>)
        /\
        gray = (<<>>)
        /\
        alive = ({2})
        /\
        visited = (<<FALSE, TRUE, FALSE>>)
        /\
        strop = (<<>>)
        /\
        flds = (<<<<>>, <<>>, <<>>>>)
        /\
        freed = ({1})
        /\
        heap = (<<2>>)
        /\
        gc = ("Sweeping")
        /\
        idx = (1)
        /\
        base = (0)
    )
----

_init ==
    /\ heap = _TETrace[1].heap
    /\ alive = _TETrace[1].alive
    /\ flds = _TETrace[1].flds
    /\ gc = _TETrace[1].gc
    /\ strop = _TETrace[1].strop
    /\ bases = _TETrace[1].bases
    /\ base = _TETrace[1].base
    /\ visited = _TETrace[1].visited
    /\ idx = _TETrace[1].idx
    /\ gray = _TETrace[1].gray
    /\ freed = _TETrace[1].freed
    /\ stack = _TETrace[1].stack
----

_next ==
    /\ \E i,j \in DOMAIN _TETrace:
        /\ \/ /\ j = i + 1
              /\ i = TLCGet("level")
        /\ heap  = _TETrace[i].heap
        /\ heap' = _TETrace[j].heap
        /\ alive  = _TETrace[i].alive
        /\ alive' = _TETrace[j].alive
        /\ flds  = _TETrace[i].flds
        /\ flds' = _TETrace[j].flds
        /\ gc  = _TETrace[i].gc
        /\ gc' = _TETrace[j].gc
        /\ strop  = _TETrace[i].strop
        /\ strop' = _TETrace[j].strop
        /\ bases  = _TETrace[i].bases
        /\ bases' = _TETrace[j].bases
        /\ base  = _TETrace[i].base
        /\ base' = _TETrace[j].base
        /\ visited  = _TETrace[i].visited
        /\ visited' = _TETrace[j].visited
        /\ idx  = _TETrace[i].idx
        /\ idx' = _TETrace[j].idx
        /\ gray  = _TETrace[i].gray
        /\ gray' = _TETrace[j].gray
        /\ freed  = _TETrace[i].freed
        /\ freed' = _TETrace[j].freed
        /\ stack  = _TETrace[i].stack
        /\ stack' = _TETrace[j].stack

\* Uncomment the ASSUME below to write the states of the error trace
\* to the given file in Json format. Note that you can pass any tuple
\* to `JsonSerialize`. For example, a sub-sequence of _TETrace.
    \* ASSUME
    \*     LET J == INSTANCE Json
    \*         IN J!JsonSerialize("AbraGC_TTrace_1790061459.json", _TETrace)

=============================================================================

 Note that you can extract this module `AbraGC_TEExpression`
  to a dedicated file to reuse `expression` (the module in the 
  dedicated `AbraGC_TEExpression.tla` file takes precedence 
  over the module `AbraGC_TEExpression` below).

---- MODULE AbraGC_TEExpression ----
EXTENDS Sequences, TLCExt, Toolbox, AbraGC, Naturals, TLC

expression == 
    [
        \* To hide variables of the `AbraGC` spec from the error trace,
        \* remove the variables below.  The trace will be written in the order
        \* of the fields of this record.
        heap |-> heap
        ,alive |-> alive
        ,flds |-> flds
        ,gc |-> gc
        ,strop |-> strop
        ,bases |-> bases
        ,base |-> base
        ,visited |-> visited
        ,idx |-> idx
        ,gray |-> gray
        ,freed |-> freed
        ,stack |-> stack
        
        \* Put additional constant-, state-, and action-level expressions here:
        \* ,_stateNumber |-> _TEPosition
        \* ,_heapUnchanged |-> heap = heap'
        
        \* Format the `heap` variable as Json value.
        \* ,_heapJson |->
        \*     LET J == INSTANCE Json
        \*     IN J!ToJson(heap)
        
        \* Lastly, you may build expressions over arbitrary sets of states by
        \* leveraging the _TETrace operator.  For example, this is how to
        \* count the number of times a spec variable changed up to the current
        \* state in the trace.
        \* ,_heapModCount |->
        \*     LET F[s \in DOMAIN _TETrace] ==
        \*         IF s = 1 THEN 0
        \*         ELSE IF _TETrace[s].heap # _TETrace[s-1].heap
        \*             THEN 1 + F[s-1] ELSE F[s-1]
        \*     IN F[_TEPosition - 1]
    ]

=============================================================================



Parsing and semantic processing can take forever if the trace below is long.
 In this case, it is advised to uncomment the module below to deserialize the
 trace from a generated binary file.

\*
\*---- MODULE AbraGC_TETrace ----
\*EXTENDS IOUtils, AbraGC, TLC
\*
\*trace == IODeserialize("AbraGC_TTrace_1790061459.bin", TRUE)
\*
\*=============================================================================
\*

---- MODULE AbraGC_TETrace ----
EXTENDS AbraGC, TLC

trace == 
    <<
    ([bases |-> <<>>,stack |-> <<>>,gray |-> <<>>,alive |-> {},visited |-> <<FALSE, FALSE, FALSE>>,strop |-> <<>>,flds |-> <<<<>>, <<>>, <<>>>>,freed |-> {},heap |-> <<>>,gc |-> "Idle",idx |-> 1,base |-> 0]),
    ([bases |-> <<>>,stack |-> <<1>>,gray |-> <<>>,alive |-> {1},visited |-> <<FALSE, FALSE, FALSE>>,strop |-> <<>>,flds |-> <<<<>>, <<>>, <<>>>>,freed |-> {},heap |-> <<1>>,gc |-> "Idle",idx |-> 1,base |-> 0]),
    ([bases |-> <<>>,stack |-> <<2>>,gray |-> <<>>,alive |-> {1, 2},visited |-> <<FALSE, FALSE, FALSE>>,strop |-> <<>>,flds |-> <<<<>>, <<1>>, <<>>>>,freed |-> {},heap |-> <<1, 2>>,gc |-> "Idle",idx |-> 1,base |-> 0]),
    ([bases |-> <<>>,stack |-> <<2>>,gray |-> <<2>>,alive |-> {1, 2},visited |-> <<FALSE, TRUE, FALSE>>,strop |-> <<>>,flds |-> <<<<>>, <<1>>, <<>>>>,freed |-> {},heap |-> <<1, 2>>,gc |-> "Marking",idx |-> 1,base |-> 0]),
    ([bases |-> <<>>,stack |-> <<1>>,gray |-> <<2>>,alive |-> {1, 2},visited |-> <<FALSE, TRUE, FALSE>>,strop |-> <<>>,flds |-> <<<<>>, <<>>, <<>>>>,freed |-> {},heap |-> <<1, 2>>,gc |-> "Marking",idx |-> 1,base |-> 0]),
    ([bases |-> <<>>,stack |-> <<1>>,gray |-> <<>>,alive |-> {1, 2},visited |-> <<FALSE, TRUE, FALSE>>,strop |-> <<>>,flds |-> <<<<>>, <<>>, <<>>>>,freed |-> {},heap |-> <<1, 2>>,gc |-> "Marking",idx |-> 1,base |-> 0]),
    ([bases |-> <<>>,stack |-> <<1>>,gray |-> <<>>,alive |-> {1, 2},visited |-> <<FALSE, TRUE, FALSE>>,strop |-> <<>>,flds |-> <<<<>>, <<>>, <<>>>>,freed |-> {},heap |-> <<1, 2>>,gc |-> "Sweeping",idx |-> 1,base |-> 0]),
    ([bases |-> <<>>,stack |-> <<1>>,gray |-> <<>>,alive |-> {2},visited |-> <<FALSE, TRUE, FALSE>>,strop |-> <<>>,flds |-> <<<<>>, <<>>, <<>>>>,freed |-> {1},heap |-> <<2>>,gc |-> "Sweeping",idx |-> 1,base |-> 0])
    >>
----


=============================================================================

---- CONFIG AbraGC_TTrace_1790061459 ----
CONSTANTS
    NObj = 3
    MaxStack = 3
    MaxFields = 2
    RescanRoots = FALSE
    WithStrOps = FALSE
    RescanScope = "all"

INVARIANT
    _inv

CHECK_DEADLOCK
    \* CHECK_DEADLOCK off because of PROPERTY or INVARIANT above.
    FALSE

INIT
    _init

NEXT
    _next

CONSTANT
    _TETrace <- _trace

ALIAS
    _expression
=============================================================================
\* Generated on Tue Sep 22 07:17:42 UTC 2026