CONSTANTS NObj = 3 MaxStack = 3 MaxFields = 2 RescanRoots = FALSE WithStrOps = FALSE
SPECIFICATION Spec
INVARIANTS Safe
CHECK_DEADLOCK FALSE
