CONSTANTS NObj = 3 MaxStack = 3 MaxFields = 2 RescanRoots = FALSE WithStrOps = FALSE RescanScope = "all"
SPECIFICATION Spec
INVARIANTS Safe
CHECK_DEADLOCK FALSE
