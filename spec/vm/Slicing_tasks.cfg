CONSTANTS Small = {1, 2, 3} MaxLen = 2 Large = {7, 64, 1000} Delays = {0, 1, 2} WithUnbounded = FALSE
