CONSTANTS NObj = 3 MaxStack = 3 MaxFields = 2 RescanRoots = TRUE WithStrOps = FALSE RescanScope = "frame"
SPECIFICATION Spec
INVARIANTS Safe
CHECK_DEADLOCK FALSE
