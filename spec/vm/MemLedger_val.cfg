CONSTANTS NR = 3 MaxLen = 8 Budgets = {30, 4000}
INIT VInit
NEXT VNext
INVARIANT Verdict
CHECK_DEADLOCK FALSE
