------------------------------- MODULE Slicing -------------------------------
(***************************************************************************)
(* The embedder's freedom (C10, C11): how execution is sliced into step    *)
(* budgets and how long host-call requests stay unserviced.  A drive is    *)
(* [budgets |-> cyclic sequence of budgets, delay |-> number of extra      *)
(* run_n_steps calls made while a host call is pending].                   *)
(* Exhaustive part: every sequence over Small of length <= MaxLen (used     *)
(* cyclically, so for a run of n steps this covers every slicing whose     *)
(* pattern has period <= MaxLen); plus constant large budgets; plus a zero *)
(* budget mixed in (a call that may not execute anything).                 *)
(***************************************************************************)
EXTENDS Naturals, Integers, Sequences, FiniteSets, TLC, Json, IOUtils
CONSTANTS Small, MaxLen, Large, Delays, WithUnbounded

RECURSIVE SeqsUpTo(_, _)
SeqsUpTo(S, n) == IF n = 0 THEN {<<>>} ELSE LET r == SeqsUpTo(S, n - 1) IN r \cup {Append(s, x) : s \in {t \in r : Len(t) = n - 1}, x \in S}
Patterns == (SeqsUpTo(Small, MaxLen) \ {<<>>}) \cup {<<b>> : b \in Large} \cup {<<0, b>> : b \in Small \cup Large}
            \cup (IF WithUnbounded THEN {<<-1>>} ELSE {})
            \cup {<<5>>, <<16>>, <<1, 2, 3, 4, 5, 6, 7>>, <<13, 1, 1, 40, 2>>}     \* a prime, a power of two, a ramp, an irregular one
Drives == {[budgets |-> p, delay |-> d] : p \in Patterns, d \in Delays}

RECURSIVE Enum(_)
Enum(S) == IF S = {} THEN <<>> ELSE LET x == CHOOSE y \in S : TRUE IN <<x>> \o Enum(S \ {x})
ASSUME ndJsonSerialize(IOEnv.OUT, Enum(Drives))
=============================================================================
