------------------------------- MODULE GcPlan -------------------------------
(***************************************************************************)
(* The space of collection schedules replayed against the real VM (C06).   *)
(* A schedule is AbraGC's nondeterminism made concrete for one execution   *)
(* of known length: where StartMark fires (own-step index of the thread),  *)
(* and how much MarkStep/SweepStep work each later maybe_gc call does      *)
(* (1 byte budget = exactly one object per call, -1 = everything).         *)
(* Single-cycle schedules enumerate every start point with stride Stride;  *)
(* multi-cycle schedules restart a cycle every Period own-steps.           *)
(***************************************************************************)
EXTENDS Naturals, Integers, Sequences, FiniteSets, TLC, Json, IOUtils
CONSTANTS Stride, MaxStarts

Lens == ndJsonDeserialize(IOEnv.LENS)      \* records [id, steps]
Incs == {<<-1, -1>>, <<1, 1>>, <<1, -1>>, <<-1, 1>>}
Periods == {2, 3, 5, 7, 16, 61}

\* a stride that keeps the number of start points of one program below MaxStarts
StrideFor(n) == IF Stride > 0 THEN Stride ELSE (n \div MaxStarts) + 1
Single(n) == LET st == StrideFor(n) IN
  { [mode |-> "script", starts |-> <<s>>, every |-> 0, offset |-> 0, mark |-> inc[1], sweep |-> inc[2]] :
       s \in {k \in 0..(n - 1) : k % st = 0}, inc \in {<<-1, -1>>, <<1, 1>>} }
Multi(n) ==
  { [mode |-> "script", starts |-> <<>>, every |-> p, offset |-> o, mark |-> inc[1], sweep |-> inc[2]] :
       p \in Periods, o \in {0, 1}, inc \in Incs }
Plans(n) == Single(n) \cup Multi(n) \cup {[mode |-> "native"]}

SetToSeq(S) == CHOOSE f \in [1..Cardinality(S) -> S] : \A i, j \in 1..Cardinality(S) : i # j => f[i] # f[j]
RECURSIVE Enum(_)
Enum(S) == IF S = {} THEN <<>> ELSE LET x == CHOOSE y \in S : TRUE IN <<x>> \o Enum(S \ {x})

VARIABLE k
Init == k = 0
Next == k < Len(Lens) /\ k' = k + 1
Emit == k > 0 => LET ps == Enum(Plans(Lens[k].steps)) IN
   ndJsonSerialize(IOEnv.OUTDIR \o "/plans_" \o Lens[k].id \o ".ndjson",
                   [j \in 1..Len(ps) |-> [id |-> Lens[k].id, n |-> j, gc |-> ps[j]]])
=============================================================================
