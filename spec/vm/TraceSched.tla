------------------------------- MODULE TraceSched -------------------------------
(***************************************************************************)
(* Trace validation of the real runtime against the scheduler/channel      *)
(* model (the actions of AbraSched, driven by logged events instead of     *)
(* abstract thread programs).  Hooks: T_SCHED (run_begin, run_end, skip,   *)
(* drain, spawn, thread_dropped, host_service), T_STEP (one event per      *)
(* executed instruction with the thread's status afterwards), T_CHAN       *)
(* (chan_write, chan_read with the message content, capture).              *)
(* Every event is checked against the model state; a failed check is       *)
(* recorded with its line and validation continues (the model state is     *)
(* re-synchronised from the event where possible).                         *)
(*  C11: consumed = number of executed instructions <= k; the reported     *)
(*       kind is the one update_status_helper must give; Done in the very  *)
(*       call in which the main program stops; a call returns only for a   *)
(*       reason; only the front thread runs, only if runnable.             *)
(*  C09: per channel, reads return the written messages in order, each     *)
(*       once; a read blocks only when the queue is empty.                 *)
(*  C08: captured heap values are copied into the new task.                *)
(*  C01: operand-stack discipline per instruction (depth never below the   *)
(*       frame base; same relative height whenever a pc is re-entered).    *)
(***************************************************************************)
EXTENDS Naturals, Integers, Sequences, FiniteSets, TLC, Json, IOUtils

Rec == ndJsonDeserialize(IOEnv.TRACE)
N == Len(Rec)
Main == 0

VARIABLES l, cur, queue, status, inCall, k, consumed, skippedRow, mainDone, chans, h, viol, nsteps, ncalls, nmsgs
vars == <<l, cur, queue, status, inCall, k, consumed, skippedRow, mainDone, chans, h, viol, nsteps, ncalls, nmsgs>>

Get(f, t, d) == IF t \in DOMAIN f THEN f[t] ELSE d
Put(f, t, v) == [x \in DOMAIN f \cup {t} |-> IF x = t THEN v ELSE f[x]]
Bad(kind, info) == viol' = Append(viol, [line |-> l, run |-> cur, kind |-> kind, info |-> ToString(info)])

Init == /\ l = 1 /\ cur = "" /\ queue = <<Main>> /\ status = (Main :> "run") /\ inCall = FALSE /\ k = 0 /\ consumed = 0
        /\ skippedRow = 0 /\ mainDone = FALSE /\ chans = <<>> /\ h = <<>> /\ viol = <<>> /\ nsteps = 0 /\ ncalls = 0 /\ nmsgs = 0

Ev == Rec[l]
Is(e) == l <= N /\ Ev.e = e /\ l' = l + 1
Counters == <<nsteps, ncalls, nmsgs>>

ResetEv == /\ Is("reset")
           /\ cur' = Ev.run /\ queue' = <<Main>> /\ status' = (Main :> "run") /\ inCall' = FALSE /\ k' = 0 /\ consumed' = 0
           /\ skippedRow' = 0 /\ mainDone' = FALSE /\ chans' = <<>> /\ h' = <<>>
           /\ UNCHANGED <<viol, nsteps, ncalls, nmsgs>>

RunBegin == /\ Is("run_begin")
            /\ inCall' = TRUE /\ k' = Ev.k /\ consumed' = 0 /\ skippedRow' = 0
            /\ queue' = Ev.queue                       \* re-synchronise
            /\ ncalls' = ncalls + 1
            /\ IF inCall THEN Bad("nested-run", <<>>)
               ELSE IF Ev.queue # queue THEN Bad("run-queue-differs-from-model", <<Ev.queue, queue>>)
               ELSE UNCHANGED viol
            /\ UNCHANGED <<cur, status, mainDone, chans, h, nsteps, nmsgs>>

Rotate(q, t, st) == IF q = <<>> THEN q
                    ELSE IF st \in {"done", "panic"} THEN Tail(q) ELSE Append(Tail(q), t)

\* heights are keyed by (thread entry point is implicit: one program) pc and the resumed flag of string instructions
HKey == 2 * Ev.pc + (IF Ev.r0 THEN 1 ELSE 0)
Step == /\ Is("step")
        /\ consumed' = consumed + 1 /\ skippedRow' = 0 /\ nsteps' = nsteps + 1
        /\ status' = Put(status, Ev.tid, Ev.st)
        /\ queue' = Rotate(queue, Ev.tid, Ev.st)
        /\ mainDone' = (mainDone \/ (Ev.tid = Main /\ Ev.st = "done"))
        /\ h' = IF HKey \in DOMAIN h /\ h[HKey] = Ev.d0 - Ev.b0 THEN h ELSE Put(h, HKey, Ev.d0 - Ev.b0)   \* (re-synchronise after a report)
        /\ IF ~inCall THEN Bad("step-outside-run", Ev.tid)
           ELSE IF mainDone THEN Bad("ran-after-main-finished", Ev.tid)
           ELSE IF consumed >= k THEN Bad("budget-exceeded", <<consumed + 1, k>>)
           ELSE IF queue = <<>> \/ Head(queue) # Ev.tid THEN Bad("not-the-front-thread", <<Ev.tid, queue>>)
           ELSE IF Get(status, Ev.tid, "run") # "run" THEN Bad("ran-unrunnable-thread", <<Ev.tid, Get(status, Ev.tid, "run")>>)
           ELSE IF Ev.d0 < Ev.b0 \/ (Ev.st # "panic" /\ Ev.d1 < Ev.b1) THEN Bad("operand-stack-below-frame-base", <<Ev.pc, Ev.op>>)
           ELSE IF HKey \in DOMAIN h /\ h[HKey] # Ev.d0 - Ev.b0 THEN Bad("stack-height-differs-on-reentry", <<Ev.pc, Ev.op, h[HKey], Ev.d0 - Ev.b0>>)
           ELSE UNCHANGED viol
        /\ UNCHANGED <<cur, inCall, k, chans, ncalls, nmsgs>>

Skip == /\ Is("skip")
        /\ skippedRow' = skippedRow + 1
        /\ queue' = Rotate(queue, Ev.tid, Get(status, Ev.tid, "run"))
        /\ IF ~inCall THEN Bad("skip-outside-run", Ev.tid)
           ELSE IF queue = <<>> \/ Head(queue) # Ev.tid THEN Bad("skipped-not-the-front-thread", <<Ev.tid, queue>>)
           ELSE IF Get(status, Ev.tid, "run") = "run" THEN Bad("skipped-runnable-thread", Ev.tid)
           ELSE IF skippedRow >= Len(queue) THEN Bad("kept-skipping-when-nothing-can-run", <<>>)
           ELSE IF consumed >= k THEN Bad("scheduled-without-budget", <<>>)
           ELSE UNCHANGED viol
        /\ UNCHANGED <<cur, status, inCall, k, consumed, mainDone, chans, h, nsteps, ncalls, nmsgs>>

Drain == /\ Is("drain")
         /\ status' = Put(status, Ev.tid, "run")
         /\ queue' = Append(queue, Ev.tid)
         /\ IF Ev.tid \in DOMAIN status THEN Bad("thread-id-reused", Ev.tid) ELSE UNCHANGED viol
         /\ UNCHANGED <<cur, inCall, k, consumed, skippedRow, mainDone, chans, h, nsteps, ncalls, nmsgs>>

Dropped == /\ Is("thread_dropped")
           /\ IF Ev.tid = Main \/ Get(status, Ev.tid, "") # "done" THEN Bad("dropped-unfinished-thread", Ev.tid) ELSE UNCHANGED viol
           /\ UNCHANGED <<cur, queue, status, inCall, k, consumed, skippedRow, mainDone, chans, h, nsteps, ncalls, nmsgs>>

Queued(t) == \E j \in DOMAIN queue : queue[j] = t
ExpectedKind ==
   IF mainDone THEN "Done"
   ELSE IF Get(status, Main, "run") = "host" THEN "PendingHostFunc"
   ELSE IF Get(status, Main, "run") = "err" THEN "MainThreadError"
   ELSE IF \E t \in DOMAIN status : status[t] = "host" /\ Queued(t) THEN "PendingHostFunc"
   ELSE "OutOfSteps"
RunEnd == /\ Is("run_end")
          /\ inCall' = FALSE
          /\ IF ~inCall THEN Bad("return-without-call", <<>>)
             ELSE IF Ev.consumed # consumed THEN Bad("steps-consumed-misreported", <<Ev.consumed, consumed>>)
             ELSE IF consumed > k THEN Bad("budget-exceeded", <<consumed, k>>)
             ELSE IF Ev.kind # ExpectedKind THEN Bad("status-kind-untruthful", <<Ev.kind, ExpectedKind>>)
             ELSE IF ~(mainDone \/ consumed = k \/ queue = <<>> \/ skippedRow >= Len(queue)) THEN Bad("returned-without-reason", <<consumed, k, skippedRow, queue>>)
             ELSE UNCHANGED viol
          /\ UNCHANGED <<cur, queue, status, k, consumed, skippedRow, mainDone, chans, h, nsteps, ncalls, nmsgs>>

HostService == /\ Is("host_service")
               /\ status' = Put(status, Ev.tid, "run")
               /\ IF inCall THEN Bad("host-call-serviced-inside-run", Ev.tid)
                  ELSE IF Get(status, Ev.tid, "") # "host" THEN Bad("serviced-thread-not-pending", Ev.tid)
                  ELSE UNCHANGED viol
               /\ UNCHANGED <<cur, queue, inCall, k, consumed, skippedRow, mainDone, chans, h, nsteps, ncalls, nmsgs>>

ChanWrite == /\ Is("chan_write")
             /\ LET q == Append(Get(chans, Ev.ch, <<>>), Ev.show) IN
                /\ chans' = Put(chans, Ev.ch, q)
                /\ IF Ev.len # Len(q) THEN Bad("queue-length-after-write", <<Ev.len, Len(q)>>) ELSE UNCHANGED viol
             /\ nmsgs' = nmsgs + 1
             /\ UNCHANGED <<cur, queue, status, inCall, k, consumed, skippedRow, mainDone, h, nsteps, ncalls>>

ChanRead == /\ Is("chan_read")
            /\ LET q == Get(chans, Ev.ch, <<>>) IN
               IF Ev.got
               THEN /\ chans' = Put(chans, Ev.ch, IF q = <<>> THEN q ELSE Tail(q))
                    /\ IF q = <<>> THEN Bad("read-a-message-never-written", Ev.show)
                       ELSE IF Head(q) # Ev.show THEN Bad("message-out-of-order-or-altered", <<Ev.show, Head(q)>>)
                       ELSE IF Ev.len # Len(q) - 1 THEN Bad("queue-length-after-read", <<Ev.len, Len(q) - 1>>)
                       ELSE UNCHANGED viol
               ELSE /\ UNCHANGED chans
                    /\ IF q # <<>> THEN Bad("read-blocked-although-message-available", q) ELSE UNCHANGED viol
            /\ UNCHANGED <<cur, queue, status, inCall, k, consumed, skippedRow, mainDone, h, nsteps, ncalls, nmsgs>>

Capture == /\ Is("capture")
           /\ IF Ev.src.t = "obj" /\ Ev.src.v = Ev.copy.v THEN Bad("captured-heap-value-shared-not-copied", Ev.src.v) ELSE UNCHANGED viol
           /\ UNCHANGED <<cur, queue, status, inCall, k, consumed, skippedRow, mainDone, chans, h, nsteps, ncalls, nmsgs>>

Known == {"reset", "run_begin", "step", "skip", "drain", "thread_dropped", "run_end", "host_service", "chan_write", "chan_read", "capture"}
Other == /\ l <= N /\ Ev.e \notin Known /\ l' = l + 1
         /\ UNCHANGED <<cur, queue, status, inCall, k, consumed, skippedRow, mainDone, chans, h, viol, nsteps, ncalls, nmsgs>>

Next == ResetEv \/ RunBegin \/ Step \/ Skip \/ Drain \/ Dropped \/ RunEnd \/ HostService \/ ChanWrite \/ ChanRead \/ Capture \/ Other
Spec == Init /\ [][Next]_vars

Done == l = N + 1
Report == Done => PrintT(<<"VERDICT", ToJson([consumed |-> l - 1, events |-> N, violations |-> viol,
                                               steps |-> nsteps, calls |-> ncalls, messages |-> nmsgs])>>)
=============================================================================
