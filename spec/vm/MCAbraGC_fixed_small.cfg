CONSTANTS NObj = 3 MaxStack = 2 MaxFields = 2 RescanRoots = TRUE WithStrOps = TRUE RescanScope = "all"
SPECIFICATION Spec
INVARIANTS Safe HeapListOK IdleOK SweepOK GrayOK TypeOK
CHECK_DEADLOCK FALSE
