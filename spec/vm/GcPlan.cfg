CONSTANTS Stride = 0 MaxStarts = 24
INIT Init
NEXT Next
INVARIANT Emit
CHECK_DEADLOCK FALSE
