CONSTANTS Small = {1, 2, 3, 5} MaxLen = 3 Large = {7, 64, 1000} Delays = {0, 1, 2, 3} WithUnbounded = FALSE
