------------------------------- MODULE MemLedger -------------------------------
(***************************************************************************)
(* C07, second sentence: an embedder can create, run and drop runtimes     *)
(* repeatedly without growing memory.  The abstract state is the set of    *)
(* live runtimes; the observation is the allocator's live byte count       *)
(* (relative to the start of the history) after every operation.          *)
(*   Ledger law: whenever no runtime is alive, the count is back at 0;     *)
(*   while some runtime is alive it is positive; it never goes negative.   *)
(* Histories are enumerated by TLC (HistSpec: every well-formed sequence   *)
(* of new/run/drop over NR runtimes up to length MaxLen that ends with     *)
(* everything dropped); the recorded ledgers are validated by ValSpec.     *)
(***************************************************************************)
EXTENDS Naturals, Integers, Sequences, FiniteSets, TLC, Json, IOUtils
CONSTANTS NR, MaxLen, Budgets

\* ---- history enumeration: state = (alive set, history)
VARIABLES alive, hist, done
HInit == alive = {} /\ hist = <<>> /\ done = FALSE
New(r)  == r \notin alive /\ alive' = alive \cup {r} /\ hist' = Append(hist, <<"new", r>>)
RunR(r, k) == r \in alive /\ UNCHANGED alive /\ hist' = Append(hist, <<"run", r, k>>)
Drop(r) == r \in alive /\ alive' = alive \ {r} /\ hist' = Append(hist, <<"drop", r>>)
HNext == /\ Len(hist) < MaxLen /\ UNCHANGED done
         /\ \E r \in 1..NR : New(r) \/ Drop(r) \/ \E k \in Budgets : RunR(r, k)
\* symmetry breaking: runtime r+1 is only created after runtime r has been created at least once
Canon == \A i \in 1..Len(hist) : hist[i][1] = "new" /\ hist[i][2] > 1 =>
            \E j \in 1..(i - 1) : hist[j][1] = "new" /\ hist[j][2] = hist[i][2] - 1
Complete == hist # <<>> /\ alive = {} /\ \E i \in 1..Len(hist) : hist[i][1] = "run"
EmitHist == (Complete /\ Canon) => PrintT(<<"CASE", ToJson([ops |-> hist])>>)

\* ---- validation of observed ledgers: IOEnv.OBS holds records [id, ops, ledger]
Obs == IF "OBS" \in DOMAIN IOEnv THEN ndJsonDeserialize(IOEnv.OBS) ELSE <<>>
RECURSIVE AliveAfter(_, _, _)
AliveAfter(ops, i, acc) ==
  IF i = 0 THEN acc
  ELSE LET a == AliveAfter(ops, i - 1, acc) IN
       IF ops[i][1] = "new" THEN a \cup {ops[i][2]}
       ELSE IF ops[i][1] = "drop" THEN a \ {ops[i][2]} ELSE a
LedgerOK(rec) ==
  /\ Len(rec.ledger) = Len(rec.ops)
  /\ \A i \in 1..Len(rec.ops) :
        LET a == AliveAfter(rec.ops, i, {}) IN
        /\ rec.ledger[i].live >= 0
        /\ (a = {}) => rec.ledger[i].live = 0 /\ rec.ledger[i].blocks = 0
        /\ (a # {}) => rec.ledger[i].live > 0
BadRecs == {i \in 1..Len(Obs) : ~LedgerOK(Obs[i])}
VInit == done = FALSE /\ alive = {} /\ hist = <<>>
VNext == ~done /\ done' = TRUE /\ UNCHANGED <<alive, hist>>
Verdict == done => PrintT(<<"VERDICT", ToJson([checked |-> Len(Obs), bad |-> [i \in BadRecs |-> Obs[i].id]])>>)
=============================================================================
