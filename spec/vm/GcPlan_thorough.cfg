CONSTANTS Stride = 1 MaxStarts = 0
INIT Init
NEXT Next
INVARIANT Emit
CHECK_DEADLOCK FALSE
