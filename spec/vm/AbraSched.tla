------------------------------- MODULE AbraSched -------------------------------
(***************************************************************************)
(* The runtime of abra_core/src/vm.rs as the embedder sees it: a run queue *)
(* of green threads driven round-robin by run_n_steps(k), tasks spawned    *)
(* into the queue, channels, host calls that suspend a thread until the    *)
(* embedder services them between two calls.  One action per critical      *)
(* section of run_threads_round_robin / finish_thread_turn /               *)
(* drain_new_threads / update_status_helper.                               *)
(*                                                                         *)
(* Thread programs are sequences over a small abstract instruction set;    *)
(* Scn selects one scenario.  The embedder is nondeterministic: any budget *)
(* from Budgets per call, and it may or may not service pending host calls *)
(* before calling again (ServiceLazily) - this is what makes different     *)
(* interleavings of tasks reachable at all (slicing alone never does).     *)
(*                                                                         *)
(* PayloadOwner = "writer": a channel queue holds pointers into the        *)
(* writer's heap (the code as written); "queue": the queue owns a copy.    *)
(***************************************************************************)
EXTENDS Naturals, Integers, Sequences, FiniteSets, TLC
CONSTANTS Budgets, PayloadOwner, Scns, ServiceLazily

Ins(op) == [op |-> op]
Scenario(s) ==
  CASE s = 1 -> [main |-> << [op |-> "chan", c |-> 1], [op |-> "spawn", p |-> "w1"], [op |-> "print", v |-> 0],
                             [op |-> "read", c |-> 1], [op |-> "printreg"], [op |-> "stop"] >>,
                 w1 |-> << Ins("nop"), [op |-> "write", c |-> 1, v |-> 10], Ins("stop") >>,
                 w2 |-> << Ins("stop") >>]
    [] s = 2 -> \* ping-pong over two channels
                [main |-> << [op |-> "chan", c |-> 1], [op |-> "chan", c |-> 2], [op |-> "spawn", p |-> "w1"],
                             [op |-> "write", c |-> 1, v |-> 1], [op |-> "read", c |-> 2], [op |-> "printreg"],
                             [op |-> "write", c |-> 1, v |-> 2], [op |-> "read", c |-> 2], [op |-> "printreg"], Ins("stop") >>,
                 w1 |-> << [op |-> "read", c |-> 1], [op |-> "fwd", c |-> 2], [op |-> "read", c |-> 1], [op |-> "fwd", c |-> 2], Ins("stop") >>,
                 w2 |-> << Ins("stop") >>]
    [] s = 3 -> \* two writers, one reader that prints
                [main |-> << [op |-> "chan", c |-> 1], [op |-> "spawn", p |-> "w1"], [op |-> "spawn", p |-> "w2"],
                             [op |-> "read", c |-> 1], [op |-> "printreg"], [op |-> "read", c |-> 1], [op |-> "printreg"], Ins("stop") >>,
                 w1 |-> << [op |-> "write", c |-> 1, v |-> 10], Ins("stop") >>,
                 w2 |-> << Ins("nop"), [op |-> "write", c |-> 1, v |-> 20], Ins("stop") >>]
    [] s = 4 -> \* the main program finishes while a task is still blocked; another one is still running
                [main |-> << [op |-> "chan", c |-> 1], [op |-> "spawn", p |-> "w1"], [op |-> "spawn", p |-> "w2"],
                             [op |-> "print", v |-> 7], Ins("stop") >>,
                 w1 |-> << [op |-> "read", c |-> 1], Ins("stop") >>,
                 w2 |-> << Ins("nop"), Ins("nop"), Ins("nop"), Ins("nop"), Ins("stop") >>]
    [] s = 5 -> \* the main program fails while a task is running; a task fails while main runs on
                [main |-> << [op |-> "chan", c |-> 1], [op |-> "spawn", p |-> "w1"], Ins("nop"), [op |-> "print", v |-> 1], Ins("fail"), Ins("stop") >>,
                 w1 |-> << Ins("nop"), Ins("fail"), Ins("stop") >>,
                 w2 |-> << Ins("stop") >>]
    [] s = 6 -> \* the printing task is a worker; main only waits for it
                [main |-> << [op |-> "chan", c |-> 1], [op |-> "chan", c |-> 2], [op |-> "spawn", p |-> "w1"],
                             [op |-> "write", c |-> 1, v |-> 5], [op |-> "write", c |-> 1, v |-> 6], [op |-> "read", c |-> 2], Ins("stop") >>,
                 w1 |-> << [op |-> "read", c |-> 1], [op |-> "printreg"], [op |-> "read", c |-> 1], [op |-> "printreg"],
                           [op |-> "write", c |-> 2, v |-> 0], Ins("stop") >>,
                 w2 |-> << Ins("stop") >>]
    [] s = 7 -> \* the main program fails while a task has host calls pending: the error must still be reported
                [main |-> << [op |-> "chan", c |-> 1], [op |-> "spawn", p |-> "w1"], Ins("nop"), Ins("nop"), Ins("nop"), Ins("fail"), Ins("stop") >>,
                 w1 |-> << [op |-> "print", v |-> 1], [op |-> "print", v |-> 2], [op |-> "print", v |-> 3], [op |-> "print", v |-> 4], Ins("stop") >>,
                 w2 |-> << Ins("stop") >>]


VARIABLES scn,        \* the scenario of this behaviour (chosen initially, then constant)
          queue,      \* run queue: sequence of thread ids (front = next to run)
          th,         \* tid -> [pc, prog, st \in {"run","host","err","done"}, reg]
          chan,       \* channel -> sequence of messages [v, id]
          out,        \* what the embedder has printed so far
          inCall, k, consumed, skippedRow, mainDone,
          live,       \* payload id -> owner tid (or -1 when the queue owns it); removed when reclaimed
          nextId, bad,
          lastRet     \* [kind, consumed, k] of the most recent return from run_n_steps
vars == <<scn, queue, th, chan, out, inCall, k, consumed, skippedRow, mainDone, live, nextId, bad, lastRet>>
Prog(p) == Scenario(scn)[p]

Main == 0
Init == /\ scn \in Scns /\ queue = <<Main>>
        /\ th = (Main :> [pc |-> 1, prog |-> "main", st |-> "run", reg |-> [v |-> 0, id |-> 0]])
        /\ chan = [c \in {1, 2} |-> <<>>] /\ out = <<>>
        /\ inCall = FALSE /\ k = 0 /\ consumed = 0 /\ skippedRow = 0 /\ mainDone = FALSE
        /\ live = <<>> /\ nextId = 1 /\ bad = FALSE
        /\ lastRet = [kind |-> "none", consumed |-> 0, k |-> 0]

Pending == {t \in DOMAIN th : th[t].st = "host"}
\* the embedder calls run_n_steps(b)
RunBegin == /\ ~inCall /\ ~mainDone /\ th[Main].st # "err"
            /\ (ServiceLazily \/ Pending = {})
            /\ \E b \in Budgets : k' = b
            /\ inCall' = TRUE /\ consumed' = 0 /\ skippedRow' = 0
            /\ UNCHANGED <<scn, queue, th, chan, out, mainDone, live, nextId, bad, lastRet>>

Instr(t) == Prog(th[t].prog)[th[t].pc]
Adv(t) == [th EXCEPT ![t].pc = @ + 1]
Without(f, S) == [x \in DOMAIN f \ S |-> f[x]]

\* thread.run_n_steps(1) for the front thread, then finish_thread_turn and drain_new_threads
Turn ==
  /\ inCall /\ ~mainDone /\ consumed < k /\ queue # <<>> /\ skippedRow < Len(queue)
  /\ LET t == Head(queue) i == Instr(t) IN
     /\ th[t].st = "run"
     /\ consumed' = consumed + 1 /\ skippedRow' = 0
     /\ CASE i.op \in {"chan", "nop"} -> /\ th' = Adv(t) /\ UNCHANGED <<chan, out, live, nextId, bad>>
          [] i.op = "spawn" ->
               LET n == Cardinality(DOMAIN th) IN
               /\ th' = Adv(t) @@ (n :> [pc |-> 1, prog |-> i.p, st |-> "run", reg |-> [v |-> 0, id |-> 0]])
               /\ UNCHANGED <<chan, out, live, nextId, bad>>
          [] i.op \in {"write", "fwd"} ->     \* a heap payload is allocated in the writer's heap and sent
               LET v == IF i.op = "write" THEN i.v ELSE th[t].reg.v + 100
                   owner == IF PayloadOwner = "queue" THEN -1 ELSE t IN
               /\ chan' = [chan EXCEPT ![i.c] = Append(@, [v |-> v, id |-> nextId])]
               /\ live' = live @@ (nextId :> owner) /\ nextId' = nextId + 1
               /\ th' = Adv(t) /\ UNCHANGED <<out, bad>>
          [] i.op = "read" ->
               IF chan[i.c] = <<>> THEN UNCHANGED <<th, chan, out, live, nextId, bad>>     \* retry: a consumed step
               ELSE LET m == Head(chan[i.c]) IN
                    /\ bad' = (bad \/ m.id \notin DOMAIN live)            \* the payload was reclaimed already
                    /\ chan' = [chan EXCEPT ![i.c] = Tail(@)]
                    /\ th' = [Adv(t) EXCEPT ![t].reg = m]
                    /\ live' = IF m.id \in DOMAIN live /\ live[m.id] = -1 THEN Without(live, {m.id}) ELSE live
                    /\ UNCHANGED <<out, nextId>>
          [] i.op \in {"print", "printreg"} ->     \* HostFunc: the thread is pending until serviced
               /\ out' = Append(out, IF i.op = "print" THEN i.v ELSE th[t].reg.v)
               /\ th' = [Adv(t) EXCEPT ![t].st = "host"]
               /\ UNCHANGED <<chan, live, nextId, bad>>
          [] i.op = "fail" -> /\ th' = [th EXCEPT ![t].st = "err"] /\ UNCHANGED <<chan, out, live, nextId, bad>>
          [] i.op = "stop" ->
               /\ th' = [th EXCEPT ![t].st = "done"]
               \* a finished non-main thread is dropped and its heap freed
               /\ live' = IF t = Main THEN live ELSE Without(live, {x \in DOMAIN live : live[x] = t})
               /\ UNCHANGED <<chan, out, nextId, bad>>
     /\ LET done == (i.op = "stop") IN
        /\ mainDone' = (done /\ t = Main)
        /\ queue' = (IF done THEN Tail(queue) ELSE Append(Tail(queue), t))
                     \o (IF i.op = "spawn" THEN <<Cardinality(DOMAIN th)>> ELSE <<>>)
  /\ UNCHANGED <<scn, inCall, k, lastRet>>

\* a thread that cannot run (pending host call, error) is skipped
Skip == /\ inCall /\ ~mainDone /\ consumed < k /\ queue # <<>> /\ skippedRow < Len(queue)
        /\ th[Head(queue)].st # "run"
        /\ queue' = Append(Tail(queue), Head(queue)) /\ skippedRow' = skippedRow + 1
        /\ UNCHANGED <<scn, th, chan, out, inCall, k, consumed, mainDone, live, nextId, bad, lastRet>>

\* update_status_helper
Kind == IF mainDone THEN "Done"
        ELSE IF th[Main].st = "host" THEN "PendingHostFunc"
        ELSE IF th[Main].st = "err" THEN "MainThreadError"
        ELSE IF \E t \in Pending : \E j \in DOMAIN queue : queue[j] = t THEN "PendingHostFunc"
        ELSE "OutOfSteps"
RunEnd == /\ inCall /\ (mainDone \/ consumed = k \/ queue = <<>> \/ skippedRow >= Len(queue))
          /\ inCall' = FALSE
          /\ lastRet' = [kind |-> Kind, consumed |-> consumed, k |-> k]
          /\ UNCHANGED <<scn, queue, th, chan, out, k, consumed, skippedRow, mainDone, live, nextId, bad>>

\* the embedder services every pending host call (iter_threads_mut) between two calls
Service == /\ ~inCall /\ Pending # {}
           /\ th' = [t \in DOMAIN th |-> IF th[t].st = "host" THEN [th[t] EXCEPT !.st = "run"] ELSE th[t]]
           /\ UNCHANGED <<scn, queue, chan, out, inCall, k, consumed, skippedRow, mainDone, live, nextId, bad, lastRet>>

Next == RunBegin \/ Turn \/ Skip \/ RunEnd \/ Service
Spec == Init /\ [][Next]_vars

\* ------------------------------------------------------------------ properties
\* C11
StepAccounting == consumed <= k /\ lastRet.consumed <= lastRet.k
DoneTruthful == (~inCall /\ lastRet.kind = "Done") <=> (~inCall /\ mainDone)
ErrorTruthful == (~inCall /\ lastRet.kind = "MainThreadError") => th[Main].st = "err" /\ ~mainDone
\* a call that returns while the main program is in the error state reports exactly that (never a pending host call of
\* another task, never OutOfSteps); "none" = no call has returned yet
ErrorReported == (~inCall /\ th[Main].st = "err" /\ lastRet.kind # "none") => lastRet.kind = "MainThreadError"
\* C09
NoUseAfterFree == ~bad
Fifo == \A c \in DOMAIN chan : \A i, j \in DOMAIN chan[c] : i < j => chan[c][i].id < chan[c][j].id
\* C10: what has been printed when the main program is done does not depend on budgets / servicing
ExpectedOf(s) == CASE s = 1 -> <<0, 10>> [] s = 2 -> <<101, 102>> [] s = 3 -> <<10, 20>> [] s = 4 -> <<7>>
                   [] s = 5 -> <<1>> [] s = 6 -> <<5, 6>> [] s = 7 -> <<1, 2, 3, 4>>
Expected == ExpectedOf(scn)
IsPrefix(s, t) == Len(s) <= Len(t) /\ \A i \in 1..Len(s) : s[i] = t[i]
Confluence == IsPrefix(out, Expected) /\ (mainDone => out = Expected)
=============================================================================
