SPECIFICATION Spec
INVARIANT Verdict
CHECK_DEADLOCK FALSE
