CONSTANTS NObj = 3 MaxStack = 2 MaxFields = 1 RescanRoots = TRUE WithStrOps = FALSE RescanScope = "all"
SPECIFICATION FairSpec
PROPERTY Reclaims
CHECK_DEADLOCK FALSE
