CONSTANTS NObj = 3 MaxStack = 3 MaxFields = 2 RescanRoots = TRUE WithStrOps = TRUE
SPECIFICATION Spec
INVARIANTS Safe HeapListOK IdleOK SweepOK GrayOK TypeOK
CHECK_DEADLOCK FALSE
