------------------------------- MODULE AbraGC -------------------------------
(***************************************************************************)
(* The incremental tri-colour mark/sweep collector of one Abra green       *)
(* thread (abra_core/src/vm.rs: maybe_gc, start_mark_phase, process_gray,  *)
(* write_barrier, sweep, the object constructors) together with the        *)
(* mutator instructions that touch the heap.  One action per critical      *)
(* section of the code.  Mutator and collector steps interleave            *)
(* arbitrarily, which is a superset of every pacing (cycle start points,   *)
(* byte budgets of mark and sweep increments) the code can produce.        *)
(*                                                                         *)
(* RescanRoots = FALSE is the collector as written in the pinned tree:     *)
(* roots are scanned once, at the start of the cycle.  RescanRoots = TRUE  *)
(* is the repair: when the grey stack drains, the roots are marked again   *)
(* and sweeping starts only if that finds nothing new.                     *)
(*                                                                         *)
(* Call frames: the slots 1..base of the stack belong to suspended callers *)
(* (Call / Return move `base`; the running function only pops, loads and   *)
(* stores above it, but every slot is a root).  RescanScope = "all" is the *)
(* code: the rescan walks the whole value stack.  RescanScope = "frame"    *)
(* is a tempting optimisation (rescan only the running frame) that TLC     *)
(* refutes: a caller that received a white value from the heap before the  *)
(* call keeps it in a slot the rescan no longer visits.                    *)
(***************************************************************************)
EXTENDS Naturals, Sequences, FiniteSets, TLC
CONSTANTS NObj, MaxStack, MaxFields, RescanRoots, WithStrOps, RescanScope

Obj == 1..NObj
VARIABLES alive,    \* objects currently allocated
          freed,    \* objects that were reclaimed
          flds,     \* Obj -> sequence of objects it points to (fields, array elements, queued channel values)
          stack,    \* the operand stack + locals (only the pointer slots matter)
          strop,    \* parked operands of a resumable string instruction (string_operand1/2): also roots
          visited,  \* mark bit (gc_visited is constantly TRUE in the code)
          gray,     \* the grey stack
          gc,       \* "Idle" | "Marking" | "Sweeping"
          idx,      \* sweep position in heap (1-based)
          heap,     \* heap_list: order matters because sweep uses swap_remove
          base,     \* number of stack slots that belong to suspended callers (stack_base)
          bases     \* the saved bases of the suspended callers (call_stack)
vars == <<alive, freed, flds, stack, strop, visited, gray, gc, idx, heap, base, bases>>

Init == /\ alive = {} /\ freed = {} /\ flds = [o \in Obj |-> <<>>] /\ stack = <<>> /\ strop = <<>>
        /\ visited = [o \in Obj |-> FALSE] /\ gray = <<>> /\ gc = "Idle" /\ idx = 1 /\ heap = <<>>
        /\ base = 0 /\ bases = <<>>

Fresh == Obj \ (alive \cup freed)
MaxFrames == 1          \* one suspended caller is enough to separate the two rescan scopes
Rng(s) == {s[i] : i \in DOMAIN s}
Front(s) == SubSeq(s, 1, Len(s) - 1)
Last(s) == s[Len(s)]

\* ------------------------------------------------------------------ mutator
\* ConstructStruct/Array/Variant, MakeClosure, String*: pops n operands into a new object.
\* Colour: white when Idle, black otherwise; additionally pushed grey while Marking.
Alloc(n) == /\ Fresh # {} /\ n <= Len(stack) - base /\ n <= MaxFields
            /\ LET o == CHOOSE x \in Fresh : \A y \in Fresh : x <= y
                   kids == SubSeq(stack, Len(stack) - n + 1, Len(stack))
               IN /\ alive' = alive \cup {o}
                  /\ flds' = [flds EXCEPT ![o] = kids]
                  /\ stack' = Append(SubSeq(stack, 1, Len(stack) - n), o)
                  /\ visited' = [visited EXCEPT ![o] = (gc # "Idle")]
                  /\ gray' = IF gc = "Marking" THEN Append(gray, o) ELSE gray
                  /\ heap' = Append(heap, o)
            /\ Len(stack) - n < MaxStack
            /\ UNCHANGED <<freed, strop, gc, idx, base, bases>>
\* LoadOffset / Duplicate
Dup(i) == /\ i \in DOMAIN stack /\ Len(stack) < MaxStack
          /\ stack' = Append(stack, stack[i])
          /\ UNCHANGED <<alive, freed, flds, strop, visited, gray, gc, idx, heap, base, bases>>
\* Pop / StoreOffset over a pointer slot / Return dropping locals
Pop == /\ Len(stack) > base /\ stack' = Front(stack)
       /\ UNCHANGED <<alive, freed, flds, strop, visited, gray, gc, idx, heap, base, bases>>
\* GetField / GetIndex / DeconstructVariant (no read barrier in the code)
GetField(i) == /\ Len(stack) > base
               /\ LET o == Last(stack) IN /\ i \in DOMAIN flds[o]
                                          /\ stack' = Append(Front(stack), flds[o][i])
               /\ UNCHANGED <<alive, freed, flds, strop, visited, gray, gc, idx, heap, base, bases>>
\* the Dijkstra insertion barrier of write_barrier()
Barrier(parent, child) ==
   IF gc = "Marking" /\ visited[parent] /\ ~visited[child]
   THEN /\ visited' = [visited EXCEPT ![child] = TRUE] /\ gray' = Append(gray, child)
   ELSE UNCHANGED <<visited, gray>>
\* SetField / SetIndex
SetField(i) == /\ Len(stack) - base >= 2
               /\ LET o == Last(stack) v == stack[Len(stack) - 1] IN
                    /\ i \in DOMAIN flds[o]
                    /\ Barrier(o, v)
                    /\ flds' = [flds EXCEPT ![o][i] = v]
                    /\ stack' = SubSeq(stack, 1, Len(stack) - 2)
               /\ UNCHANGED <<alive, freed, strop, gc, idx, heap, base, bases>>
\* ArrayPush / ChannelWrite
ArrayPush == /\ Len(stack) - base >= 2
             /\ LET v == Last(stack) o == stack[Len(stack) - 1] IN
                    /\ Len(flds[o]) < MaxFields
                    /\ Barrier(o, v)
                    /\ flds' = [flds EXCEPT ![o] = Append(@, v)]
                    /\ stack' = SubSeq(stack, 1, Len(stack) - 2)
             /\ UNCHANGED <<alive, freed, strop, gc, idx, heap, base, bases>>
\* ArrayPop: removes the edge and moves the element to the operand stack (no barrier in the code)
ArrayPop == /\ Len(stack) > base
            /\ LET o == Last(stack) IN /\ flds[o] # <<>>
                                       /\ stack' = Append(Front(stack), Last(flds[o]))
                                       /\ flds' = [flds EXCEPT ![o] = Front(@)]
            /\ UNCHANGED <<alive, freed, strop, visited, gray, gc, idx, heap, base, bases>>
\* first step of ConcatStrings / string comparison: the operands are popped and parked
ParkStrOp == /\ WithStrOps /\ strop = <<>> /\ Len(stack) > base
             /\ strop' = <<Last(stack)>> /\ stack' = Front(stack)
             /\ UNCHANGED <<alive, freed, flds, visited, gray, gc, idx, heap, base, bases>>
\* last step: the result is allocated, the parked operands are dropped (not cleared in the code, but
\* overwritten by the next string instruction; a stale operand is only an extra root, modelled as still parked)
UnparkStrOp == /\ WithStrOps /\ strop # <<>> /\ strop' = <<>>
               /\ UNCHANGED <<alive, freed, flds, stack, visited, gray, gc, idx, heap, base, bases>>
\* Call: the current depth becomes the base of the callee (its arguments stay in the caller's part and are read with Dup)
Call == /\ Len(bases) < MaxFrames /\ base < Len(stack)
        /\ bases' = Append(bases, base) /\ base' = Len(stack)
        /\ UNCHANGED <<alive, freed, flds, stack, strop, visited, gray, gc, idx, heap>>
\* Return / ReturnVoid: the callee's slots are dropped (a returned pointer is a Dup into a caller slot followed by Return)
Return == /\ bases # <<>>
          /\ stack' = SubSeq(stack, 1, base) /\ base' = Last(bases) /\ bases' = Front(bases)
          /\ UNCHANGED <<alive, freed, flds, strop, visited, gray, gc, idx, heap>>
\* StoreOffset into a slot of the caller's part (a parameter): `s = a.pop()` with s a parameter
StoreParam == /\ bases # <<>> /\ Len(stack) > base /\ base >= 1
              /\ stack' = [Front(stack) EXCEPT ![base] = Last(stack)]
              /\ UNCHANGED <<alive, freed, flds, strop, visited, gray, gc, idx, heap, base, bases>>
Mutate == \/ \E n \in 0..MaxFields : Alloc(n)
          \/ \E i \in 1..MaxStack : Dup(i)
          \/ Pop
          \/ \E i \in 1..MaxFields : GetField(i) \/ SetField(i)
          \/ ArrayPush \/ ArrayPop \/ ParkStrOp \/ UnparkStrOp
          \/ Call \/ Return \/ StoreParam

\* ------------------------------------------------------------------ collector
RECURSIVE MarkAll(_, _, _)
MarkAll(s, vis, gr) == IF s = <<>> THEN <<vis, gr>>
                       ELSE LET o == s[1] IN
                            IF vis[o] THEN MarkAll(Tail(s), vis, gr)
                            ELSE MarkAll(Tail(s), [vis EXCEPT ![o] = TRUE], Append(gr, o))
Roots == stack \o strop
\* what the rescan at the end of marking looks at
RescanSeq == IF RescanScope = "all" THEN Roots ELSE SubSeq(stack, base + 1, Len(stack)) \o strop
\* start_mark_phase: every root greyed
StartMark == /\ gc = "Idle" /\ heap # <<>>
             /\ LET r == MarkAll(Roots, visited, gray) IN visited' = r[1] /\ gray' = r[2]
             /\ gc' = "Marking"
             /\ UNCHANGED <<alive, freed, flds, stack, strop, idx, heap, base, bases>>
\* process_gray, one object; when the grey stack is empty the phase ends
MarkStep == /\ gc = "Marking"
            /\ IF gray # <<>>
               THEN LET o == Last(gray)
                        r == MarkAll(flds[o], [visited EXCEPT ![o] = TRUE], Front(gray))
                    IN /\ visited' = r[1] /\ gray' = r[2] /\ UNCHANGED <<gc, idx>>
               ELSE IF RescanRoots /\ \E i \in DOMAIN RescanSeq : ~visited[RescanSeq[i]]
                    THEN LET r == MarkAll(RescanSeq, visited, gray) IN
                           /\ visited' = r[1] /\ gray' = r[2] /\ UNCHANGED <<gc, idx>>
                    ELSE /\ gc' = "Sweeping" /\ idx' = 1 /\ UNCHANGED <<visited, gray>>
            /\ UNCHANGED <<alive, freed, flds, stack, strop, heap, base, bases>>
\* sweep, one heap_list slot: free a white object (swap_remove) or whiten a survivor
SweepStep == /\ gc = "Sweeping"
             /\ IF idx > Len(heap)
                THEN /\ gc' = "Idle" /\ UNCHANGED <<alive, freed, visited, idx, heap>>
                ELSE LET o == heap[idx] IN
                     IF ~visited[o]
                     THEN /\ alive' = alive \ {o} /\ freed' = freed \cup {o}
                          /\ heap' = IF idx = Len(heap) THEN Front(heap)
                                     ELSE [Front(heap) EXCEPT ![idx] = Last(heap)]
                          /\ UNCHANGED <<visited, idx, gc>>
                     ELSE /\ visited' = [visited EXCEPT ![o] = FALSE] /\ idx' = idx + 1
                          /\ UNCHANGED <<alive, freed, heap, gc>>
             /\ UNCHANGED <<flds, stack, strop, gray, base, bases>>
Collect == StartMark \/ MarkStep \/ SweepStep
Next == Mutate \/ Collect
Spec == Init /\ [][Next]_vars
FairSpec == Spec /\ WF_vars(Collect) /\ WF_vars(StartMark)

\* ------------------------------------------------------------------ properties
RECURSIVE Reach(_, _)
Reach(front, seen) == IF front = {} THEN seen
                      ELSE LET nxt == UNION {Rng(flds[o]) : o \in front} \ seen
                           IN Reach(nxt, seen \cup nxt)
Reachable == Reach(Rng(Roots), Rng(Roots))
\* C06: no reachable object is ever reclaimed
Safe == Reachable \cap freed = {}
\* structural invariants of the collector
HeapListOK == /\ Rng(heap) = alive /\ Len(heap) = Cardinality(alive)
IdleOK == gc = "Idle" => gray = <<>> /\ \A o \in alive : ~visited[o]
SweepOK == gc = "Sweeping" => gray = <<>>
GrayOK == Rng(gray) \subseteq alive /\ \A o \in Rng(gray) : visited[o]
TypeOK == /\ alive \subseteq Obj /\ freed \subseteq Obj /\ alive \cap freed = {}
          /\ gc \in {"Idle", "Marking", "Sweeping"}
\* C07 (liveness form): an unreachable object is eventually reclaimed, provided collection keeps running
Garbage(o) == o \in alive /\ o \notin Reachable
Reclaims == \A o \in Obj : [](Garbage(o) => <>(o \notin alive))
=============================================================================
