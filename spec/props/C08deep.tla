------------------------------- MODULE C08deep -------------------------------
(***************************************************************************)
(* C08, compositional: the captured value is a mutable int array wrapped   *)
(* in a *path* of value constructors, e.g. struct field of option of array *)
(* element.  Wrappers:                                                     *)
(*    arr  [ v ]                 tup  (1, v)              rec  Rec(1, v)   *)
(*    opt  option.some(v)        box  Wr.Boxed(v)         clo  () -> v     *)
(* Every state is one (path, mutating side): the program captures the      *)
(* value in a task, the chosen side(s) push their mark onto the innermost  *)
(* array (reached through the path), and both sides print what they see.   *)
(* The copy model: each side sees only its own mark.                       *)
(* Paths of length 1..MaxDepth over the wrappers (a closure is not put     *)
(* into a declared struct / enum field: that would need a function type    *)
(* annotation).                                                            *)
(***************************************************************************)
EXTENDS Naturals, Sequences, FiniteSets, TLC, Json
CONSTANTS MaxDepth,
          Via          \* "capture": the value is captured by the task (C08); "send": it is sent to the task over a channel (C09)

Wrappers == {"arr", "tup", "rec", "opt", "box", "clo"}
Sides == {"task", "main", "both"}

RECURSIVE SeqsUpTo(_, _)
SeqsUpTo(S, n) == IF n = 0 THEN {<<>>} ELSE LET r == SeqsUpTo(S, n - 1) IN r \cup {Append(s, x) : s \in {t \in r : Len(t) = n - 1}, x \in S}
PathOK(p) == \A i \in 1..(Len(p) - 1) : ~(p[i] \in {"rec", "box"} /\ p[i + 1] = "clo")
Paths == {p \in SeqsUpTo(Wrappers, MaxDepth) : p # <<>> /\ PathOK(p)}

RECURSIVE JoinL(_)
JoinL(ls) == IF ls = <<>> THEN "" ELSE ls[1] \o "\n" \o JoinL(Tail(ls))
Letter(w) == CASE w = "arr" -> "a" [] w = "tup" -> "t" [] w = "rec" -> "r" [] w = "opt" -> "o" [] w = "box" -> "b" [] w = "clo" -> "c"
RECURSIVE Code(_)
Code(p) == IF p = <<>> THEN "x" ELSE Letter(p[1]) \o Code(Tail(p))

\* the type of the value built by path p (outermost wrapper first)
RECURSIVE TypeOf(_)
TypeOf(p) == IF p = <<>> THEN "array<int>"
             ELSE LET r == Tail(p) IN
                  CASE p[1] = "arr" -> "array<" \o TypeOf(r) \o ">"
                    [] p[1] = "tup" -> "(int, " \o TypeOf(r) \o ")"
                    [] p[1] = "rec" -> "Rec_" \o Code(r)
                    [] p[1] = "opt" -> "option<" \o TypeOf(r) \o ">"
                    [] p[1] = "box" -> "Wr_" \o Code(r)
                    [] p[1] = "clo" -> "closure"          \* never written down
\* the declarations the path needs, innermost first
RECURSIVE Decls(_)
Decls(p) == IF p = <<>> THEN <<>>
            ELSE LET r == Tail(p) IN
                 Decls(r) \o (CASE p[1] = "rec" -> <<"type Rec_" \o Code(r) \o " = { n: int, items: " \o TypeOf(r) \o " }">>
                                [] p[1] = "box" -> <<"type Wr_" \o Code(r) \o " = | Boxed(" \o TypeOf(r) \o ") | Empty">>
                                [] OTHER -> <<>>)
\* hidden variables of the closures on the path (declared before the value), and the value expression
RECURSIVE Hidden(_, _), ValueE(_, _)
Hidden(p, k) == IF p = <<>> THEN <<>>
                ELSE Hidden(Tail(p), k + 1) \o (IF p[1] = "clo" THEN <<"let hid" \o ToString(k) \o " = " \o ValueE(Tail(p), k + 1)>> ELSE <<>>)
ValueE(p, k) == IF p = <<>> THEN "[1]"
                ELSE LET r == Tail(p)  e == ValueE(r, k + 1) IN
                     CASE p[1] = "arr" -> "[" \o e \o "]"
                       [] p[1] = "tup" -> "(1, " \o e \o ")"
                       [] p[1] = "rec" -> "Rec_" \o Code(r) \o "(1, " \o e \o ")"
                       [] p[1] = "opt" -> "option.some(" \o e \o ")"
                       [] p[1] = "box" -> "Wr_" \o Code(r) \o ".Boxed(" \o e \o ")"
                       [] p[1] = "clo" -> "() -> hid" \o ToString(k)

\* statements that push mark m onto the innermost array reached from expression `base` (names suffixed by tag and level)
RECURSIVE Mut(_, _, _, _, _)
Mut(p, base, m, tag, k) ==
  LET sfx == tag \o ToString(k) IN
  IF p = <<>> THEN <<base \o ".push(" \o ToString(m) \o ")">>
  ELSE LET r == Tail(p) IN
       CASE p[1] = "arr" -> Mut(r, base \o "[0]", m, tag, k + 1)
         [] p[1] = "rec" -> Mut(r, base \o ".items", m, tag, k + 1)
         [] p[1] = "clo" -> <<"let fc" \o sfx \o " = " \o base, "let rc" \o sfx \o " = fc" \o sfx \o "()">> \o Mut(r, "rc" \o sfx, m, tag, k + 1)
         [] p[1] = "tup" -> <<"let (ta" \o sfx \o ", tb" \o sfx \o ") = " \o base>> \o Mut(r, "tb" \o sfx, m, tag, k + 1)
         [] p[1] = "opt" -> <<"let xo" \o sfx \o " = " \o base, "match xo" \o sfx \o " {", ".some(in" \o sfx \o ") -> {">>
                            \o Mut(r, "in" \o sfx, m, tag, k + 1) \o <<"}", ".none -> {}", "}">>
         [] p[1] = "box" -> <<"let xb" \o sfx \o " = " \o base, "match xb" \o sfx \o " {", ".Boxed(in" \o sfx \o ") -> {">>
                            \o Mut(r, "in" \o sfx, m, tag, k + 1) \o <<"}", ".Empty -> {}", "}">>

\* a string expression that shows the innermost array reached from `base`
RECURSIVE ObsE(_, _, _, _)
ObsE(p, base, tag, k) ==
  LET sfx == tag \o ToString(k) IN
  IF p = <<>> THEN "\"\" .. " \o base
  ELSE LET r == Tail(p) IN
       CASE p[1] = "arr" -> ObsE(r, base \o "[0]", tag, k + 1)
         [] p[1] = "rec" -> ObsE(r, base \o ".items", tag, k + 1)
         [] p[1] = "clo" -> "{ let gc" \o sfx \o " = " \o base \o "\nlet hc" \o sfx \o " = gc" \o sfx \o "()\n" \o ObsE(r, "hc" \o sfx, tag, k + 1) \o " }"
         [] p[1] = "tup" -> "{ let (oa" \o sfx \o ", ob" \o sfx \o ") = " \o base \o "\n" \o ObsE(r, "ob" \o sfx, tag, k + 1) \o " }"
         [] p[1] = "opt" -> "{ let so" \o sfx \o " = " \o base \o "\nmatch so" \o sfx \o " { .some(oi" \o sfx \o ") -> " \o ObsE(r, "oi" \o sfx, tag, k + 1) \o ", .none -> \"none\" } }"
         [] p[1] = "box" -> "{ let sb" \o sfx \o " = " \o base \o "\nmatch sb" \o sfx \o " { .Boxed(oi" \o sfx \o ") -> " \o ObsE(r, "oi" \o sfx, tag, k + 1) \o ", .Empty -> \"empty\" } }"

\* ---- the copy model: the innermost array as each side sees it at the end
RECURSIVE Commas(_)
Commas(s) == IF Len(s) = 1 THEN ToString(s[1]) ELSE ToString(s[1]) \o ", " \o Commas(Tail(s))
ArrS(s) == "[ " \o Commas(s) \o " ]"
Final(who, side) == IF who = "both" \/ who = side THEN <<1, IF side = "task" THEN 3 ELSE 4>> ELSE <<1>>

Indent(ls) == [i \in 1..Len(ls) |-> "  " \o ls[i]]
\* the same experiment with the value sent over a channel: the reader's copy is independent of the writer's value
HasClo(p) == \E i \in 1..Len(p) : p[i] = "clo"
TextSend(p, who) == JoinL(
  Decls(p) \o
  <<"let go: channel<int> = channel()", "let res: channel<string> = channel()",
    "let data: channel<" \o TypeOf(p) \o "> = channel()">> \o Hidden(p, 1) \o
  <<"let x = " \o ValueE(p, 1)>> \o
  <<"task {", "  let y = data.read()", "  let g = go.read()">> \o
  (IF who \in {"task", "both"} THEN Indent(Mut(p, "y", 3, "t", 1)) ELSE <<>>) \o
  <<"  res.write(" \o ObsE(p, "y", "s", 1) \o ")", "}", "data.write(x)">> \o
  (IF who \in {"main", "both"} THEN Mut(p, "x", 4, "m", 1) ELSE <<>>) \o
  <<"go.write(1)", "let r = res.read()", "println(\"main \" .. " \o ObsE(p, "x", "n", 1) \o ")", "println(\"task \" .. r)">>)
Text(p, who) == IF Via = "send" THEN TextSend(p, who) ELSE JoinL(
  Decls(p) \o
  <<"let go: channel<int> = channel()", "let res: channel<string> = channel()">> \o Hidden(p, 1) \o
  <<"let x = " \o ValueE(p, 1)>> \o
  <<"task {", "  let g = go.read()">> \o
  (IF who \in {"task", "both"} THEN Indent(Mut(p, "x", 3, "t", 1)) ELSE <<>>) \o
  <<"  res.write(" \o ObsE(p, "x", "s", 1) \o ")", "}">> \o
  (IF who \in {"main", "both"} THEN Mut(p, "x", 4, "m", 1) ELSE <<>>) \o
  <<"go.write(1)", "let r = res.read()", "println(\"main \" .. " \o ObsE(p, "x", "n", 1) \o ")", "println(\"task \" .. r)">>)

VARIABLES path, who
Init == path \in {p \in Paths : Via = "capture" \/ ~HasClo(p)} /\ who \in Sides
Next == FALSE /\ UNCHANGED <<path, who>>
Case == [id |-> (IF Via = "send" THEN "sent_" ELSE "deep_") \o Code(path) \o "_" \o who, path |-> path, files |-> ("main.abra" :> Text(path, who)),
         expect |-> [status |-> "done",
                     out |-> "main " \o ArrS(Final(who, "main")) \o "\ntask " \o ArrS(Final(who, "task")) \o "\n"]]
Emit == PrintT(<<"CASE", ToJson(Case)>>)
=============================================================================
