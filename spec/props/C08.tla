------------------------------- MODULE C08 -------------------------------
(***************************************************************************)
(* C08: a task works on its own copies of the values it captures.          *)
(* Model: at `task { ... }` every captured value is duplicated (deeply);   *)
(* afterwards the spawner applies its mutations to the original and the    *)
(* task applies its own to the copy; each side observes only its own.      *)
(* Channels are the exception: both sides hold the same channel.           *)
(* Abstract values: ints, strings, sequences (arrays), records are all     *)
(* modelled as nested sequences of ints; a mutation is a path + an         *)
(* appended element.  One state = one (kind, who mutates) combination;     *)
(* the program makes the order of events deterministic with two channels.  *)
(***************************************************************************)
EXTENDS Naturals, Integers, Sequences, FiniteSets, TLC, Json, IOUtils

Kinds == <<"int", "string", "array", "nested", "tuple", "struct", "enum", "option", "closure", "arrayOfStruct">>
Sides == <<"task", "main", "both">>

RECURSIVE JoinL(_)
JoinL(ls) == IF ls = <<>> THEN "" ELSE ls[1] \o "\n" \o JoinL(Tail(ls))

\* ---- the copy model: state of one side = sequence of ints (the flattened observable content)
Init0(kd) == CASE kd = "int" -> <<5>> [] kd = "string" -> <<1>> [] kd = "array" -> <<1, 2>> [] kd = "nested" -> <<1, 2>>
               [] kd = "tuple" -> <<1, 2>> [] kd = "struct" -> <<1, 2>> [] kd = "enum" -> <<1>> [] kd = "option" -> <<1>>
               [] kd = "closure" -> <<1>> [] kd = "arrayOfStruct" -> <<1, 2>>
\* a side's mutation appends its mark (3 = task, 4 = main) - or, for the immutable scalar kinds, only the spawner can
\* rebind its variable (a captured variable cannot be assigned inside a task)
MutBy(kd, side, v) == IF side = "task" THEN (IF kd \in {"int", "string"} THEN v ELSE Append(v, 3))
                      ELSE Append(v, 4)
Final(kd, who, side) == IF who = "both" \/ who = side THEN MutBy(kd, side, Init0(kd)) ELSE Init0(kd)

\* ---- rendering: declaration, mutation statements, observation expression (a string) per kind
Decl(kd) == CASE kd = "int" -> <<"var x = 5">> [] kd = "string" -> <<"var x = \"s1\"">> [] kd = "array" -> <<"let x = [1, 2]">>
              [] kd = "nested" -> <<"let x = [[1], [2]]">> [] kd = "tuple" -> <<"let x = (1, [2])">>
              [] kd = "struct" -> <<"let x = Rec(1, [2])">> [] kd = "enum" -> <<"let x = Wrap.Boxed([1])">>
              [] kd = "option" -> <<"let x = option.some([1])">>
              [] kd = "closure" -> <<"let hidden = [1]", "let x = () -> hidden">>
              [] kd = "arrayOfStruct" -> <<"let x = [Rec(1, [2])]">>
Types(kd) == IF kd \in {"struct", "arrayOfStruct"} THEN <<"type Rec = { n: int, items: array<int> }">>
             ELSE IF kd = "enum" THEN <<"type Wrap = | Boxed(array<int>) | Empty">> ELSE <<>>
Mut(kd, m) == LET ms == ToString(m) IN
  CASE kd = "int" -> <<"x = x * 10 + " \o ms>> [] kd = "string" -> <<"x = x .. \"" \o ms \o "\"">>
    [] kd = "array" -> <<"x.push(" \o ms \o ")">> [] kd = "nested" -> <<"x[1].push(" \o ms \o ")">>
    [] kd = "tuple" -> <<"let (ta, tb) = x", "tb.push(" \o ms \o ")">>
    [] kd = "struct" -> <<"x.items.push(" \o ms \o ")">>
    \* (the scrutinee is a local copy of the reference: matching directly on a captured variable is C03's finding B25)
    [] kd = "enum" -> <<"let xe" \o ms \o " = x", "match xe" \o ms \o " { .Boxed(inner) -> inner.push(" \o ms \o "), .Empty -> {} }">>
    [] kd = "option" -> <<"let xo" \o ms \o " = x", "match xo" \o ms \o " { .some(inner) -> inner.push(" \o ms \o "), .none -> {} }">>
    [] kd = "closure" -> <<"x().push(" \o ms \o ")">>
    [] kd = "arrayOfStruct" -> <<"x[0].items.push(" \o ms \o ")">>
Obs(kd) == CASE kd = "int" -> "\"\" .. x" [] kd = "string" -> "x" [] kd = "array" -> "\"\" .. x" [] kd = "nested" -> "\"\" .. x"
             [] kd = "tuple" -> "\"\" .. x" [] kd = "struct" -> "x.n .. \" \" .. x.items" [] kd = "enum" -> "{ let xs = x; match xs { .Boxed(inner) -> \"\" .. inner, .Empty -> \"empty\" } }"
             [] kd = "option" -> "\"\" .. x" [] kd = "closure" -> "\"\" .. x()" [] kd = "arrayOfStruct" -> "x[0].n .. \" \" .. x[0].items"
\* the text the observation expression yields for an abstract state
RECURSIVE Commas(_)
Commas(s) == IF s = <<>> THEN "" ELSE IF Len(s) = 1 THEN ToString(s[1]) ELSE ToString(s[1]) \o ", " \o Commas(Tail(s))
ArrS(s) == IF s = <<>> THEN "[  ]" ELSE "[ " \o Commas(s) \o " ]"
RECURSIVE Digits(_)
Digits(s) == IF s = <<>> THEN "" ELSE ToString(s[1]) \o Digits(Tail(s))
ShowSt(kd, v) ==
  CASE kd = "int" -> Digits(v) [] kd = "string" -> "s" \o Digits(v) [] kd = "array" -> ArrS(v)
    [] kd = "nested" -> "[ [ 1 ], " \o ArrS(Tail(v)) \o " ]" [] kd = "tuple" -> "(1, " \o ArrS(Tail(v)) \o ")"
    [] kd = "struct" -> "1 " \o ArrS(Tail(v)) [] kd = "enum" -> ArrS(v) [] kd = "option" -> "some(" \o ArrS(v) \o ")"
    [] kd = "closure" -> ArrS(v) [] kd = "arrayOfStruct" -> "1 " \o ArrS(Tail(v))

Indent(ls) == [i \in 1..Len(ls) |-> "  " \o ls[i]]
Text(kd, who) == JoinL(
  Types(kd) \o
  <<"let go: channel<int> = channel()", "let res: channel<string> = channel()">> \o Decl(kd) \o
  <<"task {", "  let g = go.read()">> \o
  (IF who \in {"task", "both"} /\ kd \notin {"int", "string"} THEN Indent(Mut(kd, 3)) ELSE <<>>) \o
  <<"  res.write(" \o Obs(kd) \o ")", "}">> \o
  (IF who \in {"main", "both"} THEN Mut(kd, 4) ELSE <<>>) \o
  <<"go.write(1)", "let r = res.read()", "println(\"main \" .. " \o Obs(kd) \o ")", "println(\"task \" .. r)">>)

VARIABLES ki, si
Init == ki \in 1..Len(Kinds) /\ si \in 1..Len(Sides)
Next == FALSE /\ UNCHANGED <<ki, si>>
Case == LET kd == Kinds[ki] who == Sides[si] IN
  [id |-> kd \o "_" \o who, files |-> ("main.abra" :> Text(kd, who)),
   expect |-> [status |-> "done",
               out |-> "main " \o ShowSt(kd, Final(kd, who, "main")) \o "\ntask " \o ShowSt(kd, Final(kd, who, "task")) \o "\n"]]
Emit == PrintT(<<"CASE", ToJson(Case)>>)
=============================================================================
