------------------------------- MODULE C12W -------------------------------
(***************************************************************************)
(* C12, second half: "every missing pattern the compiler lists covers at   *)
(* least one unmatched value".  The driver hands over, for every match the *)
(* compiler reported as non-exhaustive, the arm list (as emitted by the    *)
(* enumeration) and the reported missing patterns as bare syntax trees     *)
(* (IOEnv.OBS, ndjson).  This module reads each tree as a pattern of the   *)
(* scrutinee type (AbraMatch!Elab) and decides AbraMatch!WitnessOK by      *)
(* brute force over Values(ty).  Verdict per witness:                      *)
(*   "ok"    covers an unmatched value                                     *)
(*   "moot"  the match is exhaustive (the report itself is the C12         *)
(*           violation, filed by the enumeration's verdict)                *)
(*   "bad"   not a pattern of the scrutinee type                           *)
(*   "empty" a pattern, but every value it covers is matched by some arm   *)
(* lenient[i]: the tree is a pattern only under the lenient reading of     *)
(* `C of _, _` (see AbraMatch!Elab); counted as evidence, not a violation. *)
(***************************************************************************)
EXTENDS MatchCases
VARIABLE done
Obs == ndJsonDeserialize(IOEnv.OBS)
Verdict(r) ==
  LET ty == TyU[r.ti].ty
      vals == Vals[r.ti]
      exh == Exhaustive(vals, r.arms)
      pat(w) == Elab(ty, w, TRUE)
      one(w) == IF exh THEN "moot" ELSE IF pat(w) = BadPat THEN "bad" ELSE IF WitnessOK(vals, r.arms, pat(w)) THEN "ok" ELSE "empty"
      vs == [i \in 1..Len(r.wits) |-> one(r.wits[i])]
      \* the same question if payloads of generic enums had one more, unlistable value (names the family only)
      okOg(w) == \E v \in UnmatchedG(ValsOg[r.ti], r.arms, SemOg) : MatchesG(v, pat(w), SemOg)
  IN [id |-> r.id, verdicts |-> vs,
      lenient |-> [i \in 1..Len(vs) |-> pat(r.wits[i]) # BadPat /\ Elab(ty, r.wits[i], FALSE) = BadPat],
      keys |-> [i \in 1..Len(vs) |->
                  CASE vs[i] = "bad" -> "C12|reported-missing-pattern-is-not-a-pattern|" \o TyU[r.ti].n \o "|" \o r.texts[i]
                    [] vs[i] = "empty" -> IF okOg(r.wits[i]) THEN "C12|generic-enum-payload|reported-missing-pattern-covers-no-unmatched-value"
                                          ELSE "C12|reported-missing-pattern-covers-no-unmatched-value|" \o TyU[r.ti].n \o "|" \o
                                               JoinS(ArmsTxt(ty, r.arms), " ; ") \o "|" \o r.texts[i]
                    [] OTHER -> ""]]
Init == done = FALSE
Next == ~done /\ done' = TRUE /\ ndJsonSerialize(IOEnv.OUT, [i \in 1..Len(Obs) |-> Verdict(Obs[i])])
=============================================================================
