------------------------------- MODULE C12W -------------------------------
(***************************************************************************)
(* C12, second half: "every missing pattern the compiler lists covers at   *)
(* least one unmatched value".  The driver hands over, for every match the *)
(* compiler reported as non-exhaustive, the arm list (as emitted by the    *)
(* enumeration) and the reported missing patterns as bare syntax trees     *)
(* (IOEnv.OBS, ndjson).  This module reads each tree as a pattern of the   *)
(* scrutinee type (AbraMatch!Elab) and decides AbraMatch!WitnessOK by      *)
(* brute force over Values(ty).  Verdict per witness:                      *)
(*   "ok"    covers an unmatched value                                     *)
(*   "moot"  the match is exhaustive (the report itself is the C12         *)
(*           violation, filed by the enumeration's verdict)                *)
(*   "bad"   not a pattern of the scrutinee type                           *)
(*   "empty" a pattern, but every value it covers is matched by some arm   *)
(***************************************************************************)
EXTENDS MatchCases
VARIABLE done
Obs == ndJsonDeserialize(IOEnv.OBS)
Verdict(r) ==
  LET ty == TyU[r.ti].ty
      vals == Vals[r.ti]
      exh == Exhaustive(vals, r.arms)
      one(w) == LET p == Elab(ty, w)
                IN IF exh THEN "moot" ELSE IF p = BadPat THEN "bad" ELSE IF WitnessOK(vals, r.arms, p) THEN "ok" ELSE "empty"
      vs == [i \in 1..Len(r.wits) |-> one(r.wits[i])]
  IN [id |-> r.id, verdicts |-> vs,
      keys |-> [i \in 1..Len(vs) |->
                  CASE vs[i] = "bad" -> "C12|reported-missing-pattern-is-not-a-pattern|" \o TyU[r.ti].n \o "|" \o r.texts[i]
                    [] vs[i] = "empty" -> "C12|reported-missing-pattern-covers-no-unmatched-value|" \o TyU[r.ti].n \o "|" \o
                                          JoinS(ArmsTxt(ty, r.arms), " ; ") \o "|" \o r.texts[i]
                    [] OTHER -> ""]]
Init == done = FALSE
Next == ~done /\ done' = TRUE /\ ndJsonSerialize(IOEnv.OUT, [i \in 1..Len(Obs) |-> Verdict(Obs[i])])
=============================================================================
