CONSTANTS MaxArity = 3 Len3 = 2 UnkLen2 = 2 UnkLen3 = 1 CallArity = 1
INIT Init
NEXT Next
INVARIANT Emit
CHECK_DEADLOCK FALSE
