CONSTANTS MaxArity = 3 Len3 = 2 Len3x = 2 Len3Kinds = {"free", "member", "struct", "variant"}
  UnkLen2 = 2 UnkLen3 = 1 CallArity = 1
  Defaults3 = {{}, {2, 3}, {1, 3}, {1, 2, 3}}
INIT Init
NEXT Next
INVARIANT Emit
CHECK_DEADLOCK FALSE
