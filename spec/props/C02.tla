----------------------------- MODULE C02 -----------------------------
(* C02: compiled programs compute what the language reference specifies.
   Each behaviour of this spec is one generated well-typed program (state = the program);
   the invariant evaluates the reference semantics on it and emits {program text, expected
   observation} for the conformance harness. Run with  tlc -simulate num=N -depth 2 -seed S. *)
EXTENDS AbraGen, Cases, TLCExt
CONSTANTS NF, NS, Fuel
VARIABLE prog
Init == prog = <<>>
Next == prog = <<>> /\ prog' = GenProg(Pick(0..NF), Pick(NS \div 2..NS))
Emit == prog # <<>> =>
   LET L == Layout(prog)
       r == Run(L.sem, Fuel)
       id == "g" \o ToString(TLCGet("stats").traces)
   IN JsonSerialize(IOEnv.OUTDIR \o "/" \o id \o ".json", RunCase(id, L, r))
=============================================================================
