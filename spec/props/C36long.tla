------------------------------ MODULE C36long ------------------------------
(***************************************************************************)
(* C36, long values: a host function is handed an array whose length is at *)
(* or above a power-of-two boundary of the counts the marshalling code     *)
(* passes around (2^16 - 1, 2^16, 2^16 + 1, 2^16 + 300, 2^17), echoes it,  *)
(* and the Abra program reports the length, probes at both ends and around *)
(* the boundary, and the sum of what came back.  The array is built by a   *)
(* loop (element i is A*i + B, or the string "e" .. i), so the text stays  *)
(* small; the expected observations are closed forms over the same         *)
(* parameters.  The array travels bare, as a tuple component, as an option *)
(* payload, or as the second of two array parameters.                      *)
(*                                                                         *)
(* The expected host log is the record                                     *)
(*    [long |-> [head, n, elem, a, b, sep, tail]]                          *)
(* standing for  head \o Join(i \in 0..n-1 : Elem(i), sep) \o tail  with   *)
(* Elem(i) = ToString(a*i+b) for elem "int" and "\"e" \o i \o "\"" for     *)
(* elem "str"; the driver expands it (a 500 kB string is outside what TLC  *)
(* strings are good for) - it does not decide anything.                    *)
(***************************************************************************)
EXTENDS Naturals, Sequences, TLC, Json, IOUtils

Lens == {65535, 65536, 65537, 65836, 131072}
Elems == {"int", "str"}
Shapes == {"bare", "tuple", "option", "second"}
A == 3
B == 7

ElemTy(e) == IF e = "int" THEN "int" ELSE "string"
ArrTy(e) == "array<" \o ElemTy(e) \o ">"
ParamTys(e, sh) == CASE sh = "bare" -> <<ArrTy(e)>>
                     [] sh = "tuple" -> <<"(int, " \o ArrTy(e) \o ")">>
                     [] sh = "option" -> <<"option<" \o ArrTy(e) \o ">">>
                     [] sh = "second" -> <<"array<int>", ArrTy(e)>>
RetTy(e, sh) == IF sh = "second" THEN "(array<int>, " \o ArrTy(e) \o ")" ELSE ParamTys(e, sh)[1]
Name(id) == "hl" \o id
Camel(id) == "Hl" \o id
Decl(id, e, sh) ==
  LET ps == ParamTys(e, sh) IN
  "#host\nfn " \o Name(id) \o "(p1: " \o ps[1] \o (IF Len(ps) = 2 THEN ", p2: " \o ps[2] ELSE "") \o ") -> " \o RetTy(e, sh) \o "\n"
\* plain data for the echo glue
Sig(id, sh) == [name |-> Name(id), nargs |-> IF sh = "second" THEN 2 ELSE 1,
                keep |-> IF sh = "second" THEN <<0, 1>> ELSE <<0>>,
                ret |-> IF sh = "tuple" THEN "spread" ELSE "args",
                n |-> IF sh = "tuple" THEN 2 ELSE 0]

ElemE(e) == IF e = "int" THEN "i * " \o ToString(A) \o " + " \o ToString(B) ELSE "\"e\" .. i"
Arg(sh) == CASE sh = "bare" -> "big" [] sh = "tuple" -> "(5, big)" [] sh = "option" -> "option.some(big)" [] sh = "second" -> "[11, 12], big"
\* statements that bind `back` to the array that came back
Unwrap(e, sh) == CASE sh = "bare" -> "let back = r\n"
                   [] sh = "tuple" -> "let (five, back) = r\nprintln(five)\n"
                   [] sh = "option" -> "let back: " \o ArrTy(e) \o " = match r { .some(x) -> x, .none -> [] }\n"
                   [] sh = "second" -> "let (small, back) = r\nprintln(small)\n"
Probe(e, k) == IF e = "int" THEN "println(back[" \o ToString(k) \o "])\n" ELSE "println(back[" \o ToString(k) \o "])\n"
Text(id, n, e, sh) ==
  "use host\n"
  \o "let marker = 424242\n"
  \o "let big: " \o ArrTy(e) \o " = []\n"
  \o "var i = 0\n"
  \o "while i < " \o ToString(n) \o " {\n  big.push(" \o ElemE(e) \o ")\n  i = i + 1\n}\n"
  \o "let marker2 = 515151\n"
  \o "let r = " \o Name(id) \o "(" \o Arg(sh) \o ")\n"
  \o Unwrap(e, sh)
  \o "println(back.len())\n"
  \o Probe(e, 0) \o Probe(e, 65534) \o Probe(e, n - 1)
  \o "var same = 0\nvar j = 0\n"
  \o "while j < back.len() and j < big.len() {\n  if back[j] == big[j] { same = same + 1 }\n  j = j + 1\n}\n"
  \o "println(same)\n"
  \o "println(big.len())\n"
  \o "println(marker)\nprintln(marker2)\n"

Show(e, k) == IF e = "int" THEN ToString(A * k + B) ELSE "e" \o ToString(k)
ExpectOut(n, e, sh) ==
  (CASE sh = "tuple" -> "5\n" [] sh = "second" -> "[ 11, 12 ]\n" [] OTHER -> "")
  \o ToString(n) \o "\n" \o Show(e, 0) \o "\n" \o Show(e, 65534) \o "\n" \o Show(e, n - 1) \o "\n"
  \o ToString(n) \o "\n" \o ToString(n) \o "\n424242\n515151\n"
ExpectHost(id, n, e, sh) ==
  [long |-> [head |-> Camel(id) \o (CASE sh = "bare" -> "([" [] sh = "tuple" -> "((5, [" [] sh = "option" -> "(Some([" [] sh = "second" -> "([11, 12], ["),
             n |-> n, elem |-> e, a |-> A, b |-> B, sep |-> ", ",
             tail |-> (CASE sh = "bare" -> "])" [] sh = "tuple" -> "]))" [] sh = "option" -> "]))" [] sh = "second" -> "])")]]

VARIABLES len, elem, shape
Init == len \in Lens /\ elem \in Elems /\ shape \in Shapes
Next == FALSE /\ UNCHANGED <<len, elem, shape>>
ShapeNo == CASE shape = "bare" -> 1 [] shape = "tuple" -> 2 [] shape = "option" -> 3 [] shape = "second" -> 4
Id == ToString(len) \o ToString(ShapeNo) \o (IF elem = "int" THEN "1" ELSE "2")      \* names are [a-z]+[0-9]*
Case == [id |-> "long_" \o Id, main |-> "long_" \o Id \o ".abra", types |-> <<>>, decl |-> Decl(Id, elem, shape), sig |-> Sig(Id, shape),
         text |-> Text(Id, len, elem, shape), arity |-> IF shape = "second" THEN 2 ELSE 1, depth |-> IF shape \in {"bare", "second"} THEN 1 ELSE 2,
         feat |-> {"array", "long-array", elem, "long:" \o shape, "len:" \o ToString(len)},
         expect |-> [status |-> "done", out |-> ExpectOut(len, elem, shape), host |-> <<ExpectHost(Id, len, elem, shape)>>]]
Emit == JsonSerialize(IOEnv.OUTDIR \o "/" \o Case.id \o ".json", Case)
=============================================================================
