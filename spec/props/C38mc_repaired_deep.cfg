CONSTANTS
  MaxAlign = 8
  Sizes = {1, 8, 24}
  Aligns = {1, 8}
  Caps = {0, 4}
  MaxAllocs = 6
  Repaired = TRUE
SPECIFICATION Spec
VIEW View
INVARIANT InvInBounds
INVARIANT InvAligned
INVARIANT InvDisjoint
INVARIANT InvOffset
CHECK_DEADLOCK FALSE
