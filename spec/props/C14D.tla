------------------------------- MODULE C14D -------------------------------
(***************************************************************************)
(* C14, `let` and `for` destructuring: every irrefutable pattern           *)
(* (names, `_`, tuples, positional / named / reordered struct patterns,    *)
(* `nil` for void components; AbraMatch!IrrPats, depth 2) over a set of    *)
(* product types is used in                                                *)
(*     fn d<g>(s: T) -> string { let <pat> = s ; "d<g>:x1:x2..." }         *)
(*     fn e<g>(a: array<T>) { for <pat> in a { println("e<g>:x1:...") } }  *)
(* and applied to up to three values of the type.  The expected output is  *)
(* AbraMatch!BindsAlt (a single sequence: no or-patterns here) shown with  *)
(* AbraMatch!Show.  States = generated files (K patterns each).            *)
(***************************************************************************)
EXTENDS MatchCases
VARIABLE b
PtIS == Tup(<<Pt, Tup(<<IntT, StrT>>)>>)
DTy == << Tup(<<Bool, Bool>>), Tup(<<Bool, Void, Bool>>), Pt, Wr, Tup(<<Tup(<<Bool, Bool>>), Bool>>), PtIS,
          Tup(<<Shape, FltT>>), Tup(<<OptB, Bool>>), Tup(<<Void, Color, Void>>) >>
DPool == [ti \in 1..Len(DTy) |-> SetToSeq(IrrPats(DTy[ti], 2, TRUE))]
DVals == [ti \in 1..Len(DTy) |-> LET s == SetToSeq(Values(DTy[ti], Prof)) IN SubSeq(s, 1, IF Len(s) < 3 THEN Len(s) ELSE 3)]
RECURSIVE DSegs(_, _)
DSegs(ti, start) == IF ti > Len(DTy) THEN <<>> ELSE <<[ti |-> ti, start |-> start, cnt |-> Len(DPool[ti])]>> \o DSegs(ti + 1, start + Len(DPool[ti]))
DS == DSegs(1, 0)
DTotal == DS[Len(DS)].start + DS[Len(DS)].cnt
DBatches == (DTotal + K - 1) \div K
DItem(g) == LET s == DS[CHOOSE i \in 1..Len(DS) : DS[i].start <= g /\ g < DS[i].start + DS[i].cnt]
            IN [g |-> g, ti |-> s.ti, p |-> DPool[s.ti][g - s.start + 1]]
Body(tag, n) == "\"" \o tag \o "\"" \o JoinS([j \in 1..n |-> " .. \":\" .. x" \o ToString(j)], "")
DFns(it) == LET ty == DTy[it.ti] r == PatTxt(ty, it.p, 0) gs == ToString(it.g) IN
  << "fn d" \o gs \o "(s: " \o TyExpr(ty) \o ") -> string {", "  let " \o r.s \o " = s", "  " \o Body("d" \o gs, r.n), "}",
     "fn e" \o gs \o "(a: array<" \o TyExpr(ty) \o ">) -> void {", "  for " \o r.s \o " in a {",
     "    println(" \o Body("e" \o gs, r.n) \o ")", "  }", "}" >>
DCalls(it) == LET ty == DTy[it.ti] vs == DVals[it.ti] gs == ToString(it.g) IN
  [j \in 1..Len(vs) |-> "println(d" \o gs \o "(" \o ValExpr(ty, vs[j]) \o "))"] \o
  << "e" \o gs \o "([" \o JoinS([j \in 1..Len(vs) |-> ValExpr(ty, vs[j])], ", ") \o "])" >>
DLine(it, tag, v) == LET ty == DTy[it.ti]
                         btys == BinderTys(ty, it.p)
                         bs == CHOOSE x \in BindsAlt(v, it.p) : TRUE
                     IN tag \o ToString(it.g) \o JoinS([j \in 1..Len(bs) |-> ":" \o Show(btys[j], bs[j])], "")
DExpect(it) == LET vs == DVals[it.ti] IN
  [j \in 1..Len(vs) |-> DLine(it, "d", vs[j])] \o [j \in 1..Len(vs) |-> DLine(it, "e", vs[j])]
DCase(bn) ==
  LET items == [j \in 1..(IF (bn + 1) * K <= DTotal THEN K ELSE DTotal - bn * K) |-> DItem(bn * K + j - 1)]
      lines == Header \o FlatS([j \in 1..Len(items) |-> DFns(items[j])]) \o FlatS([j \in 1..Len(items) |-> DCalls(items[j])])
      out == FlatS([j \in 1..Len(items) |-> DExpect(items[j])])
  IN [id |-> "d" \o ToString(bn), files |-> ("main.abra" :> (JoinS(lines, "\n") \o "\n")),
      expect |-> [status |-> "done", out |-> JoinS(out, "\n") \o "\n"],
      npats |-> Len(items), ncalls |-> Len(out),
      kinds |-> [j \in 1..Len(items) |-> PatTxt(DTy[items[j].ti], items[j].p, 0).s],
      key |-> "C14|destructuring|file" \o ToString(bn)]
Init == b = -1
Next == b + 1 < DBatches /\ b' = b + 1
Emit == b # -1 => JsonSerialize(IOEnv.OUTDIR \o "/d" \o ToString(b) \o ".json", DCase(b))
=============================================================================
