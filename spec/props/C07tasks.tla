------------------------------- MODULE C07tasks -------------------------------
(* C07 for tasks: the heap of a finished task is unreachable data.  A program that keeps spawning short-lived tasks (each
   allocates, reports over a channel and ends) keeps only a bounded number of task heaps alive at any time, so the memory it
   really uses must not grow with the number of tasks it has run - under every slicing, in particular when the embedder
   runs the whole program in one call.  Every state is one program (kind x number of tasks) with its printed result; the
   observed peaks of real allocations are judged by the Bounded law of C07gen. *)
EXTENDS Naturals, Sequences, TLC, Json, IOUtils
CONSTANTS N1, N2

Kinds == <<"seq", "burst">>
RECURSIVE JoinL(_)
JoinL(ls) == IF ls = <<>> THEN "" ELSE ls[1] \o "\n" \o JoinL(Tail(ls))
Worker == <<"  task {", "    let big = [k, k, k, k, k, k, k, k]", "    var j = 0", "    while j < 40 {", "      big.push(j)",
            "      j += 1", "    }", "    done.write(big.len())", "  }">>
\* seq: one task at a time; burst: three tasks at a time
Text(kind, n) ==
  JoinL(<<"let done: channel<int> = channel()", "var acc = 0", "var i = 0",
          "while i < " \o ToString(n) \o " {", "  i += 1", "  let k = i">>
        \o (IF kind = "seq" THEN Worker \o <<"  acc = acc + done.read()">>
            ELSE Worker \o Worker \o Worker \o <<"  acc = acc + done.read() + done.read() + done.read()">>)
        \o <<"}", "println(acc)">>)
Expected(kind, n) == ToString((IF kind = "seq" THEN 48 ELSE 144) * n) \o "\n"

VARIABLES kind, n
Init == kind \in {Kinds[i] : i \in 1..Len(Kinds)} /\ n \in {N1, N2}
Next == FALSE /\ UNCHANGED <<kind, n>>
Emit == PrintT(<<"CASE", ToJson([id |-> "tasks-" \o kind \o "_" \o ToString(n), kind |-> "tasks-" \o kind, n |-> n,
                                 files |-> ("main.abra" :> Text(kind, n)),
                                 expect |-> [compile |-> "ok", status |-> "done", out |-> Expected(kind, n)]])>>)
=============================================================================
