------------------------------- MODULE C38 -------------------------------
(* C38: arena allocation is memory-safe for values of any size and alignment.

   Generator of allocation sequences for the conformance replay. States = histories: an initial capacity
   (-1 = Arena::new(), otherwise Arena::with_capacity(cap)) and a sequence of (size, align) requests of length
   <= MaxLen over Types. Model-checking mode enumerates all of them; `-simulate` draws random long ones.
   Maximal sequences are emitted.

   The expectation is the property itself (spec/utils/Arena.tla: every returned reference aligned, inside a
   buffer, disjoint from all others, and intact until the end; no undefined behaviour) and is evaluated on the
   recorded observations by spec/props/C38val.tla. Each step carries what the model of Arena::alloc *as written*
   predicts (buffer index, start offset, whether the write leaves the buffer): `aw`. That prediction never
   changes the verdict; it names the defect family (finding key) of a deviation and lets the validation check
   that the model of the code as written describes the real code (same-buffer address differences). *)
EXTENDS Arena, TLC, TLCExt, Json, IOUtils, CSV
CONSTANTS Sizes, Aligns, Caps, MaxLen
CapChoices == Caps \cup {-1}          \* -1: Arena::new()

Types == {t \in [size : Sizes, align : Aligns] : t.size % t.align = 0}

VARIABLES cap, allocs, a        \* a: as-written arena model (base residues irrelevant for offsets: 0)
vars == <<cap, allocs, a>>

Init == /\ cap \in CapChoices
        /\ allocs = <<>>
        /\ a = InitArena(IF cap < 0 THEN 0 ELSE cap, 0)
Next == /\ Len(allocs) < MaxLen
        /\ \E t \in Types :
             /\ allocs' = Append(allocs, t)
             /\ a' = AllocAsWritten(a, t.size, t.align, 0)
             /\ UNCHANGED cap

CapName == IF cap < 0 THEN "new" ELSE "cap" \o ToString(cap)
Name[k \in 0..MaxLen] == IF k = 0 THEN CapName ELSE Name[k-1] \o "." \o ToString(allocs[k].size) \o "a" \o ToString(allocs[k].align)

\* per step: the as-written model's placement; oob = this write ends outside its buffer; oob_before = an earlier one did
AW == [k \in 1..Len(allocs) |->
         [buf |-> a.allocs[k].buf, start |-> a.allocs[k].start,
          buflen |-> a.bufs[a.allocs[k].buf].len,
          oob |-> ~AllocInBounds(a, a.allocs[k]),
          oob_before |-> \E j \in 1..(k-1) : ~AllocInBounds(a, a.allocs[j])]]

Leaf == Len(allocs) = MaxLen
Case == [id |-> Name[Len(allocs)], kind |-> "arena", cap |-> cap, allocs |-> allocs, aw |-> AW]
Emit == Leaf => CSVWrite("%1$s", <<ToJson(Case)>>, IOEnv.OUT)
=============================================================================
