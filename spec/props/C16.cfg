CONSTANTS GridSel = "quick" Mode = "grid"
INIT Init
NEXT Next
INVARIANT Emit
CHECK_DEADLOCK FALSE
