----------------------------- MODULE C28 -----------------------------
(***************************************************************************)
(* C28: values are rendered as text exactly as documented.                 *)
(* The documented rendering is Show!ShowV.  This module enumerates types   *)
(* and values of nested built-in types, emits one program per type that    *)
(* renders every value through all routes (Show!RouteStmts), and the       *)
(* expected output computed from ShowV.                                    *)
(*                                                                         *)
(* Families (state = one case = one type, so TLC's state count is the case *)
(* count):                                                                 *)
(*   F0  the five leaf types                                               *)
(*   F1  every type of depth 1: array<l>, option<l>, result<l,l'>,         *)
(*       (l,l'), (l,l',l''), (l,l',l'',l''') for all leaf types            *)
(*   F2  every chain c1(c2(l)) and F3 every chain c1(c2(c3(l))) of the     *)
(*       eight one-hole contexts Ctx (array, option, result ok side /      *)
(*       err side, tuple of 2 first/second, of 3 middle, of 4 last)        *)
(*       over all leaf types: every nesting of one constructor inside      *)
(*       another inside another.  Quick tier: a seeded 1/SampleMod of F3   *)
(*       and a seeded fifth of F1's four-tuples.                           *)
(*   R   (C28R.cfg, tlc -simulate) random types of depth <= 3, tuples      *)
(*       <= 4, arrays of width <= 3, random values.                        *)
(* Values per type: Vals(ty) - every leaf value occurs; arrays of width    *)
(* 0,1,2,3; none/some; ok/err.  Two of the string values contain text      *)
(* outside ASCII (tokens U1..U3, see below).                               *)
(***************************************************************************)
EXTENDS Show, Json, IOUtils, TLCExt

\* text outside ASCII cannot be written in a TLA+ string: U1, U2, U3 are opaque ASCII tokens which the driver replaces - in the
\* program text and in the expected output alike - by a 2-byte character, a 3-byte + 4-byte pair and a combining sequence
U1 == "~U1~"   U2 == "~U2~"   U3 == "~U3~"
Leaves == <<TInt, TBool, TNil, TStr, TFlt>>
NL == Len(Leaves)

LeafVals(t) ==
  CASE t.k = "int"  -> <<VInt(0), VInt(-7), VInt(1234567), VBig("9223372036854775807"), VBig("-9223372036854775808")>>
    [] t.k = "bool" -> <<VBool(TRUE), VBool(FALSE)>>
    [] t.k = "nil"  -> <<VNil>>
    [] t.k = "str"  -> <<VStr(""), VStr("a b"), VStr("x, (y) ]"), VStr("q\"t\\"), VStr("l1\nl2\tz"), VStr("some(1)"),
                        VStr("caf" \o U1), VStr(U2 \o " z" \o U3)>>
    [] t.k = "flt"  -> <<VFlt(0, 0), VFlt(5, 1), VFlt(-1, 3), VFlt(3, 0), VFlt(1, 12), VFlt(-12345, 0)>>

Cyc(s, j) == s[((j - 1) % Len(s)) + 1]
MaxLen(ss) == MaxOf({Len(ss[i]) : i \in 1..Len(ss)})

RECURSIVE Vals(_)
Vals(ty) ==
  CASE ty.k = "arr" -> LET vs == Vals(ty.of) IN
                       <<VArr(<<>>)>> \o [i \in 1..Len(vs) |-> VArr(<<vs[i]>>)] \o
                       <<VArr(<<Cyc(vs, 1), Cyc(vs, 2)>>), VArr(<<Cyc(vs, 3), Cyc(vs, 1), Cyc(vs, 2)>>)>>
    [] ty.k = "opt" -> LET vs == Vals(ty.of) IN <<VNone>> \o [i \in 1..Len(vs) |-> VSome(vs[i])]
    [] ty.k = "res" -> LET vs == Vals(ty.ok)  us == Vals(ty.err) IN
                       [i \in 1..Len(vs) |-> VOk(vs[i])] \o [i \in 1..Len(us) |-> VErr(us[i])]
    [] ty.k = "tup" -> LET cs == [i \in 1..Len(ty.ts) |-> Vals(ty.ts[i])] IN
                       [j \in 1..MaxLen(cs) |-> VTup([i \in 1..Len(cs) |-> Cyc(cs[i], j + i - 1)])]
    [] OTHER -> LeafVals(ty)

\* ---------------------------------------------------------------- type families
L(i) == Leaves[((i - 1) % NL) + 1]
F0 == Leaves
F1 == [i \in 1..NL |-> TArr(L(i))] \o [i \in 1..NL |-> TOpt(L(i))] \o
      [i \in 1..NL * NL |-> TRes(L((i - 1) \div NL + 1), L(i))] \o
      [i \in 1..NL * NL |-> TTup(<<L((i - 1) \div NL + 1), L(i)>>)] \o
      [i \in 1..NL * NL * NL |-> TTup(<<L((i - 1) \div (NL * NL) + 1), L((i - 1) \div NL + 1), L(i)>>)] \o
      [i \in 1..NL * NL * NL * NL |->
          TTup(<<L((i - 1) \div (NL * NL * NL) + 1), L((i - 1) \div (NL * NL) + 1), L((i - 1) \div NL + 1), L(i)>>)]

NCtx == 8
Ctx(c, t) ==
  CASE c = 1 -> TArr(t) [] c = 2 -> TOpt(t) [] c = 3 -> TRes(t, TStr) [] c = 4 -> TRes(TInt, t)
    [] c = 5 -> TTup(<<t, TInt>>) [] c = 6 -> TTup(<<TBool, t>>) [] c = 7 -> TTup(<<TStr, t, TNil>>)
    [] c = 8 -> TTup(<<TFlt, TInt, TBool, t>>)
C(i) == ((i - 1) % NCtx) + 1
F2 == [i \in 1..NCtx * NCtx * NL |-> Ctx(C((i - 1) \div (NCtx * NL) + 1), Ctx(C((i - 1) \div NL + 1), L(i)))]
F3 == [i \in 1..NCtx * NCtx * NCtx * NL |->
         Ctx(C((i - 1) \div (NCtx * NCtx * NL) + 1), Ctx(C((i - 1) \div (NCtx * NL) + 1), Ctx(C((i - 1) \div NL + 1), L(i))))]

\* ---------------------------------------------------------------- parameters from the driver
RECURSIVE ParseNat(_, _)
DigitVal(c) == CHOOSE d \in 0..9 : ToString(d) = c
ParseNat(s, acc) == IF s = "" THEN acc ELSE ParseNat(SubSeq(s, 2, Len(s)), (acc * 10 + DigitVal(SubSeq(s, 1, 1))) % 100000)
EnvOr(name, dflt) == IF name \in DOMAIN IOEnv THEN IOEnv[name] ELSE dflt
Tier == EnvOr("TIER", "quick")
Seed == ParseNat(EnvOr("SEED", "1"), 0)
SampleMod == 16
InF3(i) == Tier = "thorough" \/ (i + Seed) % SampleMod = 0
\* quick tier: all of F1 except the 625 four-tuples, of which a seeded fifth
InF1(i) == Tier = "thorough" \/ i <= Len(F1) - NL * NL * NL * NL \/ (i + Seed) % 5 = 0

\* ---------------------------------------------------------------- one case per type
RECURSIVE ConcatSeqs(_)
ConcatSeqs(ss) == IF ss = <<>> THEN <<>> ELSE ss[1] \o ConcatSeqs(Tail(ss))

ProgLines(ty, vs) ==
  ConcatSeqs([i \in 1..Len(vs) |->
     LET n == "v" \o ToString(i) IN
     <<"let " \o n \o ": " \o TypeText(ty) \o " = " \o ValText(vs[i])>> \o RouteStmts(n)])

OutFor(vs, emp) == JoinS([i \in 1..Len(vs) |-> RouteOut(ShowV(vs[i], emp))], "")

CaseOf(id, fam, ty, vs) ==
  LET anyEmpty == \E i \in 1..Len(vs) : HasEmptyArr(vs[i])
      base == [id |-> id, fam |-> fam, ty |-> TypeText(ty), ctor |-> ty.k, depth |-> TypeDepth(ty),
               nvals |-> Len(vs), nlines |-> Len(vs) * Len(RouteNames), empties |-> anyEmpty,
               key |-> "C28|" \o TypeText(ty),
               files |-> ("main.abra" :> JoinLines(ProgLines(ty, vs)))]
  IN IF anyEmpty
     THEN base @@ [expect |-> [status |-> "done",
                               out |-> [oneof |-> [e \in 1..Len(EmptySpellings) |-> OutFor(vs, EmptySpellings[e])]]]]
     ELSE base @@ [expect |-> [status |-> "done", out |-> OutFor(vs, EmptySpellings[1])]]

FamSeq(f) == CASE f = "F0" -> F0 [] f = "F1" -> F1 [] f = "F2" -> F2 [] f = "F3" -> F3
Selected == {[f |-> "F0", i |-> i] : i \in 1..Len(F0)} \cup {[f |-> "F1", i |-> i] : i \in {j \in 1..Len(F1) : InF1(j)}} \cup
            {[f |-> "F2", i |-> i] : i \in 1..Len(F2)} \cup {[f |-> "F3", i |-> i] : i \in {j \in 1..Len(F3) : InF3(j)}}

\* Initial states are NG groups and every case is the successor of its group, so that TLC's workers share the work
\* (the successors of one state are computed by one worker).
VARIABLE c
NG == 16
Init == c \in {[f |-> "grp", i |-> g] : g \in 0..NG - 1}
Next == c.f = "grp" /\ c' \in {x \in Selected : x.i % NG = c.i}
Emit == c.f \notin {"start", "grp", "rand", "randty"} =>
   LET ty == FamSeq(c.f)[c.i]
       id == c.f \o "_" \o ToString(c.i)
   IN JsonSerialize(IOEnv.OUTDIR \o "/" \o id \o ".json", CaseOf(id, c.f, ty, Vals(ty)))

\* ---------------------------------------------------------------- random family (tlc -simulate, C28R.cfg)
Pick(S) == RandomElement(S)
RECURSIVE GenType(_)
GenType(d) ==
  IF d = 0 THEN Leaves[Pick(1..NL)]
  ELSE LET k == Pick(1..7) IN
       CASE k = 1 -> TArr(GenType(d - 1))
         [] k = 2 -> TOpt(GenType(d - 1))
         [] k = 3 -> TRes(GenType(d - 1), GenType(Pick(0..d - 1)))
         [] k = 4 -> TTup(<<GenType(Pick(0..d - 1)), GenType(d - 1)>>)
         [] k = 5 -> TTup(<<GenType(d - 1), GenType(Pick(0..d - 1)), GenType(0)>>)
         [] k = 6 -> TTup(<<GenType(0), GenType(Pick(0..d - 1)), GenType(d - 1), GenType(0)>>)
         [] k = 7 -> GenType(d - 1)
RECURSIVE GenVal(_)
GenVal(ty) ==
  CASE ty.k = "arr" -> VArr([i \in 1..Pick(0..3) |-> GenVal(ty.of)])
    [] ty.k = "opt" -> IF Pick(1..3) = 1 THEN VNone ELSE VSome(GenVal(ty.of))
    [] ty.k = "res" -> IF Pick(1..2) = 1 THEN VOk(GenVal(ty.ok)) ELSE VErr(GenVal(ty.err))
    [] ty.k = "tup" -> VTup([i \in 1..Len(ty.ts) |-> GenVal(ty.ts[i])])
    [] ty.k = "int" -> IF Pick(1..2) = 1 THEN VInt(Pick(-1000..1000)) ELSE Cyc(LeafVals(ty), Pick(1..5))
    [] ty.k = "flt" -> IF Pick(1..2) = 1 THEN VFlt(Pick(-4000..4000), Pick(0..8)) ELSE Cyc(LeafVals(ty), Pick(1..6))
    [] OTHER -> LET vs == LeafVals(ty) IN vs[Pick(1..Len(vs))]
NRandVals == 5
InitR == c = [f |-> "start", i |-> 0]
\* two steps, so that the type is a state value when the values are drawn (a LET-bound RandomElement expression
\* would be re-evaluated at every use)
NextR == \/ c.f = "start" /\ c' = [f |-> "randty", i |-> 0, ty |-> GenType(Pick(1..3))]
         \/ c.f = "randty" /\ c' = [f |-> "rand", i |-> 0, ty |-> c.ty, vs |-> [j \in 1..NRandVals |-> GenVal(c.ty)]]
EmitR == c.f = "rand" =>
   LET id == "R_" \o ToString(TLCGet("stats").traces)
   IN JsonSerialize(IOEnv.OUTDIR \o "/" \o id \o ".json", CaseOf(id, "R", c.ty, c.vs))
=============================================================================
