------------------------------- MODULE C15 -------------------------------
(***************************************************************************)
(* C15: integer arithmetic is exact or fails with the documented error.    *)
(*                                                                         *)
(* Correctness is *defined* by spec/lib/I64.tla (exact integers; BinOp,    *)
(* NegOp, CmpOp give value | overflow | divzero | unspecified).  This      *)
(* module enumerates operand pairs                                         *)
(*   - Mode = "grid":   every pair (G[i], G[j]) of the boundary grid G     *)
(*                      (model checking mode; one state per pair),         *)
(*   - Mode = "random": one random pair per behaviour (tlc -simulate       *)
(*                      -seed S): uniform 64-bit values of random bit      *)
(*                      length and pairs placed right at the overflow      *)
(*                      boundary of * + -,                                 *)
(* crosses every pair with every operator and every operand form and emits *)
(* one JSON record per pair: the statements of each operation (to be       *)
(* placed after Header in main.abra), and the expected observation.        *)
(*                                                                         *)
(* Operand forms:  LL  lit op lit      LV  lit op var     VL  var op lit   *)
(*                 VV  var op var      CL  x op= lit      CV  x op= var    *)
(*                 FN  operands are function parameters                    *)
(*                 UL / UV  unary minus of a literal / a variable          *)
(* Results are observed exactly through  #host fn report(n: int).          *)
(***************************************************************************)
EXTENDS I64, Json, IOUtils, TLCExt
CONSTANTS GridSel,      \* "quick" | "full"
          Mode          \* "grid" | "random"
VARIABLES lvl, gi, gj, rp

\* ------------------------------------------------------------------ the boundary grid
P2(k, d) == Add(Pow2(k), Big(d))
N2(k, d) == Add(Neg(Pow2(k)), Big(d))
Sqrt63Lo == Mk(FALSE, <<499, 3700, 30>>)        \* 3037000499 = floor(sqrt(2^63-1))
Sqrt63Hi == Mk(FALSE, <<500, 3700, 30>>)        \* 3037000500: square overflows

GFull == << Big(0), Big(1), Big(-1), Big(2), Big(-2), Big(3), Big(-3), Big(7), Big(-7), Big(63), Big(64),
            P2(21, 0), N2(21, 0),                                        \* cube root of 2^63
            P2(31, -1), P2(31, 0), P2(31, 1), N2(31, 0),
            P2(32, -1), P2(32, 0), P2(32, 2), N2(32, 0), P2(32, 63),
            Sqrt63Lo, Sqrt63Hi, Neg(Sqrt63Hi),
            P2(62, -1), P2(62, 0), N2(62, 0),
            MaxI64, Sub(MaxI64, Big(1)), MinI64, Add(MinI64, Big(1)) >>
GQuick == << Big(0), Big(1), Big(-1), Big(2), Big(-2), Big(3), Big(-7), Big(64),
             P2(31, 0), P2(32, 2), Sqrt63Hi, MaxI64, MinI64 >>
\* the grid is computed once (when the assumptions are checked) and kept in TLC register 65: TLC would otherwise
\* re-evaluate it at every use because it is built with RECURSIVE operators
GReg == 65
ASSUME TLCSet(GReg, IF GridSel = "full" THEN GFull ELSE GQuick)
G == TLCGet(GReg)
NG == Len(G)

\* ------------------------------------------------------------------ concrete syntax
Header == "#host\nfn report(n: int) -> void\n#host\nfn reportb(x: bool) -> void\n"
HostFns == << [name |-> "report", args |-> <<"int">>, ret |-> "void"],
              [name |-> "reportb", args |-> <<"bool">>, ret |-> "void"] >>

Lit(x) == ToDec(x)
\* a negative literal as the *left* operand is parenthesised: `-2 ^ 2` would be a precedence question (C31), not arithmetic
LitL(x) == IF x.neg THEN "(" \o ToDec(x) \o ")" ELSE ToDec(x)

ArithOps == <<"+", "-", "*", "/", "%", "^">>
CmpOps == <<"<", "<=", ">", ">=", "==", "!=">>
ArithForms(op) == IF op = "^" THEN <<"LL", "LV", "VL", "VV", "FN">> ELSE <<"LL", "LV", "VL", "VV", "CL", "CV", "FN">>
CmpForms == <<"LL", "LV", "VL", "VV", "FN">>

\* statements of one binary operation on the literal spellings sa / sla (= sa as a left operand) / sb;
\* s = unique suffix for the names it declares; rep = report function; rty = result type
BinStmts(op, form, sa, sla, sb, s, rep, rty) ==
  LET va == "a" \o s  vb == "b" \o s  vx == "x" \o s  vf == "f" \o s
      leta == "let " \o va \o " = " \o sa \o "\n"
      letb == "let " \o vb \o " = " \o sb \o "\n"
      R(e) == rep \o "(" \o e \o ")\n"
      E(l, r) == l \o " " \o op \o " " \o r
  IN CASE form = "LL" -> R(E(sla, sb))
       [] form = "LV" -> letb \o R(E(sla, vb))
       [] form = "VL" -> leta \o R(E(va, sb))
       [] form = "VV" -> leta \o letb \o R(E(va, vb))
       [] form = "CL" -> "var " \o vx \o " = " \o sa \o "\n" \o vx \o " " \o op \o "= " \o sb \o "\n" \o R(vx)
       [] form = "CV" -> "var " \o vx \o " = " \o sa \o "\n" \o letb \o vx \o " " \o op \o "= " \o vb \o "\n" \o R(vx)
       [] form = "FN" -> "fn " \o vf \o "(p: int, q: int) -> " \o rty \o " {\n    " \o E("p", "q") \o "\n}\n"
                         \o R(vf \o "(" \o sa \o ", " \o sb \o ")")
NegStmts(form, sa, s) ==
  IF form = "UL" THEN "report(-(" \o sa \o "))\n"
  ELSE "let a" \o s \o " = " \o sa \o "\nreport(-a" \o s \o ")\n"

\* ------------------------------------------------------------------ defect-family keys (by *input class* only)
Two32 == [neg |-> FALSE, mag |-> <<7296, 9496, 42>>]                   \* 2^32 = 4294967296
ASSUME Two32 = Pow2(32)
KeyOf(op, a, b) ==
  IF op = "^" /\ ~b.neg /\ Cmp(b, Two32) >= 0 THEN "C15|^|exp>=2^32"
  ELSE IF op = "/" /\ a = MinI64 /\ b = Big(-1) THEN "C15|/|MIN/-1"
  ELSE IF op = "%" /\ a = MinI64 /\ b = Big(-1) THEN "C15|%|MIN%-1"
  ELSE ""

\* ------------------------------------------------------------------ one operation -> record
OpName(op) == CASE op = "+" -> "add" [] op = "-" -> "sub" [] op = "*" -> "mul" [] op = "/" -> "div" [] op = "%" -> "mod"
                [] op = "^" -> "pow" [] op = "<" -> "lt" [] op = "<=" -> "le" [] op = ">" -> "gt" [] op = ">=" -> "ge"
                [] op = "==" -> "eq" [] op = "!=" -> "ne"
OutKind(r) == IF r.k = "val" THEN "val" ELSE r.e
\* expected host-call log entry (the harness logs {f, args, tid}; ints travel as decimal strings; tid 0 = main task)
HostCall(f, arg) == [f |-> f, args |-> <<arg>>, tid |-> 0]
ExpectOf(r) == IF r.k = "val" THEN [status |-> "done", host |-> <<HostCall("report", ToDec(r.v))>>]
               ELSE [status |-> "error", host |-> <<>>, errkind |-> r.e]

RECURSIVE Flatten(_)
Flatten(ss) == IF ss = <<>> THEN <<>> ELSE Head(ss) \o Flatten(Tail(ss))

\* L = [a, b, sa, sla, sb]: the operands and their literal spellings (computed once per pair)
ArithRecs(pid, L) ==
  Flatten([n \in 1..Len(ArithOps) |->
     LET op == ArithOps[n]
         r == BinOp(op, L.a, L.b)
         key == KeyOf(op, L.a, L.b)
         forms == ArithForms(op)
         exp == ExpectOf(r)
         cat == op \o "|" \o OutKind(r)
         base == pid \o "." \o OpName(op) \o "."
         sfx == "_" \o pid \o "_" \o ToString(n) \o "_"
     IN IF r.k = "unspec" THEN <<>> ELSE
        [f \in 1..Len(forms) |->
          [id |-> base \o forms[f], op |-> op, form |-> forms[f],
           stmts |-> BinStmts(op, forms[f], L.sa, L.sla, L.sb, sfx \o ToString(f), "report", "int"),
           expect |-> exp, cat |-> cat, key |-> key,
           \* an operation that must stop the program, or that belongs to a suspected defect family, gets a program of its own
           solo |-> (r.k # "val" \/ key # "")]]])
CmpRecs(pid, L) ==
  Flatten([n \in 1..Len(CmpOps) |->
     LET op == CmpOps[n]
         v == CmpOp(op, L.a, L.b)
         exp == [status |-> "done", host |-> <<HostCall("reportb", v)>>]
         cat == op \o "|" \o (IF v THEN "true" ELSE "false")
         base == pid \o "." \o OpName(op) \o "."
         sfx == "_" \o pid \o "_c" \o ToString(n) \o "_"
     IN [f \in 1..Len(CmpForms) |->
          [id |-> base \o CmpForms[f], op |-> op, form |-> CmpForms[f],
           stmts |-> BinStmts(op, CmpForms[f], L.sa, L.sla, L.sb, sfx \o ToString(f), "reportb", "bool"),
           expect |-> exp, cat |-> cat, key |-> "", solo |-> FALSE]]])
NegRecs(pid, L) ==
  LET r == NegOp(L.a)  exp == ExpectOf(r) IN
  [f \in 1..2 |-> LET form == <<"UL", "UV">>[f] IN
     [id |-> pid \o ".neg." \o form, op |-> "neg", form |-> form, stmts |-> NegStmts(form, L.sa, "_" \o pid \o "_n" \o ToString(f)),
      expect |-> exp, cat |-> "neg|" \o OutKind(r), key |-> "", solo |-> (r.k # "val")]]

\* self-check of the model on the operands it is used on (defining relations of / and %, ring laws)
ModelOK(a, b) == /\ RingLaw(a, b)
                 /\ (IsZero(b) \/ (DivLaw(a, b) /\ ModLaw(a, b)))
                 /\ Fits64(a) /\ Fits64(b)

PairRec(pid, a, b, withNeg) ==
  [id |-> pid, a |-> ToDec(a), b |-> ToDec(b),
   unspec |-> (IF b.neg THEN 1 ELSE 0),                  \* `^` with a negative exponent: not defined by the reference, not compared
   modelok |-> ModelOK(a, b),
   ops |-> LET L == [a |-> a, b |-> b, sa |-> ToDec(a), sla |-> LitL(a), sb |-> ToDec(b)] IN
           ArithRecs(pid, L) \o CmpRecs(pid, L) \o (IF withNeg THEN NegRecs(pid, L) ELSE <<>>)]

Meta == [id |-> "meta", header |-> Header, hostfns |-> HostFns, grid |-> [i \in 1..NG |-> ToDec(G[i])],
         anchors |-> [max |-> ToDec(MaxI64), min |-> ToDec(MinI64)]]

\* ------------------------------------------------------------------ random operands (simulation mode)
Pick(S) == RandomElement(S)
RandMag(bits) ==   \* uniform below 2^bits (bits <= 63): 5 random limbs (< 10^20) reduced modulo 2^bits
  LET raw == Mk(FALSE, [i \in 1..5 |-> Pick(0..(IB - 1))]) IN TRem(raw, Pow2(bits))
\* (the parameter only keeps TLC from caching these as constants: every use must draw afresh)
RandInt(u) == LET m == RandMag(Pick(1..63)) IN IF Pick(BOOLEAN) THEN Neg(m) ELSE m
Clamp(x, fallback) == IF Fits64(x) THEN x ELSE fallback
RandPair(u) ==
  LET kind == Pick({"u", "u", "mul", "mul", "add", "sub", "small"})
      a == RandInt(u)
      d == Big(Pick({-1, 0, 1}))
      fb == RandInt(u + 1)
  IN CASE kind = "u" -> [kind |-> kind, a |-> a, b |-> fb]
       [] kind = "mul" -> IF IsZero(a) THEN [kind |-> "u", a |-> a, b |-> fb]
                          ELSE [kind |-> kind, a |-> a, b |-> Clamp(Add(TDiv(Pick({MaxI64, MinI64}), a), d), fb)]
       [] kind = "add" -> [kind |-> kind, a |-> a, b |-> Clamp(Add(Sub(IF a.neg THEN MinI64 ELSE MaxI64, a), d), fb)]
       [] kind = "sub" -> [kind |-> kind, a |-> a, b |-> Clamp(Add(Sub(a, IF a.neg THEN MinI64 ELSE MaxI64), d), fb)]
       [] kind = "small" -> [kind |-> kind, a |-> a, b |-> Big(Pick(-3..70))]

\* ------------------------------------------------------------------ state machine = enumeration
vars == <<lvl, gi, gj, rp>>
Init == lvl = 0 /\ gi = 0 /\ gj = 0 /\ rp = <<>>
NextGrid == /\ UNCHANGED rp
            /\ \/ lvl = 0 /\ lvl' = 1 /\ gi' \in 1..NG /\ gj' = 0
               \/ lvl = 1 /\ lvl' = 2 /\ gi' = gi /\ gj' \in 1..NG
NextRandom == lvl = 0 /\ lvl' = 2 /\ rp' = RandPair(lvl) /\ UNCHANGED <<gi, gj>>
Next == IF Mode = "grid" THEN NextGrid ELSE NextRandom

OutFile(id) == IOEnv.OUTDIR \o "/" \o id \o ".json"
Emit ==
  CASE lvl = 0 -> JsonSerialize(OutFile("meta"), Meta)
    [] lvl = 1 -> TRUE
    [] lvl = 2 /\ Mode = "grid" ->
         LET pid == "g" \o ToString(gi) \o "_" \o ToString(gj) IN
         JsonSerialize(OutFile(pid), PairRec(pid, G[gi], G[gj], gj = 1) @@ [kind |-> "grid"])
    [] lvl = 2 /\ Mode = "random" ->
         LET pid == "r" \o IOEnv.SHARD \o "_" \o ToString(TLCGet("stats").traces) IN
         JsonSerialize(OutFile(pid), PairRec(pid, rp.a, rp.b, TRUE) @@ [kind |-> rp.kind])

\* anchors: the model's constants against their decimal spellings in the language reference / Rust docs
ASSUME ToDec(MaxI64) = "9223372036854775807" /\ ToDec(MinI64) = "-9223372036854775808"
ASSUME ToDec(Sqrt63Lo) = "3037000499" /\ BinOp("*", Sqrt63Lo, Sqrt63Lo).k = "val" /\ BinOp("*", Sqrt63Hi, Sqrt63Hi).k = "err"
ASSUME BinOp("/", Big(-7), Big(2)) = Val(Big(-3)) /\ BinOp("%", Big(-7), Big(2)) = Val(Big(1))
       /\ BinOp("/", Big(13), Big(3)) = Val(Big(4)) /\ BinOp("%", Big(13), Big(5)) = Val(Big(3))     \* builtin_types.md
       /\ BinOp("^", Big(2), Big(8)) = Val(Big(256))                                                   \* operators.md
       /\ BinOp("%", Big(7), Big(-2)) = Val(Big(1)) /\ BinOp("/", Big(7), Big(-2)) = Val(Big(-3))
=============================================================================
