------------------------------- MODULE C37 -------------------------------
(* C37: the interning set is a sound, order-preserving id map; every sequence of its safe operations,
   including cloning and then dropping or clearing the original, is free of undefined behaviour.

   Model-checking mode, states = histories: TLC enumerates every history of mutating operations
   (insert incl. duplicates, clear, clone, drop, consume (into_iter), optionally move) of length <= MaxLen
   over the values Vals in NSlots instance slots. After every step the whole read-only API is projected
   (len, is_empty, iter, &set into_iter, try_get_id / contains / get_id for every probe value, Index and
   IndexMut for every id and one past the end), so the lookups of the property's quantifier happen after
   every prefix of every history. Maximal histories are emitted with the projection the reference model
   spec/utils/IdSet.tla demands after each step; expected status is always "done" (no undefined behaviour).

   Each step also carries `risk` / `key`: what the pointer-level model of the code as written
   (spec/utils/IdSetImpl.tla, DeepClone = FALSE) says about the raw pointers that step's projection
   dereferences ("" = all inside the instance's own live buffers). It never changes the expectation; it
   only names the defect family (finding key) when the implementation deviates at that step. *)
EXTENDS IdSet, TLC, TLCExt, Json, IOUtils, CSV
CONSTANTS NV, NSlots, MaxLen, WithMove,
          Regrow,      \* TRUE: only histories `inserts ; clear ; inserts` in slot 0 (a cleared set grows past the capacity it kept)
          CloneDeep    \* TRUE: only histories `inserts into slot 0 ; clone 0 -> 1 ; at most two more operations` (deeper sets before the clone)
Vals  == SubSeq(<<"a", "b", "c", "d">>, 1, NV)   \* the values that get inserted
Probe == Vals \o <<"z">>                         \* the values that are looked up ("z" is never inserted)
Impl == INSTANCE IdSetImpl WITH DeepClone <- FALSE

VARIABLES hist,     \* sequence of operations
          slots,    \* reference model state
          impl,     \* pointer-level state of the code as written
          exp       \* expected observation of every step so far
vars == <<hist, slots, impl, exp>>

SlotIds == 0..NSlots-1
Ops ==    {[op |-> "insert", s |-> s, v |-> Vals[i]] : s \in SlotIds, i \in 1..Len(Vals)}
     \cup {[op |-> o, s |-> s] : o \in {"clear", "drop", "consume"}, s \in SlotIds}
     \cup {x \in {[op |-> o, s |-> s, d |-> d] : o \in (IF WithMove THEN {"clone", "move"} ELSE {"clone"}),
                                                 s \in SlotIds, d \in SlotIds} : x.s # x.d}

\* finding-key prefix of a step: the defect family the pointer-level model of the code as written predicts there
KeyOf(risk) == IF risk = "" THEN "C37|no-pointer-risk" ELSE "C37|derive-clone-shares-buffers|" \o risk

Init == /\ hist = <<>>
        /\ slots = InitSlots(NSlots)
        /\ impl = Impl!InitImpl(NSlots)
        /\ exp = <<>>

\* the shape of the deep-clone histories: the original grows (also by duplicate inserts) before it is cloned once
Cloned == \E i \in 1..Len(hist) : hist[i].op = "clone"
ClonePos == CHOOSE i \in 1..Len(hist) : hist[i].op = "clone"
NClears == Cardinality({i \in 1..Len(hist) : hist[i].op = "clear"})
RegrowOK(op) == /\ op.s = 0
                /\ \/ NClears = 0 /\ op.op = "insert" /\ Len(hist) < 3
                   \/ NClears = 0 /\ op.op = "clear" /\ Len(hist) >= 2
                   \/ NClears = 1 /\ op.op = "insert"
ShapeOK(op) == IF Regrow THEN RegrowOK(op) ELSE
               \/ ~CloneDeep
               \/ (~Cloned /\ ((op.op = "insert" /\ op.s = 0 /\ Len(hist) < 4) \/ (op.op = "clone" /\ op.s = 0 /\ Len(hist) >= 2)))
               \/ (Cloned /\ Len(hist) = ClonePos /\ op.s = 0 /\ op.op \in {"drop", "clear", "consume", "insert"})
               \/ (Cloned /\ Len(hist) = ClonePos + 1 /\ op.s = 1 /\ op.op = "insert")
Next == /\ Len(hist) < MaxLen
        /\ \E op \in Ops :
             /\ ShapeOK(op)
             /\ Enabled(slots, op)
             /\ hist' = Append(hist, op)
             /\ slots' = Apply(slots, op)
             /\ impl' = Impl!ImplApply(impl, op)
             /\ exp' = Append(exp, [ret |-> Ret(slots, op),
                                    slots |-> ProjectAll(slots', Probe),
                                    risk |-> Impl!RiskName(Impl!RiskLevel(impl')),
                                    key |-> KeyOf(Impl!RiskName(Impl!RiskLevel(impl')))])

\* ------------------------------------------------------------------ case emission
OpName(op) == CASE op.op = "insert"  -> "i" \o ToString(op.s) \o op.v
                [] op.op = "clear"   -> "r" \o ToString(op.s)
                [] op.op = "drop"    -> "d" \o ToString(op.s)
                [] op.op = "consume" -> "t" \o ToString(op.s)
                [] op.op = "clone"   -> "c" \o ToString(op.s) \o ToString(op.d)
                [] op.op = "move"    -> "m" \o ToString(op.s) \o ToString(op.d)
HistName[k \in 0..MaxLen] == IF k = 0 THEN "" ELSE HistName[k-1] \o (IF k > 1 THEN "." ELSE "") \o OpName(hist[k])

Leaf == hist # <<>> /\ (IF CloneDeep THEN Cloned /\ Len(hist) = ClonePos + 2
                         ELSE Len(hist) = MaxLen \/ \A i \in 1..NSlots : ~slots[i].live)

Case == [id |-> HistName[Len(hist)], kind |-> "idset", nslots |-> NSlots, probe |-> Probe,
         ops |-> hist, expect |-> exp, expect_status |-> "done"]

Emit == Leaf => CSVWrite("%1$s", <<ToJson(Case)>>, IOEnv.OUT)

\* sanity of the reference model itself along every enumerated history
ModelLaws == WellFormed(slots)
=============================================================================
