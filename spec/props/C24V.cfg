INIT InitV
NEXT NextV
INVARIANT EmitV
CHECK_DEADLOCK FALSE
