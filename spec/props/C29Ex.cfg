CONSTANTS NF = 2 NS = 10 Fuel = 300 TapeLen = 97
INIT InitEx
NEXT NextEx
INVARIANT EmitEx
CHECK_DEADLOCK FALSE
