----------------------------- MODULE C36X -----------------------------
(***************************************************************************)
(* C36, exhaustive conformance part (model-checking mode, states = cases): *)
(* EVERY one-parameter host function  fn f(p: T) -> T  with T of depth <= 1*)
(* over int, float, bool, string, a `#host` struct (with a void field) and *)
(* two `#host` enums (no field, one field, two fields, a void field, a     *)
(* struct field, two fields one of them void), i.e.                        *)
(* the atoms, array<e>, option<e>, result<e, e'>, (e, e') with e, e' also  *)
(* void, and (a, b, c) over int, string, void - each with the three        *)
(* representative values HostAbi!ValAt.  Expected observation as in C36.   *)
(***************************************************************************)
EXTENDS HostText, Json, IOUtils, TLCExt
VARIABLES ti, vj

SaX == TStruct("Sax", <<"aa", "bb", "cc">>, <<TInt, TVoid, TStr>>)
\* two enums of three variants each (ValAt cycles through three tags)
EaX == TEnum("Eax", <<TVariant("Aa", <<>>), TVariant("Bb", <<TInt>>), TVariant("Cc", <<TStr, TFloat>>)>>)
EbX == TEnum("Ebx", <<TVariant("Dd", <<TVoid>>), TVariant("Ee", <<SaX>>), TVariant("Ff", <<TInt, TVoid>>)>>)
AtomSeq == <<TInt, TFloat, TBool, TStr, SaX, EaX, EbX>>
ElemSeq == AtomSeq \o <<TVoid>>
Small == <<TInt, TStr, TVoid>>
NE == Len(ElemSeq)
Pair(k, n, s) == <<s[((k - 1) \div n) + 1], s[((k - 1) % n) + 1]>>
Types ==
  AtomSeq
  \o [k \in 1..NE |-> TArr(ElemSeq[k])]
  \o [k \in 1..NE |-> TOpt(ElemSeq[k])]
  \o [k \in 1..(NE * NE) |-> TRes(Pair(k, NE, ElemSeq)[1], Pair(k, NE, ElemSeq)[2])]
  \o [k \in 1..(NE * NE) |-> TTup(Pair(k, NE, ElemSeq))]
  \o [k \in 1..27 |-> TTup(<<Small[((k - 1) \div 9) + 1], Small[(((k - 1) \div 3) % 3) + 1], Small[((k - 1) % 3) + 1]>>)]

Init == ti \in 1..Len(Types) /\ vj \in 0..2
Next == FALSE /\ UNCHANGED <<ti, vj>>

Emit ==
  LET n == ToString((ti - 1) * 3 + vj)
      ty == Types[ti]
      \* the first value of every type: called by name; the second: through a function value; the third: through a function
      \* value with a void parameter in front (void occupies no stack slot, the wrapper of the function value must know)
      sig == [name |-> "hx" \o n, camel |-> "Hx" \o n, args |-> IF vj = 2 THEN <<TVoid, ty>> ELSE <<ty>>, retvoid |-> FALSE,
              via |-> IF vj = 0 THEN "direct" ELSE "value"]
      c == HostCase("x" \o n, <<SaX, EaX, EbX>>, sig, IF vj = 2 THEN <<HUnit, ValAt(ty, vj)>> ELSE <<ValAt(ty, vj)>>)
  IN JsonSerialize(IOEnv.OUTDIR \o "/" \o c.id \o ".json", c)
=============================================================================
