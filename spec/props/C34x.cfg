INIT InitX
NEXT NextX
INVARIANT Emit
CHECK_DEADLOCK FALSE
