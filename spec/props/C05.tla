------------------------------- MODULE C05 -------------------------------
(***************************************************************************)
(* C05: an operation gives the same result or the same runtime error       *)
(* whether its operands are literals or variables, and whether or not the  *)
(* bytecode optimizer runs.  One state = (operator, left value, right      *)
(* value, operand form); the expected outcome is AbraSem's, which by       *)
(* construction does not depend on the form.  The driver runs every case   *)
(* with the optimizer on and off.                                          *)
(***************************************************************************)
EXTENDS AbraGen, Cases, TLCExt
CONSTANTS Part, NParts     \* the grid is split into NParts slices; this run emits slice Part (0 = everything)

IntVals == <<0, 1, 2, 3, -1, -7, 100>>
\* n / 2^e; the pair <<0, -1>> stands for negative zero (outside AbraSem's dyadic model: the forms are then only
\* compared with each other, which is what the property demands of literal and variable operands)
FltVals == << <<0, 0>>, <<1, 0>>, <<5, 1>>, <<-3, 1>>, <<4, 0>>, <<1, 2>>, <<0, -1>> >>
IntOps == <<"+", "-", "*", "/", "%", "^", "<", "<=", ">", ">=", "==", "!=">>
FltOps == <<"+", "-", "*", "/", "<", "<=", ">", ">=", "==", "!=">>
BoolOps == <<"and", "or", "==", "!=">>
Forms == <<"ll", "lv", "vl", "vv", "cl", "cv">>
IsArith(op) == op \in {"+", "-", "*", "/", "%", "^"}

LitOf(ty, x) == IF ty = "int" THEN I(x)
                ELSE IF ty = "flt" THEN (IF x[2] = -1 THEN [k |-> "neg", e |-> F(0, 0)] ELSE F(x[1], x[2]))
                ELSE Bl(x)
\* statements computing `a op b` in the given form and printing the result
Stmts(ty, op, x, y, form) ==
  LET A == LitOf(ty, x)  B == LitOf(ty, y) IN
  CASE form = "ll" -> <<PrintS(Bin(op, A, B))>>
    [] form = "lv" -> <<Let("y", B), PrintS(Bin(op, A, V("y")))>>
    [] form = "vl" -> <<Let("x", A), PrintS(Bin(op, V("x"), B))>>
    [] form = "vv" -> <<Let("x", A), Let("y", B), PrintS(Bin(op, V("x"), V("y")))>>
    [] form = "cl" -> <<Var("x", A), Assign(V("x"), op \o "=", B), PrintS(V("x"))>>
    [] form = "cv" -> <<Var("x", A), Let("y", B), Assign(V("x"), op \o "=", V("y")), PrintS(V("x"))>>
HasCompound(ty, op) == IF ty = "int" THEN op \in {"+", "-", "*", "/", "%"} ELSE IF ty = "flt" THEN op \in {"+", "-", "*", "/"} ELSE FALSE

Grid == {<<"int", oi, xi, yi, fi>> : oi \in 1..Len(IntOps), xi \in 1..Len(IntVals), yi \in 1..Len(IntVals), fi \in 1..Len(Forms)}
   \cup {<<"flt", oi, xi, yi, fi>> : oi \in 1..Len(FltOps), xi \in 1..Len(FltVals), yi \in 1..Len(FltVals), fi \in 1..Len(Forms)}
   \cup {<<"bool", oi, xi, yi, fi>> : oi \in 1..Len(BoolOps), xi \in 1..2, yi \in 1..2, fi \in 1..4}
OpOf(g) == IF g[1] = "int" THEN IntOps[g[2]] ELSE IF g[1] = "flt" THEN FltOps[g[2]] ELSE BoolOps[g[2]]
ValOf(g, k) == IF g[1] = "int" THEN IntVals[g[k]] ELSE IF g[1] = "flt" THEN FltVals[g[k]] ELSE (g[k] = 1)
Valid(g) == /\ (Forms[g[5]] \in {"cl", "cv"} => HasCompound(g[1], OpOf(g)))
            /\ (Part = 0 \/ (g[2] + 3 * g[3] + 7 * g[4] + 11 * g[5]) % NParts = Part - 1)

VARIABLE g
Init == g \in {x \in Grid : Valid(x)}
Next == FALSE /\ UNCHANGED g
Emit ==
  LET L == Layout(File1(<<>>, <<>>, Stmts(g[1], OpOf(g), ValOf(g, 3), ValOf(g, 4), Forms[g[5]])))
      r == Run(L.sem, 100)
      id == g[1] \o "_" \o ToString(g[2]) \o "_" \o ToString(g[3]) \o "_" \o ToString(g[4]) \o "_" \o Forms[g[5]]
  IN PrintT(<<"CASE", ToJson(RunCase(id, L, r) @@ [op |-> OpOf(g), ty |-> g[1], form |-> Forms[g[5]],
                                                     group |-> g[1] \o "_" \o ToString(g[2]) \o "_" \o ToString(g[3]) \o "_" \o ToString(g[4])])>>)
=============================================================================
