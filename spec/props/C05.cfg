CONSTANTS NF = 0 NS = 0 Fuel = 0 Part = 1 NParts = 5
INIT Init
NEXT Next
INVARIANT Emit
CHECK_DEADLOCK FALSE
