CONSTANTS
  MaxAlign = 8
  Sizes = {0, 1, 3, 8, 24}
  Aligns = {1, 2, 4, 8}
  Caps = {0, 4, 16}
  MaxAllocs = 3
  Repaired = TRUE
SPECIFICATION Spec
VIEW View
INVARIANT InvInBounds
INVARIANT InvAligned
INVARIANT InvDisjoint
INVARIANT InvOffset
CHECK_DEADLOCK FALSE
