CONSTANTS D = 2 DS = 3 M = 25
INIT InitSim
NEXT NextSim
INVARIANT EmitSim
CHECK_DEADLOCK FALSE
