CONSTANTS
  NV = 3
  NSlots = 2
  MaxLen = 7
  WithMove = FALSE
  Regrow = FALSE
  CloneDeep = TRUE
INIT Init
NEXT Next
INVARIANT Emit
INVARIANT ModelLaws
CHECK_DEADLOCK FALSE
