CONSTANTS M = 40
INIT Init
NEXT Next
INVARIANT Emit
CHECK_DEADLOCK FALSE
