CONSTANTS LamDepth = 3 TwoVars = TRUE
INIT Init
NEXT Next
INVARIANT Emit
CHECK_DEADLOCK FALSE
