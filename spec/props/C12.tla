------------------------------- MODULE C12 -------------------------------
(* C12: see spec/front/AbraMatch.tla (meaning of patterns), MatchCases.tla (universe, generated
   programs, expected verdicts) and MatchEnum.tla (enumeration); Prop = "C12" in the cfg. *)
EXTENDS MatchEnum
=============================================================================
