CONSTANTS Prop = "C14"
INIT Init
NEXT Next
INVARIANT Emit
CHECK_DEADLOCK FALSE
