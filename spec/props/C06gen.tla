------------------------------- MODULE C06gen -------------------------------
(* Programs for the collector checks (C06, C07, C17 reuse): the stress programs of GcStress and
   NRand generated allocation-heavy programs; one state per program, expected observation from AbraSem. *)
EXTENDS GcStress, Cases, TLCExt
CONSTANTS NRand, Fuel
VARIABLES i, prog
Init == i = 0 /\ prog = <<>>
Next == /\ i < Len(Stress) + NRand
        /\ i' = i + 1
        /\ prog' = IF i + 1 <= Len(Stress) THEN Stress[i + 1] ELSE GenProg(Pick(0..2), Pick(6..10))
Emit == i > 0 =>
   LET L == Layout(prog)
       r == Run(L.sem, Fuel)
       id == IF i <= Len(Stress) THEN "S" \o ToString(i) ELSE "R" \o ToString(i - Len(Stress))
   IN JsonSerialize(IOEnv.OUTDIR \o "/" \o id \o ".json", RunCase(id, L, r))
=============================================================================
