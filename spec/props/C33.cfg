INIT InitG
NEXT NextG
INVARIANT Emit
CHECK_DEADLOCK FALSE
