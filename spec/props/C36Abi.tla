----------------------------- MODULE C36Abi -----------------------------
(***************************************************************************)
(* C36, protocol level: TLC model-checks the push/pop protocol of the host *)
(* bindings (HostAbi!ToVm / FromVm) against the layout compiled Abra code  *)
(* uses (HostAbi!Lay) for ALL types up to nesting depth MaxDepth built     *)
(* from int, string, void with array, option, result, 2- and 3-tuples, a   *)
(* user struct (two fields) and a user enum (no / one / two fields); with   *)
(* WideLast = FALSE the outermost constructor takes only int / void as its *)
(* other operand and is not a 3-tuple.                                     *)
(* Every state is one type; the invariant evaluates the laws on the three  *)
(* representative values HostAbi!ValAt of that type and on two argument    *)
(* lists containing it.                                                    *)
(*                                                                         *)
(*  Mode = "spec": Decode, Encode, RoundTrip, Balance and Call laws hold   *)
(*                 everywhere (the protocol is well defined and is the     *)
(*                 inverse of the compiler's layout).                      *)
(*  Mode = "code": the protocol as written in abra_core.  RoundTrip and    *)
(*                 Balance still hold, but Decode/Encode/Call fail         *)
(*                 EXACTLY on the values that contain a tuple with a void  *)
(*                 component or an enum variant with several fields one of *)
(*                 which is void (HostAbi!ExVoidTuple / ExVoidMultiVariant)*)
(*                 - this equivalence is the invariant, so the run both    *)
(*                 finds the defect family and proves that nothing else is *)
(*                 affected inside the bound.  The numbers of agreeing and *)
(*                 disagreeing (type, value) pairs are printed at the end. *)
(***************************************************************************)
EXTENDS HostAbi, TLCExt
CONSTANTS MaxDepth, Mode, WideLast
VARIABLES t, d

Atoms == {TInt, TStr, TVoid}
Partners == {TInt, TStr, TVoid}
StructOf(a, b) == TStruct("Sx", <<"aa", "bb">>, <<a, b>>)
EnumOf(a, b) == TEnum("Ex", <<TVariant("Aa", <<>>), TVariant("Bb", <<a>>), TVariant("Cc", <<a, b>>)>>)
Grow(x) ==
  {TArr(x), TOpt(x)} \cup
  UNION {{TRes(x, p), TRes(p, x), TTup(<<x, p>>), TTup(<<p, x>>), TTup(<<p, x, p>>),
          StructOf(x, p), StructOf(p, x), EnumOf(x, p), EnumOf(p, x)} : p \in Partners}
\* the outermost level of a deep run: partners int and void only, no 3-tuples (keeps depth 3 within minutes)
GrowNarrow(x) ==
  {TArr(x), TOpt(x)} \cup
  UNION {{TRes(x, p), TRes(p, x), TTup(<<x, p>>), TTup(<<p, x>>),
          StructOf(x, p), StructOf(p, x), EnumOf(x, p), EnumOf(p, x)} : p \in {TInt, TVoid}}

Init == t \in Atoms /\ d = 0 /\ TLCSet(1, 0) /\ TLCSet(2, 0)
Next == d < MaxDepth /\ t' \in (IF WideLast \/ d + 1 < MaxDepth THEN Grow(t) ELSE GrowNarrow(t)) /\ d' = d + 1

Defect(ty, v) == ExVoidTuple(ty, v) \/ ExVoidMultiVariant(ty, v)
ArgLists == <<<<t, TVoid, TInt>>, <<TStr, t>>>>
ArgVals(ts, j) == [q \in 1..Len(ts) |-> ValAt(ts[q], (j + q) % 3)]

Count(slot) == TLCSet(slot, TLCGet(slot) + 1)

Laws ==
  IsVoid(t) \/
  \A j \in 0..2 :
    LET v == ValAt(t, j)
        law == LawsAt(Mode, t, v)
        def == Defect(t, v)
    IN /\ law.roundtrip /\ law.balance
       /\ IF Mode = "spec" THEN law.decode /\ law.encode ELSE ((law.decode /\ law.encode) <=> ~def)
       /\ \A a \in 1..Len(ArgLists) :
            LET vs == ArgVals(ArgLists[a], j)
                bad == \E q \in 1..Len(vs) : ~IsVoid(ArgLists[a][q]) /\ Defect(ArgLists[a][q], vs[q])
            IN IF Mode = "spec" THEN CallLaw(Mode, ArgLists[a], vs)
               ELSE (CallLaw(Mode, ArgLists[a], vs) <=> ~bad)
       /\ Count(IF def THEN 2 ELSE 1)

\* for demonstration (not used by the check): the layout laws without the allowance; with Mode = "code"
\* TLC reports the first type of the defect family as a counterexample (cfg C36Abi_strict.cfg)
StrictLaws ==
  IsVoid(t) \/ \A j \in 0..2 : LET law == LawsAt(Mode, t, ValAt(t, j)) IN law.decode /\ law.encode

Post == PrintT(<<"C36ABI", Mode, "pairs_ok", TLCGet(1), "pairs_defect", TLCGet(2)>>)
=============================================================================
