------------------------------- MODULE C07gen -------------------------------
(* C07, first sentence: a program whose reachable data stays bounded runs in bounded heap memory.
   Churn programs: a loop that allocates a fresh object of some kind in every iteration and keeps only the
   most recent one (plus one long-lived object).  Each program is emitted for two loop lengths; the peak heap
   sizes observed on the real VM must satisfy Bounded (the longer run may not need more heap than the
   shorter one, up to the collector's pacing factor). *)
EXTENDS GcStress, Cases, TLCExt
CONSTANTS N1, N2, Fuel

Kinds == <<"array", "string", "tuple", "struct", "closure", "nested", "option", "growing", "worklist", "clearlist",
           \* an event loop: the `while` is the LAST statement of the program and its body discards values
           \* (`work.pop()`, a concatenation, a fresh array as expression statements)
           "tailpop", "tailstr", "tailarr">>
IsTail(kind) == kind \in {"tailpop", "tailstr", "tailarr"}
Fresh(kind) ==
  CASE kind = "array"  -> Arr(<<V("i"), V("i"), V("i")>>)
    [] kind = "string" -> Bin("..", S("item number "), V("i"))
    [] kind = "tuple"  -> Tup(<<V("i"), Bin("..", S("t"), V("i"))>>)
    [] kind = "struct" -> New("Box", <<Arr(<<V("i")>>), V("i")>>)
    [] kind = "closure" -> Lam(<<"q">>, <<"int">>, Bin("+", V("q"), V("i")))
    [] kind = "nested" -> Arr(<<Arr(<<V("i")>>), Arr(<<V("i"), V("i")>>)>>)
    [] kind = "option" -> Some(V("i"))
    [] kind = "growing" -> Arr(<<V("i")>>)
    [] kind \in {"worklist", "clearlist"} -> Tup(<<V("i"), V("i")>>)
\* worklist / clearlist: one long-lived array is filled beyond 32 slots and drained again in every round
Refill(kind) == <<Var("j", I(0)),
                  While(Bin("<", V("j"), I(40)), <<Assign(V("j"), "+=", I(1)), ExprS(MCall(V("work"), "push", <<Tup(<<V("i"), V("j")>>)>>))>>)>> \o
                (IF kind = "worklist"
                 THEN <<While(Bin(">", MCall(V("work"), "len", <<>>), I(0)), <<Let("item", MCall(V("work"), "pop", <<>>))>>)>>
                 ELSE <<ExprS(MCall(V("work"), "clear", <<>>))>>)
ChurnTail(kind, n) == File1(Types, <<>>, <<
   Let("longlived", Arr(<<I(1), I(2), I(3)>>)),
   Let("work", Arr(<<Tup(<<I(0), I(0)>>)>>)),
   Var("i", I(0)),
   Var("acc", I(0)),
   PrintS(V("longlived")),
   While(Bin("<", V("i"), I(n)), <<
      Assign(V("i"), "+=", I(1)),
      ExprS(MCall(V("work"), "push", <<Tup(<<V("i"), V("i")>>)>>)),
      ExprS(CASE kind = "tailpop" -> MCall(V("work"), "pop", <<>>)
              [] kind = "tailstr" -> Bin("..", S("item number "), V("i"))
              [] kind = "tailarr" -> Arr(<<V("i"), V("i"), V("i")>>)) >>
      \o (IF kind = "tailpop" THEN <<>> ELSE <<Let("dropped", MCall(V("work"), "pop", <<>>))>>)
      \o <<Assign(V("acc"), "=", Bin("%", Bin("+", V("acc"), V("i")), I(1000))),
           If(Bin("==", V("i"), I(n)), <<PrintS(V("acc"))>>, <<>>)>>) >>)
Churn(kind, n) == IF IsTail(kind) THEN ChurnTail(kind, n) ELSE File1(Types, <<>>, <<
   Let("longlived", Arr(<<I(1), I(2), I(3)>>)),
   Let("work", Arr(<<Tup(<<I(0), I(0)>>)>>)),
   Var("i", I(0)),
   Var("acc", I(0)),
   While(Bin("<", V("i"), I(IF kind \in {"worklist", "clearlist"} THEN n \div 10 ELSE n)), <<
      Assign(V("i"), "+=", I(1)),
      Let("fresh", Fresh(kind)) >>
      \o (IF kind = "growing" THEN <<ExprS(MCall(V("fresh"), "push", <<V("i")>>)), ExprS(MCall(V("fresh"), "push", <<V("i")>>)),
                                      Assign(V("acc"), "=", MCall(V("fresh"), "len", <<>>))>>
          ELSE IF kind \in {"worklist", "clearlist"} THEN Refill(kind) \o <<Assign(V("acc"), "=", MCall(V("work"), "len", <<>>))>>
          ELSE <<Assign(V("acc"), "=", Bin("%", Bin("+", V("acc"), V("i")), I(1000)))>>)),
   PrintS(V("acc")),
   PrintS(V("longlived")) >>)

VARIABLES k
Init == k = 0
Next == k < 2 * Len(Kinds) /\ k' = k + 1
Emit == k > 0 =>
   LET kind == Kinds[((k - 1) \div 2) + 1]
       n == IF k % 2 = 1 THEN N1 ELSE N2
       L == Layout(Churn(kind, n))
       r == Run(L.sem, Fuel)
       id == kind \o "_" \o ToString(n)
   IN JsonSerialize(IOEnv.OUTDIR \o "/" \o id \o ".json", RunCase(id, L, r) @@ [kind |-> kind, n |-> n])

\* the heap bound law, evaluated on observed peaks (records [kind, peak1, peak2] in IOEnv.OBS)
Obs == IF "OBS" \in DOMAIN IOEnv THEN ndJsonDeserialize(IOEnv.OBS) ELSE <<>>
Bounded(rec) == rec.peak2 <= 2 * rec.peak1 + 4096
Verdict == k = 2 * Len(Kinds) => PrintT(<<"VERDICT", ToJson([checked |-> Len(Obs), bad |-> [i \in {j \in 1..Len(Obs) : ~Bounded(Obs[j])} |-> Obs[i].kind]])>>)
=============================================================================
