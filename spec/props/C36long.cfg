INIT Init
NEXT Next
INVARIANT Emit
CHECK_DEADLOCK FALSE
