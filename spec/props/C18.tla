----------------------------- MODULE C18 -----------------------------
(* C18: named and default arguments behave like the positional call.
   Every state is one call site: callee kind x parameter list (arity, default subset) x label sequence
   (every sequence over {positional, each parameter name, an unknown name} up to the length cap, so all
   permutations, omissions, duplicates, unknown names and positional-after-named shapes occur).  The
   invariant classifies the call with AbraArgs!Misuse, evaluates the reference semantics on the
   well-formed ones and emits the case {program text, expected observation}. *)
EXTENDS AbraArgs, TLCExt
CONSTANTS MaxArity,      \* parameter lists of arity 0..MaxArity
          Len3,          \* cap on the number of arguments written for arity 3 (4 = arity + 1 = complete)
          Len3x,         \* the same cap for the callee kinds outside Len3Kinds
          Len3Kinds,     \* the callee kinds enumerated up to Len3 at arity 3
          UnkLen2, UnkLen3,  \* cap on the length of label sequences that contain the unknown name (arity 2, arity 3)
          Defaults3,     \* the default subsets enumerated at arity 3 (all 8 in the thorough tier)
          CallArity      \* sub-families "defaults that are calls" (free and member functions) and "defaults that are tuples, on
               \* parameters of tuple type" (functions, structs, variants): arities 1..CallArity
VARIABLE c
MaxLen(k, n) == IF n = 3 THEN (IF k \in Len3Kinds THEN Len3 ELSE Len3x) ELSE n + 1
UnkLen(n) == IF n = 3 THEN UnkLen3 ELSE IF n = 2 THEN UnkLen2 ELSE n + 1
LabelSeqs(k, n) == {l \in Seqs(Alphabet(n), MaxLen(k, n)) : (\E j \in 1..Len(l) : l[j] = Unk) => Len(l) <= UnkLen(n)}
SpaceOf(k, n, dk, Ds) == {[kind |-> k, n |-> n, D |-> D, dk |-> dk, labels |-> l] : D \in Ds, l \in LabelSeqs(k, n)}
DefaultSets(n) == IF n = 3 THEN Defaults3 ELSE SUBSET (1..n)
Space == UNION {UNION {SpaceOf(k, n, "lit", DefaultSets(n)) : n \in MinArity(k)..MaxArity} : k \in Kinds}
         \cup UNION {UNION {SpaceOf(k, n, "call", (SUBSET (1..n)) \ {{}}) : n \in 1..CallArity} : k \in {"free", "member"}}
         \cup UNION {UNION {SpaceOf(k, n, "tup", (SUBSET (1..n)) \ {{}}) : n \in 1..CallArity} : k \in {"free", "member", "struct", "variant"}}
ShardNo(s) == CHOOSE i \in 0..63 : ToString(i) = s
Code(s) == Len(s.kind) + s.n + 2 * Cardinality(s.D) + Len(s.labels) + Cardinality({k \in 1..Len(s.labels) : s.labels[k] = ""})
Init == c \in {s \in Space : Code(s) % ShardNo(IOEnv.NSHARDS) = ShardNo(IOEnv.SHARD)}
Next == FALSE /\ c' = c
Emit == PrintT(<<"CASE", ToJson(CaseOf(c.kind, c.n, c.D, c.dk, c.labels))>>)
=============================================================================
