----------------------------- MODULE C35 -----------------------------
(* C35: go-to-definition and hover agree with the compiler.
   tlc -simulate: every behaviour is one program of spec/front/Lsp.tla; the invariant emits the program text,
   the expected output (confirms the spec's resolution against the compiler itself) and, for every byte offset
   inside an identifier use / literal, the expected definition range and type string. *)
EXTENDS Lsp
VARIABLE prog
Init == prog = <<>>
Next == prog = <<>> /\ prog' = Program(Pick(3..9), IF Chance(1, 5) THEN PrefixChoices[Pick(2..Len(PrefixChoices))] ELSE <<>>)
Emit == prog # <<>> =>
   PrintT(<<"CASE", ToJson([id |-> "g" \o ToString(TLCGet("stats").traces)] @@ prog)>>)
=============================================================================
