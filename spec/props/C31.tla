----------------------------- MODULE C31 -----------------------------
(***************************************************************************)
(* C31: expressions parse according to the documented precedence table.    *)
(* Every state is one expression tree (normalised: a negative literal is   *)
(* the prefix `-` applied to a literal) together with a value assignment   *)
(* for its leaves.  The invariant prints the tree with minimal parentheses *)
(* (Prec!Toks), checks the printer against the table-driven reference      *)
(* grammar (RoundTrip, MinimalParens), evaluates the *tree* with AbraSem    *)
(* and emits {println line, expected observation}.  The program of an item *)
(* is  Header.pre[a, n] \o line ; its expectation is `expect`.             *)
(*   C31.cfg     exhaustive: all well-typed trees of depth <= D            *)
(*               (environment: C31_TY = int|bool|str|all  type of the root,*)
(*                C31_FORMS = all|uniform|uniform3|quickmix  leaf forms,   *)
(*                C31_A = assignment number, 0 = 1..C31_NA)                *)
(*   C31Sim.cfg  tlc -simulate: M random trees of depth <= DS per behaviour*)
(***************************************************************************)
EXTENDS Prec, Cases, TLCExt
CONSTANTS D, DS, M

NA == atoi(IOEnv.C31_NA)            \* number of value assignments used (1..NAssign)
ASel == atoi(IOEnv.C31_A)
TySel == IOEnv.C31_TY
FormSel == IOEnv.C31_FORMS

IsNegLit(t) == t.k = "un" /\ t.op = "-" /\ t.e.k = "leaf" /\ t.e.form = "lit"
\* depth with a negative literal counted as a leaf
RECURSIVE NDepth(_)
NDepth(t) == IF t.k = "leaf" \/ IsNegLit(t) THEN 0
             ELSE IF t.k = "un" THEN 1 + NDepth(t.e)
             ELSE 1 + (IF NDepth(t.l) > NDepth(t.r) THEN NDepth(t.l) ELSE NDepth(t.r))
RECURSIVE NForms(_)
NForms(t) == IF t.k = "leaf" THEN <<t.ty \o ":" \o t.form>>
             ELSE IF IsNegLit(t) THEN <<"int:neglit">>
             ELSE IF t.k = "un" THEN NForms(t.e)
             ELSE NForms(t.l) \o NForms(t.r)

LineOf(n) == 2 * n + 1              \* the println line follows the 2n declarations
Header(ns) == [header |-> TRUE,
               pres |-> [x \in (1..NAssign) \X ns |-> [a |-> x[1], n |-> x[2], pre |-> JoinL(PreLines(x[1], x[2]))]]]

Item(t, a, n) ==
  LET toks == Toks(t, 0, 0)
      ln == LineOf(n)
      r == EvalTree(t, a, n, ln)
      ft == FoldParse(toks).t
      fold == Unfold(ft) # t
      altf == IF fold THEN EvalTree(ft, a, n, ln) ELSE r
      text == Text(toks, a)
      selfcheck == /\ Assert(RoundTripT(t, toks), <<"printer/grammar round trip fails", t>>)
                   /\ Assert(MinimalParensT(t, toks), <<"parentheses not minimal", t>>)
                   /\ Assert(fold <=> (FoldSiteOps(t) # {}), <<"fold site characterisation", t>>)
  IN IF ~selfcheck THEN [text |-> text, inmodel |-> FALSE]
     ELSE IF ~r.inmodel \/ ~altf.inmodel THEN [text |-> text, inmodel |-> FALSE, a |-> a]
     ELSE [text |-> text, line |-> "println(" \o text \o ")\n", a |-> a, n |-> n, inmodel |-> TRUE,
           expect |-> ExpectOf(r), depth |-> NDepth(t), ops |-> OpsIn(t), forms |-> NForms(t),
           parens |-> NParens(toks)] @@
          (IF fold THEN [known |-> [key |-> FoldKey(t), expect |-> ExpectOf(altf)]] ELSE <<>>)

\* ---------------------------------------------------------------- exhaustive
VARIABLES t, a
TySet == IF TySel = "all" THEN Types ELSE {TySel}
\* (operators with a parameter: TLC evaluates parameterless constant definitions at startup, also when unused)
\* "quickmix": int-typed trees with every leaf-form combination, the other types with uniform3
Raw(d) == UNION {IF FormSel = "uniform" THEN UniformTreesOf(ty, d)
                 ELSE IF FormSel = "uniform3" \/ (FormSel = "quickmix" /\ ty # "int") THEN Uniform3TreesOf(ty, d)
                 ELSE TreesOf(ty, d) : ty \in TySet}
NormSet(d) == {Norm(Number(x, 1).t) : x \in Raw(d)}
Init == t \in NormSet(D) /\ a \in (IF ASel = 0 THEN 1..NA ELSE {ASel})
Next == UNCHANGED <<t, a>>
Emit == PrintT(<<"CASE", ToJson(Item(t, a, Pow2(D)))>>)
ASSUME PrintT(<<"CASE", ToJson(Header({Pow2(D), Pow2(DS)}))>>)

\* ---------------------------------------------------------------- seeded sample of deeper trees
Pick(S) == RandomElement(S)
RECURSIVE RandT(_, _)
RandT(ty, d) ==
  IF d = 0 \/ Pick(1..12) = 1 THEN Pick(LeavesOf(ty))
  ELSE LET c == Pick(1..12) IN
       CASE ty = "int"  -> IF c <= 3 THEN Un("-", RandT("int", d - 1))
                           ELSE Bn(Pick(ArithOps), RandT("int", d - 1), RandT("int", d - 1))
         [] ty = "bool" -> IF c <= 5 THEN Bn(Pick(CmpOps \cup EqOps), RandT("int", d - 1), RandT("int", d - 1))
                           ELSE IF c <= 8 THEN Bn(Pick(LogOps \cup EqOps), RandT("bool", d - 1), RandT("bool", d - 1))
                           ELSE IF c = 9 THEN Bn(Pick(EqOps), RandT("str", d - 1), RandT("str", d - 1))
                           ELSE Un("not", RandT("bool", d - 1))
         [] ty = "str"  -> Bn("..", RandT(Pick({"int", "int", "bool", "str"}), d - 1), RandT(Pick({"int", "int", "bool", "str"}), d - 1))
\* (the raw random trees are stored in the state first, as an explicit tuple: a lazily evaluated function
\*  constructor or operator argument containing RandomElement would be re-drawn at every use)
InitSim == t = <<>> /\ a = 0
RECURSIVE RandList(_)
RandList(m) == IF m = 0 THEN <<>>
               ELSE <<[t |-> RandT(Pick({"int", "int", "int", "bool", "bool", "str"}), DS), a |-> Pick(1..NA)]>> \o RandList(m - 1)
NextSim == t = <<>> /\ a' = 1 /\ t' = RandList(M)
EmitSim == t # <<>> =>
   JsonSerialize(IOEnv.OUTDIR \o "/b" \o ToString(TLCGet("stats").traces) \o ".json", [j \in 1..M |-> Item(Norm(Number(t[j].t, 1).t), t[j].a, Pow2(DS))])
=============================================================================
