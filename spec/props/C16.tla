------------------------------- MODULE C16 -------------------------------
(***************************************************************************)
(* C16: float arithmetic, conversions and comparisons follow the spec.     *)
(*                                                                         *)
(* Correctness is *defined* by spec/lib/Flt.tla: IEEE-754 binary64 with    *)
(* round-to-nearest-even computed exactly on unbounded integers (+ - * /   *)
(* sqrt floor ceil round, int<->float conversion, decimal literal ->       *)
(* binary64), the IEEE/C special-operand table of pow and of the           *)
(* elementary functions, Abra's rule that a zero divisor is an error.      *)
(* Results the model does not decide (inexact pow, sin(1.0), ...) are      *)
(* "open": for them only the relational law is checked -- every operand    *)
(* form of one operation must produce the same observation.                *)
(*                                                                         *)
(* Mode = "grid":   all pairs of the float boundary grid (one state/pair)  *)
(* Mode = "random": one random pair of bit patterns per behaviour          *)
(*                  (tlc -simulate -seed S)                                *)
(* Operand forms:  L = literal in the program text (only for finite values *)
(* with a decimal spelling), V = value supplied at run time by the host    *)
(* function getf() (any bit pattern: NaN, infinities, subnormals).         *)
(*   LL LV VL VV, CL CV (x op= ..), UL UV (one operand)                    *)
(* Floats are observed bit-exactly through #host fn reportf(x: float).     *)
(***************************************************************************)
EXTENDS Flt, Json, IOUtils, TLCExt
CONSTANTS GridSel,      \* "quick" | "full"
          Mode          \* "grid" | "random"
VARIABLES lvl, gi, gj, rp

\* ------------------------------------------------------------------ float values used as operands
\* [bits: magnitude, s: decimal string of bits, lit: spelling or "", v: decoded]
FV(bits, lit) == [bits |-> bits, s |-> MDec(bits), lit |-> lit, v |-> Decode(bits)]
Sgn(neg) == IF neg THEN "-" ELSE ""
\* decimal literal D / 10^k  (D, k TLC naturals)
VDec(neg, D, k) == FV(LitBits(neg, MFromNat(D), k), Sgn(neg) \o DecSpell(MFromNat(D), k))
\* m * 2^e exactly representable, spelled out exactly when `spell`
VDy(neg, m, e, spell) ==
  FV(IF m = <<>> THEN WithSign(neg, <<>>) ELSE RoundQ(neg, m, MOne, e).bits,
     IF ~spell THEN "" ELSE IF m = <<>> THEN Sgn(neg) \o "0.0" ELSE Sgn(neg) \o ExactSpell(m, e))
VBits(bits) == FV(bits, "")
N(n) == MFromNat(n)

GFull == <<
  VDy(FALSE, <<>>, 0, TRUE), VDy(TRUE, <<>>, 0, TRUE),                                  \* +0.0 -0.0
  VDy(FALSE, N(1), 0, TRUE), VDy(TRUE, N(1), 0, TRUE), VDy(FALSE, N(2), 0, TRUE),       \* 1.0 -1.0 2.0
  VDy(FALSE, N(1), -1, TRUE), VDy(FALSE, N(3), -1, TRUE), VDy(TRUE, N(5), -1, TRUE),    \* 0.5 1.5 -2.5
  VDy(FALSE, N(3), 0, TRUE), VDy(FALSE, N(4), 0, TRUE), VDy(TRUE, N(8), 0, TRUE),       \* 3.0 4.0 -8.0
  VDy(FALSE, N(1), -2, TRUE), VDy(FALSE, N(10), 0, TRUE),                               \* 0.25 10.0
  VDec(FALSE, 1, 1), VDec(FALSE, 2, 1),                                                 \* 0.1 0.2 (inexact literals)
  VDy(FALSE, N(1), 53, TRUE), VDy(FALSE, MAdd(TwoM(52), N(1)), 1, TRUE),                \* 2^53, 2^53+2
  VDy(FALSE, MSub(TwoM(53), N(1)), 0, TRUE),                                            \* 2^53-1
  VDy(FALSE, N(1), 63, TRUE), VDy(TRUE, N(1), 63, TRUE),                                \* +-2^63
  VDy(FALSE, MPow10(22), 0, TRUE),                                                      \* 1e22 (exact)
  VDy(FALSE, N(1), -30, TRUE), VDy(FALSE, MAdd(TwoM(52), N(1)), -52, TRUE),             \* 2^-30, 1 + 2^-52
  VDy(FALSE, MSub(TwoM(53), N(1)), 971, TRUE), VDy(FALSE, N(1), 1023, TRUE),            \* MAX, 2^1023
  VDy(FALSE, N(1), -1022, FALSE),                                                       \* least normal
  VDy(FALSE, N(1), -1074, FALSE), VDy(TRUE, N(1), -1074, FALSE),                        \* +- least subnormal
  VDy(FALSE, MSub(TwoM(52), N(1)), -1074, FALSE),                                       \* greatest subnormal
  VBits(MInfBits), VBits(WithSign(TRUE, MInfBits)), VBits(QNaNBits),                    \* +inf -inf NaN
  VBits(WithSign(TRUE, QNaNBits)) >>                                                    \* NaN with the sign bit set
GQuick == <<
  VDy(FALSE, <<>>, 0, TRUE), VDy(TRUE, <<>>, 0, TRUE), VDy(FALSE, N(1), 0, TRUE), VDy(TRUE, N(5), -1, TRUE),
  VDy(FALSE, N(3), 0, TRUE), VDy(FALSE, N(1), -1, TRUE), VDec(FALSE, 1, 1),
  VDy(FALSE, MAdd(TwoM(52), N(1)), 1, TRUE), VDy(FALSE, MSub(TwoM(53), N(1)), 971, TRUE),
  VDy(FALSE, N(1), -1074, FALSE), VBits(MInfBits), VBits(WithSign(TRUE, MInfBits)), VBits(QNaNBits) >>
\* computed once, kept in a TLC register (see Flt!P2Reg)
GReg == 66
ASSUME TLCSet(GReg, IF GridSel = "full" THEN GFull ELSE GQuick)
G == TLCGet(GReg)
NG == Len(G)

\* ------------------------------------------------------------------ concrete syntax
Header == "#host\nfn reportf(x: float) -> void\n#host\nfn report(n: int) -> void\n#host\nfn reportb(x: bool) -> void\n"
          \o "#host\nfn getf() -> float\n#host\nfn geti() -> int\n"
HostFns == << [name |-> "reportf", args |-> <<"float">>, ret |-> "void"],
              [name |-> "report", args |-> <<"int">>, ret |-> "void"],
              [name |-> "reportb", args |-> <<"bool">>, ret |-> "void"],
              [name |-> "getf", args |-> <<>>, ret |-> "float"],
              [name |-> "geti", args |-> <<>>, ret |-> "int"] >>
\* a negative literal as left operand / argument of a prefix minus is parenthesised (precedence is C31's subject)
LitL(x) == IF x.lit # "" /\ x.v.neg THEN "(" \o x.lit \o ")" ELSE x.lit

ArithOps == <<"+", "-", "*", "/", "^">>
CmpOps == <<"<", "<=", ">", ">=", "==", "!=">>
OpName(op) == CASE op = "+" -> "add" [] op = "-" -> "sub" [] op = "*" -> "mul" [] op = "/" -> "div" [] op = "^" -> "pow"
                [] op = "<" -> "lt" [] op = "<=" -> "le" [] op = ">" -> "gt" [] op = ">=" -> "ge" [] op = "==" -> "eq" [] op = "!=" -> "ne"

\* forms available for operands a, b
BinForms(op, a, b, compound) ==
  SelectSeq(<<"LL", "LV", "VL", "VV", "CL", "CV">>,
            LAMBDA f: /\ (f \in {"LL", "LV"} => a.lit # "")
                      /\ (f \in {"LL", "VL", "CL"} => b.lit # "")
                      /\ (f \in {"CL", "CV"} => compound /\ op # "^"))

\* statements + the values getf() must return, in call order
BinStmts(op, form, a, b, s, rep) ==
  LET va == "a" \o s  vb == "b" \o s  vx == "x" \o s
      geta == "let " \o va \o " = getf()\n"
      getb == "let " \o vb \o " = getf()\n"
      R(e) == rep \o "(" \o e \o ")\n"
      E(l, r) == l \o " " \o op \o " " \o r
  IN CASE form = "LL" -> [stmts |-> R(E(LitL(a), b.lit)), frets |-> <<>>]
       [] form = "LV" -> [stmts |-> getb \o R(E(LitL(a), vb)), frets |-> <<b.s>>]
       [] form = "VL" -> [stmts |-> geta \o R(E(va, b.lit)), frets |-> <<a.s>>]
       [] form = "VV" -> [stmts |-> geta \o getb \o R(E(va, vb)), frets |-> <<a.s, b.s>>]
       [] form = "CL" -> [stmts |-> "var " \o vx \o " = getf()\n" \o vx \o " " \o op \o "= " \o b.lit \o "\n" \o R(vx), frets |-> <<a.s>>]
       [] form = "CV" -> [stmts |-> "var " \o vx \o " = getf()\n" \o getb \o vx \o " " \o op \o "= " \o vb \o "\n" \o R(vx),
                          frets |-> <<a.s, b.s>>]

\* ------------------------------------------------------------------ expectations
NaNAlts == << <<MDec(QNaNBits)>>, <<MDec(WithSign(TRUE, QNaNBits))>> >>
\* r: a Flt result
ExpOf(r) == CASE r.k = "bits" -> [k |-> "eq", args |-> <<MDec(r.bits)>>]
              [] r.k = "int" -> [k |-> "eq", args |-> <<ToDec(r.v)>>]
              [] r.k = "nan" -> [k |-> "oneof", alts |-> NaNAlts]
              [] r.k = "err" -> [k |-> "err", errkind |-> r.e]
              [] OTHER -> [k |-> "any"]
OutCat(r) == CASE r.k = "bits" -> (IF r.inexact THEN "rounded" ELSE "exact") [] r.k = "err" -> r.e [] OTHER -> r.k

ArithRes(op, a, b) == CASE op = "+" -> FAdd(a, b) [] op = "-" -> FSub(a, b) [] op = "*" -> FMul(a, b)
                        [] op = "/" -> FDiv(a, b) [] op = "^" -> FPow(a, b)

\* defect families, by input class only
KeyBin(op, form, a, b) ==
  IF op = "/" /\ IsZeroV(b.v) /\ form \in {"LL", "VL", "CL"} THEN "C16|/|zero-literal-divisor" ELSE ""
\* relational key: a folded (LL) operation whose result is a NaN
RelKeyBin(op, form, r) == IF form = "LL" /\ r.k = "nan" THEN "C16|fold|nan-sign" ELSE ""

RECURSIVE Flatten(_)
Flatten(ss) == IF ss = <<>> THEN <<>> ELSE Head(ss) \o Flatten(Tail(ss))

ArithRecs(pid, a, b) ==
  Flatten([n \in 1..Len(ArithOps) |->
     LET op == ArithOps[n]
         r == ArithRes(op, a.v, b.v)
         forms == BinForms(op, a, b, TRUE)
         exp == ExpOf(r)
         cat == op \o "|" \o OutCat(r)
         base == pid \o "." \o OpName(op)
     IN [f \in 1..Len(forms) |->
          LET st == BinStmts(op, forms[f], a, b, "_" \o pid \o "_" \o ToString(n) \o "_" \o ToString(f), "reportf")
              key == KeyBin(op, forms[f], a, b)
          IN [id |-> base \o "." \o forms[f], op |-> op, form |-> forms[f], stmts |-> st.stmts, frets |-> st.frets, irets |-> <<>>,
              exp |-> exp, rep |-> "reportf", cat |-> cat, grp |-> base, key |-> key, relkey |-> RelKeyBin(op, forms[f], r),
              solo |-> (r.k = "err" \/ key # "")]]])

\* comparisons: predicted where IEEE numeric order and every total order extending it agree, i.e. for two non-NaN
\* operands that are not both zeros; otherwise open (the laws are validated on the observed truth table, C16Laws.tla)
CmpPred(op, a, b) ==
  IF IsNaN(a) \/ IsNaN(b) \/ (IsZeroV(a) /\ IsZeroV(b) /\ a.neg # b.neg) THEN [k |-> "any"]
  ELSE LET c == FCmpNum(a, b)
           v == CASE op = "<" -> c < 0 [] op = "<=" -> c <= 0 [] op = ">" -> c > 0 [] op = ">=" -> c >= 0
                  [] op = "==" -> c = 0 [] op = "!=" -> c # 0
       IN [k |-> "eq", args |-> <<v>>]
CmpRecs(pid, a, b) ==
  Flatten([n \in 1..Len(CmpOps) |->
     LET op == CmpOps[n]
         forms == BinForms(op, a, b, FALSE)
         exp == CmpPred(op, a.v, b.v)
         base == pid \o "." \o OpName(op)
     IN [f \in 1..Len(forms) |->
          LET st == BinStmts(op, forms[f], a, b, "_" \o pid \o "_c" \o ToString(n) \o "_" \o ToString(f), "reportb")
          IN [id |-> base \o "." \o forms[f], op |-> op, form |-> forms[f], stmts |-> st.stmts, frets |-> st.frets, irets |-> <<>>,
              exp |-> exp, rep |-> "reportb", cat |-> op \o "|" \o (IF exp.k = "any" THEN "law-only" ELSE "predicted"), grp |-> base, key |-> "", relkey |-> "",
              solo |-> FALSE, cmp |-> [x |-> a.s, y |-> b.s]]]])

\* ---- one-operand operations
\* IEEE-754 9.2.1 / C Annex F special operands of the elementary functions; everything else is open
FSpecial(fn, x) ==
  IF IsNaN(x) THEN RNaN
  ELSE CASE fn \in {"sin", "tan", "asin", "atan"} /\ IsZeroV(x) -> RVal(x)
         [] fn = "cos" /\ IsZeroV(x) -> RVal(FinV(FALSE, MOne, 0))
         [] fn \in {"sin", "cos", "tan"} /\ x.k = "inf" -> RNaN
         [] fn \in {"asin", "acos"} /\ MagVsOne(x) > 0 -> RNaN
         [] fn = "acos" /\ ~x.neg /\ MagVsOne(x) = 0 -> RVal(ZeroV(FALSE))
         [] fn \in {"log", "log2", "log10"} /\ IsZeroV(x) -> RVal(InfV(TRUE))
         [] fn \in {"log", "log2", "log10"} /\ x.neg -> RNaN
         [] fn \in {"log", "log2", "log10"} /\ x.k = "inf" -> RVal(x)
         [] fn \in {"log", "log2", "log10"} /\ MagVsOne(x) = 0 -> RVal(ZeroV(FALSE))
         [] OTHER -> ROpen
UnFns == <<"neg", "sqrt", "floor", "ceil", "round", "int_from_float",
           "sin", "cos", "tan", "asin", "acos", "atan", "log", "log2", "log10">>
UnRes(fn, x) == CASE fn = "neg" -> RVal(FNeg(x))                       \* IEEE negate: flips the sign bit, also of 0 and NaN
                  [] fn = "sqrt" -> FSqrt(x)
                  [] fn \in {"floor", "ceil", "round"} -> FRoundInt(fn, x)
                  [] fn = "int_from_float" -> FToInt(x)
                  [] OTHER -> FSpecial(fn, x)
UnRecs(pid, a) ==
  Flatten([n \in 1..Len(UnFns) |->
     LET fn == UnFns[n]
         r0 == UnRes(fn, a.v)
         r == IF fn = "neg" /\ IsNaN(a.v) THEN RNaN ELSE r0
         forms == IF a.lit # "" THEN <<"UL", "UV">> ELSE <<"UV">>
         rep == IF fn = "int_from_float" THEN "report" ELSE "reportf"
         key == IF fn = "neg" /\ IsZeroV(a.v) THEN "C16|neg|zero" ELSE ""
         base == pid \o "." \o fn
     IN [f \in 1..Len(forms) |->
          LET s == "_" \o pid \o "_u" \o ToString(n) \o "_" \o ToString(f)
              arg == IF forms[f] = "UL" THEN (IF fn = "neg" THEN "(" \o a.lit \o ")" ELSE a.lit) ELSE "a" \o s
              call == IF fn = "neg" THEN "-" \o arg ELSE fn \o "(" \o arg \o ")"
          IN [id |-> base \o "." \o forms[f], op |-> fn, form |-> forms[f],
              stmts |-> (IF forms[f] = "UV" THEN "let a" \o s \o " = getf()\n" ELSE "") \o rep \o "(" \o call \o ")\n",
              frets |-> (IF forms[f] = "UV" THEN <<a.s>> ELSE <<>>), irets |-> <<>>,
              exp |-> ExpOf(r), rep |-> rep, cat |-> fn \o "|" \o OutCat(r), grp |-> base, key |-> key, relkey |-> "", solo |-> (key # "")]]])

\* the literal itself: every float literal denotes the correctly rounded binary64 of its decimal value
LitRecs(pid, a) ==
  IF a.lit = "" THEN <<>> ELSE
  << [id |-> pid \o ".lit.L", op |-> "lit", form |-> "L", stmts |-> "reportf(" \o a.lit \o ")\n", frets |-> <<>>, irets |-> <<>>,
      exp |-> [k |-> "eq", args |-> <<a.s>>], rep |-> "reportf", cat |-> "lit|direct", grp |-> pid \o ".lit", key |-> "", relkey |-> "", solo |-> FALSE],
     [id |-> pid \o ".lit.V", op |-> "lit", form |-> "V", stmts |-> "let l_" \o pid \o " = " \o a.lit \o "\nreportf(l_" \o pid \o ")\n",
      frets |-> <<>>, irets |-> <<>>,
      exp |-> [k |-> "eq", args |-> <<a.s>>], rep |-> "reportf", cat |-> "lit|let", grp |-> pid \o ".lit", key |-> "", relkey |-> "", solo |-> FALSE] >>

PairRec(pid, a, b, withUn) ==
  [id |-> pid, a |-> a.s, b |-> b.s, alit |-> a.lit, blit |-> b.lit,
   ops |-> ArithRecs(pid, a, b) \o CmpRecs(pid, a, b) \o (IF withUn THEN UnRecs(pid, a) \o LitRecs(pid, a) ELSE <<>>)]

\* ---- extra literals (decimal -> binary64) and float_from_int operands, emitted once
ExtraLits == << VDec(FALSE, 3, 1), VDec(FALSE, 314159, 5), VDec(FALSE, 435, 2), VDec(FALSE, 1, 6), VDec(FALSE, 5, 0),
                FV(LitBits(FALSE, MAdd(TwoM(53), N(1)), 0), DecSpell(MAdd(TwoM(53), N(1)), 0)),       \* 2^53+1: tie, rounds to even
                FV(LitBits(FALSE, MAdd(TwoM(53), N(3)), 0), DecSpell(MAdd(TwoM(53), N(3)), 0)),       \* 2^53+3: tie, rounds up
                FV(LitBits(FALSE, <<8912, 4567, 9123, 5678, 1234>>, 11), DecSpell(<<8912, 4567, 9123, 5678, 1234>>, 11)),   \* 123456789.12345678912
                VDec(FALSE, 17976931, 7), VDec(FALSE, 999999999, 9), VDec(FALSE, 2225073, 30) >>
IntOperands == << Zero, Big(1), Big(-1), Big(123456789),
                  Mk(FALSE, TwoM(53)), Mk(FALSE, MAdd(TwoM(53), N(1))), Mk(FALSE, MAdd(TwoM(53), N(3))), Mk(TRUE, MAdd(TwoM(53), N(1))),
                  Mk(FALSE, MAdd(TwoM(54), N(2))), Mk(FALSE, MAdd(TwoM(54), N(6))),
                  MaxI64, MinI64, Sub(MaxI64, Big(511)), Sub(MaxI64, Big(512)), Sub(MaxI64, Big(1024)) >>
FromIntRecs(pid, n, i) ==
  LET r == FFromInt(n)  base == pid \o ".float_from_int" \o ToString(i) IN
  << [id |-> base \o ".UL", op |-> "float_from_int", form |-> "UL", stmts |-> "reportf(float_from_int(" \o ToDec(n) \o "))\n",
      frets |-> <<>>, irets |-> <<>>, exp |-> ExpOf(r), rep |-> "reportf", cat |-> "float_from_int|" \o OutCat(r), grp |-> base, key |-> "", relkey |-> "", solo |-> FALSE],
     [id |-> base \o ".UV", op |-> "float_from_int", form |-> "UV",
      stmts |-> "let n_" \o pid \o "_" \o ToString(i) \o " = geti()\nreportf(float_from_int(n_" \o pid \o "_" \o ToString(i) \o "))\n",
      frets |-> <<>>, irets |-> <<ToDec(n)>>, exp |-> ExpOf(r), rep |-> "reportf", cat |-> "float_from_int|" \o OutCat(r), grp |-> base, key |-> "", relkey |-> "", solo |-> FALSE] >>
\* integer powers at the edges of the exponent range whose mathematical value is a binary64 number (down to the least
\* subnormal): the base is a literal or comes from the host, so the power is folded (LL) or computed by the VM (LV, VL, VV)
PowPairs == << <<VDy(FALSE, N(2), 0, TRUE), VDy(TRUE, N(1074), 0, TRUE)>>,      \* 2 ^ -1074 = least subnormal
               <<VDy(FALSE, N(2), 0, TRUE), VDy(TRUE, N(1073), 0, TRUE)>>,
               <<VDy(FALSE, N(2), 0, TRUE), VDy(TRUE, N(1023), 0, TRUE)>>,      \* greatest power of two that is subnormal
               <<VDy(FALSE, N(2), 0, TRUE), VDy(TRUE, N(1022), 0, TRUE)>>,      \* least normal
               <<VDy(FALSE, N(2), 0, TRUE), VDy(FALSE, N(1023), 0, TRUE)>>,     \* 2^1023
               <<VDy(FALSE, N(4), 0, TRUE), VDy(TRUE, N(537), 0, TRUE)>>,       \* 4 ^ -537 = 2^-1074
               <<VDy(FALSE, N(8), 0, TRUE), VDy(TRUE, N(358), 0, TRUE)>>,       \* 8 ^ -358 = 2^-1074
               <<VDy(TRUE, N(2), 0, TRUE), VDy(TRUE, N(1073), 0, TRUE)>>,       \* (-2) ^ -1073 = -2^-1073
               <<VDy(TRUE, N(2), 0, TRUE), VDy(TRUE, N(1074), 0, TRUE)>>,
               <<VDy(FALSE, N(1), -1, TRUE), VDy(FALSE, N(1074), 0, TRUE)>>,    \* 0.5 ^ 1074
               <<VDy(FALSE, N(1), -2, TRUE), VDy(FALSE, N(511), 0, TRUE)>>,     \* 0.25 ^ 511 = 2^-1022
               <<VDy(FALSE, N(1), -1, TRUE), VDy(TRUE, N(1023), 0, TRUE)>>,     \* 0.5 ^ -1023 = 2^1023
               <<VDy(FALSE, N(3), 0, TRUE), VDy(FALSE, N(33), 0, TRUE)>>,       \* 3^33 < 2^53
               <<VDy(FALSE, N(3), -1, TRUE), VDy(FALSE, N(3), 0, TRUE)>>,       \* 1.5^3
               <<VDy(FALSE, N(10), 0, TRUE), VDy(FALSE, N(22), 0, TRUE)>>,      \* 1e22
               <<VDy(FALSE, N(2), 0, TRUE), VDy(TRUE, N(1), 0, TRUE)>>,         \* 2 ^ -1
               <<VDy(FALSE, N(2), 0, TRUE), VDy(FALSE, N(62), 0, TRUE)>> >>
PowRecs(pid, a, b) == SelectSeq(ArithRecs(pid, a, b), LAMBDA r : r.op = "^")
ASSUME \A i \in 1..Len(PowPairs) : FPow(PowPairs[i][1].v, PowPairs[i][2].v).k = "bits"      \* all of them are decided
ASSUME MDec(FPow(PowPairs[1][1].v, PowPairs[1][2].v).bits) = "1"

ExtraRec ==
  [id |-> "extra", a |-> "", b |-> "", alit |-> "", blit |-> "", kind |-> "extra",
   ops |-> Flatten([i \in 1..Len(PowPairs) |-> PowRecs("xp" \o ToString(i), PowPairs[i][1], PowPairs[i][2])]) \o Flatten([i \in 1..Len(ExtraLits) |-> LitRecs("x" \o ToString(i), ExtraLits[i])
                                                  \o LitRecs("xn" \o ToString(i), FV(MAdd(ExtraLits[i].bits, M63), "-" \o ExtraLits[i].lit))])
           \o Flatten([i \in 1..Len(IntOperands) |-> FromIntRecs("x", IntOperands[i], i)])]

Meta == [id |-> "meta", header |-> Header, hostfns |-> HostFns,
         grid |-> [i \in 1..NG |-> [bits |-> G[i].s, lit |-> G[i].lit]],
         nan |-> <<MDec(QNaNBits), MDec(WithSign(TRUE, QNaNBits))>>]

\* ------------------------------------------------------------------ random operands (simulation mode)
Pick(S) == RandomElement(S)
RandM(limbs, u) == [i \in 1..limbs |-> Pick(0..(IB - 1))]
Rand64(u) == MDivMod(MTrim(RandM(6, u)), TwoM(64))[2]
RandFrac(u) == MDivMod(MTrim(RandM(5, u)), M52)[2]
Compose(neg, ef, fr) == WithSign(neg, MAdd(MMul(N(ef), M52), fr))
Spellable(v) == v.k = "fin" /\ (v.m = <<>> \/ (v.e >= -160 /\ v.e <= 100))
WithSpell(bits) == LET v == Decode(bits) IN
                   FV(bits, IF Spellable(v) THEN Sgn(v.neg) \o (IF v.m = <<>> THEN "0.0" ELSE ExactSpell(v.m, v.e)) ELSE "")
RandPair(u) ==
  LET kind == Pick({"any", "mod", "mod", "near", "int", "sub", "big"})
      a0 == CASE kind = "any" -> Rand64(u)
              [] kind \in {"mod", "near"} -> Compose(Pick(BOOLEAN), Pick(1023 - 40 .. 1023 + 40), RandFrac(u))
              [] kind = "int" -> RoundQ(Pick(BOOLEAN), N(Pick(1..2000)), MOne, 0).bits
              [] kind = "sub" -> Compose(Pick(BOOLEAN), 0, RandFrac(u))
              [] kind = "big" -> Compose(Pick(BOOLEAN), Pick(2000..2046), RandFrac(u))
      b0 == CASE kind = "any" -> Rand64(u + 1)
              [] kind = "mod" -> Compose(Pick(BOOLEAN), Pick(1023 - 40 .. 1023 + 40), RandFrac(u + 1))
              [] kind = "near" -> LET d == N(Pick(1..5)) IN IF Pick(BOOLEAN) THEN MAdd(a0, d) ELSE MSub(a0, d)
              [] kind = "int" -> RoundQ(Pick(BOOLEAN), N(Pick(1..12)), MOne, Pick({0, 0, -1})).bits
              [] kind = "sub" -> Compose(Pick(BOOLEAN), Pick(1023 - 3 .. 1023 + 60), RandFrac(u + 1))
              [] kind = "big" -> Compose(Pick(BOOLEAN), Pick(1000..1060), RandFrac(u + 1))
      \* a random pattern that is a NaN is replaced by a default quiet NaN of the same sign: payload propagation is not modelled
      Canon(bits) == LET v == Decode(bits) IN IF IsNaN(v) THEN WithSign(v.neg, QNaNBits) ELSE bits
      n0 == LET m == Rand64(u + 2) IN Mk(Pick(BOOLEAN), MDivMod(m, TwoM(Pick(1..63)))[2])
  IN [kind |-> kind, a |-> WithSpell(Canon(a0)), b |-> WithSpell(Canon(b0)), n |-> n0]

\* ------------------------------------------------------------------ state machine = enumeration
Init == lvl = 0 /\ gi = 0 /\ gj = 0 /\ rp = <<>>
NextGrid == /\ UNCHANGED rp
            /\ \/ lvl = 0 /\ lvl' = 1 /\ gi' \in 1..NG /\ gj' = 0
               \/ lvl = 1 /\ lvl' = 2 /\ gi' = gi /\ gj' \in 1..NG
NextRandom == lvl = 0 /\ lvl' = 2 /\ rp' = RandPair(lvl) /\ UNCHANGED <<gi, gj>>
Next == IF Mode = "grid" THEN NextGrid ELSE NextRandom

OutFile(id) == IOEnv.OUTDIR \o "/" \o id \o ".json"
Emit ==
  CASE lvl = 0 -> JsonSerialize(OutFile("meta"), Meta) /\ (Mode # "grid" \/ JsonSerialize(OutFile("extra"), ExtraRec))
    [] lvl = 1 -> TRUE
    [] lvl = 2 /\ Mode = "grid" ->
         LET pid == "g" \o ToString(gi) \o "_" \o ToString(gj) IN
         JsonSerialize(OutFile(pid), PairRec(pid, G[gi], G[gj], gj = 1) @@ [kind |-> "grid"])
    [] lvl = 2 /\ Mode = "random" ->
         LET pid == "r" \o IOEnv.SHARD \o "_" \o ToString(TLCGet("stats").traces) IN
         LET pr == PairRec(pid, rp.a, rp.b, TRUE) IN
         JsonSerialize(OutFile(pid), [pr EXCEPT !.ops = @ \o FromIntRecs(pid, rp.n, 0)] @@ [kind |-> rp.kind])

\* anchors: bit patterns of well-known values (IEEE-754 binary64 encoding)
ASSUME MDec(VDy(FALSE, N(1), 0, FALSE).bits) = "4607182418800017408"            \* 1.0  = 0x3FF0000000000000
ASSUME MDec(VDec(FALSE, 1, 1).bits) = "4591870180066957722"                     \* 0.1  = 0x3FB999999999999A
ASSUME MDec(MInfBits) = "9218868437227405312" /\ MDec(QNaNBits) = "9221120237041090560"
ASSUME MDec(WithSign(TRUE, <<>>)) = "9223372036854775808"                       \* -0.0 = 0x8000000000000000
ASSUME MDec(FAdd(VDec(FALSE, 1, 1).v, VDec(FALSE, 2, 1).v).bits) = "4599075939470750516"   \* 0.1 + 0.2 = 0.30000000000000004
ASSUME FToInt(VDec(FALSE, 314159, 5).v).v = Big(3)                              \* builtin_types.md: int_from_float(pi) = 3
ASSUME VDy(FALSE, N(5), 0, TRUE).lit = "5.0" /\ VDy(TRUE, N(5), -1, TRUE).lit = "-2.5" /\ VDec(FALSE, 1, 6).lit = "0.000001"
=============================================================================
