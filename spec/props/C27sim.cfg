INIT Init
NEXT NextSim
INVARIANT EmitSim
CHECK_DEADLOCK FALSE
