------------------------------- MODULE C03 -------------------------------
(***************************************************************************)
(* C03: every program the checker accepts compiles to bytecode; every      *)
(* construct the checker lets through is compiled with its meaning or      *)
(* rejected with a diagnostic.  The input space is the nesting family:     *)
(* a chain of contexts (loops, blocks, match arms, lambdas, tasks, an      *)
(* optional enclosing function) around one payload statement (control      *)
(* transfer, capture of an outer binding, assignment forms).  One state =  *)
(* one (function wrapper, chain, payload).                                 *)
(* The specification of the checker's obligation:                          *)
(*   MustReject - break/continue with no enclosing loop inside the same    *)
(*                function body (a lambda or task body is its own          *)
(*                function): the only acceptable answer is a diagnostic;   *)
(*   otherwise  - accept or reject, but if accepted the program must       *)
(*                compile and run without an internal fault.               *)
(***************************************************************************)
EXTENDS Naturals, Integers, Sequences, FiniteSets, TLC, Json, IOUtils
CONSTANTS MaxChain

\* "whilecond": the payload stands in a block that is the *condition* of a while loop
Ctxs == <<"while", "for", "block", "match", "lambda", "task", "whilecond">>
Payloads == <<"break", "continue", "return", "returnval", "read-let", "read-var", "assign-var", "compound-var", "read-loopvar",
              "push-array", "index-compound-user", "nested-lambda-capture", "match-on-captured", "try",
              \* statements after a bare `return` in the same block (dead code that still declares locals / closures)
              "return-then-local", "return-then-closure">>
IsFnBoundary(c) == c \in {"lambda", "task"}
IsLoop(c) == c \in {"while", "for"}

RECURSIVE SeqsUpTo(_, _)
SeqsUpTo(S, n) == IF n = 0 THEN {<<>>} ELSE LET r == SeqsUpTo(S, n - 1) IN r \cup {Append(s, x) : s \in {t \in r : Len(t) = n - 1}, x \in S}
Chains == SeqsUpTo({Ctxs[i] : i \in 1..Len(Ctxs)}, MaxChain) \ {<<>>}

\* the part of the chain that belongs to the function body the payload is in
RECURSIVE SameBody(_)
SameBody(ch) == IF ch = <<>> THEN <<>>
                ELSE IF IsFnBoundary(ch[Len(ch)]) THEN <<>> ELSE Append(SameBody(SubSeq(ch, 1, Len(ch) - 1)), ch[Len(ch)])
LoopInBody(ch) == \E i \in 1..Len(SameBody(ch)) : IsLoop(SameBody(ch)[i])
HasFor(ch) == \E i \in 1..Len(ch) : ch[i] = "for"
\* (a jump in a loop condition has no documented meaning: accepted-and-compiled or rejected are both admissible there)
MustReject(ch, p) == p \in {"break", "continue"} /\ ~LoopInBody(ch) /\ ~\E i \in 1..Len(SameBody(ch)) : SameBody(ch)[i] = "whilecond"
\* payloads that only make sense in some chains
\* (a task that returns early would skip the completion message the main program waits for)
InnerBoundary(ch) == IF \E i \in 1..Len(ch) : IsFnBoundary(ch[i])
                     THEN ch[CHOOSE i \in 1..Len(ch) : IsFnBoundary(ch[i]) /\ \A j \in (i + 1)..Len(ch) : ~IsFnBoundary(ch[j])] ELSE "none"
Applicable(fnw, ch, p) == /\ (p = "read-loopvar" => HasFor(ch))
                          /\ (p \in {"return", "returnval", "return-then-local", "return-then-closure"} => InnerBoundary(ch) # "task")
                          /\ (p = "try" => fnw \/ \E i \in 1..Len(ch) : ch[i] = "lambda")

RECURSIVE Ind(_)
Ind(n) == IF n = 0 THEN "" ELSE "  " \o Ind(n - 1)
RECURSIVE JoinL(_)
JoinL(ls) == IF ls = <<>> THEN "" ELSE ls[1] \o "\n" \o JoinL(Tail(ls))

PayloadLines(p, ind, lastFor) ==
  CASE p = "break" -> <<ind \o "break">>
    [] p = "continue" -> <<ind \o "continue">>
    [] p = "return" -> <<ind \o "return">>
    [] p = "returnval" -> <<ind \o "return 1">>
    [] p = "read-let" -> <<ind \o "println(olet)">>
    [] p = "read-var" -> <<ind \o "println(ovar)">>
    [] p = "assign-var" -> <<ind \o "ovar = 7">>
    [] p = "compound-var" -> <<ind \o "ovar += 1">>
    [] p = "read-loopvar" -> <<ind \o "println(i" \o ToString(lastFor) \o ")">>
    [] p = "push-array" -> <<ind \o "oarr.push(3)">>
    [] p = "index-compound-user" -> <<ind \o "ogrid[0] += 1">>
    [] p = "nested-lambda-capture" -> <<ind \o "let inner = (z: int) -> z + olet", ind \o "println(inner(1))">>
    [] p = "match-on-captured" -> <<ind \o "let m = match olet { 5 -> 1, _ -> 2 }">>
    [] p = "try" -> <<ind \o "let t = maybe(1)?">>
    [] p = "return-then-local" -> <<ind \o "return", ind \o "let dead = 3", ind \o "println(dead)">>
    [] p = "return-then-closure" -> <<ind \o "return", ind \o "let dead = 4", ind \o "let g = () -> dead + olet", ind \o "println(g())">>

RECURSIVE Wrap(_, _, _, _)
\* lines of chain ch[k..] around the payload, at nesting depth d
Wrap(ch, k, p, lastFor) ==
  LET d == k  ind == Ind(k - 1)  ds == ToString(k) IN
  IF k > Len(ch) THEN PayloadLines(p, ind, lastFor)
  ELSE LET inner == Wrap(ch, k + 1, p, IF ch[k] = "for" THEN k ELSE lastFor) IN
    CASE ch[k] = "while" -> <<ind \o "var c" \o ds \o " = 0", ind \o "while c" \o ds \o " < 2 {", ind \o "  c" \o ds \o " += 1">> \o inner \o <<ind \o "}">>
      [] ch[k] = "whilecond" -> <<ind \o "var c" \o ds \o " = 0", ind \o "while {">> \o inner \o
                                <<ind \o "  c" \o ds \o " < 2", ind \o "} {", ind \o "  c" \o ds \o " += 1", ind \o "}">>
      [] ch[k] = "for"   -> <<ind \o "for i" \o ds \o " in 2 {">> \o inner \o <<ind \o "}">>
      [] ch[k] = "block" -> <<ind \o "if true {">> \o inner \o <<ind \o "}">>
      [] ch[k] = "match" -> <<ind \o "match 1 {", ind \o "  1 -> {">> \o inner \o <<ind \o "  }", ind \o "  _ -> {}", ind \o "}">>
      [] ch[k] = "lambda" -> <<ind \o "let l" \o ds \o " = (q" \o ds \o ": int) -> {">> \o inner \o <<ind \o "}", ind \o "l" \o ds \o "(1)">>
      [] ch[k] = "task"  -> <<ind \o "let done" \o ds \o ": channel<int> = channel()", ind \o "task {">> \o inner \o
                            <<ind \o "  done" \o ds \o ".write(1)", ind \o "}", ind \o "let w" \o ds \o " = done" \o ds \o ".read()">>

Header == << "type Grid = { cells: array<int> }",
             "implement Index for Grid {",
             "  fn index_get(self, index: int) -> int { self.cells[index] }",
             "  fn index_set(self, index: int, val: int) -> void { self.cells[index] = val }",
             "}",
             "fn maybe(n: int) -> option<int> { option.some(n) }" >>
Locals(ind) == <<ind \o "let olet = 5", ind \o "var ovar = 1", ind \o "let oarr = [1, 2]", ind \o "let ogrid = Grid([1, 2])">>
Text(fnw, ch, p) ==
  JoinL(Header \o
        (IF fnw THEN <<"fn outerfn(par: int) -> option<int> {">> \o Locals("  ") \o
                     [i \in 1..Len(Wrap(ch, 1, p, 0)) |-> "  " \o Wrap(ch, 1, p, 0)[i]] \o <<"  option.some(par)", "}", "println(outerfn(1))">>
         ELSE Locals("") \o Wrap(ch, 1, p, 0)) \o <<"println(\"end\")">>)

RECURSIVE ChainName(_)
ChainName(ch) == IF ch = <<>> THEN "" ELSE ch[1] \o (IF Len(ch) > 1 THEN "-" ELSE "") \o ChainName(Tail(ch))

VARIABLES fnw, ch, pi
Init == fnw \in BOOLEAN /\ ch \in Chains /\ pi \in 1..Len(Payloads)
Next == FALSE /\ UNCHANGED <<fnw, ch, pi>>
HasTask == \E i \in 1..Len(ch) : ch[i] = "task"
Emit == Applicable(fnw, ch, Payloads[pi]) =>
  PrintT(<<"CASE", ToJson([id |-> (IF fnw THEN "fn-" ELSE "top-") \o ChainName(ch) \o "_" \o Payloads[pi],
                           \* (`?` in a task would end the task before its completion message: such programs are only compiled)
                           mode |-> "both", run |-> ~(Payloads[pi] = "try" /\ InnerBoundary(ch) = "task"),
                           files |-> ("main.abra" :> Text(fnw, ch, Payloads[pi])),
                           mustreject |-> MustReject(ch, Payloads[pi]),
                           payload |-> Payloads[pi], innermost |-> ch[Len(ch)],
                           boundary |-> (IF \E i \in 1..Len(ch) : IsFnBoundary(ch[i]) THEN
                                            ch[CHOOSE i \in 1..Len(ch) : IsFnBoundary(ch[i]) /\ \A j \in (i + 1)..Len(ch) : ~IsFnBoundary(ch[j])]
                                         ELSE IF fnw THEN "fn" ELSE "none"),
                           nboundaries |-> Cardinality({i \in 1..Len(ch) : IsFnBoundary(ch[i])}) + (IF fnw THEN 1 ELSE 0),
                           hastask |-> HasTask])>>)
=============================================================================
