CONSTANTS MaxPad = 3 MaxGap = 2 MaxWrites = 2
INIT Init
NEXT Next
INVARIANT Emit
CHECK_DEADLOCK FALSE
