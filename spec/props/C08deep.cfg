CONSTANTS MaxDepth = 2
INIT Init
NEXT Next
INVARIANT Emit
CHECK_DEADLOCK FALSE
