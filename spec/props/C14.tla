------------------------------- MODULE C14 -------------------------------
(* C14: see spec/front/AbraMatch.tla (meaning of patterns), MatchCases.tla (universe, generated
   programs, expected verdicts) and MatchEnum.tla (enumeration); Prop = "C14" in the cfg. *)
EXTENDS MatchEnum
=============================================================================
