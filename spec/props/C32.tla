------------------------------- MODULE C32 -------------------------------
(***************************************************************************)
(* C32: a runtime error reports the file, line and function of the failing *)
(* operation, and the traceback lists the call site of every active call,  *)
(* innermost first.  AbraSem carries (file, function, call sites) through  *)
(* the evaluation; Render knows the line of every statement.  One state =  *)
(* (call depth, error kind, placement of the failing statement, file       *)
(* layout, lambda hop).                                                    *)
(***************************************************************************)
EXTENDS GcStress, Cases, TLCExt

Depths == <<1, 2, 3>>
Kinds == <<"divzero", "oob", "panic", "unwrap">>
Places == <<"plain", "if", "while", "for", "else">>
Layouts == <<"onefile", "callee-in-m1", "chain-m1-m2", "back-and-forth">>
Hops == <<"none", "lambda">>
Pads == <<0, 9, 18, 27, 36, 45, 54, 63, 72, 81>>     \* length of a leading comment line in the callee files (0 = none):
                                                     \* sweeps the byte offsets of the callees past the callers' lines
Styles == <<"block", "expr">>      \* `fn f(..) { .. }` with padding statements, or `fn f(..) -> int = expr` on one line

FailS(kd) ==
  CASE kd = "divzero" -> Let("bad", Bin("/", I(10), Bin("-", V("n"), V("n"))))
    [] kd = "oob"     -> Let("bad", Idx(Arr(<<I(1), I(2)>>), Bin("+", V("n"), I(5))))
    [] kd = "panic"   -> ExprS([k |-> "panic", e |-> Bin("..", S("boom "), V("n"))])
    [] kd = "unwrap"  -> Let("bad", [k |-> "unwrap", e |-> Call("nothing", <<V("n")>>)])
\* wrap a statement according to its placement; padding statements move it to a different line
Place(pl, s) ==
  CASE pl = "plain" -> <<PrintS(S("pad")), s>>
    [] pl = "if"    -> <<If(Bin(">=", V("n"), I(0)), <<PrintS(S("in if")), s>>, <<>>)>>
    [] pl = "else"  -> <<If(Bin("<", V("n"), I(0)), <<PrintS(S("no"))>>, <<PrintS(S("in else")), PrintS(S("pad")), s>>)>>
    [] pl = "while" -> <<Var("w", I(0)), While(Bin("<", V("w"), I(2)), <<Assign(V("w"), "+=", I(1)), If(Bin("==", V("w"), I(2)), <<s>>, <<>>)>>)>>
    [] pl = "for"   -> <<For("q", Count(I(3)), <<If(Bin("==", V("q"), I(1)), <<s>>, <<>>)>>)>>

\* function k of the chain: k = depth is the one that fails; others call the next one (directly or through a lambda)
FName(k) == "level" \o ToString(k)
\* the call to the next level: directly, or through a lambda created in this function
UsesLambda(k, hop) == hop = "lambda" /\ k = 1
CallExpr(k, hop) == IF UsesLambda(k, hop) THEN Call("go", <<Bin("+", V("n"), I(1))>>)
                    ELSE Bin("+", Call(FName(k + 1), <<Bin("+", V("n"), I(1))>>), I(1))
FailE(kd) ==
  CASE kd = "divzero" -> Bin("/", I(10), Bin("-", V("n"), V("n")))
    [] kd = "oob"     -> Idx(Arr(<<I(1), I(2)>>), Bin("+", V("n"), I(5)))
    [] kd = "panic"   -> [k |-> "panic", e |-> Bin("..", S("boom "), V("n"))]
    [] kd = "unwrap"  -> [k |-> "unwrap", e |-> Call("nothing", <<V("n")>>)]
FnKExpr(k, depth, kd) ==
  Fn(FName(k), <<Par("n", "int")>>, "int",
     <<ExprS(IF k = depth THEN FailE(kd) ELSE Bin("+", Call(FName(k + 1), <<Bin("+", V("n"), I(1))>>), I(1)))>>) @@ [style |-> "expr"]
FnKBlock(k, depth, kd, pl, hop) ==
  Fn(FName(k), <<Par("n", "int")>>, "int",
     <<PrintS(Bin("..", S("enter " \o FName(k) \o " "), V("n")))>> \o
     (IF k = depth THEN Place(pl, FailS(kd)) \o <<ExprS(V("n"))>>
      ELSE <<Var("r", I(0))>> \o
           (IF UsesLambda(k, hop) THEN <<Let("go", Lam(<<"v">>, <<"int">>, Bin("+", Call(FName(k + 1), <<V("v")>>), I(1))))>> ELSE <<>>) \o
           Place(IF k % 2 = 1 THEN pl ELSE "plain", Assign(V("r"), "=", CallExpr(k, hop))) \o <<ExprS(V("r"))>>))
FnK(k, depth, kd, pl, hop, sty) == IF sty = "expr" THEN FnKExpr(k, depth, kd) ELSE FnKBlock(k, depth, kd, pl, hop)
Nothing == Fn("nothing", <<Par("n", "int")>>, "option<int>", <<If(Bin(">", V("n"), I(1000)), <<[k |-> "ret", e |-> Some(V("n"))]>>, <<>>), ExprS(None)>>)

\* which file holds function k
FileOf(k, lay) ==
  CASE lay = "onefile" -> "main.abra"
    [] lay = "callee-in-m1" -> IF k = 1 THEN "main.abra" ELSE "m1.abra"
    [] lay = "chain-m1-m2" -> IF k = 1 THEN "main.abra" ELSE IF k = 2 THEN "m1.abra" ELSE "m2.abra"
    [] lay = "back-and-forth" -> IF k = 2 THEN "m1.abra" ELSE IF k = 3 THEN "m2.abra" ELSE "main.abra"
FnsIn(file, depth, kd, pl, hop, lay, sty) ==
  LET ks == {k \in 1..depth : FileOf(k, lay) = file} IN
  [i \in 1..Cardinality(ks) |-> FnK(CHOOSE k \in ks : Cardinality({j \in ks : j < k}) = i - 1, depth, kd, pl, hop, sty)]
RECURSIVE Xs(_)
Xs(n) == IF n = 0 THEN "" ELSE "x" \o Xs(n - 1)
Header(pad) == IF pad = 0 THEN <<>> ELSE <<"// " \o Xs(pad - 3)>>
Prog(depth, kd, pl, hop, lay, sty, pad, quiet) ==
  LET m1 == FnsIn("m1.abra", depth, kd, pl, hop, lay, sty)
      m2 == FnsIn("m2.abra", depth, kd, pl, hop, lay, sty)
      usesMain == (IF m1 # <<>> THEN <<"m1">> ELSE <<>>) \o (IF m2 # <<>> THEN <<"m2">> ELSE <<>>) \o <<"helpers">>
  IN [files |-> <<[name |-> "main.abra", uses |-> usesMain, types |-> <<>>,
                   fns |-> FnsIn("main.abra", depth, kd, pl, hop, lay, sty),
                   \* quiet: nothing but the call, so that no library function is compiled between the user's functions
                   main |-> IF quiet THEN <<Let("res", Call(FName(1), <<I(3)>>))>>
                            ELSE <<PrintS(S("start")), Let("res", Call(FName(1), <<I(3)>>)), PrintS(V("res"))>>]>>
               \o (IF m1 # <<>> THEN <<[name |-> "m1.abra", header |-> Header(pad), uses |-> (IF m2 # <<>> THEN <<"m2">> ELSE <<>>) \o <<"helpers">>, types |-> <<>>, fns |-> m1, main |-> <<>>]>> ELSE <<>>)
               \o (IF m2 # <<>> THEN <<[name |-> "m2.abra", header |-> Header(pad), uses |-> <<"helpers">>, types |-> <<>>, fns |-> m2, main |-> <<>>]>> ELSE <<>>)
               \o <<[name |-> "helpers.abra", uses |-> <<>>, types |-> <<>>, fns |-> <<Nothing>>, main |-> <<>>]>>]

VARIABLES di, ki, pi, li, hi, si, qi, quiet
Init == di \in 1..Len(Depths) /\ ki \in 1..Len(Kinds) /\ pi \in 1..Len(Places) /\ li \in 1..Len(Layouts) /\ hi \in 1..Len(Hops)
        /\ si \in 1..Len(Styles) /\ qi \in 1..Len(Pads) /\ quiet \in BOOLEAN
Next == FALSE /\ UNCHANGED <<di, ki, pi, li, hi, si, qi, quiet>>
Sensible == /\ (Hops[hi] = "lambda" => Depths[di] >= 2)
            /\ (Layouts[li] = "chain-m1-m2" => Depths[di] >= 3) /\ (Layouts[li] = "back-and-forth" => Depths[di] >= 3)
            /\ (Layouts[li] = "callee-in-m1" => Depths[di] >= 2)
            /\ (Styles[si] = "expr" => Places[pi] = "plain" /\ Hops[hi] = "none")
            /\ (quiet => Styles[si] = "expr" /\ Kinds[ki] \in {"divzero", "oob"})
            \* the offset sweep is done for the multi-file layouts with three levels
            /\ (Pads[qi] # 0 => Depths[di] = 3 /\ Layouts[li] \in {"chain-m1-m2", "back-and-forth"} /\ Places[pi] = "plain" /\ Hops[hi] = "none")
Emit == Sensible =>
  LET L == Layout(Prog(Depths[di], Kinds[ki], Places[pi], Hops[hi], Layouts[li], Styles[si], Pads[qi], quiet))
      r == Run(L.sem, 500)
      id == "d" \o ToString(Depths[di]) \o "_" \o Kinds[ki] \o "_" \o Places[pi] \o "_" \o Layouts[li] \o "_" \o Hops[hi] \o "_" \o Styles[si] \o "_p" \o ToString(Pads[qi]) \o (IF quiet THEN "_quiet" ELSE "")
  IN PrintT(<<"CASE", ToJson(RunCase(id, L, r) @@ [kind |-> Kinds[ki], place |-> Places[pi], layout |-> Layouts[li], hop |-> Hops[hi]])>>)
=============================================================================
