CONSTANTS LamDepth = 3 TwoVars = FALSE
INIT Init
NEXT Next
INVARIANT Emit
CHECK_DEADLOCK FALSE
