----------------------------- MODULE C21 -----------------------------
(***************************************************************************)
(* C21: names resolve to the innermost visible declaration; imports are    *)
(* exact.  Every non-initial state of this spec is one *layout* (declared  *)
(* names per file, import forms, nesting of scopes and their binders); the *)
(* invariant evaluates spec/front/AbraResolve on it and writes the         *)
(* multi-file program(s) with the expected observation:                    *)
(*   full     every use; expected: the exact set of unresolved-identifier  *)
(*            diagnostics (file, line, column, length; also the byte       *)
(*            range) and of clash messages, or -                           *)
(*            when there are none - the printed identities                 *)
(*   pruned   the uses the model resolves; must compile and print the      *)
(*            identities of the denoted declarations                       *)
(*   *-safe   the same without the uses that a `for` variable surviving    *)
(*            its loop would capture (the variants containing such uses    *)
(*            carry the key of that defect family)                         *)
(* Two families, both enumerated exhaustively over their boxes:            *)
(*   imp    declaration sets x import forms of main (m1, m2) x m1 -> m2    *)
(*   scope  top-level let x two nested scopes (kind, binder) x later let   *)
(*          x function parameter                                           *)
(* Environment: C21_FAM, C21_TIER, C21_SEED, C21_NSLICES, OUTDIR           *)
(***************************************************************************)
EXTENDS AbraResolve, Json, IOUtils, SequencesExt
VARIABLE lay

Tier == IOEnv.C21_TIER
Fam == IOEnv.C21_FAM
Seed == atoi(IOEnv.C21_SEED)
NSlices == atoi(IOEnv.C21_NSLICES)

ForLeakKey == "C21|for-variable-visible-after-loop"

SubSeqsOf(pool) == {SelectSeq(pool, LAMBDA x : x \in S) : S \in SUBSET SeqToSet(pool)}
NoImp == [form |-> "none", names |-> <<>>, alias |-> ""]
Forms(pool, aliases) ==
  {NoImp, [form |-> "glob", names |-> <<>>, alias |-> ""]}
  \cup {[form |-> "incl", names |-> L, alias |-> ""] : L \in SubSeqsOf(pool) \ {<<>>}}
  \cup {[form |-> "excl", names |-> L, alias |-> ""] : L \in SubSeqsOf(pool) \ {<<>>}}
  \cup {[form |-> "as", names |-> <<>>, alias |-> al] : al \in aliases}

\* seed-dependent renaming of the pool (quick tier: which names fill the restricted dimensions)
Rot(pool) == [i \in 1..Len(pool) |-> pool[((i - 1 + Seed) % Len(pool)) + 1]]

\* ---------------------------------------------------------------- family imp
\* miss: main also imports a file that does not exist; dl: declarations after the statements that use them;
\* (with dl) the imported files live in a subdirectory and are imported by path (`use lib/m1`)
ImpBox(pool, dmS, d1S, d2S, f1S, f2S, f12S, missS, dlS) ==
  {[fam |-> "imp", pool |-> pool, dm |-> dm, d1 |-> d1, d2 |-> d2, f1 |-> f1, f2 |-> f2, f12 |-> f12,
    miss |-> miss, dl |-> dl] :
     dm \in dmS, d1 \in d1S, d2 \in d2S, f1 \in f1S, f2 \in f2S, f12 \in f12S, miss \in missS, dl \in dlS}
P2 == <<"a", "b">>
P3 == <<"a", "b", "c">>
F12All == {NoImp, [form |-> "glob", names |-> <<>>, alias |-> ""], [form |-> "as", names |-> <<>>, alias |-> "q"]}
Glob == [form |-> "glob", names |-> <<>>, alias |-> ""]
AsQ == [form |-> "as", names |-> <<>>, alias |-> "q"]
ImpLayouts ==
  IF Tier = "thorough"
  THEN \* which names collide: declared sets x every pair of import forms of main
       ImpBox(P2, SubSeqsOf(P2), SubSeqsOf(P2) \ {<<>>}, SubSeqsOf(P2) \ {<<>>}, Forms(P2, {"p", "a"}), Forms(P2, {"p", "q"}),
              {Glob}, {FALSE}, {FALSE})
       \* m1 does not import m2 / imports it under a prefix
       \cup ImpBox(P2, {<<"a">>}, {P2}, {<<"a">>}, Forms(P2, {"p", "a"}), Forms(P2, {"p", "q"}), {NoImp, AsQ}, {FALSE}, {FALSE})
       \* a missing file, declarations after their uses, files in a subdirectory
       \cup ImpBox(P2, {<<"a">>}, {P2}, {<<"b">>}, Forms(P2, {"p", "a"}), Forms(P2, {"p", "q"}), {Glob}, {TRUE}, {TRUE})
       \* three names: lists of one, two and three names
       \cup ImpBox(P3, {<<"c">>}, {P3}, {<<"b", "c">>}, Forms(P3, {"p"}), {f \in Forms(P3, {"q"}) : Len(f.names) # 1},
                   {NoImp}, {FALSE}, {FALSE})
  ELSE LET r == Rot(P2)
           f12 == <<Glob, AsQ, NoImp>>[(Seed % 3) + 1]
           F2 == {f \in Forms(P2, {"p", "q"}) : f.form \in {"none", "glob", "as"} \/ f.names \in {<<r[1]>>, P2}}
       IN ImpBox(P2, {<<>>, <<r[1]>>}, {<<r[1]>>, P2}, {<<r[2]>>, P2}, Forms(P2, {"p", "a"}), F2, {f12}, {FALSE}, {FALSE})
          \cup ImpBox(P2, {<<"a">>}, {P2}, {<<"b">>}, Forms(P2, {"p", "a"}), F2, {Glob}, {TRUE}, {TRUE})

RECURSIVE QUses(_, _)
QUses(prefs, pool) == IF prefs = <<>> THEN <<>>
                      ELSE [i \in 1..Len(pool) |-> QUse(prefs[1], pool[i])] \o QUses(Tail(prefs), pool)
Uses(pool, prefs) == [i \in 1..Len(pool) |-> Use(pool[i])] \o QUses(prefs, pool)
ImpsOf(t, f) == IF f.form = "none" THEN <<>> ELSE <<Imp(t, f.form, f.names, f.alias)>>

ImpProgram(l) ==
  LET prefs == <<"p", "q">> \o (IF l.f1.alias = "a" THEN <<"a">> ELSE <<>>)
      U == Uses(l.pool, prefs)
      n1 == IF l.dl THEN "lib/m1" ELSE "m1"
      n2 == IF l.dl THEN "lib/m2" ELSE "m2"
      main == FileRec("main",
                ImpsOf(n1, l.f1) \o ImpsOf(n2, l.f2) \o (IF l.miss THEN <<Imp("m9", "glob", <<>>, "")>> ELSE <<>>),
                l.dm,
                <<ProbeFn("pr0", l.pool[Len(l.pool)], U)>>,
                U \o <<Use("pr1"), Use("pr0"), Scope("block", l.pool[1], U)>> \o U,
                l.dl)
      m1 == FileRec(n1, ImpsOf(n2, l.f12), l.d1, <<ProbeFn("pr1", "k", Uses(l.pool, <<"q">>))>>, <<>>, l.dl)
      m2 == FileRec(n2, <<>>, l.d2, <<>>, <<>>, FALSE)
  IN [files |-> <<main, m1, m2>>]

FormCode(f) == CASE f.form = "none" -> "n" [] f.form = "glob" -> "g"
                 [] f.form = "incl" -> "i" \o JoinC(f.names) [] f.form = "excl" -> "x" \o JoinC(f.names)
                 [] f.form = "as" -> "s" \o f.alias
NamesCode(ns) == IF ns = <<>> THEN "0" ELSE JoinC(ns)
ImpId(l) == "imp" \o ToString(Len(l.pool)) \o "_" \o NamesCode(l.dm) \o "_" \o NamesCode(l.d1) \o "_" \o NamesCode(l.d2)
            \o "_" \o FormCode(l.f1) \o "_" \o FormCode(l.f2) \o "_" \o FormCode(l.f12)
            \o (IF l.miss THEN "_miss" ELSE "") \o (IF l.dl THEN "_dl" ELSE "")

\* ---------------------------------------------------------------- family scope
ScopeBox(tS, k1S, b1S, k2S, b2S, lS, pmS) ==
  {[fam |-> "scope", t |-> t, k1 |-> k1, b1 |-> b1, k2 |-> k2, b2 |-> b2, l |-> l, pm |-> pm] :
     t \in tS, k1 \in k1S, b1 \in b1S, k2 \in k2S, b2 \in b2S, l \in lS, pm \in pmS}
N3 == {"", "a", "b", "c"}
ScopeLayouts ==
  IF Tier = "thorough"
  THEN ScopeBox(N3, ScopeKinds, N3, ScopeKinds, N3, N3, {"k"})
       \cup ScopeBox(N3, {"block"}, N3, {"block"}, {""}, {""}, {"a", "b", "c"})
  ELSE LET r == Rot(P3)
       IN ScopeBox({"", r[1]}, ScopeKinds, {"", r[1], r[3]}, ScopeKinds, {"", r[1]}, {"", r[3]}, {"k"})
          \cup ScopeBox({"", r[1]}, {"block"}, {"", r[2]}, {"block"}, {""}, {""}, {"a", "b", "c"})

LetOpt(n) == IF n = "" THEN <<>> ELSE <<LetS(n)>>
ScopeProgram(l) ==
  LET U == <<Use("a"), Use("b"), Use("c"), QUse("p", "c")>>
      main == FileRec("main", <<Imp("m1", "glob", <<>>, ""), Imp("m2", "as", <<>>, "p")>>, <<"a">>,
                <<ProbeFn("pr0", l.pm, U)>>,
                U \o LetOpt(l.t) \o U
                  \o <<Scope(l.k1, l.b1, U \o <<Scope(l.k2, l.b2, U)>> \o U \o LetOpt(l.l) \o U)>>
                  \o U \o <<Use("pr0")>>,
                FALSE)
      m1 == FileRec("m1", <<>>, <<"b">>, <<>>, <<>>, FALSE)
      m2 == FileRec("m2", <<>>, <<"a", "c">>, <<>>, <<>>, FALSE)
  IN [files |-> <<main, m1, m2>>]
Nm(n) == IF n = "" THEN "0" ELSE n
ScopeId(l) == "scope_" \o Nm(l.t) \o "_" \o l.k1 \o "-" \o Nm(l.b1) \o "_" \o l.k2 \o "-" \o Nm(l.b2)
              \o "_" \o Nm(l.l) \o "_" \o l.pm

\* ---------------------------------------------------------------- family timp: the imp layouts with enums as the declarations
\* (names Ta, Tb[, Tc]; uses are matches with qualified variant patterns, in main only)
TName(n) == "T" \o n
TNames(ns) == [i \in 1..Len(ns) |-> TName(ns[i])]
TForm(f) == [f EXCEPT !.names = TNames(f.names)]
TImpProgram(l) ==
  LET n1 == IF l.dl THEN "lib/m1" ELSE "m1"
      n2 == IF l.dl THEN "lib/m2" ELSE "m2"
      imps(n, f) == IF f.form = "none" THEN <<>> ELSE <<Imp(n, f.form, TNames(f.names), f.alias)>>
      U == [i \in 1..Len(l.pool) |-> TUse(TName(l.pool[i]))]
      main == FileRecT("main", imps(n1, l.f1) \o imps(n2, l.f2), TNames(l.dm), U, l.dl)
      m1 == FileRecT(n1, imps(n2, l.f12), TNames(l.d1), <<>>, l.dl)
      m2 == FileRecT(n2, <<>>, TNames(l.d2), <<>>, FALSE)
  IN [files |-> <<main, m1, m2>>]

\* ---------------------------------------------------------------- cases
ProgramOf(l) == CASE l.fam = "imp" -> ImpProgram(l) [] l.fam = "timp" -> TImpProgram(l) [] OTHER -> ScopeProgram(l)
IdOf(l) == CASE l.fam = "imp" -> ImpId(l) [] l.fam = "timp" -> "t" \o ImpId(l) [] OTHER -> ScopeId(l)
Mode(prune, safe) == IF prune THEN (IF safe THEN "safe" ELSE "pruned") ELSE (IF safe THEN "fullsafe" ELSE "full")

MkCase(l, v, variant) ==
  [id |-> IdOf(l) \o "/" \o variant, layout |-> l, variant |-> variant, files |-> v.files,
   mode |-> v.mode, expect |-> v.expect, expect_diags |-> v.expect_diags, ignore |-> v.ignore, tags |-> v.tags,
   msg_unresolved |-> MsgUnresolved, clash_suffix |-> ClashSuffix,
   nclash |-> v.nclash, nunres |-> v.nunres, ntaint |-> v.ntaint, nlines |-> v.nlines]
  @@ (IF v.ntaint > 0 THEN [key |-> ForLeakKey] ELSE <<>>)

CasesOf(l) ==
  LET P == ProgramOf(l)
      full == Verdict(P, [prune |-> FALSE, safe |-> FALSE])
      pruned == Verdict(P, [prune |-> TRUE, safe |-> FALSE])
      needPruned == full.nclash = 0 /\ ~full.ok
      needSafe == full.ntaint > 0
  IN <<MkCase(l, full, "full")>>
     \o (IF needPruned THEN <<MkCase(l, pruned, "pruned")>> ELSE <<>>)
     \o (IF needSafe THEN <<MkCase(l, Verdict(P, [prune |-> FALSE, safe |-> TRUE]), "fullsafe")>> ELSE <<>>)
     \o (IF needSafe /\ needPruned THEN <<MkCase(l, Verdict(P, [prune |-> TRUE, safe |-> TRUE]), "safe")>> ELSE <<>>)

\* the enum layouts: the imp layouts without a missing file
TImpLayouts == {[l EXCEPT !.fam = "timp"] : l \in {x \in ImpLayouts : ~x.miss}}
Layouts == CASE Fam = "imp" -> ImpLayouts [] Fam = "timp" -> TImpLayouts [] OTHER -> ScopeLayouts
LaySeq == SetToSeq(Layouts)
\* two levels, so that TLC's workers share the enumeration: initial states are slices, their successors the layouts
Init == lay \in {[fam |-> "slice", k |-> k] : k \in 0..(NSlices - 1)}
Next == /\ lay.fam = "slice"
        /\ \E i \in 1..Len(LaySeq) : i % NSlices = lay.k /\ lay' = LaySeq[i]
Emit == lay.fam # "slice" => JsonSerialize(IOEnv.OUTDIR \o "/" \o IdOf(lay) \o ".json", CasesOf(lay))
=============================================================================
