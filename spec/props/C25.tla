----------------------------- MODULE C25 -----------------------------
(***************************************************************************)
(* C25: sort / sort_by / sort_by_key yield a sorted permutation, stably    *)
(* for sort_by and sort_by_key.                                            *)
(* This module ENUMERATES inputs (one state = one input key sequence = one *)
(* program that sorts fresh copies of the input with every method of       *)
(* Methods and reports each resulting array, element by element, through a *)
(* host function).  What is correct is defined in Sort.tla and decided on  *)
(* the recorded outputs by C25V.tla.                                       *)
(*                                                                         *)
(* Families                                                                *)
(*   E  every key sequence of length <= ELen over the keys 0..EKeys-1      *)
(*   S  structured sequences (sorted, reversed, saw-tooth, organ-pipe, few *)
(*      keys, all equal, descending blocks of 32) at the lengths around    *)
(*      the run size 32 and its doublings (SLens)                          *)
(*   R  (C25R.cfg, tlc -simulate) random length and key range              *)
(***************************************************************************)
EXTENDS Integers, Sequences, FiniteSets, TLC, Json, IOUtils, TLCExt

\* ---------------------------------------------------------------- the methods under test
\* kind: element type of the array ("int": keys; "pair": (key, tag); "bpair": (key mod 2 = 1, tag))
\* ord: the order the result must follow (Sort!LeqBy); stable: whether stability is required by the property
\* keyf: how the element's key derives from the input key
Methods == <<
  [name |-> "sort/int",               kind |-> "int",   ord |-> "leq", stable |-> FALSE, keyf |-> "id",
   call |-> ".sort()"],
  [name |-> "sort/pair",              kind |-> "pair",  ord |-> "lex", stable |-> FALSE, keyf |-> "id",
   call |-> ".sort()"],
  [name |-> "sort_by/pair/<=",        kind |-> "pair",  ord |-> "leq", stable |-> TRUE,  keyf |-> "id",
   call |-> ".sort_by((x, y) -> { let (k1, _) = x; let (k2, _) = y; k1 <= k2 })"],
  [name |-> "sort_by_key/pair",       kind |-> "pair",  ord |-> "leq", stable |-> TRUE,  keyf |-> "id",
   call |-> ".sort_by_key(p -> { let (k, _) = p; k })"],
  [name |-> "sort_by/pair/>=",        kind |-> "pair",  ord |-> "geq", stable |-> TRUE,  keyf |-> "id",
   call |-> ".sort_by((x, y) -> { let (k1, _) = x; let (k2, _) = y; k1 >= k2 })"],
  \* a strict comparator (the reference's own example `sort_by((a, b) -> a > b)`): the parameter is named
  \* less_than_or_equal, so stability is not claimed for it; permutation and order are
  [name |-> "sort_by/pair/<(strict)", kind |-> "pair",  ord |-> "lt",  stable |-> FALSE, keyf |-> "id",
   call |-> ".sort_by((x, y) -> { let (k1, _) = x; let (k2, _) = y; k1 < k2 })"],
  [name |-> "sort/bpair",             kind |-> "bpair", ord |-> "lex", stable |-> FALSE, keyf |-> "mod2",
   call |-> ".sort()"],
  [name |-> "sort_by_key/bpair",      kind |-> "bpair", ord |-> "leq", stable |-> TRUE,  keyf |-> "mod2",
   call |-> ".sort_by_key(p -> { let (b, _) = p; b })"],
  [name |-> "sort_by_key/pair/neg",   kind |-> "pair",  ord |-> "geq", stable |-> TRUE,  keyf |-> "id",
   call |-> ".sort_by_key(p -> { let (k, _) = p; 0 - k })"] >>
NM == Len(Methods)

\* ---------------------------------------------------------------- program text
RECURSIVE Join(_, _)
Join(ss, sep) == IF ss = <<>> THEN "" ELSE IF Len(ss) = 1 THEN ss[1] ELSE ss[1] \o sep \o Join(Tail(ss), sep)
\* balanced concatenation keeps the recursion shallow for arrays of a thousand elements
RECURSIVE JoinR(_, _, _, _)
JoinR(ss, sep, lo, hi) == IF lo > hi THEN "" ELSE IF lo = hi THEN ss[lo]
                          ELSE LET mid == (lo + hi) \div 2 IN JoinR(ss, sep, lo, mid) \o sep \o JoinR(ss, sep, mid + 1, hi)
JoinAll(ss, sep) == JoinR(ss, sep, 1, Len(ss))

\* The input is written once, as an array of (key, key mod 2 = 1, tag); every method gets its own fresh array
\* built from it by push (arrays of int, of (key, tag) and of (bool, tag)).
SrcElem(k, tag) == "(" \o ToString(k) \o ", " \o (IF k % 2 = 1 THEN "true" ELSE "false") \o ", " \o ToString(tag) \o ")"
ElemType(kind) == CASE kind = "int" -> "int" [] kind = "pair" -> "(int, int)" [] kind = "bpair" -> "(bool, int)"
PushExpr(kind)  == CASE kind = "int" -> "k" [] kind = "pair" -> "(k, t)" [] kind = "bpair" -> "(b, t)"
EmitLoop(m, kind, a) ==
  CASE kind = "int"   -> "for x in " \o a \o " { emit(" \o ToString(m) \o ", x, 0) }"
    [] kind = "pair"  -> "for p in " \o a \o " { let (k, t) = p; emit(" \o ToString(m) \o ", k, t) }"
    [] kind = "bpair" -> "for p in " \o a \o " { let (b, t) = p; emitb(" \o ToString(m) \o ", b, t) }"
AName(m) == "a" \o ToString(m)
Header == << "#host fn emit(m: int, k: int, tag: int) -> void", "#host fn emitb(m: int, k: bool, tag: int) -> void" >>
ProgLines(keys) ==
  Header \o
  << "let src: array<(int, bool, int)> = [" \o JoinAll([i \in 1..Len(keys) |-> SrcElem(keys[i], i - 1)], ", ") \o "]" >> \o
  [m \in 1..NM |-> "let " \o AName(m) \o ": array<" \o ElemType(Methods[m].kind) \o "> = []"] \o
  << "for e in src {", "  let (k, b, t) = e" >> \o
  [m \in 1..NM |-> "  " \o AName(m) \o ".push(" \o PushExpr(Methods[m].kind) \o ")"] \o
  << "}" >> \o
  [j \in 1..2 * NM |-> LET m == (j + 1) \div 2 IN
                       IF j % 2 = 1 THEN AName(m) \o Methods[m].call ELSE EmitLoop(m, Methods[m].kind, AName(m))]
ProgText(keys) == Join(ProgLines(keys), "\n") \o "\n"

HostFns == << [name |-> "emit",  args |-> <<"int", "int", "int">>,  ret |-> "void"],
              [name |-> "emitb", args |-> <<"int", "bool", "int">>, ret |-> "void"] >>

CaseOf(id, fam, shape, keys) ==
  [id |-> id, fam |-> fam, shape |-> shape, n |-> Len(keys), keys |-> keys,
   distinct_keys |-> Cardinality({keys[i] : i \in 1..Len(keys)}),
   methods |-> [m \in 1..NM |-> [name |-> Methods[m].name, stable |-> Methods[m].stable]],
   files |-> ("main.abra" :> ProgText(keys)), hostfns |-> HostFns, maxsteps |-> 400000000]

\* ---------------------------------------------------------------- parameters from the driver
RECURSIVE ParseNat(_, _)
DigitVal(ch) == CHOOSE d \in 0..9 : ToString(d) = ch
ParseNat(s, acc) == IF s = "" THEN acc ELSE ParseNat(SubSeq(s, 2, Len(s)), (acc * 10 + DigitVal(SubSeq(s, 1, 1))) % 100000)
EnvOr(name, dflt) == IF name \in DOMAIN IOEnv THEN IOEnv[name] ELSE dflt
Tier == EnvOr("TIER", "quick")

\* ---------------------------------------------------------------- family E: exhaustive short arrays
EKeys == 3
ELen == IF Tier = "thorough" THEN 6 ELSE 5
RECURSIVE Pow(_, _)
Pow(b, e) == IF e = 0 THEN 1 ELSE b * Pow(b, e - 1)
ArrOf(len, j) == [p \in 1..len |-> (j \div Pow(EKeys, p - 1)) % EKeys]
ESel == UNION {{[f |-> "E", len |-> len, j |-> j] : j \in 0..Pow(EKeys, len) - 1} : len \in 0..ELen}

\* ---------------------------------------------------------------- family S: structured arrays around the run boundaries
SLens == IF Tier = "thorough" THEN <<31, 32, 33, 63, 64, 65, 95, 96, 97, 127, 128, 129, 255, 256, 257, 511, 512, 513, 1025>>
         ELSE <<31, 32, 33, 64, 65, 129, 257>>
Shapes == <<"sorted", "reversed", "sawtooth", "organpipe", "fewkeys", "allequal", "revblocks", "twokeys-alt",
            "sortedlast", "sortedtail">>      \* presorted input with one / three small keys appended
MinOf2(a, b) == IF a < b THEN a ELSE b
ShapeKey(sh, n, i) ==       \* i = 0..n-1
  CASE sh = "sorted"    -> i
    [] sh = "reversed"  -> n - i
    [] sh = "sawtooth"  -> i % 7
    [] sh = "organpipe" -> MinOf2(i, n - 1 - i)
    [] sh = "fewkeys"   -> (i * 7) % 3
    [] sh = "allequal"  -> 5
    [] sh = "revblocks" -> (n - i) \div 32          \* blocks of equal keys, descending: whole runs move past each other
    [] sh = "twokeys-alt" -> (i + 1) % 2
    [] sh = "sortedlast" -> IF i = n - 1 THEN 0 ELSE i + 1
    [] sh = "sortedtail" -> IF i >= n - 3 THEN i - (n - 3) ELSE i + 5
SSel == {[f |-> "S", li |-> li, si |-> si] : li \in 1..Len(SLens), si \in 1..Len(Shapes)}

\* Initial states are NG groups and every case is the successor of its group, so that TLC's workers share the work
\* (the successors of one state are computed by one worker).
NG == 24
GroupOf(x) == IF x.f = "E" THEN (x.len + x.j) % NG ELSE (x.li * Len(Shapes) + x.si) % NG
VARIABLE c
Init == c \in {[f |-> "grp", g |-> g] : g \in 0..NG - 1}
Next == c.f = "grp" /\ c' \in {x \in ESel \cup SSel : GroupOf(x) = c.g}
Emit ==
  CASE c.f = "E" -> LET id == "E_" \o ToString(c.len) \o "_" \o ToString(c.j)
                    IN JsonSerialize(IOEnv.OUTDIR \o "/" \o id \o ".json", CaseOf(id, "E", "all", ArrOf(c.len, c.j)))
    [] c.f = "S" -> LET n == SLens[c.li]
                        sh == Shapes[c.si]
                        id == "S_" \o ToString(n) \o "_" \o sh
                    IN JsonSerialize(IOEnv.OUTDIR \o "/" \o id \o ".json",
                                     CaseOf(id, "S", sh, [i \in 1..n |-> ShapeKey(sh, n, i - 1)]))
    [] OTHER -> TRUE

\* ---------------------------------------------------------------- family R: random (tlc -simulate, C25R.cfg)
Pick(S) == RandomElement(S)
RMax == IF Tier = "thorough" THEN 700 ELSE 200
InitR == c = [f |-> "start"]
\* two steps: length and key range become state values before the keys are drawn
NextR == \/ c.f = "start" /\ c' = [f |-> "Rparam", n |-> IF Pick(1..4) = 1 THEN Pick(0..70) ELSE Pick(0..RMax),
                                   r |-> Pick({1, 2, 5, 40, 1000000})]
         \/ c.f = "Rparam" /\ c' = [f |-> "R", r |-> c.r, keys |-> [i \in 1..c.n |-> Pick(-c.r..c.r)]]
EmitR == c.f = "R" =>
   LET id == "R_" \o ToString(TLCGet("stats").traces)
   IN JsonSerialize(IOEnv.OUTDIR \o "/" \o id \o ".json", CaseOf(id, "R", "range" \o ToString(c.r), c.keys))
=============================================================================
