----------------------------- MODULE C34 -----------------------------
(* C34: editor analysis never crashes on incomplete code.
   C34.cfg / C34x.cfg: the random and the exhaustive enumerator of spec/front/FrontGen.tla (inputs; the
   driver asks for a larger share of prefixes: "every prefix of a program being typed");
   C34v.cfg: validation, states = observations: the harness ran check_lsp, errors() and, at every
   character-boundary offset of the text, definition_at / type_at / completions_at; every observation
   is checked against LegalC34 of spec/front/Pipeline.tla; an illegal one is printed with its key. *)
EXTENDS FrontGen

Obs == ndJsonDeserialize(IOEnv.OBS)
InitV == st \in { St("obs", k, NoD, <<>>) : k \in 1..Len(Obs) }
NextV == UNCHANGED st
Verdict == st.g = "obs" =>
   LET o == Obs[st.p] IN
   IF LegalC34(o) THEN TRUE
   ELSE PrintT(<<"CASE", ToJson([id |-> o.id, legal |-> FALSE, keys |-> KeysC34(o), expect |-> ExpectC34])>>)
=============================================================================
