CONSTANTS N1 = 60 N2 = 400 Fuel = 100000
INIT Init
NEXT Next
INVARIANT Verdict
CHECK_DEADLOCK FALSE
