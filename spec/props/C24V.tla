----------------------------- MODULE C24V -----------------------------
(***************************************************************************)
(* C24, decision part: validates recorded comparison tables and hashes     *)
(* against Laws.tla.  Input IOEnv.OBS: one JSON record per executed        *)
(* program of C24.tla                                                      *)
(*   {id, ty, vals, n, paths, hasord, hashash,                             *)
(*    obs: {compile, status, host: [{f, args}]}}                           *)
(* host = the log of the rel/releq/hsh calls: rel(p, i, j, ==, !=, <, <=,  *)
(* >, >=), releq(p, i, j, ==, !=), hsh(i, hash(vs[i]), hash(ws[i])); ints  *)
(* as decimal strings.  One state = one record; the verdict (violated laws *)
(* and table cells, grouped by key) goes to OUTDIR/v_<k>.json.             *)
(***************************************************************************)
EXTENDS Laws, Json, IOUtils, TLCExt

Recs == ndJsonDeserialize(IOEnv.OBS)
Force(s) == s \o <<>>        \* an explicit tuple instead of an unevaluated [i \in S |-> e]

RECURSIVE ContainsArrOfNil(_)
ContainsArrOfNil(ty) ==
  CASE ty.k = "arr" -> ty.of.k = "nil" \/ ContainsArrOfNil(ty.of)
    [] ty.k = "tup" -> \E i \in 1..Len(ty.ts) : ContainsArrOfNil(ty.ts[i])
    [] OTHER -> FALSE

PathIndex(rec, p) == CHOOSE q \in 1..Len(rec.paths) : rec.paths[q] = p

\* ---------------------------------------------------------------- the recorded table of one path
\* layout of the log (see C24!ProgLines): for each i: for each j: paths op, gen, iface; then (imm) for each j; finally hashes
RowLen(rec) == rec.n * 3 + (IF Len(rec.paths) = 4 THEN rec.n ELSE 0)
Idx(rec, q, i, j) == IF q <= 3 THEN (i - 1) * RowLen(rec) + (j - 1) * 3 + q ELSE (i - 1) * RowLen(rec) + 3 * rec.n + j
HashIdx(rec, i) == rec.n * RowLen(rec) + i
WellFormed(rec) ==
  LET h == rec.obs.host  N == rec.n IN
  /\ Len(h) = N * RowLen(rec) + (IF rec.hashash THEN N ELSE 0)
  /\ \A q \in 1..Len(rec.paths) : \A i, j \in 1..N :
        LET e == h[Idx(rec, q, i, j)] IN
        /\ e.f = (IF rec.hasord THEN "rel" ELSE "releq")
        /\ e.args[1] = ToString(q - 1) /\ e.args[2] = ToString(i - 1) /\ e.args[3] = ToString(j - 1)
  /\ rec.hashash => \A i \in 1..N : LET e == h[HashIdx(rec, i)] IN e.f = "hsh" /\ e.args[1] = ToString(i - 1)

Col(rec, q, a) == LET N == rec.n IN
  Force([i \in 1..N |-> Force([j \in 1..N |-> rec.obs.host[Idx(rec, q, i, j)].args[a]])])
Table(rec, q) ==
  IF rec.hasord THEN [eq |-> Col(rec, q, 4), ne |-> Col(rec, q, 5), lt |-> Col(rec, q, 6), le |-> Col(rec, q, 7),
                      gt |-> Col(rec, q, 8), ge |-> Col(rec, q, 9)]
  ELSE [eq |-> Col(rec, q, 4), ne |-> Col(rec, q, 5)]

\* ---------------------------------------------------------------- violations
Show2(rec, op, i, j) == ValText(rec.vals[i]) \o " " \o op \o " " \o ValText(rec.vals[j])
TF(b) == IF b THEN "true" ELSE "false"

Violations(rec) ==
  LET N == rec.n
      vals == rec.vals
      CM == Force([i \in 1..N |-> Force([j \in 1..N |-> Cmp(vals[i], vals[j])])])
      DM(i, j) == Decider(vals[i], vals[j])
      ops == IF rec.hasord THEN OpNames ELSE <<"==", "!=">>
      laws2 == IF rec.hasord THEN EqLaws2 \o OrdLaws2 ELSE EqLaws2
      PerPath(q) ==
        LET R == Table(rec, q)
            pname == rec.paths[q]
            cells == {x \in [op : {ops[o] : o \in 1..Len(ops)}, i : 1..N, j : 1..N] :
                         LET want == Expected(x.op, CM[x.i][x.j]) IN want # "?" /\ (want = "T") # Get(R, x.op, x.i, x.j)}
            refl == {i \in 1..N : ~EqRefl(R, i)}
            l2 == {x \in [law : {laws2[l] : l \in 1..Len(laws2)}, i : 1..N, j : 1..N] : ~Law2(x.law, R, x.i, x.j)}
            \* transitivity: for every pair in the relation, every third value
            Trans(T, law) == UNION {{[law |-> law, i |-> p[1], j |-> p[2], k |-> k] :
                                        k \in {k \in 1..N : T[p[2]][k] /\ ~T[p[1]][k]}} :
                                    p \in {p \in (1..N) \X (1..N) : T[p[1]][p[2]]}}
            l3 == Trans(R.eq, "EqTrans") \cup (IF rec.hasord THEN Trans(R.le, "LeTrans") ELSE {})
            hv == IF rec.hashash THEN {x \in [i : 1..N, j : 1..N] :
                        R.eq[x.i][x.j] /\ rec.obs.host[HashIdx(rec, x.i)].args[2] # rec.obs.host[HashIdx(rec, x.j)].args[3]}
                  ELSE {}
        IN {[key |-> "C24|" \o x.op \o "|decider=" \o DM(x.i, x.j) \o "|" \o CM[x.i][x.j],
             what |-> "path " \o pname \o ": " \o Show2(rec, x.op, x.i, x.j) \o " gave " \o TF(Get(R, x.op, x.i, x.j)) \o
                      ", the reference fixes " \o TF(~Get(R, x.op, x.i, x.j))] : x \in cells}
           \cup {[key |-> "C24|law=EqRefl|decider=" \o DM(i, i),
                  what |-> "path " \o pname \o ": " \o Show2(rec, "==", i, i) \o " gave false (== not reflexive)"] : i \in refl}
           \cup {[key |-> "C24|law=" \o x.law \o "|decider=" \o DM(x.i, x.j) \o "|" \o CM[x.i][x.j],
                  what |-> "path " \o pname \o ": law " \o x.law \o " fails for x = " \o ValText(vals[x.i]) \o ", y = " \o
                           ValText(vals[x.j])] : x \in l2}
           \cup {[key |-> "C24|law=" \o x.law \o "|type=" \o TypeText(rec.ty),
                  what |-> "path " \o pname \o ": law " \o x.law \o " fails for x = " \o ValText(vals[x.i]) \o ", y = " \o
                           ValText(vals[x.j]) \o ", z = " \o ValText(vals[x.k])] : x \in l3}
           \cup {[key |-> "C24|law=Hash|decider=" \o DM(x.i, x.j) \o "|" \o CM[x.i][x.j],
                  what |-> "path " \o pname \o ": " \o Show2(rec, "==", x.i, x.j) \o " is true but the hashes differ"] : x \in hv}
  IN UNION {PerPath(q) : q \in 1..Len(rec.paths)}

RECURSIVE AsSeq(_)
AsSeq(S) == IF S = {} THEN <<>> ELSE LET x == CHOOSE y \in S : TRUE IN <<x>> \o AsSeq(S \ {x})
Group(vs) ==     \* one finding per key: number of violations and one example
  LET keys == {v.key : v \in vs}
      ks == AsSeq(keys)
  IN [i \in 1..Len(ks) |-> [key |-> ks[i], count |-> Cardinality({v \in vs : v.key = ks[i]}),
                            what |-> (CHOOSE v \in vs : v.key = ks[i]).what]]

Stats(rec) ==
  LET N == rec.n  P == Len(rec.paths)
      CM == [i \in 1..N |-> [j \in 1..N |-> Cmp(rec.vals[i], rec.vals[j])]]
      nops == IF rec.hasord THEN 6 ELSE 2
      known == Cardinality({x \in (1..N) \X (1..N) : CM[x[1]][x[2]] # "unk"})
      eqpairs == Cardinality({x \in (1..N) \X (1..N) : x[1] # x[2] /\ CM[x[1]][x[2]] = "eq"})
  IN [pairs |-> N * N * P, triples |-> N * N * N * P,
      cells_compared |-> known * nops * P, cells_only_laws |-> (N * N - known) * nops * P,
      law_instances |-> P * (N + N * N * (IF rec.hasord THEN 7 ELSE 2) + N * N * N * (IF rec.hasord THEN 2 ELSE 1))
                        + (IF rec.hashash THEN N * N * P ELSE 0),
      equal_pairs_at_distinct_positions |-> eqpairs]

RecVerdict(rec) ==
  IF rec.obs.compile # "ok" \/ rec.obs.status # "done" \/ "host" \notin DOMAIN rec.obs
  THEN [id |-> rec.id, ran |-> FALSE,
        findings |-> << [key |-> IF ContainsArrOfNil(rec.ty) THEN "C24|array<void>|did-not-finish"
                                 ELSE "C24|did-not-finish|" \o TypeText(rec.ty),
                         count |-> 1,
                         what |-> "the program comparing/hashing values of type " \o TypeText(rec.ty) \o " did not run to completion"] >>]
  ELSE IF ~WellFormed(rec)
  THEN [id |-> rec.id, ran |-> FALSE,
        findings |-> << [key |-> "C24|malformed-log|" \o TypeText(rec.ty), count |-> 1,
                         what |-> "the log of comparison results does not have the layout of the program"] >>]
  ELSE [id |-> rec.id, ran |-> TRUE, stats |-> Stats(rec), findings |-> Group(Violations(rec))]

VARIABLE c
NG == 12
InitV == c \in {[f |-> "grp", i |-> g] : g \in 0..NG - 1}
NextV == c.f = "grp" /\ c' \in {[f |-> "V", i |-> i] : i \in {j \in 1..Len(Recs) : j % NG = c.i}}
EmitV == c.f = "V" =>
   JsonSerialize(IOEnv.OUTDIR \o "/v_" \o ToString(c.i) \o ".json", RecVerdict(Recs[c.i]))
=============================================================================
