CONSTANTS MaxDepth = 3
INIT Init
NEXT Next
INVARIANT Emit
CHECK_DEADLOCK FALSE
