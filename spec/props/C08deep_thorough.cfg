CONSTANTS MaxDepth = 3 Via = "capture"
INIT Init
NEXT Next
INVARIANT Emit
CHECK_DEADLOCK FALSE
