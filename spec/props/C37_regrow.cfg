CONSTANTS
  NV = 4
  NSlots = 1
  MaxLen = 7
  WithMove = FALSE
  Regrow = TRUE
  CloneDeep = FALSE
INIT Init
NEXT Next
INVARIANT Emit
INVARIANT ModelLaws
CHECK_DEADLOCK FALSE
