CONSTANTS MaxPad = 5 MaxGap = 4 MaxWrites = 3
INIT Init
NEXT Next
INVARIANT Emit
CHECK_DEADLOCK FALSE
