CONSTANTS PerProg = 40 Level = 1
INIT Init
NEXT Next
INVARIANT Emit
CHECK_DEADLOCK FALSE
