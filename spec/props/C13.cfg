CONSTANTS Prop = "C13"
INIT Init
NEXT Next
INVARIANT Emit
CHECK_DEADLOCK FALSE
