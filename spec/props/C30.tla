----------------------------- MODULE C30 -----------------------------
(***************************************************************************)
(* C30: literals denote exactly the values they spell.                     *)
(* Every state is one literal spelling (descriptor record c); the          *)
(* invariant emits the source line `report_<kind>(<literal>)` (as code      *)
(* points) together with the expected observation defined by Lit.tla:      *)
(* the host call that must be logged (exact value), or a diagnostic for    *)
(* integers / floats out of range.  The program of an item is              *)
(* Header.pre \o line.                                                     *)
(*   C30.cfg     exhaustive families (C30_STRLEN = max string length,      *)
(*               C30_LINES = max lines of a multi-line literal, C30_RICH,  *)
(*               C30_FAMS = all | block)                                   *)
(*   C30Sim.cfg  tlc -simulate: M random spellings per behaviour           *)
(***************************************************************************)
EXTENDS Lit, Json, IOUtils, TLCExt
CONSTANTS M

StrLen == atoi(IOEnv.C30_STRLEN)
MaxLines == atoi(IOEnv.C30_LINES)

CpJ(s) == [cp |-> s]                     \* code points travel as {"cp": [...]}; the driver decodes them (transport)
Pre == Cp("#host fn report_int(n: int) -> void\n#host fn report_float(x: float) -> void\n#host fn report_str(s: string) -> void\n#host fn report_float2(x: float, y: float) -> void\n")
HostFns == << [name |-> "report_int", args |-> <<"int">>, ret |-> "void"],
              [name |-> "report_float", args |-> <<"float">>, ret |-> "void"],
              [name |-> "report_str", args |-> <<"string">>, ret |-> "void"],
              [name |-> "report_float2", args |-> <<"float", "float">>, ret |-> "void"] >>
Header == [header |-> TRUE, pre |-> CpJ(Pre), hostfns |-> HostFns, prelines |-> 4]

Reports(f, arg) == [compile |-> "ok", status |-> "done", host |-> <<[f |-> f, args |-> <<arg>>, tid |-> 0]>>]
Diag == [compile |-> "diag"]
Line(f, lit) == CpJ(Cp(f \o "(") \o lit \o Cp(")\n"))

\* ---------------------------------------------------------------- integers
SmallDigits == {"0", "7", "10", "42", "007", "1234", "100000", "12345678"}
BoundDigits == {"2147483647", "2147483648", "4294967296", "9007199254740993", "1000000000000000000",
                "9223372036854775806", "9223372036854775807", "9223372036854775808", "9223372036854775809",
                "18446744073709551615", "18446744073709551616", "99999999999999999999",
                "123456789012345678901234567890", "00000000000000000000000001", "09223372036854775808"}
Thousands(d) == {i \in 1..(Len(d) - 1) : (Len(d) - i) % 3 = 0}
IntCases == UNION {{[fam |-> "int", digits |-> d, us |-> u, neg |-> n] : u \in SUBSET (1..(Len(d) - 1)), n \in BOOLEAN} : d \in SmallDigits}
            \cup UNION {{[fam |-> "int", digits |-> d, us |-> u, neg |-> n] : u \in {{}, Thousands(d), 1..(Len(d) - 1)}, n \in BOOLEAN} : d \in BoundDigits}
IntItem(c) ==
  LET ok == IntInRange(c) IN
  [kind |-> "int", spelling |-> SpellInt(c), line |-> Line("report_int", Cp(SpellInt(c))),
   expect |-> IF ok THEN Reports("report_int", IntValue(c)) ELSE Diag,
   cat |-> (IF ok THEN "int-in-range" ELSE "int-out-of-range") \o (IF c.us # {} THEN "+underscores" ELSE "")
           \o (IF c.neg THEN "+negated" ELSE "")]

\* ---------------------------------------------------------------- floats
RichF == IOEnv.C30_RICH = "1"
FloatNs == {0, 1, 3, 10, 255, 65535, 1048575} \cup (IF RichF THEN {5, 7, 25, 1023, 4097, 524287} ELSE {})
FloatEs == {0, 1, 3, 9} \cup (IF RichF THEN {2, 5} ELSE {})
FloatVariants == {"plain", "trailing0", "leading0", "underscores", "all"}
FloatCases == {[fam |-> "float", n |-> n, e |-> e, var |-> v, neg |-> s] : n \in FloatNs, e \in FloatEs, v \in FloatVariants, s \in BOOLEAN}
             \cup {[fam |-> "floatbig", neg |-> s] : s \in BOOLEAN}
FloatSpelling(c) ==
  LET d == FloatDigits(c.n, c.e)
      ip == (IF c.var \in {"leading0", "all"} THEN "00" ELSE "") \o d.ip
      fp == (IF d.fp = "" THEN "0" ELSE d.fp) \o (IF c.var \in {"trailing0", "all"} THEN "00" ELSE "")
      us(s) == IF c.var \in {"underscores", "all"} THEN 1..(Len(s) - 1) ELSE {}
  IN [ip |-> ip, fp |-> fp, ius |-> us(ip), fus |-> us(fp), neg |-> c.neg]
FloatItem(c) ==
  LET sp == SpellFloat(FloatSpelling(c)) IN
  [kind |-> "float", spelling |-> sp, line |-> Line("report_float", Cp(sp)),
   expect |-> Reports("report_float", FloatBits(c.neg, c.n, c.e)),
   cat |-> "float-exact+" \o c.var \o (IF c.neg THEN "+negated" ELSE "")]
\* two float literals side by side (neighbouring arguments: two consecutive constant pushes): every pair of spellings of
\* 0, 1/2, 1 with either sign - each literal denotes its own value whatever stands next to it
PairBase == {[fam |-> "float", n |-> n, e |-> e, var |-> v, neg |-> s] : n \in {0, 1}, e \in {0, 1}, v \in {"plain", "trailing0"}, s \in BOOLEAN}
FloatPairCases == {[fam |-> "floatpair", a |-> x, b |-> y] : x \in PairBase, y \in PairBase}
FloatPairItem(c) ==
  LET sa == SpellFloat(FloatSpelling(c.a))  sb == SpellFloat(FloatSpelling(c.b)) IN
  [kind |-> "float", spelling |-> sa \o ", " \o sb, line |-> Line("report_float2", Cp(sa \o ", " \o sb)),
   expect |-> [compile |-> "ok", status |-> "done",
               host |-> <<[f |-> "report_float2", args |-> <<FloatBits(c.a.neg, c.a.n, c.a.e), FloatBits(c.b.neg, c.b.n, c.b.e)>>, tid |-> 0]>>],
   cat |-> "float-pair"]
\* 1 followed by 309 zeros: beyond the largest binary64 (about 1.8e308)
RECURSIVE Zeros(_)
Zeros(k) == IF k = 0 THEN "" ELSE "0" \o Zeros(k - 1)
FloatBigItem(c) ==
  LET sp == (IF c.neg THEN "-" ELSE "") \o "1" \o Zeros(309) \o ".0" IN
  [kind |-> "float", spelling |-> "1e309 written out", line |-> Line("report_float", Cp(sp)),
   expect |-> Diag, cat |-> "float-out-of-range",
   known |-> [key |-> "C30|float-literal-out-of-range|accepted-as-infinity",
              expect |-> Reports("report_float", IF c.neg THEN DecStr(DecAdd(DecShl(DecOfNat(2047), 52), Pow2Dec(63))) ELSE InfBits)]]

\* ---------------------------------------------------------------- strings on one line
Alphabet == {97, SP, DQ, SQ, BS, LF, TAB, CR, 1, 233, 8364, 128512}
StrValues(L) == UNION {[1..n -> Alphabet] : n \in 0..L}
StrCases(L) == {c \in [fam : {"str"}, v : StrValues(L), form : {"dq", "sq", "tq"}, style : {"min", "max"}] :
                   /\ CanSpell(c.v, c.form, c.style)
                   /\ (c.style = "max" => Body(c.v, c.form, "max") # Body(c.v, c.form, "min"))}
StrItem(c) ==
  [kind |-> "str", spelling |-> CpJ(Spell(c.v, c.form, c.style)), line |-> Line("report_str", Spell(c.v, c.form, c.style)),
   expect |-> Reports("report_str", CpJ(c.v)),
   cat |-> "str-" \o c.form \o "-" \o c.style, len |-> Len(c.v)]

\* ---------------------------------------------------------------- multi-line """ literals
\* C30_RICH = 1: the full indentation / line-body sets (thorough); otherwise a subset that still has every feature
Rich == IOEnv.C30_RICH = "1"
Indents == {<<>>, <<SP, SP>>, <<SP, SP, SP, SP>>, <<TAB>>} \cup (IF Rich THEN {<<TAB, SP, SP>>} ELSE {})
LineBodies == {<<>>, <<RawEl(98), RawEl(DQ), RawEl(99)>>, <<EscEl(TAB), RawEl(233)>>, <<RawEl(120), RawEl(SP), EscEl(BS)>>}
              \cup (IF Rich THEN {<<RawEl(97)>>} ELSE {})
Openers == {<<>>, <<RawEl(104), RawEl(105)>>, <<RawEl(SP), RawEl(113)>>}
MidLines == [ws : Indents, els : LineBodies]
Layouts(K) ==
  {lay \in UNION {{[opener |-> o, mids |-> ms, closer |-> cl] :
                      cl \in {[own |-> FALSE, ws |-> <<>>], [own |-> TRUE, ws |-> CommonIndent([opener |-> o, mids |-> ms])]}} :
                   o \in Openers, ms \in UNION {[1..k -> MidLines] : k \in 1..K}} : LayoutInModel(lay)}
BlockItem(lay) ==
  LET v == TripleValue(lay)
      dev == DevTripleValue(lay)
      tab == TabInIndent(lay)
      lead == LeadingBlank(lay)
      onlyBlank == lay.opener # <<>> /\ NonBlank(lay) = {}      \* text after the opener, then only blank lines
  IN [kind |-> "block", spelling |-> CpJ(TripleText(lay)), line |-> Line("report_str", TripleText(lay)),
      expect |-> Reports("report_str", CpJ(v)),
      cat |-> "block-" \o (IF lay.opener = <<>> THEN "opener-newline" ELSE "opener-text") \o
              (IF lay.closer.own THEN "-closer-own-line" ELSE "-closer-inline") \o
              (IF tab THEN "+tab-indent" ELSE "") \o (IF lead THEN "+leading-blank" ELSE "") \o
              (IF CommonIndent(lay) # <<>> THEN "+indented" ELSE ""),
      lines |-> Len(lay.mids)] @@
     (IF onlyBlank THEN [known |-> [key |-> "C30|triple-quote|text-after-opener-then-only-blank-lines|arithmetic-overflow",
                                    expect |-> [compile |-> "panic"]]]
      ELSE IF ~dev.ok \/ dev.v # v THEN [known |-> [key |-> "C30|triple-quote|" \o (IF tab THEN "tab-in-common-indentation" ELSE "")
                                           \o (IF tab /\ lead THEN "+" ELSE "") \o (IF lead THEN "leading-blank-line-dropped" ELSE "")
                                           \o (IF ~tab /\ ~lead THEN "other" ELSE ""),
                                  expect |-> IF dev.ok THEN Reports("report_str", CpJ(dev.v)) ELSE Diag]]
      ELSE <<>>)

\* ---------------------------------------------------------------- exhaustive enumeration
VARIABLE c
FamSel == IOEnv.C30_FAMS                  \* "all" or "block" (only the multi-line layouts)
Cases(L, K) == (IF FamSel = "block" THEN {} ELSE IntCases \cup FloatCases \cup FloatPairCases \cup StrCases(L))
               \cup {[fam |-> "block", lay |-> l] : l \in Layouts(K)}
Item(x) == CASE x.fam = "int" -> IntItem(x) [] x.fam = "float" -> FloatItem(x) [] x.fam = "floatbig" -> FloatBigItem(x)
             [] x.fam = "floatpair" -> FloatPairItem(x)
             [] x.fam = "str" -> StrItem(x) [] x.fam = "block" -> BlockItem(x.lay)
Init == c \in Cases(StrLen, MaxLines)
Next == UNCHANGED c
Emit == PrintT(<<"CASE", ToJson(Item(c) @@ [inmodel |-> TRUE])>>)
ASSUME PrintT(<<"CASE", ToJson(Header)>>)
\* self-checks of the arithmetic helpers against known constants
ASSUME Two63 = "9223372036854775808"
ASSUME FloatBits(FALSE, 1, 0) = "4607182418800017408" /\ FloatBits(FALSE, 1, 1) = "4602678819172646912"
ASSUME FloatBits(TRUE, 0, 0) = "9223372036854775808" /\ FloatBits(FALSE, 5, 1) = "4612811918334230528"

\* ---------------------------------------------------------------- seeded random spellings
\* (every generator takes a dummy parameter: TLC evaluates parameterless definitions once and caches the value)
Pick(S) == RandomElement(S)
RECURSIVE RandDigits(_)
RandDigits(k) == IF k = 0 THEN "" ELSE ToString(Pick(0..9)) \o RandDigits(k - 1)
RECURSIVE RandSeq(_, _)
RandSeq(k, S) == IF k = 0 THEN <<>> ELSE <<Pick(S)>> \o RandSeq(k - 1, S)
RandInt(u) == LET k == Pick({1, 2, 5, 9, 10, 15, 18, 19, 19, 19, 20})
               d == (IF k >= 19 /\ Pick(BOOLEAN) THEN "922337203685477" \o RandDigits(k - 15) ELSE ToString(Pick(1..9)) \o RandDigits(k - 1))
           IN [fam |-> "int", digits |-> d, us |-> Pick(SUBSET (1..Min2(Len(d) - 1, 8))) \cup Pick({{}, {}, Thousands(d)}), neg |-> Pick(BOOLEAN)]
RandFloat(u) == [fam |-> "float", n |-> Pick(0..1048575), e |-> Pick(0..9), var |-> Pick(FloatVariants), neg |-> Pick(BOOLEAN)]
RandStr(u) == LET v == RandSeq(Pick(3..7), Alphabet) IN [fam |-> "str", v |-> v, form |-> Pick({"dq", "sq", "tq"}), style |-> Pick({"min", "max"})]
RandLay(u) == LET o == Pick(Openers)
               ms == RandSeq(Pick(2..4), MidLines)
               C == CommonIndent([opener |-> o, mids |-> ms])
           IN [fam |-> "block", lay |-> [opener |-> o, mids |-> ms, closer |-> Pick({[own |-> FALSE, ws |-> <<>>], [own |-> TRUE, ws |-> C]})]]
RandCase(u) == LET w == Pick(1..10) IN IF w <= 2 THEN RandInt(u) ELSE IF w <= 4 THEN RandFloat(u) ELSE IF w <= 6 THEN RandStr(u) ELSE RandLay(u)
RECURSIVE RandList(_)
RandList(m) == IF m = 0 THEN <<>> ELSE <<RandCase(m)>> \o RandList(m - 1)
InModelCase(x) == IF x.fam = "str" THEN CanSpell(x.v, x.form, x.style) ELSE IF x.fam = "block" THEN LayoutInModel(x.lay) ELSE TRUE
InitSim == c = <<>>
NextSim == c = <<>> /\ c' = RandList(M)
EmitSim == c # <<>> =>
   JsonSerialize(IOEnv.OUTDIR \o "/b" \o ToString(TLCGet("stats").traces) \o ".json",
                 [j \in 1..M |-> IF InModelCase(c[j]) THEN Item(c[j]) @@ [inmodel |-> TRUE] ELSE [inmodel |-> FALSE, kind |-> c[j].fam]])
=============================================================================
