CONSTANTS GridSel = "quick" Mode = "random"
INIT Init
NEXT Next
INVARIANT Emit
CHECK_DEADLOCK FALSE
