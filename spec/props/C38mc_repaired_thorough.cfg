CONSTANTS
  MaxAlign = 16
  Sizes = {0, 1, 2, 3, 8, 24, 64}
  Aligns = {1, 2, 4, 8, 16}
  Caps = {0, 16}
  MaxAllocs = 4
  Repaired = TRUE
SPECIFICATION Spec
VIEW View
INVARIANT InvInBounds
INVARIANT InvAligned
INVARIANT InvDisjoint
INVARIANT InvOffset
CHECK_DEADLOCK FALSE
