------------------------------ MODULE C37mc ------------------------------
(* C37, design level: TLC model-checks the pointer-level model of IdSet (spec/utils/IdSetImpl.tla) against
   the reference model (spec/utils/IdSet.tla) for every operation sequence of length <= MaxLen.

   DeepClone = FALSE: the code as written (#[derive(Clone)] copies raw pointers). Expected outcome: TLC
     finds a shortest history after which an instance holds a pointer into a freed buffer (NoDangling).
   DeepClone = TRUE: the repaired design. Expected outcome: all invariants hold, i.e. the design refines
     the reference model and never holds a pointer outside its own live buffers. *)
EXTENDS IdSet, TLC, Json
CONSTANTS NV, NSlots, MaxLen, DeepClone
Vals == SubSeq(<<"a", "b", "c", "d">>, 1, NV)
Impl == INSTANCE IdSetImpl

VARIABLES hist, slots, impl
vars == <<hist, slots, impl>>
View == <<Len(hist), slots, impl>>

SlotIds == 0..NSlots-1
Ops ==    {[op |-> "insert", s |-> s, v |-> Vals[i]] : s \in SlotIds, i \in 1..Len(Vals)}
     \cup {[op |-> o, s |-> s] : o \in {"clear", "drop", "consume"}, s \in SlotIds}
     \cup {x \in {[op |-> o, s |-> s, d |-> d] : o \in {"clone", "move"}, s \in SlotIds, d \in SlotIds} : x.s # x.d}

Init == hist = <<>> /\ slots = InitSlots(NSlots) /\ impl = Impl!InitImpl(NSlots)
Next == /\ Len(hist) < MaxLen
        /\ \E op \in Ops :
             /\ Enabled(slots, op)
             /\ hist' = Append(hist, op)
             /\ slots' = Apply(slots, op)
             /\ impl' = Impl!ImplApply(impl, op)
Spec == Init /\ [][Next]_vars

Live == {i \in 1..NSlots : slots[i].live}
Report(name) == PrintT(<<"CASE", ToJson([violated |-> name, deep_clone |-> DeepClone, hist |-> hist])>>) /\ FALSE

\* the buffers of every instance hold exactly the reference values in insertion order; ids agree
RefinesOk ==
  \A i \in Live :
     /\ impl.inst[i].live
     /\ Impl!BufVals(impl, impl.inst[i]) = slots[i].vals
     /\ {<<e.key, e.id>> : e \in impl.inst[i].map} = {<<slots[i].vals[k], k - 1>> : k \in 1..Len(slots[i].vals)}
     /\ Len(impl.inst[i].idp) = Len(slots[i].vals)
Refines == RefinesOk \/ Report("Refines")

\* no instance holds a pointer to freed memory, to a dropped slot, or to a slot that now holds another value
NoDangling == Impl!RiskLevel(impl) <= 1 \/ Report("NoDangling")
\* every pointer of an instance points into that instance's own buffers
NoSharing == Impl!RiskLevel(impl) = 0 \/ Report("NoSharing")
\* whenever nothing dangles, reading through the id table gives the reference values (Index agrees with iter)
IndexAgrees == (Impl!RiskLevel(impl) <= 1 => \A i \in Live : Impl!IdVals(impl, impl.inst[i]) = slots[i].vals)
               \/ Report("IndexAgrees")

\* laws of the reference model itself
ModelWellFormed == WellFormed(slots)
ModelStep == [][\A op \in Ops : (Enabled(slots, op) /\ hist' = Append(hist, op)) =>
                      (StableIds(slots, op, slots') /\ Independent(slots, op, slots'))]_vars
=============================================================================
