INIT InitR
NEXT NextR
INVARIANT EmitR
CHECK_DEADLOCK FALSE
