CONSTANTS GridSel = "full" Mode = "grid"
INIT Init
NEXT Next
INVARIANT Emit
CHECK_DEADLOCK FALSE
