----------------------------- MODULE C23 -----------------------------
(* C23: `?` and `!` follow option/result semantics.
   Every state is one program of TryPos: syntactic position of the operator (in the thorough tier: an ordered pair of
   positions in one function) x `?`/`!` x option/result x inside a function / at the top level; each program runs the
   function with succeeding and failing operands.  The invariant evaluates the reference semantics and emits
   {program, expected trace/result/panic}. *)
EXTENDS TryPos, TLCExt
CONSTANTS WithPairs
VARIABLE c
ShardNo(s) == CHOOSE i \in 0..63 : ToString(i) = s
Code(s) == Len(s.pos1) + 3 * Len(s.pos2) + Len(s.car) + (IF s.op1 = "?" THEN 1 ELSE 0) + (IF s.op2 = "?" THEN 2 ELSE 0) + (IF s.good1 THEN 1 ELSE 0)
Space == Singles \cup MainSingles \cup VoidParamSingles \cup (IF WithPairs THEN Pairs ELSE {})
Init == c \in {s \in Space : Code(s) % ShardNo(IOEnv.NSHARDS) = ShardNo(IOEnv.SHARD)}
Next == FALSE /\ c' = c
Emit == PrintT(<<"CASE", ToJson(CaseOf(c))>>)
=============================================================================
