----------------------------- MODULE C33 -----------------------------
(* C33: diagnostics point at the offending source text.
   C33.cfg   model checking mode, states = inputs: every (template, context, filler <= MAXFILL, variant) of (quick tier: a fixed
             sub-grid of contexts and variants)
             spec/front/Diag.tla is emitted as a case (text parts + the layout facts used as evidence);
   C33v.cfg  validation, states = observations: the diagnostics the editor API reported for the variant text
             (o.diags) and for its ASCII baseline (o.base) are checked against the oracle of Diag.tla; every
             violated diagnostic is printed with its finding key. *)
EXTENDS Diag, SequencesExt
VARIABLE st

Nat10(s) == CASE s = "1" -> 1 [] s = "2" -> 2 [] s = "3" -> 3 [] s = "4" -> 4
MaxFill == Nat10(IOEnv.MAXFILL)

\* quick tier (QUICK = "1"): six contexts x five variants; thorough: everything
Quick == IOEnv.QUICK = "1"
CtxSel == IF Quick THEN {1, 2, 3, 4, 7, 8} ELSE 1..Len(Contexts)
VarSel == IF Quick THEN {1, 2, 3, 5, 6} ELSE 1..Len(Variants)
InitG == st \in { [g |-> "case", t |-> t, c |-> c, f |-> f, v |-> v] :
                  t \in 1..Len(Templates), c \in CtxSel, f \in 1..MaxFill, v \in VarSel }
NextG == UNCHANGED st
Emit == st.g = "case" => PrintT(<<"CASE", ToJson(DiagCase(st.t, st.c, st.f, st.v))>>)

Obs == ndJsonDeserialize(IOEnv.OBS)
InitV == st \in { [g |-> "obs", t |-> k, c |-> 0, f |-> 0, v |-> 0] : k \in 1..Len(Obs) }
NextV == UNCHANGED st

Bad(o) == {j \in 1..Len(o.diags) : Violations(o, j) # {}}
Verdict == st.g = "obs" =>
   LET o == Obs[st.t] IN
   IF ~SameMessages(o)
   THEN PrintT(<<"CASE", ToJson([id |-> o.id, legal |-> FALSE, triggered |-> Triggered(o),
                 keys |-> <<"C33|" \o Templates[o.t].n \o "|" \o Contexts[o.c].n \o "|v" \o ToString(o.v) \o "|diagnostics-differ-from-baseline">>,
                 bad |-> <<>>])>>)
   ELSE IF Bad(o) = {} THEN (Triggered(o) \/ PrintT(<<"CASE", ToJson([id |-> o.id, legal |-> TRUE, triggered |-> FALSE])>>))
   ELSE PrintT(<<"CASE", ToJson([id |-> o.id, legal |-> FALSE, triggered |-> Triggered(o),
                 keys |-> SetToSeq({KeyOfViolation(o, j) : j \in Bad(o)}),
                 bad |-> SetToSeq({[j |-> j, key |-> KeyOfViolation(o, j), msg |-> o.diags[j].msg,
                                    got |-> <<o.diags[j].start, o.diags[j].end>>,
                                    baseline |-> <<o.base[j].start, o.base[j].end>>,
                                    want |-> <<ShiftOff(Pieces(o.t, o.c, o.f), o.v, o.base[j].start, FALSE),
                                               ShiftOff(Pieces(o.t, o.c, o.f), o.v, o.base[j].end, TRUE)>>] : j \in Bad(o)})])>>)
=============================================================================
