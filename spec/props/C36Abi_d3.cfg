CONSTANTS MaxDepth = 3 Mode = "spec" WideLast = FALSE
INIT Init
NEXT Next
INVARIANT Laws
POSTCONDITION Post
CHECK_DEADLOCK FALSE
