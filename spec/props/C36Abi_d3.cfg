CONSTANTS MaxDepth = 3 Mode = "spec"
INIT Init
NEXT Next
INVARIANT Laws
POSTCONDITION Post
CHECK_DEADLOCK FALSE
