------------------------------ MODULE C38val ------------------------------
(* C38: validation of recorded observations against the property (spec/utils/Arena.tla).

   Input (ndjson, IOEnv.OBS): one record per replayed allocation sequence and channel
     [id, channel, cap, allocs: <<[size, align]>>, aw: <<[buf, start, buflen, oob, oob_before]>>,
      status: "done" | "ub" | "crash" | "timeout", ub: [step, phase, class, msg] (when not done),
      steps: <<[hi, lo, mod64, size, align, intact: <<BOOLEAN>>]>>]     (hi, lo: address \div 2^20, % 2^20)
   For every record the property's predicates are evaluated on the observed addresses:
     Echo      the harness allocated the requested (size, align)
     Aligned   every returned reference is aligned                      (ObsAligned)
     Disjoint  no two returned references overlap                       (ObsDisjoint)
     Intact    every value read back through its reference after every later allocation is unchanged
     NoUB      the run finished without a sanitizer report / crash      (status = "done"), which includes
               "no allocation writes outside the arena's buffers" (AddressSanitizer, Miri)
   Output: one CASE line per record that violates a predicate: [id, channel, viol: <<[k, pred, key, detail]>>],
   and one summary line. The key names the defect family using the prediction `aw` of the model of the code
   as written; deviations that model does not predict get an "unpredicted" key.

   Conformance of the as-written model itself (informational, never a violation): AsWrittenFits(rec) says whether
   the observed address differences of allocations that the as-written model places in the same buffer equal
   the model's offset differences. *)
EXTENDS Arena, TLC, Json, IOUtils, Sequences, SequencesExt, FiniteSets
VARIABLE dummy
Init == dummy = 0
Next == UNCHANGED dummy

Recs == ndJsonDeserialize(IOEnv.OBS)

FamAlign == "C38|padding-from-offset-base-align-1"
FamOob   == "C38|offset-kept-on-buffer-switch"

Addr(o) == [hi |-> o.hi, lo |-> o.lo]
\* observed distance q - p of two addresses as an integer
\* (saturated: allocations in different heap blocks may be further apart than a 32-bit integer can say)
Dist(p, q) == IF q.hi - p.hi > 1000 THEN 2000000000
              ELSE IF p.hi - q.hi > 1000 THEN -2000000000
              ELSE (q.hi - p.hi) * 1048576 + (q.lo - p.lo)

Viol(rec) ==
  LET n  == Len(rec.steps)
      st == rec.steps
      oobSoFar(k) == k >= 1 /\ k <= Len(rec.aw) /\ (rec.aw[k].oob \/ rec.aw[k].oob_before)
      echo == {[k |-> k, pred |-> "Echo", key |-> "C38|harness|echo", detail |-> "requested size/align differs from allocated"] :
                 k \in {k \in 1..n : st[k].size # rec.allocs[k].size \/ st[k].align # rec.allocs[k].align}}
      al   == {[k |-> k, pred |-> "Aligned",
                key |-> IF rec.allocs[k].align > 1 THEN FamAlign \o "|misaligned-reference" ELSE "C38|unpredicted|Aligned",
                detail |-> "address % 64 = " \o ToString(st[k].mod64) \o ", align " \o ToString(st[k].align)] :
                 k \in {k \in 1..n : ~ObsAligned(st[k])}}
      dj   == {[k |-> p[2], pred |-> "Disjoint",
                key |-> IF oobSoFar(p[2]) THEN FamOob \o "|overlap" ELSE "C38|unpredicted|Disjoint",
                detail |-> "overlaps allocation " \o ToString(p[1])] :
                 p \in {q \in (1..n) \X (1..n) : q[1] < q[2] /\ ~ObsDisjoint(st[q[1]], st[q[2]])}}
      it   == {[k |-> k, pred |-> "Intact",
                key |-> IF oobSoFar(k) THEN FamOob \o "|value-clobbered" ELSE "C38|unpredicted|Intact",
                detail |-> "a value allocated earlier no longer reads back"] :
                 k \in {k \in 1..n : \E i \in 1..Len(st[k].intact) : ~st[k].intact[i]}}
      ub   == IF rec.status = "done" THEN {}
              ELSE LET k == rec.ub.step
                       c == rec.ub.class
                       predictedOob == k >= 1 /\ k <= Len(rec.aw) /\ rec.aw[k].oob
                       key == IF c = "oob" /\ predictedOob THEN FamOob \o "|out-of-bounds"
                              ELSE IF c = "misaligned" /\ k >= 1 /\ k <= Len(rec.allocs) /\ rec.allocs[k].align > 1
                                   THEN FamAlign \o "|misaligned-reference"
                              \* after a write outside the buffers anything may follow: corrupted allocator metadata, a clobbered
                              \* pointer inside the replay's own bookkeeping (seen as a wild / misaligned dereference), ...
                              ELSE IF c \in {"heap-corruption", "signal", "segv", "double-free", "oob", "use-after-free", "misaligned"} /\ oobSoFar(k)
                                   THEN FamOob \o "|crash-after-out-of-bounds-write"
                              ELSE "C38|unpredicted|" \o rec.status \o ":" \o c
                   IN {[k |-> k, pred |-> "NoUB", key |-> key, detail |-> rec.status \o " (" \o rec.ub.phase \o "): " \o rec.ub.msg]}
      cm   == IF rec.status = "done" /\ n # Len(rec.allocs)
              THEN {[k |-> n, pred |-> "Complete", key |-> "C38|harness|incomplete", detail |-> "missing steps"]} ELSE {}
  IN echo \cup al \cup dj \cup it \cup ub \cup cm

\* ---------------------------------------------------------------- which model describes the implementation? (informational)
SameBufPairs(rec) == {p \in (1..Len(rec.steps)) \X (1..Len(rec.steps)) : p[1] < p[2] /\ rec.aw[p[1]].buf = rec.aw[p[2]].buf}
AsWrittenFits(rec) ==
  \A p \in SameBufPairs(rec) :
     Dist(Addr(rec.steps[p[1]]), Addr(rec.steps[p[2]])) = rec.aw[p[2]].start - rec.aw[p[1]].start

Check(rec) ==
  LET v == Viol(rec)
  IN IF v = {} THEN TRUE
     ELSE PrintT(<<"CASE", ToJson([id |-> rec.id, channel |-> rec.channel, viol |-> SetToSeq(v)])>>)

ASSUME \A i \in 1..Len(Recs) : Check(Recs[i])
ASSUME PrintT(<<"CASE", ToJson([summary |-> TRUE, records |-> Len(Recs),
                                steps |-> LET F[i \in 0..Len(Recs)] == IF i = 0 THEN 0 ELSE F[i-1] + Len(Recs[i].steps) IN F[Len(Recs)],
                                complete_runs |-> Cardinality({i \in 1..Len(Recs) : Recs[i].status = "done"}),
                                as_written_model_fits |-> Cardinality({i \in 1..Len(Recs) : Recs[i].status = "done" /\ AsWrittenFits(Recs[i])}),
                                as_written_model_fits_not |-> Cardinality({i \in 1..Len(Recs) : Recs[i].status = "done" /\ ~AsWrittenFits(Recs[i])})])>>)
=============================================================================
