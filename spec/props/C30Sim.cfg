CONSTANTS M = 40
INIT InitSim
NEXT NextSim
INVARIANT EmitSim
CHECK_DEADLOCK FALSE
