CONSTANTS
  NV = 3
  NSlots = 3
  MaxLen = 6
  DeepClone = TRUE
SPECIFICATION Spec
VIEW View
INVARIANT Refines
INVARIANT IndexAgrees
INVARIANT NoDangling
INVARIANT NoSharing
INVARIANT ModelWellFormed
PROPERTY ModelStep
CHECK_DEADLOCK FALSE
