CONSTANTS MaxDepth = 3 Via = "send"
INIT Init
NEXT Next
INVARIANT Emit
CHECK_DEADLOCK FALSE
