----------------------------- MODULE C22 -----------------------------
(***************************************************************************)
(* C22: generic and interface calls dispatch to the concrete type's code.  *)
(* Every state is one generated program (a batch of checks); the invariant *)
(* writes the program and, per check, the lines spec/front/Generic.tla     *)
(* says it prints (implementation names in the order they are entered,     *)
(* then the result).  Batches along three axes over the same type universe:*)
(*   type   every template at one concrete type (one instantiation of each *)
(*          generic function per program)                                  *)
(*   tmpl   one template at every concrete type (many instantiations of    *)
(*          the same generic function in one program: per-instantiation    *)
(*          labels)                                                        *)
(*   misc   user iterables / index types with fixed item types             *)
(* Checks of a known defect family carry a key and are batched separately. *)
(* Each batch is emitted in the file layouts of FilesOf (types and          *)
(* implementations in main or in imported files).                          *)
(* Environment: C22_TIER, C22_SEED, OUTDIR                                 *)
(***************************************************************************)
EXTENDS Generic, Json, IOUtils, SequencesExt
VARIABLE batch

Tier == IOEnv.C22_TIER
Seed == atoi(IOEnv.C22_SEED)

\* ---------------------------------------------------------------- the bounded type universe
BaseSet == {Base[i] : i \in 1..Len(Base)}
Rot(s, k) == [i \in 1..Len(s) |-> s[((i - 1 + k) % Len(s)) + 1]]
B == Rot(Base, Seed)                       \* quick tier: which base types fill the sampled shapes depends on the seed
Pairs == {<<x, y>> : x \in BaseSet, y \in BaseSet}
Depth1(S) == {TArr(x) : x \in S} \cup {TOpt(x) : x \in S} \cup {TBag(x) : x \in S}

QuickTypes ==
  BaseSet
  \cup {TTup(<<B[1], B[2]>>), TTup(<<B[2], B[1]>>), TTup(<<B[3], B[4]>>), TTup(<<B[5], B[6]>>), TTup(<<B[6], B[3]>>),
        TTup(<<TPt, TPt>>), TTup(<<TCol, TI>>), TTup(<<TB, TPt>>)}
  \cup {TTup(<<p[1], p[2]>>) : p \in Pairs}
  \cup Depth1(BaseSet)
  \cup {TTup(<<B[1], TPt, TCol>>), TTup(<<TPt, B[2], B[3]>>),
        TArr(TTup(<<B[1], TPt>>)), TTup(<<TArr(TPt), TCol>>), TOpt(TArr(TCol)), TArr(TArr(TPt)), TArr(TOpt(TPt)),
        TTup(<<TTup(<<TPt, B[4]>>), TCol>>), TBag(TBag(TCol)), TArr(TBag(TPt)), TBag(TTup(<<TCol, B[5]>>))}

T3Set == {TI, TS, TPt, TCol}
ThoroughTypes ==
  BaseSet
  \cup {TTup(<<p[1], p[2]>>) : p \in Pairs}
  \cup {TTup(<<x, y, z>>) : x \in {TI, TPt, TCol}, y \in {TS, TPt, TCol}, z \in {TB, TPt, TCol}}
  \cup Depth1(BaseSet)
  \cup Depth1(Depth1({TI, TPt, TCol}))
  \cup Depth1({TTup(<<x, y>>) : x \in {TI, TPt}, y \in {TS, TCol}})
  \cup {TTup(<<TArr(x), y>>) : x \in BaseSet, y \in {TI, TPt, TCol}}
  \cup {TTup(<<x, TOpt(y)>>) : x \in {TF, TPt, TCol}, y \in {TB, TPt}}
  \cup {TTup(<<TTup(<<x, y>>), z>>) : x \in {TPt, TS}, y \in {TCol, TI}, z \in {TPt, TB}}
  \cup QuickTypes

Types == IF Tier = "thorough" THEN ThoroughTypes ELSE QuickTypes
TypeSeq == SetToSeq(Types)
Partners(t) == IF Tier = "thorough" THEN Base ELSE <<B[1], TPt, TCol>>
Layouts == IF Tier = "thorough" THEN {"single", "lib", "libgen"} ELSE {<<"single", "lib", "libgen">>[(Seed % 3) + 1]}
AltLayout == <<"libgen", "single", "lib">>[(Seed % 3) + 1]     \* quick: the tmpl axis uses another layout than the type axis

CheckTab == [i \in 1..Len(TypeSeq) |-> ChecksOf(TypeSeq[i], Partners(TypeSeq[i]))]
Keyed(cs) == SelectSeq(cs, LAMBDA c : "key" \in DOMAIN c)
Unkeyed(cs) == SelectSeq(cs, LAMBDA c : "key" \notin DOMAIN c)

\* templates, in a fixed order
RECURSIVE Dedup(_)
Dedup(s) == IF s = <<>> THEN <<>> ELSE <<s[1]>> \o Dedup(SelectSeq(Tail(s), LAMBDA x : x # s[1]))
Templates == Dedup(Flat([k \in 1..Len(TypeSeq) |-> [i \in 1..Len(CheckTab[k]) |-> CheckTab[k][i].tmpl]]))

\* the tmpl axis takes, per type, the first MaxPer checks of the template
MaxPer == IF Tier = "thorough" THEN 3 ELSE 2
FirstN(s, n) == IF Len(s) <= n THEN s ELSE SubSeq(s, 1, n)
TmplChecks(g) == Flat([k \in 1..Len(TypeSeq) |-> FirstN(SelectSeq(Unkeyed(CheckTab[k]), LAMBDA c : c.tmpl = g), MaxPer)])
\* helper variables (e1, g1, q1 ...) are numbered per type; renumber them per program on the tmpl axis by wrapping each
\* check in its own block
Wrap(c) == [c EXCEPT !.src = <<"{">> \o @ \o <<"}">>]

Batches ==
  {[axis |-> "type", ix |-> i, layout |-> l] : i \in 1..Len(TypeSeq), l \in Layouts}
  \cup {[axis |-> "tmpl", ix |-> i, layout |-> l] : i \in 1..Len(Templates),
        l \in (IF Tier = "thorough" THEN Layouts ELSE {AltLayout})}
  \cup {[axis |-> "keyed", ix |-> i, layout |-> "single"] : i \in {j \in 1..Len(TypeSeq) : Keyed(CheckTab[j]) # <<>>}}
  \cup {[axis |-> "misc", ix |-> 1, layout |-> l] : l \in Layouts}
  \cup {[axis |-> "twin", ix |-> 1, layout |-> "twin"], [axis |-> "twinkeyed", ix |-> 1, layout |-> "twin"]}

ChecksOfBatch(b) ==
  CASE b.axis = "type" -> Unkeyed(CheckTab[b.ix])
    [] b.axis = "tmpl" -> LET cs == TmplChecks(Templates[b.ix]) IN [i \in 1..Len(cs) |-> Wrap(cs[i])]
    [] b.axis = "keyed" -> Keyed(CheckTab[b.ix])
    [] b.axis = "misc" -> MiscChecks
    [] b.axis = "twin" -> TwinChecks
    [] b.axis = "twinkeyed" -> TwinKeyed

\* keyed checks: one program per check (a defect of one must not hide the others)
CasesOf(b) ==
  LET cs == ChecksOfBatch(b)
      name == CASE b.axis \in {"type", "keyed"} -> TyName(TypeSeq[b.ix]) [] b.axis = "tmpl" -> Templates[b.ix] [] OTHER -> "misc"
      id == b.axis \o ":" \o name \o ":" \o b.layout
      mk(i, sub) == [id |-> id \o i, axis |-> b.axis, layout |-> b.layout, name |-> name,
                     files |-> FilesOf(b.layout, sub),
                     expect |-> [compile |-> "ok", status |-> "done"],
                     checks |-> [j \in 1..Len(sub) |-> [i |-> j, mark |-> "#" \o ToString(j), tmpl |-> sub[j].tmpl, iface |-> sub[j].iface, ty |-> sub[j].ty,
                                                       src |-> sub[j].src, out |-> sub[j].out]]]
  IN IF b.axis \in {"keyed", "twinkeyed"}
     THEN [i \in 1..Len(cs) |-> mk("#" \o ToString(i), <<cs[i]>>) @@ [key |-> cs[i].key]]
     ELSE IF cs = <<>> THEN <<>> ELSE <<mk("", cs)>>

Init == batch \in Batches
Next == FALSE /\ UNCHANGED batch
FileId(b) == b.axis \o "_" \o ToString(b.ix) \o "_" \o b.layout
Emit == JsonSerialize(IOEnv.OUTDIR \o "/" \o FileId(batch) \o ".json", CasesOf(batch))
=============================================================================
