----------------------------- MODULE C24 -----------------------------
(***************************************************************************)
(* C24: built-in equality, ordering and hashing are lawful - generator.    *)
(* One state = one case = one VALUE UNIVERSE (a type and N of its values). *)
(* The emitted program builds the values twice (arrays vs and ws, so that  *)
(* equal values are different objects), compares vs[i] with ws[j] for all  *)
(* i, j with all six operators along several PATHS through the compiler    *)
(* and reports the results and the hashes through host functions:          *)
(*   op     the operators applied to operands of statically known type     *)
(*          (inlined Int/Float/String/Bool instructions, else the prelude) *)
(*   gen    the operators inside a generic function (x: T Ord Equal)       *)
(*   iface  explicit Equal.equal / Ord.less_than ... calls (the prelude's  *)
(*          implementations, also for int/float/string/bool; `!=` is       *)
(*          `not Equal.equal` here)                                        *)
(*   imm    the right operand written as a literal (immediate-operand      *)
(*          instructions); only for scalar universes of literals           *)
(* C24V.tla validates the recorded tables against Laws.tla.                *)
(*                                                                         *)
(* Universes: A scalars (bool, void, int boundaries, floats, strings),     *)
(* B every tuple type of size 2..4 over {bool, void} with all its values,  *)
(* C pairs of {bool, void, (bool,bool), (bool,void), (void,bool)},         *)
(* D arrays (length <= 3) of bool / void / tuples / arrays, E tuples       *)
(* containing arrays, F tuples and arrays over the ints {-1,0,1},          *)
(* G tuples and arrays over boundary ints / floats / strings,              *)
(* X special floats (NaNs, infinities; optional: dropped if the program    *)
(* cannot produce them), R (C24R.cfg, -simulate) random types and values.  *)
(***************************************************************************)
EXTENDS Laws, Json, IOUtils, TLCExt

\* ---------------------------------------------------------------- parameters from the driver
EnvOr(name, dflt) == IF name \in DOMAIN IOEnv THEN IOEnv[name] ELSE dflt
Tier == EnvOr("TIER", "quick")

\* ---------------------------------------------------------------- value universes
RECURSIVE Product(_)
\* all tuples (as sequences) choosing one value per component list, in lexicographic order
Product(lists) ==
  IF lists = <<>> THEN << <<>> >>
  ELSE LET rest == Product(Tail(lists))
           hd == lists[1]
       IN [k \in 1..Len(hd) * Len(rest) |-> <<hd[(k - 1) \div Len(rest) + 1]>> \o rest[((k - 1) % Len(rest)) + 1]]
RECURSIVE SeqsUpTo(_, _)
\* all sequences over vs of length 0..n (shorter first)
SeqsOfLen(vs, n) == Product([i \in 1..n |-> vs])
SeqsUpTo(vs, n) == IF n = 0 THEN << <<>> >> ELSE SeqsUpTo(vs, n - 1) \o SeqsOfLen(vs, n)

Bools == <<VBool(FALSE), VBool(TRUE)>>
Nils == <<VNil>>
IntBoundary == << VInt("-9223372036854775808"), VInt("-9223372036854775807"), VInt("-4294967297"), VInt("-4294967296"),
                  VInt("-2147483649"), VInt("-2147483648"), VInt("-10"), VInt("-9"), VInt("-1"), VInt("0"), VInt("1"),
                  VInt("9"), VInt("10"), VInt("2147483647"), VInt("2147483648"), VInt("4294967295"), VInt("4294967296"),
                  VInt("9007199254740993"), VInt("9223372036854775806"), VInt("9223372036854775807") >>
IntSmall == <<VInt("-1"), VInt("0"), VInt("1")>>
Int01 == <<VInt("0"), VInt("1")>>
IntEdge == <<VInt("-9223372036854775808"), VInt("-1"), VInt("0"), VInt("9223372036854775807")>>
\* (|n| * 2^12 must stay below 2^31 for AbraSem!FltCmp)
FltRegular == << VFlt(-131072, 0), VFlt(-5, 1), VFlt(-1, 0), VFlt(-1, 12), VFltS("nzero"), VFlt(0, 0), VFlt(1, 12), VFlt(1, 1),
                 VFlt(1, 0), VFlt(3, 1), VFlt(131072, 0), VFlt(131073, 0) >>
FltSmall == <<VFlt(-5, 1), VFltS("nzero"), VFlt(0, 0), VFlt(3, 1)>>
FltSpecial == << VFltS("ninf"), VFlt(-1, 0), VFltS("nzero"), VFlt(0, 0), VFlt(1, 0), VFltS("pinf"), VFltS("nan_a"), VFltS("nan_b") >>
FltSpecialSmall == <<VFltS("nan_a"), VFltS("ninf"), VFlt(0, 0), VFltS("nan_b")>>
Strs == << VStr(""), VStr(" "), VStr("0"), VStr("9"), VStr("A"), VStr("AB"), VStr("B"), VStr("Z"), VStr("_"), VStr("a"), VStr("a "),
           VStr("aa"), VStr("ab"), VStr("b"), VStr("z"), VStr("~") >>
StrSmall == <<VStr(""), VStr("a"), VStr("ab"), VStr("b")>>

Tup(ty, lists) == LET P == Product(lists) IN [ty |-> ty, vals |-> [k \in 1..Len(P) |-> VTup(P[k])]]
Arr(elty, elvals, n) == LET P == SeqsUpTo(elvals, n) IN [ty |-> TArr(elty), vals |-> [k \in 1..Len(P) |-> VArr(P[k])]]
U(ty, vals) == [ty |-> ty, vals |-> vals]

\* B: all tuple types of size 2..4 over {bool, void}
BV(b) == IF b = 0 THEN [ty |-> TBool, vals |-> Bools] ELSE [ty |-> TNil, vals |-> Nils]
BTuple(n, code) ==        \* code in 0..2^n-1 selects bool/void per component
  LET comp == [i \in 1..n |-> BV((code \div (2 ^ (i - 1))) % 2)]
  IN Tup(TTup([i \in 1..n |-> comp[i].ty]), [i \in 1..n |-> comp[i].vals])
FamB == [k \in 1..28 |-> IF k <= 4 THEN BTuple(2, k - 1) ELSE IF k <= 12 THEN BTuple(3, k - 5) ELSE BTuple(4, k - 13)]

\* C: pairs over five component universes
CComp == << [ty |-> TBool, vals |-> Bools], [ty |-> TNil, vals |-> Nils],
            Tup(TTup(<<TBool, TBool>>), <<Bools, Bools>>), Tup(TTup(<<TBool, TNil>>), <<Bools, Nils>>),
            Tup(TTup(<<TNil, TBool>>), <<Nils, Bools>>) >>
FamC == SelectSeq([k \in 1..25 |->
           LET a == CComp[(k - 1) \div 5 + 1]  b == CComp[((k - 1) % 5) + 1]
           IN Tup(TTup(<<a.ty, b.ty>>), <<a.vals, b.vals>>)],
          LAMBDA u : ~(u.ty.ts[1].k \in {"bool", "nil"} /\ u.ty.ts[2].k \in {"bool", "nil"}))     \* those are in B

BB == Tup(TTup(<<TBool, TBool>>), <<Bools, Bools>>)
BN == Tup(TTup(<<TBool, TNil>>), <<Bools, Nils>>)
ArrB2 == Arr(TBool, Bools, 2)
ArrN2 == Arr(TNil, Nils, 2)
Big == Tier = "thorough"
FamD == << Arr(TBool, Bools, 3), Arr(TNil, Nils, 3), Arr(BB.ty, BB.vals, IF Big THEN 3 ELSE 2), Arr(BN.ty, BN.vals, 3),
           Arr(ArrB2.ty, ArrB2.vals, IF Big THEN 2 ELSE 1), Arr(ArrN2.ty, ArrN2.vals, IF Big THEN 3 ELSE 2),
           Arr(TTup(<<TBool, TBool, TBool>>), [k \in 1..8 |-> VTup(Product(<<Bools, Bools, Bools>>)[k])], IF Big THEN 2 ELSE 1) >>
FamE == << Tup(TTup(<<ArrB2.ty, TBool>>), <<ArrB2.vals, Bools>>), Tup(TTup(<<TBool, ArrB2.ty>>), <<Bools, ArrB2.vals>>),
           Tup(TTup(<<ArrN2.ty, Arr(TBool, Bools, 1).ty>>), <<ArrN2.vals, Arr(TBool, Bools, 1).vals>>),
           Tup(TTup(<<TNil, ArrB2.ty, TNil>>), <<Nils, ArrB2.vals, Nils>>) >>
FamF == << Tup(TTup(<<TInt, TInt>>), <<IntSmall, IntSmall>>), Tup(TTup(<<TInt, TInt, TInt>>), <<Int01, Int01, Int01>>),
           Tup(TTup(<<TInt, TInt, TInt, TInt>>), <<Int01, Int01, Int01, Int01>>),
           Tup(TTup(<<TInt, TBool>>), <<IntSmall, Bools>>), Tup(TTup(<<TBool, TInt>>), <<Bools, IntSmall>>),
           Tup(TTup(<<TInt, TNil, TBool>>), <<Int01, Nils, Bools>>), Tup(TTup(<<TBool, TInt, TBool, TInt>>), <<Bools, Int01, Bools, Int01>>),
           Arr(TInt, Int01, 3), Arr(TInt, IntSmall, 2),
           Arr(TTup(<<TInt, TBool>>), [k \in 1..4 |-> VTup(Product(<<Int01, Bools>>)[k])], 2),
           Tup(TTup(<<TTup(<<TInt, TBool>>), TTup(<<TBool, TInt>>)>>),
               << [k \in 1..4 |-> VTup(Product(<<Int01, Bools>>)[k])], [k \in 1..4 |-> VTup(Product(<<Bools, Int01>>)[k])] >>) >>
FamG == << Tup(TTup(<<TInt, TInt>>), <<IntEdge, IntEdge>>), Tup(TTup(<<TFlt, TFlt>>), <<FltSmall, FltSmall>>),
           Tup(TTup(<<TStr, TStr>>), <<StrSmall, StrSmall>>),
           Tup(TTup(<<TInt, TStr, TFlt, TBool>>), << <<VInt("-9223372036854775808"), VInt("9223372036854775807")>>, <<VStr("a"), VStr("ab")>>,
                                                    <<VFlt(-5, 1), VFlt(3, 1)>>, Bools >>),
           Tup(TTup(<<TStr, TInt, TBool>>), << <<VStr(""), VStr("b")>>, <<VInt("-1"), VInt("4294967296")>>, Bools >>),
           Tup(TTup(<<TFlt, TBool>>), <<FltSmall, Bools>>), Tup(TTup(<<TBool, TStr>>), <<Bools, StrSmall>>),
           Arr(TStr, <<VStr(""), VStr("a"), VStr("b")>>, 2), Arr(TFlt, <<VFlt(0, 0), VFltS("nzero"), VFlt(3, 1)>>, 2),
           Arr(TInt, <<VInt("-9223372036854775808"), VInt("9223372036854775807")>>, 3),
           Tup(TTup(<<Arr(TStr, <<VStr("a")>>, 1).ty, TInt>>), <<Arr(TStr, <<VStr("a"), VStr("b")>>, 1).vals, IntSmall>>) >>
FamA == << U(TBool, Bools), U(TNil, Nils), U(TInt, IntBoundary), U(TFlt, FltRegular), U(TStr, Strs) >>
FamX == << U(TFlt, FltSpecial), Tup(TTup(<<TFlt, TFlt>>), <<FltSpecialSmall, FltSpecialSmall>>),
           Arr(TFlt, FltSpecialSmall, 2), Tup(TTup(<<TFlt, TBool>>), <<FltSpecialSmall, Bools>>) >>

FamOf(f) == CASE f = "A" -> FamA [] f = "B" -> FamB [] f = "C" -> FamC [] f = "D" -> FamD [] f = "E" -> FamE
              [] f = "F" -> FamF [] f = "G" -> FamG [] f = "X" -> FamX
FamNames == <<"A", "B", "C", "D", "E", "F", "G", "X">>

\* ---------------------------------------------------------------- program text
IsScalar(ty) == ty.k \notin {"tup", "arr"}
\* the imm path: scalar int / float universes whose values are all literals
UseImm(u) == u.ty.k \in {"int", "flt"} /\ \A i \in 1..Len(u.vals) : ~HasSpecialFloat(u.vals[i])
PathsOf(u) == IF UseImm(u) THEN <<"op", "gen", "iface", "imm">> ELSE <<"op", "gen", "iface">>

RelArgs(x, y) == x \o " == " \o y \o ", " \o x \o " != " \o y \o ", " \o x \o " < " \o y \o ", " \o x \o " <= " \o y \o ", " \o
                 x \o " > " \o y \o ", " \o x \o " >= " \o y
EqArgs(x, y) == x \o " == " \o y \o ", " \o x \o " != " \o y
IfaceOrd == "Equal.equal(x, y), not Equal.equal(x, y), Ord.less_than(x, y), Ord.less_than_or_equal(x, y), " \o
            "Ord.greater_than(x, y), Ord.greater_than_or_equal(x, y)"
IfaceEq == "Equal.equal(x, y), not Equal.equal(x, y)"

ArrayProgLines(u) ==
  LET ord == HasOrd(u.ty)
      T == TypeText(u.ty)
      lits == JoinS([i \in 1..Len(u.vals) |-> ValText(u.vals[i])], ", ")
      special == \E i \in 1..Len(u.vals) : HasSpecialFloat(u.vals[i])
      f == IF ord THEN "rel" ELSE "releq"
  IN << "#host fn rel(p: int, i: int, j: int, eq: bool, ne: bool, lt: bool, le: bool, gt: bool, ge: bool) -> void",
        "#host fn releq(p: int, i: int, j: int, eq: bool, ne: bool) -> void",
        "#host fn hsh(i: int, hv: int, hw: int) -> void",
        IF ord THEN "fn cmpg(i: int, j: int, x: T Ord Equal, y: T) { rel(1, i, j, " \o RelArgs("x", "y") \o ") }"
               ELSE "fn cmpg(i: int, j: int, x: T Equal, y: T) { releq(1, i, j, " \o EqArgs("x", "y") \o ") }" >> \o
     (IF special THEN FloatPrelude ELSE <<>>) \o
     << "let vs: array<" \o T \o "> = [" \o lits \o "]",
        "let ws: array<" \o T \o "> = [" \o lits \o "]",
        "for i in vs.len() {",
        "  let x = vs[i]",
        "  for j in ws.len() {",
        "    let y = ws[j]",
        "    " \o f \o "(0, i, j, " \o (IF ord THEN RelArgs("x", "y") ELSE EqArgs("x", "y")) \o ")",
        "    cmpg(i, j, x, y)",
        "    " \o f \o "(2, i, j, " \o (IF ord THEN IfaceOrd ELSE IfaceEq) \o ")",
        "  }" >> \o
     (IF UseImm(u) THEN [j \in 1..Len(u.vals) |-> "  rel(3, i, " \o ToString(j - 1) \o ", " \o RelArgs("x", ValText(u.vals[j])) \o ")"]
      ELSE <<>>) \o
     << "}" >> \o
     (IF HasHash(u.ty) THEN << "for i in vs.len() { hsh(i, Hash.hash(vs[i]), Hash.hash(ws[i])) }" >> ELSE <<>>)

\* the one-value universe of void is written without arrays: no array<void> is involved in comparing nil with nil
NilProgLines ==
  << "#host fn rel(p: int, i: int, j: int, eq: bool, ne: bool, lt: bool, le: bool, gt: bool, ge: bool) -> void",
     "#host fn releq(p: int, i: int, j: int, eq: bool, ne: bool) -> void",
     "#host fn hsh(i: int, hv: int, hw: int) -> void",
     "fn cmpg(i: int, j: int, x: T Ord Equal, y: T) { rel(1, i, j, " \o RelArgs("x", "y") \o ") }",
     "let x = nil",
     "let y = nil",
     "rel(0, 0, 0, " \o RelArgs("x", "y") \o ")",
     "cmpg(0, 0, x, y)",
     "rel(2, 0, 0, " \o IfaceOrd \o ")",
     "hsh(0, Hash.hash(x), Hash.hash(y))" >>
ProgLines(u) == IF u.ty.k = "nil" THEN NilProgLines ELSE ArrayProgLines(u)

HostFns == << [name |-> "rel", args |-> <<"int", "int", "int", "bool", "bool", "bool", "bool", "bool", "bool">>, ret |-> "void"],
              [name |-> "releq", args |-> <<"int", "int", "int", "bool", "bool">>, ret |-> "void"],
              [name |-> "hsh", args |-> <<"int", "int", "int">>, ret |-> "void"] >>

RECURSIVE TyDepth(_)
TyDepth(t) == CASE t.k = "arr" -> 1 + TyDepth(t.of)
                [] t.k = "tup" -> 1 + (CHOOSE m \in {TyDepth(t.ts[i]) : i \in 1..Len(t.ts)} : \A i \in 1..Len(t.ts) : TyDepth(t.ts[i]) <= m)
                [] OTHER -> 0

CaseOf(id, fam, u) ==
  [id |-> id, fam |-> fam, ty |-> u.ty, tytext |-> TypeText(u.ty), ctor |-> u.ty.k, depth |-> TyDepth(u.ty),
   vals |-> u.vals, n |-> Len(u.vals),
   paths |-> PathsOf(u), hasord |-> HasOrd(u.ty), hashash |-> HasHash(u.ty),
   optional |-> fam = "X" \/ \E i \in 1..Len(u.vals) : HasSpecialFloat(u.vals[i]),
   files |-> ("main.abra" :> JoinLines(ProgLines(u))), hostfns |-> HostFns, maxsteps |-> 400000000]

\* ---------------------------------------------------------------- enumeration (groups as initial states: see C25.tla)
VARIABLE c
Sel == UNION {{[f |-> FamNames[fi], i |-> i] : i \in 1..Len(FamOf(FamNames[fi]))} : fi \in 1..Len(FamNames)}
NG == 12
Init == c \in {[f |-> "grp", i |-> g] : g \in 0..NG - 1}
Next == c.f = "grp" /\ c' \in {x \in Sel : x.i % NG = c.i}
Emit == c.f \in {"A", "B", "C", "D", "E", "F", "G", "X"} =>
   LET id == c.f \o "_" \o ToString(c.i)
   IN JsonSerialize(IOEnv.OUTDIR \o "/" \o id \o ".json", CaseOf(id, c.f, FamOf(c.f)[c.i]))

\* ---------------------------------------------------------------- random universes (tlc -simulate, C24R.cfg)
Pick(S) == RandomElement(S)
RECURSIVE GenType(_)
GenType(d) ==
  LET k == IF d = 0 THEN Pick(1..5) ELSE Pick(3..12) IN       \* below the top: mostly composite types
  CASE k = 1 -> TBool [] k = 2 -> TNil [] k = 3 -> TInt [] k = 4 -> TFlt [] k = 5 -> TStr
    [] k \in {6, 10} -> TArr(GenType(d - 1))
    [] k \in {7, 11} -> TTup(<<GenType(d - 1), GenType(Pick(0..d - 1))>>)
    [] k \in {8, 12} -> TTup(<<GenType(0), GenType(d - 1), GenType(0)>>)
    [] k = 9 -> TTup(<<GenType(0), GenType(0), GenType(Pick(0..d - 1)), GenType(d - 1)>>)
RandDigits(n) == LET ds == [i \in 1..n |-> ToString(IF i = 1 THEN Pick(1..8) ELSE Pick(0..9))] IN JoinS(ds, "")
RandInt == LET mag == RandDigits(Pick({1, 2, 5, 10, 11, 18, 19})) IN IF Pick(1..2) = 1 THEN VInt(mag) ELSE VInt("-" \o mag)
RECURSIVE GenVal(_)
GenVal(ty) ==
  CASE ty.k = "bool" -> Bools[Pick(1..2)]
    [] ty.k = "nil"  -> VNil
    [] ty.k = "int"  -> IF Pick(1..4) = 1 THEN RandInt ELSE IntBoundary[Pick(1..Len(IntBoundary))]
    [] ty.k = "flt"  -> IF Pick(1..4) = 1 THEN VFlt(Pick(-5000..5000), Pick(0..6)) ELSE FltRegular[Pick(1..Len(FltRegular))]
    [] ty.k = "str"  -> Strs[Pick(1..Len(Strs))]
    [] ty.k = "arr"  -> VArr([i \in 1..Pick(0..3) |-> GenVal(ty.of)])
    [] ty.k = "tup"  -> VTup([i \in 1..Len(ty.ts) |-> GenVal(ty.ts[i])])
NRand == 10
InitR == c = [f |-> "start"]
\* two steps, so that the type is a state value when the values are drawn; the first value is repeated at the end, so that
\* every universe has two equal values at different positions
NextR == \/ c.f = "start" /\ c' = [f |-> "Rty", ty |-> GenType(Pick(1..2))]
         \/ c.f = "Rty" /\ c' = [f |-> "R", ty |-> c.ty, vals |-> [i \in 1..NRand |-> GenVal(c.ty)]]
EmitR == c.f = "R" =>
   LET id == "R_" \o ToString(TLCGet("stats").traces)
   IN JsonSerialize(IOEnv.OUTDIR \o "/" \o id \o ".json", CaseOf(id, "R", IF c.ty.k = "nil" THEN U(TNil, Nils) ELSE U(c.ty, c.vals \o <<c.vals[1]>>)))
=============================================================================
