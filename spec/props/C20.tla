----------------------------- MODULE C20 -----------------------------
(* C20: immutable bindings cannot be assigned, and assignment never crashes.
   Every state is one program of AssignRules: binding form x assignment operator (optionally followed by a second
   one) x int/float x function body/top level (x zero divisor).  The invariant looks the form up in
   AssignRules!Rule, evaluates the reference semantics where an effect is required or allowed, and emits
   {program, expected observation, admissible alternative}. *)
EXTENDS AssignRules, TLCExt
CONSTANTS Pairs
VARIABLE c
ShardNo(s) == CHOOSE i \in 0..63 : ToString(i) = s
Code(s) == Len(s.form) + Len(s.op) + Len(s.op2) + Len(s.ty) + Len(s.ctx) + (IF s.op \in {"+=", "*="} THEN 1 ELSE 0)
Init == c \in {s \in Shapes(Pairs) : Code(s) % ShardNo(IOEnv.NSHARDS) = ShardNo(IOEnv.SHARD)}
Next == FALSE /\ c' = c
Emit == PrintT(<<"CASE", ToJson(CaseOf(c))>>)
=============================================================================
