CONSTANTS
  NV = 2
  NSlots = 2
  MaxLen = 5
  DeepClone = FALSE
SPECIFICATION Spec
VIEW View
INVARIANT Refines
INVARIANT IndexAgrees
INVARIANT NoDangling
INVARIANT ModelWellFormed
CHECK_DEADLOCK FALSE
