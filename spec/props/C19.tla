----------------------------- MODULE C19 -----------------------------
(* C19: lambdas capture values at creation, including for nested lambdas.
   Every state is one program shape of LamCapture (depth x binding form of the captured variable x level of the
   binding x set of reading lambdas x reassignment before/after creation x inner-call/returned-closure x
   function/top-level); the invariant evaluates the reference semantics and emits {program, expected output}. *)
EXTENDS LamCapture, TLCExt
CONSTANTS LamDepth, TwoVars
VARIABLE c
ShardNo(s) == CHOOSE i \in 0..63 : ToString(i) = s
Code(s) == s.d + s.lvl + Cardinality(s.uses) + (IF s.before THEN 1 ELSE 0) + (IF s.after THEN 2 ELSE 0) +
           (IF s.mode = "ret" THEN 1 ELSE 0) + (IF s.ctx = "fn" THEN 3 ELSE 0) + Len(s.src) +
           s.ylvl + Cardinality(s.yuses) + Len(s.ysrc)
Space == Shapes1(LamDepth) \cup (IF TwoVars THEN Shapes2(LamDepth) ELSE {})
Init == c \in {s \in Space : Code(s) % ShardNo(IOEnv.NSHARDS) = ShardNo(IOEnv.SHARD)}
Next == FALSE /\ c' = c
Emit == PrintT(<<"CASE", ToJson(CaseOf(c))>>)
=============================================================================
