----------------------------- MODULE C26 -----------------------------
(***************************************************************************)
(* C26: array operations behave like the reference list model AbraArray    *)
(* and fail cleanly.                                                       *)
(*                                                                         *)
(* Model checking mode (INIT Init / NEXT Next / INVARIANT Emit):           *)
(*   every state is one *history* (sequence of operations from the family's*)
(*   alphabet, job.fam) of length <= job.maxlen together with the set      *)
(*   of configurations the list model allows after it.  A history ends at  *)
(*   maxlen or at the first operation the model says must fail.  For every *)
(*   maximal history the invariant emits the program (declarations, then   *)
(*   each operation followed by a print of all variables) and the expected *)
(*   observation (printed text - one of several where `remove` leaves the  *)
(*   order open -, done / runtime error).                                  *)
(* Simulation mode (NEXT NextSim / INVARIANT EmitSim, tlc -simulate):      *)
(*   long random histories over larger index/value domains on all four     *)
(*   variables, biased towards operations that succeed.                    *)
(***************************************************************************)
EXTENDS AbraArray, SequencesExt, Json, IOUtils, TLCExt

VARIABLES job,    \* what is explored: [fam, maxlen] (constant along a behaviour); the jobs of a run = Plans[IOEnv.PLAN]
          hist,   \* MC: indices into Alpha;  simulation: operation records
          mv      \* the model's verdict on hist: [cs, stat]
cs   == mv.cs     \* configurations allowed by the model after hist
stat == mv.stat   \* [err, why, inm, eouts]

A == TVar("a")   B == TVar("b")   N == TVar("n")   M == TVar("m")
N0 == TIdx("n", 0)   N1 == TIdx("n", 1)   M0 == TIdx("m", 0)

\* ---------------------------------------------------------------- alphabets (2-element value domain {0,1})
FlatR == << OAssign("a", ELit(<<0, 1>>)), OAssign("b", EVar("a")), OAssign("b", EClone(A)),
            OGet(A, 0), OSet(A, 0, EInt(1)), OPush(A, EInt(0)), OPush(A, EInt(1)), OPop(A), OSwap(A, 0, 1), ORemove(A, 0),
            OClear(A), OFind(A, EInt(1)), OPop(B), OIter(A), OProbe(A, 1) >>

FlatF == << OAssign("a", ELit(<<>>)), OAssign("a", ELit(<<0>>)), OAssign("a", ELit(<<0, 1>>)), OAssign("a", ELit(<<1, 0, 1>>)),
            OAssign("a", EFilled(0, 0)), OAssign("a", EFilled(1, 2)), OAssign("a", EFilled(0, 3)),
            OAssign("b", EVar("a")), OAssign("b", EClone(A)), OAssign("a", EVar("b")), OAssign("a", EClone(A)),
            OGet(A, -1), OGet(A, 0), OGet(A, 1), OGet(A, 2), OGet(B, 0), OProbe(A, -1), OProbe(A, 0), OProbe(A, 2), OProbe(B, 1),
            OSet(A, -1, EInt(0)), OSet(A, 0, EInt(0)), OSet(A, 0, EInt(1)), OSet(A, 1, EInt(0)), OSet(A, 1, EInt(1)),
            OSet(A, 2, EInt(1)), OSet(B, 0, EInt(1)), OSet(B, 1, EInt(0)),
            OPush(A, EInt(0)), OPush(A, EInt(1)), OPush(B, EInt(0)), OPush(B, EInt(1)),
            OPop(A), OPop(B), OLen(A), OLen(B), OIsEmpty(A), OIsEmpty(B),
            OSwap(A, 0, 1), OSwap(A, 1, 0), OSwap(A, 0, 0), OSwap(A, 0, 2), OSwap(A, 2, 0), OSwap(A, -1, 0), OSwap(A, 1, 2),
            ORemove(A, -1), ORemove(A, 0), ORemove(A, 1), ORemove(A, 2), ORemove(B, 0),
            OClear(A), OClear(B), OFind(A, EInt(0)), OFind(A, EInt(1)), OContains(A, EInt(0)), OContains(A, EInt(1)),
            OFind(B, EInt(1)), OIter(A), OIter(B) >>

Nest  == << OAssign("n", ELit2(<< <<0>>, <<1, 0>> >>)), OAssign("n", ELit2(<< <<>>, <<1>>, <<0, 1>> >>)),
            OPush(N, ELit(<<1>>)), OPush(N, EVar("a")), OAssign("a", EIdx("n", 0)), OSet(N, 0, EVar("a")),
            OPush(N0, EInt(1)), OPush(N1, EInt(0)), OPush(A, EInt(0)), OSet(N0, 0, EInt(1)),
            OAssign("m", EClone(N)), OAssign("m", EVar("n")), OPush(M0, EInt(0)), OAssign("a", EClone(N0)),
            OPop(N), OPop(N1), OSwap(N, 0, 1), ORemove(N, 0), OClear(N0), OClear(M),
            OFind(N, ELit(<<0>>)), OContains(N, EVar("a")), OGet(N, 1), OGet(N0, 0), OIter(N), OLen(N), OIsEmpty(N0),
            OProbe(N, 2), OProbe(N0, 1) >>

\* array.filled with an array as the value: the result's elements and the template are all independent of each other
Fill  == << OAssign("a", ELit(<<0, 1>>)), OAssign("n", EFilledV("a", 2)), OPush(A, EInt(1)), OPush(N1, EInt(0)), OPop(N1),
            OPush(N0, EInt(1)), OIter(N), OIter(A) >>

\* medium alphabet: every operation kind, the interesting index / alias variants
FlatM == << OAssign("a", ELit(<<0, 1>>)), OAssign("a", ELit(<<1, 0, 1>>)), OAssign("a", EFilled(1, 2)),
            OAssign("b", EVar("a")), OAssign("b", EClone(A)), OAssign("a", EVar("b")),
            OGet(A, -1), OGet(A, 0), OGet(A, 1), OGet(A, 2), OGet(B, 0),
            OSet(A, 0, EInt(1)), OSet(A, 1, EInt(0)), OSet(A, 2, EInt(1)), OSet(B, 0, EInt(1)),
            OPush(A, EInt(0)), OPush(A, EInt(1)), OPush(B, EInt(0)), OPop(A), OPop(B), OLen(A), OIsEmpty(A),
            OSwap(A, 0, 1), OSwap(A, 0, 2), ORemove(A, 0), ORemove(A, 1), ORemove(A, 2), ORemove(B, 0),
            OClear(A), OFind(A, EInt(0)), OContains(A, EInt(1)), OIter(A), OIter(B) >>

Job(fam, maxlen) == [fam |-> fam, maxlen |-> maxlen]
Plans == [quick       |-> {Job("flatR", 3), Job("flatF", 2), Job("nest", 2), Job("fill", 4)},
          thorough    |-> {Job("flatR", 4), Job("flatM", 3), Job("flatF", 2), Job("nest", 3), Job("fill", 5)},
          simquick    |-> {Job("sim", 30)},
          simthorough |-> {Job("sim", 30), Job("sim", 60)}]

Fam == job.fam
Alpha == CASE Fam = "flatR" -> FlatR [] Fam = "flatM" -> FlatM [] Fam = "flatF" -> FlatF [] Fam = "nest" -> Nest [] Fam = "fill" -> Fill [] OTHER -> <<>>
Vars == CASE Fam \in {"flatR", "flatM", "flatF"} -> <<"a", "b">> [] Fam \in {"nest", "fill"} -> <<"a", "n", "m">> [] OTHER -> <<"a", "b", "n", "m">>
MaxLen == job.maxlen

Stat0 == [err |-> "", why |-> "", inm |-> TRUE, eouts |-> {}]
Init == job \in Plans[IOEnv.PLAN] /\ hist = <<>> /\ mv = [cs |-> {InitCfg}, stat |-> Stat0]

\* the model's verdict on extending a history whose configurations are cs0 by operation o
\* (an expression, so that TLC evaluates the LET definitions once)
Verdict(cs0, o) ==
  LET r == StepAll(cs0, o, Vars)
      agree == r.inm /\ Cardinality(r.errs) <= 1 /\ (r.errs = {} \/ r.cs = {})
      failed == agree /\ r.errs # {}
  IN [cs |-> r.cs,
      stat |-> [err |-> IF failed THEN CHOOSE e \in r.errs : TRUE ELSE "",
                why |-> IF failed THEN CHOOSE w \in r.whys : TRUE ELSE "",
                inm |-> agree, eouts |-> r.errouts]]
Advance(o) == mv' = Verdict(cs, o)

Live == Len(hist) < MaxLen /\ stat.err = "" /\ stat.inm
Next == Live /\ job' = job /\ LET al == Alpha IN \E k \in 1..Len(al) : hist' = Append(hist, k) /\ Advance(al[k])

\* ---------------------------------------------------------------- the emitted case
OneOf(S) == IF Cardinality(S) = 1 THEN CHOOSE x \in S : TRUE ELSE [oneof |-> SetToSeq(S)]
Expect == IF stat.err = "" THEN [status |-> "done", out |-> OneOf({c.out : c \in cs})]
          ELSE [status |-> "error", errkind |-> stat.err, out |-> OneOf(stat.eouts)]
\* class of an operation for the coverage statistics: name, form of the operand, inner-array target
KindOf(o) == o.op \o (IF o.E.k # "none" THEN ":" \o o.E.k ELSE "") \o (IF o.T.k = "idx" THEN "@inner" ELSE "")
\* every case names its class (`key`); the class of histories ending in a pop on an empty array additionally
\* describes the deviation known at the pinned revision (host panic after the correct output so far), so that
\* the known-findings filter hides exactly that deviation and nothing else
CaseOf(id, ops) ==
  [id |-> id, fam |-> Fam, maxlen |-> MaxLen, files |-> ("main.abra" :> ProgText(ops, Vars)), inmodel |-> stat.inm,
   ops |-> [i \in 1..Len(ops) |-> ROp(ops[i])], kinds |-> [i \in 1..Len(ops) |-> KindOf(ops[i])], len |-> Len(ops),
   alts |-> IF stat.err = "" THEN Cardinality({c.out : c \in cs}) ELSE Cardinality(stat.eouts),
   expect |-> Expect,
   key |-> IF stat.err # "" THEN "C26|" \o stat.why ELSE "C26|done|" \o ops[Len(ops)].op] @@
  (IF stat.err # "" THEN [why |-> stat.why] ELSE <<>>) @@
  (IF stat.err # "" /\ stat.why = "pop-empty"
   THEN [defect |-> [key |-> "C26|pop-empty|host-panic", expect |-> [status |-> "panic", out |-> OneOf(stat.eouts)]]]
   ELSE <<>>)

RECURSIVE IdOf(_, _)
IdOf(h, i) == IF i > Len(h) THEN "" ELSE "-" \o ToString(h[i]) \o IdOf(h, i + 1)
Emit == (~Live /\ hist # <<>>) =>
          LET al == Alpha IN PrintT(<<"CASE", ToJson(CaseOf(Fam \o ToString(MaxLen) \o IdOf(hist, 1), [i \in 1..Len(hist) |-> al[hist[i]]]))>>)

\* ---------------------------------------------------------------- simulation: long random histories
Pick(S) == RandomElement(S)
MaxV == 2
RandInts(k) == [i \in 1..k |-> Pick(0..MaxV)]
SimOp ==
  LET c   == CHOOSE x \in cs : TRUE
      tk  == Pick(1..10)
      nl  == Len(c.store[c.env["n"]])
      ml  == Len(c.store[c.env["m"]])
      ix(l) == IF l > 0 /\ Pick(1..8) > 1 THEN Pick(0..l - 1) ELSE Pick(-1..l + 1)
      T   == CASE tk <= 3 -> A [] tk <= 5 -> B [] tk <= 7 -> N [] tk = 8 -> M
               [] tk = 9 -> TIdx("n", ix(nl)) [] OTHER -> TIdx("m", ix(ml))
      nested == T.k = "var" /\ T.x \in {"n", "m"}
      t   == EvalT(c, T)
      len == IF t.err = "" THEN Len(c.store[t.a]) ELSE 0
      i   == ix(len)
      j   == ix(len)
      E   == IF nested THEN Pick({ELit(<<>>), ELit(RandInts(1)), ELit(RandInts(2)), EVar("a"), EVar("b")})
             ELSE EInt(Pick(0..MaxV))
      src == IF nested
             THEN Pick({ELit2(<<RandInts(1), RandInts(2)>>), ELit2(<<RandInts(0), RandInts(1), RandInts(3)>>),
                        EVar("n"), EVar("m"), EClone(N), EClone(M), EClone(N)})
             ELSE Pick({ELit(RandInts(Pick(0..4))), ELit(RandInts(Pick(1..5))), EFilled(Pick(0..MaxV), Pick(0..4)),
                        EVar("a"), EVar("b"), EClone(A), EClone(B), EClone(TIdx("n", ix(nl))), EIdx("n", ix(nl)), EIdx("m", ix(ml))})
      kind == Pick({<<1, "push">>, <<2, "push">>, <<3, "push">>, <<4, "push">>, <<5, "set">>, <<6, "set">>, <<7, "set">>,
                    <<8, "get">>, <<9, "get">>, <<26, "probe">>, <<10, "pop">>, <<11, "pop">>, <<12, "len">>, <<13, "is_empty">>,
                    <<14, "swap">>, <<15, "swap">>, <<16, "remove">>, <<17, "remove">>, <<18, "clear">>,
                    <<19, "find">>, <<20, "find">>, <<21, "contains">>, <<22, "iter">>,
                    <<23, "assign">>, <<24, "assign">>, <<25, "assign">>})[2]
      k2 == IF kind = "pop" /\ len = 0 /\ Pick(1..10) > 1 THEN "push"
            ELSE IF kind = "remove" /\ Cardinality(cs) > 4 THEN "push"
            ELSE IF kind = "assign" /\ T.k = "idx" THEN "push" ELSE kind
      cand == CASE k2 = "push" -> OPush(T, E) [] k2 = "set" -> OSet(T, i, E) [] k2 = "get" -> OGet(T, i) [] k2 = "probe" -> OProbe(T, i)
                [] k2 = "pop" -> OPop(T) [] k2 = "len" -> OLen(T) [] k2 = "is_empty" -> OIsEmpty(T)
                [] k2 = "swap" -> OSwap(T, i, j) [] k2 = "remove" -> ORemove(T, i) [] k2 = "clear" -> OClear(T)
                [] k2 = "find" -> OFind(T, E) [] k2 = "contains" -> OContains(T, E) [] k2 = "iter" -> OIter(T)
                [] k2 = "assign" -> OAssign(T.x, src)
      fails == \E r \in Outcomes(c, cand) : r.err # ""
      \* most histories should be long: an operation the model says fails is kept only 1 time in 12
      safe == Pick({OPush(A, EInt(Pick(0..MaxV))), OPush(B, EInt(Pick(0..MaxV))), OPush(N, ELit(RandInts(Pick(0..2)))),
                    OPush(M, ELit(RandInts(1))), OPush(N, EVar("a"))})
  IN IF fails /\ Pick(1..12) > 1 THEN safe ELSE cand

\* (TLC re-evaluates action-level LET definitions on every use: the random operation is drawn exactly once,
\*  into hist', and read back from there)
NextSim == Live /\ job' = job /\ hist' = Append(hist, SimOp) /\ Advance(hist'[Len(hist')])
EmitSim == (~Live /\ hist # <<>>) =>
   LET id == "s" \o ToString(MaxLen) \o "." \o ToString(TLCGet("stats").traces)
   IN JsonSerialize(IOEnv.OUTDIR \o "/" \o id \o ".json", CaseOf(id, hist))
=============================================================================
