----------------------------- MODULE C29 -----------------------------
(***************************************************************************)
(* C29: comments and optional separators never change a program.          *)
(* Metamorphic check.  A base program is rendered canonically (Render) and *)
(* predicted by the reference semantics (AbraSem); each variant is the     *)
(* same program re-printed by Trivia!Variant under a plan.  Emitted per    *)
(* base program: the canonical case (with the predicted observation) and   *)
(* its variants, each carrying `same_as` = id of the canonical case, the   *)
(* fields that must agree with it, and the predicted outcome without line  *)
(* numbers (they legitimately move).                                       *)
(*   C29.cfg    tlc -simulate: base = AbraGen!GenProg, one random plan per *)
(*              kind of trivia                                             *)
(*   C29Ex.cfg  exhaustive: a fixed base program x every comment body /    *)
(*              line comment text up to length C29_LEN x insertion points  *)
(***************************************************************************)
EXTENDS AbraGen, Cases, Trivia, TLCExt
CONSTANTS NF, NS, Fuel, TapeLen

\* the outcome of a variant: as predicted for the canonical text, minus line numbers
OutcomeOf(r) ==
  IF r.status = "done"
  THEN [compile |-> "ok", status |-> "done", out |-> r.out] @@ (IF r.result.ty # "none" THEN [result |-> r.result.v] ELSE <<>>)
  ELSE [compile |-> "ok", status |-> "error", out |-> r.out, errkind |-> r.err.kind]
CmpFields == <<"compile", "status", "out", "result">>

KnownKey == "C29|block-comment-body-contains-star-or-slash"
VariantCase(id, baseId, text, r, kind, bodies) ==
  [id |-> id, same_as |-> baseId, cmp |-> CmpFields, files |-> ("main.abra" :> text), inmodel |-> r.inmodel,
   expect |-> OutcomeOf(r), kind |-> kind, nblock |-> Len(bodies),
   star_or_slash |-> HasStarOrSlash(bodies)] @@
  (IF r.status = "done" /\ r.result.ty # "none" THEN [result |-> r.result.ty] ELSE <<>>) @@
  (IF InKnownFamily(bodies) THEN [known |-> [key |-> KnownKey]] ELSE <<>>)

\* ---------------------------------------------------------------- random programs x random plans
VARIABLES prog, tapes, ex
Pk(xs) == RandomElement(xs)
\* (tapes are built as explicit tuples: a lazily evaluated function constructor would re-draw its elements)
RECURSIVE RandTape(_)
RandTape(n) == IF n = 0 THEN <<>> ELSE <<Pk(0..99)>> \o RandTape(n - 1)
RECURSIVE RandTapes(_)
RandTapes(m) == IF m = 0 THEN <<>> ELSE <<RandTape(TapeLen)>> \o RandTapes(m - 1)
Init == prog = <<>> /\ tapes = <<>> /\ ex = <<>>
Next == prog = <<>> /\ prog' = GenProg(Pk(0..NF), Pk(NS \div 2..NS)) /\ tapes' = RandTapes(Len(Kinds)) /\ UNCHANGED ex
Emit == prog # <<>> =>
   LET L == Layout(prog)
       lines == LayFile(prog.files[1]).lines
       r == Run(L.sem, Fuel)
       id == "g" \o ToString(TLCGet("stats").traces)
       vs == [j \in 1..Len(Kinds) |->
                LET v == Variant(lines, Plan(Kinds[j], tapes[j]))
                IN VariantCase(id \o "v" \o ToString(j), id, v.text, r, Kinds[j], v.bodies)]
   IN JsonSerialize(IOEnv.OUTDIR \o "/" \o id \o ".json", [base |-> RunCase(id, L, r), variants |-> vs])

\* ---------------------------------------------------------------- exhaustive comment texts on a fixed program
MaxLen == atoi(IOEnv.C29_LEN)
FixedProg == File1(<<>>, <<>>, <<
   Let("x", Bin("+", I(2), Bin("*", I(3), I(4)))),
   Var("y", [k |-> "arr", es |-> <<I(1), I(2), I(3)>>]),
   ExprS(MCall(V("y"), "push", <<V("x")>>)),
   PrintS(Bin("..", Bin("..", V("x"), S(" ")), MCall(V("y"), "len", <<>>))),
   If(Bin(">", V("x"), I(3)), <<PrintS(S("big"))>>, <<PrintS(S("small"))>>),
   \* initialisers that begin with a prefix operator (a comment / line break may stand between `=` and the operator)
   Let("nb", [k |-> "not", e |-> Bin(">", V("x"), I(3))]),
   Let("ny", [k |-> "neg", e |-> V("x")]),
   PrintS(Bin("..", Bin("..", V("nb"), S(" ")), V("ny"))) >>)
FixedLines(u) == LayFile(FixedProg.files[1]).lines
RECURSIVE JoinNl(_)
JoinNl(ls) == IF ls = <<>> THEN "" ELSE ls[1] \o "\n" \o JoinNl(Tail(ls))
BlockPoints == <<"inside-expression", "own-line", "file-start", "line-end", "file-end-no-newline", "before-else">>
LinePoints == <<"line-end", "own-line", "file-end-no-newline", "after-open-brace", "before-not", "before-neg">>
Replace1(s, old, new) ==      \* the first occurrence of old in s replaced by new
  LET i == CHOOSE j \in 1..(Len(s) - Len(old) + 1) : /\ SubSeq(s, j, j + Len(old) - 1) = old
                                                      /\ \A h \in 1..(j - 1) : SubSeq(s, h, h + Len(old) - 1) # old
  IN SubSeq(s, 1, i - 1) \o new \o SubSeq(s, i + Len(old), Len(s))
Canon(u) == JoinNl(FixedLines(u))
PlaceBlock(c, pt) ==
  CASE pt = "inside-expression" -> Replace1(Canon(0), "2 + 3", "2 + " \o c \o " 3")
    [] pt = "own-line"   -> Replace1(Canon(0), "var y", c \o "\nvar y")
    [] pt = "file-start" -> c \o Canon(0)
    [] pt = "line-end"   -> Replace1(Canon(0), "4\n", "4 " \o c \o "\n")
    [] pt = "file-end-no-newline" -> Canon(0) \o c
    [] pt = "before-else" -> Replace1(Canon(0), "} else {", "} " \o c \o " else {")
PlaceLine(c, pt) ==
  CASE pt = "line-end"  -> Replace1(Canon(0), "4\n", "4 " \o c \o "\n")
    [] pt = "own-line"  -> Replace1(Canon(0), "var y", c \o "\nvar y")
    [] pt = "file-end-no-newline" -> Canon(0) \o c
    [] pt = "after-open-brace" -> Replace1(Canon(0), "3 {\n", "3 { " \o c \o "\n")
    [] pt = "before-not" -> Replace1(Canon(0), "let nb = not", "let nb = " \o c \o "\n  not")
    [] pt = "before-neg" -> Replace1(Canon(0), "let ny = -", "let ny = " \o c \o "\n  -")
ExCases(n) == {[k |-> "block", body |-> b, pt |-> BlockPoints[p]] : b \in Bodies(n), p \in 1..Len(BlockPoints)}
              \cup {[k |-> "line", body |-> t, pt |-> LinePoints[p]] : t \in LineTexts(n), p \in 1..Len(LinePoints)}
              \cup {[k |-> "base", body |-> "", pt |-> ""]}
InitEx == ex \in ExCases(MaxLen) /\ prog = <<>> /\ tapes = <<>>
NextEx == UNCHANGED <<ex, prog, tapes>>
EmitEx ==
  LET L == Layout(FixedProg)
      r == Run(L.sem, Fuel)
  IN IF ex.k = "base" THEN PrintT(<<"CASE", ToJson(RunCase("fixed", L, r))>>)
     ELSE LET text == IF ex.k = "block" THEN PlaceBlock(BlockComment(ex.body), ex.pt) ELSE PlaceLine(LineComment(ex.body), ex.pt)
              bodies == IF ex.k = "block" THEN <<ex.body>> ELSE <<>>
          IN PrintT(<<"CASE", ToJson(VariantCase("x", "fixed", text, r, ex.k \o "-comment@" \o ex.pt, bodies) @@ [body |-> ex.body])>>)
=============================================================================
