CONSTANTS
  NV = 2
  NSlots = 2
  MaxLen = 5
  DeepClone = TRUE
SPECIFICATION Spec
VIEW View
INVARIANT Refines
INVARIANT IndexAgrees
INVARIANT NoDangling
INVARIANT NoSharing
INVARIANT ModelWellFormed
PROPERTY ModelStep
CHECK_DEADLOCK FALSE
