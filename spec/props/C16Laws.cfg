INIT Init
NEXT Next
