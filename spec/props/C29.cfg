CONSTANTS NF = 2 NS = 10 Fuel = 300 TapeLen = 97
INIT Init
NEXT Next
INVARIANT Emit
CHECK_DEADLOCK FALSE
