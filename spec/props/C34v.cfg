INIT InitV
NEXT NextV
INVARIANT Verdict
CHECK_DEADLOCK FALSE
