CONSTANTS
  MaxAlign = 64
INIT Init
NEXT Next
CHECK_DEADLOCK FALSE
