CONSTANTS
  NV = 3
  NSlots = 2
  MaxLen = 5
  WithMove = FALSE
  Regrow = FALSE
  CloneDeep = FALSE
INIT Init
NEXT Next
INVARIANT Emit
INVARIANT ModelLaws
CHECK_DEADLOCK FALSE
