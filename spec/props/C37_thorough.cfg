CONSTANTS
  NV = 3
  NSlots = 2
  MaxLen = 5
  WithMove = TRUE
INIT Init
NEXT Next
INVARIANT Emit
INVARIANT ModelLaws
CHECK_DEADLOCK FALSE
