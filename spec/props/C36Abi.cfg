CONSTANTS MaxDepth = 2 Mode = "spec" WideLast = TRUE
INIT Init
NEXT Next
INVARIANT Laws
POSTCONDITION Post
CHECK_DEADLOCK FALSE
