CONSTANTS NRand = 10 Fuel = 300
INIT Init
NEXT Next
INVARIANT Emit
CHECK_DEADLOCK FALSE
