CONSTANTS NF = 0 NS = 0 Fuel = 0
INIT Init
NEXT Next
INVARIANT Emit
CHECK_DEADLOCK FALSE
