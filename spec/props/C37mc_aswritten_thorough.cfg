CONSTANTS
  NV = 3
  NSlots = 3
  MaxLen = 6
  DeepClone = FALSE
SPECIFICATION Spec
VIEW View
INVARIANT Refines
INVARIANT IndexAgrees
INVARIANT NoDangling
INVARIANT ModelWellFormed
CHECK_DEADLOCK FALSE
