------------------------------- MODULE C17 -------------------------------
(***************************************************************************)
(* C17: `..` yields the exact concatenation and == != < <= > >= agree with *)
(* lexicographic byte order, at every step budget and with a collection in *)
(* the middle of the (resumable, one byte per step) string instructions.   *)
(* The structured string set: empty, equal, prefix/extension pairs, first  *)
(* difference at each position, multi-byte characters whose UTF-8 bytes    *)
(* order differently from their code points' UTF-16 units.  Every ordered  *)
(* pair of the set is one line of a program; programs hold PerProg pairs.  *)
(***************************************************************************)
EXTENDS Str, Json, IOUtils
CONSTANTS PerProg, Level

a == 97  b == 98  c == 99  z == 122
eacute == 233        \* 2 bytes
euro == 8364         \* 3 bytes
bmpHi == 65533       \* U+FFFD: 3 bytes EF BF BD
grin == 128512       \* 4 bytes F0 9F 98 80 (sorts above U+FFFD in UTF-8, below it in UTF-16)
Base == << <<>>, <<a>>, <<b>>, <<a, a>>, <<a, b>>, <<a, b, c>>, <<a, b, c, a>>, <<a, b, z>>, <<a, a, a, a>>, <<a, a, b, a>>, <<a, a, a, b>>,
           <<eacute>>, <<a, eacute>>, <<euro>>, <<a, euro>>, <<grin>>, <<bmpHi>>, <<a, grin>>, <<z>>, <<eacute, a>> >>
More == << <<a, b, c, a, b, c, a, b>>, <<a, b, c, a, b, c, a, c>>, <<grin, grin>>, <<euro, eacute, a>>, <<b, a>> >>
Strs == IF Level = 1 THEN Base ELSE Base \o More
NS == Len(Strs)
Pairs == [k \in 1..(NS * NS) |-> <<((k - 1) \div NS) + 1, ((k - 1) % NS) + 1>>]
NProg == ((NS * NS) + PerProg - 1) \div PerProg
Ops == <<"==", "!=", "<", "<=", ">", ">=">>

Lit(s) == <<Seg("\""), SegCp(s), Seg("\"")>>
\* one pair = a few statements; the result line is  <concat>|b b b b b b.  The operations are written in three forms
\* (chosen by the pair number) because the compiler treats them differently: inline operands of a larger expression,
\* results stored straight into a variable, and comparisons used as conditions.
Form(n) == n % 3
LineSegs(p, n) ==
  LET x == Strs[p[1]]  y == Strs[p[2]]  v == ToString(n)
      xv == "x" \o v  yv == "y" \o v
      inl(op) == "(" \o xv \o " " \o op \o " " \o yv \o ")"
      cnd(op) == "(if " \o xv \o " " \o op \o " " \o yv \o " { \"true\" } else { \"false\" })"
      six(f(_)) == f("==") \o " .. \" \" .. " \o f("!=") \o " .. \" \" .. " \o f("<") \o " .. \" \" .. " \o f("<=") \o
                " .. \" \" .. " \o f(">") \o " .. \" \" .. " \o f(">=")
  IN
  <<Seg("let " \o xv \o " = ")>> \o Lit(x) \o <<Seg("\nlet " \o yv \o " = ")>> \o Lit(y) \o
  (IF Form(n) = 0 THEN
      <<Seg("\nprintln((" \o xv \o " .. " \o yv \o ") .. \"|\" .. " \o six(inl) \o ")\n")>>
   ELSE IF Form(n) = 1 THEN
      <<Seg("\nlet c" \o v \o " = " \o xv \o " .. " \o yv \o
            "\nlet e" \o v \o " = " \o xv \o " == " \o yv \o "\nlet n" \o v \o " = " \o xv \o " != " \o yv \o
            "\nlet l" \o v \o " = " \o xv \o " < " \o yv \o "\nlet m" \o v \o " = " \o xv \o " <= " \o yv \o
            "\nlet g" \o v \o " = " \o xv \o " > " \o yv \o "\nlet h" \o v \o " = " \o xv \o " >= " \o yv \o
            "\nprintln(c" \o v \o " .. \"|\" .. e" \o v \o " .. \" \" .. n" \o v \o " .. \" \" .. l" \o v \o " .. \" \" .. m" \o v \o
            " .. \" \" .. g" \o v \o " .. \" \" .. h" \o v \o ")\n")>>
   ELSE
      <<Seg("\nprintln((" \o xv \o " .. " \o yv \o ") .. \"|\" .. " \o six(cnd) \o ")\n")>>)
OutSegs(p) ==
  LET x == Strs[p[1]]  y == Strs[p[2]] IN
  <<SegCp(Concat(x, y)),
    Seg("|" \o BoolTxt(Rel("==", x, y)) \o " " \o BoolTxt(Rel("!=", x, y)) \o " " \o BoolTxt(Rel("<", x, y)) \o " " \o
        BoolTxt(Rel("<=", x, y)) \o " " \o BoolTxt(Rel(">", x, y)) \o " " \o BoolTxt(Rel(">=", x, y)) \o "\n")>>
RECURSIVE Cat(_, _, _)
Cat(F(_, _), lo, hi) == IF lo > hi THEN <<>> ELSE F(Pairs[lo], lo) \o Cat(F, lo + 1, hi)
OutOf(p, n) == OutSegs(p)

VARIABLE i
Init == i \in 1..NProg
Next == FALSE /\ UNCHANGED i
Lo == (i - 1) * PerProg + 1
Hi == IF i * PerProg > NS * NS THEN NS * NS ELSE i * PerProg
Case == [id |-> "str" \o ToString(i),
         files_seg |-> ("main.abra" :> Cat(LineSegs, Lo, Hi)),
         expect_seg |-> [out |-> Cat(OutOf, Lo, Hi)],
         expect |-> [status |-> "done"],
         pairs |-> Hi - Lo + 1]
Emit == PrintT(<<"CASE", ToJson(Case)>>)
=============================================================================
