CONSTANTS
  NV = 3
  NSlots = 3
  MaxLen = 4
  WithMove = TRUE
  Regrow = FALSE
  CloneDeep = FALSE
INIT Init
NEXT Next
INVARIANT Emit
INVARIANT ModelLaws
CHECK_DEADLOCK FALSE
