CONSTANTS
  MaxAlign = 16
  Sizes = {1, 2, 3, 8, 24, 64}
  Aligns = {1, 2, 4, 8, 16}
  Caps = {0, 4, 16}
  MaxAllocs = 4
  Repaired = FALSE
SPECIFICATION Spec
VIEW View
INVARIANT InvInBounds
INVARIANT InvDisjoint
INVARIANT InvOffset
CHECK_DEADLOCK FALSE
