------------------------------ MODULE C38mc ------------------------------
(* C38, design level: TLC model-checks the bump allocator model spec/utils/Arena.tla for every allocation
   sequence of length <= MaxAllocs over Types = {(size, align) : size \in Sizes, align \in Aligns, align | size},
   every initial capacity in Caps and every base-address residue of every buffer.

   Repaired = FALSE: Arena::alloc as written. Expected outcome: counterexamples to Aligned (already the first
     allocation with align > 1) and to InBounds (an allocation larger than what is left after the offset was
     carried over into the new buffer).
   Repaired = TRUE: the reference allocator. Expected outcome: InBounds, Aligned, Disjoint hold.

   VIEW: two states that agree on (number of allocations, current buffer, offset, allocations inside the
   current buffer) are identified. This is sound for the three invariants: whether a *new* allocation is in
   bounds / aligned / disjoint from the others depends only on those components, and allocations in old
   buffers never change. *)
EXTENDS Arena, TLC, Json
CONSTANTS Sizes, Aligns, Caps, MaxAllocs, Repaired

Types == {t \in [size : Sizes, align : Aligns] : t.size % t.align = 0}

VARIABLES a, hist
vars == <<a, hist>>
CurAllocs == {a.allocs[i] : i \in {j \in 1..Len(a.allocs) : a.allocs[j].buf = Len(a.bufs)}}
View == <<Len(hist.allocs), Cur(a), a.off, CurAllocs>>

Init == \E cap \in Caps, r \in Residues :
           /\ a = InitArena(cap, r)
           /\ hist = [cap |-> cap, allocs |-> <<>>, resids |-> <<r>>]

Next == /\ Len(hist.allocs) < MaxAllocs
        /\ \E t \in Types :
             LET sw == IF Repaired THEN SwitchesRepaired(a, t.size, t.align) ELSE SwitchesAsWritten(a, t.size, t.align)
             IN \E r \in (IF sw THEN Residues ELSE {0}) :
                  /\ a' = IF Repaired THEN AllocRepaired(a, t.size, t.align, r) ELSE AllocAsWritten(a, t.size, t.align, r)
                  /\ hist' = [hist EXCEPT !.allocs = Append(@, t), !.resids = IF sw THEN Append(@, r) ELSE @]
Spec == Init /\ [][Next]_vars

Report(name) == PrintT(<<"CASE", ToJson([violated |-> name, repaired |-> Repaired, hist |-> hist, arena |-> a])>>) /\ FALSE
InvInBounds == InBounds(a) \/ Report("InBounds")
InvAligned  == Aligned(a)  \/ Report("Aligned")
InvDisjoint == Disjoint(a) \/ Report("Disjoint")
\* the bump offset never runs behind an allocation of the current buffer (what makes Disjoint inductive)
InvOffset   == (\A x \in CurAllocs : x.start + x.size <= a.off) \/ Report("Offset")
=============================================================================
