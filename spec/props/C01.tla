------------------------------- MODULE C01 -------------------------------
(***************************************************************************)
(* C01: accepted programs never hit an internal VM fault.  This module is  *)
(* the "risky forms" family: a control transfer (break, continue, return,  *)
(* `?`) that leaves from the middle of an expression whose earlier         *)
(* operands are already on the operand stack, in every loop kind; `if`     *)
(* without `else` whose block ends in a value; void values in containers.  *)
(* AbraSem gives the expected behaviour (the transfer simply happens and   *)
(* pending operands are discarded); the recorded instruction trace is      *)
(* validated against TraceSched's operand-stack discipline.                *)
(* One state = one (loop kind, jump kind, operand context) combination.    *)
(***************************************************************************)
EXTENDS GcStress, Cases, TLCExt

Loops == <<"while", "forcount", "forarray", "nested">>
Jumps == <<"break", "continue", "return", "try">>
Ctxs == <<"rightop", "leftop", "arg2", "arrelem", "tupelem", "index", "callee-arg-nested", "stringop", "ifnoelse">>

Blk(ss) == [k |-> "blk", ss |-> ss]
IfE(c, t, e) == [k |-> "ife", c |-> c, t |-> t, e |-> e]
RetS(e) == [k |-> "ret", e |-> e]
Try(e) == [k |-> "try", e |-> e]

\* the value-producing expression that may jump when i == 2
JumpE(j) ==
  CASE j = "break"    -> IfE(Bin("==", V("i"), I(2)), Blk(<<[k |-> "break"], ExprS(I(1))>>), V("i"))
    [] j = "continue" -> IfE(Bin("==", V("i"), I(2)), Blk(<<[k |-> "continue"], ExprS(I(1))>>), V("i"))
    [] j = "return"   -> IfE(Bin("==", V("i"), I(2)), Blk(<<RetS(Bin("+", V("acc"), I(1000))), ExprS(I(1))>>), V("i"))
    [] j = "try"      -> Try(Call("pick", <<V("i")>>))
\* the statement that embeds it with operands already pushed before it
Stmts(c, j) ==
  LET e == JumpE(j) IN
  CASE c = "rightop"  -> <<Assign(V("acc"), "=", Bin("+", V("acc"), Bin("*", I(10), e)))>>
    [] c = "leftop"   -> <<Assign(V("acc"), "=", Bin("+", Bin("*", e, I(10)), V("acc")))>>
    [] c = "arg2"     -> <<Assign(V("acc"), "=", Call("add3", <<V("acc"), I(7), e>>))>>
    [] c = "arrelem"  -> <<Let("tmp", Arr(<<V("acc"), I(5), e>>)), Assign(V("acc"), "+=", Idx(V("tmp"), I(2)))>>
    [] c = "tupelem"  -> <<LetP(TupP(<<PB("ta"), PB("tb")>>), Tup(<<V("acc"), e>>)), Assign(V("acc"), "=", Bin("+", V("ta"), V("tb")))>>
    [] c = "index"    -> <<Assign(V("acc"), "+=", Idx(V("table"), e))>>
    [] c = "callee-arg-nested" -> <<Assign(V("acc"), "=", Call("add3", <<I(1), Call("add3", <<V("acc"), e, I(2)>>), I(3)>>))>>
    [] c = "stringop" -> <<Assign(V("log"), "=", Bin("..", Bin("..", V("log"), S("<")), e))>>
    [] c = "ifnoelse" -> <<If(Bin("<", V("i"), I(3)), <<ExprS(e)>>, <<>>), Assign(V("acc"), "+=", I(1))>>

Body(c, j) == Stmts(c, j) \o <<PrintS(Bin("..", Bin("..", V("acc"), S(" ")), V("log")))>>
LoopS(l, c, j) ==
  CASE l = "while"    -> <<Var("i", I(0)), While(Bin("<", V("i"), I(4)), <<Assign(V("i"), "+=", I(1))>> \o Body(c, j))>>
    [] l = "forcount" -> <<For("i", Count(I(5)), Body(c, j))>>
    [] l = "forarray" -> <<For("i", [k |-> "array", e |-> Arr(<<I(1), I(2), I(3), I(4)>>)], Body(c, j))>>
    [] l = "nested"   -> <<For("o", Count(I(2)), <<For("i", Count(I(4)), Body(c, j)), PrintS(Bin("..", S("outer "), V("o")))>>)>>

Fns == << Fn("add3", <<Par("a", "int"), Par("b", "int"), Par("c", "int")>>, "int", <<ExprS(Bin("+", Bin("+", V("a"), V("b")), V("c")))>>),
          Fn("pick", <<Par("n", "int")>>, "option<int>",
             <<If(Bin("==", V("n"), I(2)), <<RetS(None)>>, <<>>), ExprS(Some(V("n")))>>) >>
\* return / ? need an enclosing function: the loop lives in `work`, the main program prints its result
Prelude == <<Var("acc", I(0)), Var("log", S("")), Let("table", Arr(<<I(10), I(20), I(30), I(40), I(50)>>))>>
Prog(l, c, j) ==
  IF j \in {"return", "try"}
  THEN File1(Types,
             Fns \o <<Fn("work", <<>>, IF j = "try" THEN "option<int>" ELSE "int",
                          Prelude \o LoopS(l, c, j) \o <<ExprS(IF j = "try" THEN Some(V("acc")) ELSE V("acc"))>>)>>,
             <<PrintS(Call("work", <<>>)), PrintS(S("end"))>>)
  ELSE File1(Types, Fns, Prelude \o LoopS(l, c, j) \o <<PrintS(V("acc")), PrintS(S("end"))>>)

VARIABLES li, ji, ci
Init == li \in 1..Len(Loops) /\ ji \in 1..Len(Jumps) /\ ci \in 1..Len(Ctxs)
Next == FALSE /\ UNCHANGED <<li, ji, ci>>
Emit ==
   LET L == Layout(Prog(Loops[li], Ctxs[ci], Jumps[ji]))
       r == Run(L.sem, 2000)
       id == Loops[li] \o "_" \o Jumps[ji] \o "_" \o Ctxs[ci]
   IN PrintT(<<"CASE", ToJson(RunCase(id, L, r) @@ [loop |-> Loops[li], jump |-> Jumps[ji], ctx |-> Ctxs[ci]])>>)
=============================================================================
