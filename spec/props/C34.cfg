INIT InitR
NEXT NextR
INVARIANT Emit
CHECK_DEADLOCK FALSE
