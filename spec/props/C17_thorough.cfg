CONSTANTS PerProg = 40 Level = 2
INIT Init
NEXT Next
INVARIANT Emit
CHECK_DEADLOCK FALSE
