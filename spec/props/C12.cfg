CONSTANTS Prop = "C12"
INIT Init
NEXT Next
INVARIANT Emit
CHECK_DEADLOCK FALSE
