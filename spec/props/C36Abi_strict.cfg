CONSTANTS MaxDepth = 2 Mode = "code"
INIT Init
NEXT Next
INVARIANT StrictLaws
CHECK_DEADLOCK FALSE
