CONSTANTS MaxDepth = 2 Mode = "code" WideLast = TRUE
INIT Init
NEXT Next
INVARIANT StrictLaws
CHECK_DEADLOCK FALSE
