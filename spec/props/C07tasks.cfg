CONSTANTS N1 = 12 N2 = 120
INIT Init
NEXT Next
INVARIANT Emit
CHECK_DEADLOCK FALSE
