------------------------------- MODULE C09gen -------------------------------
(* Producer/consumer programs for C09: a writer task sends NMsg distinct values of a payload kind through a channel
   and finishes (or keeps allocating, so that its collector runs) before / while the main program reads them and
   prints them; a second channel acknowledges.  The expected output is what a FIFO exactly-once channel of
   independent copies gives: the written values in order.  One state = (payload kind, writer behaviour). *)
EXTENDS Naturals, Integers, Sequences, FiniteSets, TLC, Json, IOUtils
CONSTANTS NMsg

Kinds == <<"int", "string", "array", "nested", "tuple", "struct", "option", "void", "chan", "structchan">>
Behaviours == <<"exit", "churn", "mutate">>
RECURSIVE JoinL(_)
JoinL(ls) == IF ls = <<>> THEN "" ELSE ls[1] \o "\n" \o JoinL(Tail(ls))
RECURSIVE ConcatL(_)
ConcatL(ss) == IF ss = <<>> THEN <<>> ELSE ss[1] \o ConcatL(Tail(ss))

TypeOf(kd) == CASE kd = "int" -> "int" [] kd = "string" -> "string" [] kd = "array" -> "array<int>" [] kd = "nested" -> "array<array<int>>"
                [] kd = "tuple" -> "(int, string)" [] kd = "struct" -> "Pair" [] kd = "option" -> "option<array<int>>" [] kd = "void" -> "void"
                [] kd = "chan" -> "channel<int>" [] kd = "structchan" -> "Job"
\* the i-th message as an expression evaluated in the writer (i is a variable there), and its printed form for a given i
MsgExpr(kd) == CASE kd = "int" -> "i * 11" [] kd = "string" -> "\"msg\" .. i" [] kd = "array" -> "[i, i + 1]"
                 [] kd = "nested" -> "[[i], [i, i]]" [] kd = "tuple" -> "(i, \"t\" .. i)" [] kd = "struct" -> "Pair(i, [i, 7])"
                 [] kd = "option" -> "option.some([i])" [] kd = "void" -> "nil"
                 [] kd = "chan" -> "inner" [] kd = "structchan" -> "Job(i, inner)"
Show(kd, i) == LET s == ToString(i) IN
  CASE kd = "int" -> ToString(i * 11) [] kd = "string" -> "msg" \o s [] kd = "array" -> "[ " \o s \o ", " \o ToString(i + 1) \o " ]"
    [] kd = "nested" -> "[ [ " \o s \o " ], [ " \o s \o ", " \o s \o " ] ]" [] kd = "tuple" -> "(" \o s \o ", t" \o s \o ")"
    [] kd = "struct" -> s \o " [ " \o s \o ", 7 ]" [] kd = "option" -> "some([ " \o s \o " ])" [] kd = "void" -> "nil"
    \* a channel handle in transit: the reader drains the two values the writer had put into it
    [] kd = "chan" -> ToString(i * 10) \o " " \o ToString(i * 10 + 1) [] kd = "structchan" -> s \o " " \o ToString(i * 10) \o " " \o ToString(i * 10 + 1)
PrintStmt(kd) == IF kd = "struct" THEN "  println(m.a .. \" \" .. m.b)"
                 ELSE IF kd = "chan" THEN "  println(m.read() .. \" \" .. m.read())"
                 ELSE IF kd = "structchan" THEN "  println(m.id .. \" \" .. m.input.read() .. \" \" .. m.input.read())"
                 ELSE "  println(m)"
\* statements that build the inner channel of a channel-handle message before it is sent
Pre(kd) == IF kd \in {"chan", "structchan"}
           THEN <<"    let inner: channel<int> = channel()", "    inner.write(i * 10)", "    inner.write(i * 10 + 1)">> ELSE <<>>
\* "mutate": the writer changes the object after sending it; the reader must still see the value as written
AfterSend(kd, bh) == IF bh = "mutate" /\ kd = "array" THEN <<"    v.push(99)">>
                     ELSE IF bh = "mutate" /\ kd = "nested" THEN <<"    v[0].push(99)">>
                     ELSE IF bh = "mutate" /\ kd = "struct" THEN <<"    v.a = 99">> ELSE <<>>
Text(kd, bh) == JoinL(
  (IF kd = "struct" THEN <<"type Pair = { a: int, b: array<int> }">>
   ELSE IF kd = "structchan" THEN <<"type Job = { id: int, input: channel<int> }">> ELSE <<>>) \o
  << "let data: channel<" \o TypeOf(kd) \o "> = channel()",
     "let ack: channel<int> = channel()",
     "task {",
     "  for i in " \o ToString(NMsg) \o " {" >> \o Pre(kd) \o
  << "    let v = " \o MsgExpr(kd),
     "    data.write(v)" >> \o AfterSend(kd, bh) \o
  << "  }" >> \o
  (IF bh = "churn" THEN <<"  ack.write(1)", "  var j = 0", "  while j < 40 {", "    j += 1", "    let junk = [j, j, j, j]", "  }">>
   ELSE <<"  ack.write(1)">>) \o
  << "}",
     "let a = ack.read()",
     "var pad = [[0]]",
     "for q in 6 {",
     "  pad.push([q, q, q])",
     "}",
     "for q in " \o ToString(NMsg) \o " {",
     "  let m = data.read()",
     PrintStmt(kd),
     "}",
     "println(pad.len())" >>)
RECURSIVE Outs(_, _, _)
Outs(kd, i, n) == IF i = n THEN "" ELSE Show(kd, i) \o "\n" \o Outs(kd, i + 1, n)

VARIABLES ki, bi
Init == ki \in 1..Len(Kinds) /\ bi \in 1..Len(Behaviours)
Next == FALSE /\ UNCHANGED <<ki, bi>>
Case == [id |-> Kinds[ki] \o "_" \o Behaviours[bi], files |-> ("main.abra" :> Text(Kinds[ki], Behaviours[bi])),
         expect |-> [status |-> "done", out |-> Outs(Kinds[ki], 0, NMsg) \o "7\n"]]
Emit == PrintT(<<"CASE", ToJson(Case)>>)
=============================================================================
