CONSTANTS
  MaxAlign = 64
  Sizes = {0, 1, 2, 3, 8, 24, 64}
  Aligns = {1, 2, 4, 8, 16, 32, 64}
  Caps = {0, 4, 16}
  MaxLen = 3
INIT Init
NEXT Next
INVARIANT Emit
CHECK_DEADLOCK FALSE
