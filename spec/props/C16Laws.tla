----------------------------- MODULE C16Laws -----------------------------
(***************************************************************************)
(* C16, comparison part: "float comparisons and equality follow one        *)
(* consistent total order".  The answer is easier to check than to         *)
(* predict (IEEE order, total order with -0 < +0 and NaN at the ends, ...  *)
(* are all acceptable), so TLC *validates* the observed truth tables:      *)
(* the file IOEnv.OBS holds one JSON object per operand form               *)
(*    {form, vals: [x..], T: {x: {y: {lt, le, gt, ge, eq, ne}}}}           *)
(* (x, y = decimal strings of the operands' bit patterns, the six          *)
(* booleans as observed on the real VM).  The six operators agree with     *)
(* one total (pre)order  <=*  iff the laws below hold; every violated      *)
(* instance is printed as a LAWVIOL line.                                  *)
(***************************************************************************)
EXTENDS Naturals, Sequences, FiniteSets, TLC, Json, IOUtils

Obs == ndJsonDeserialize(IOEnv.OBS)

B2N(b) == IF b THEN 1 ELSE 0
Laws(o) ==
  LET V == {o.vals[i] : i \in 1..Len(o.vals)}
      R(x, y) == o.T[x][y]
      V2 == V \X V
      V3 == V \X V \X V
      two(l, p) == [law |-> l, form |-> o.form, x |-> p[1], y |-> p[2], z |-> ""]
      three(l, p) == [law |-> l, form |-> o.form, x |-> p[1], y |-> p[2], z |-> p[3]]
  IN    \* exactly one of x < y, x == y, x > y  (totality + antisymmetry)
        {two("trichotomy", p) : p \in {p \in V2 : B2N(R(p[1], p[2]).lt) + B2N(R(p[1], p[2]).eq) + B2N(R(p[1], p[2]).gt) # 1}}
     \cup {two("le = lt or eq", p) : p \in {p \in V2 : R(p[1], p[2]).le # (R(p[1], p[2]).lt \/ R(p[1], p[2]).eq)}}
     \cup {two("ge = gt or eq", p) : p \in {p \in V2 : R(p[1], p[2]).ge # (R(p[1], p[2]).gt \/ R(p[1], p[2]).eq)}}
     \cup {two("ne = not eq", p) : p \in {p \in V2 : R(p[1], p[2]).ne # ~R(p[1], p[2]).eq}}
     \cup {two("gt is the converse of lt", p) : p \in {p \in V2 : R(p[1], p[2]).gt # R(p[2], p[1]).lt}}
     \cup {two("eq symmetric", p) : p \in {p \in V2 : R(p[1], p[2]).eq # R(p[2], p[1]).eq}}
     \cup {two("eq reflexive", <<x, x>>) : x \in {x \in V : ~R(x, x).eq}}
     \cup {three("lt transitive", p) : p \in {p \in V3 : R(p[1], p[2]).lt /\ R(p[2], p[3]).lt /\ ~R(p[1], p[3]).lt}}
     \cup {three("eq transitive", p) : p \in {p \in V3 : R(p[1], p[2]).eq /\ R(p[2], p[3]).eq /\ ~R(p[1], p[3]).eq}}
     \cup {three("lt respects eq (left)", p) : p \in {p \in V3 : R(p[1], p[2]).eq /\ R(p[2], p[3]).lt /\ ~R(p[1], p[3]).lt}}
     \cup {three("lt respects eq (right)", p) : p \in {p \in V3 : R(p[1], p[2]).lt /\ R(p[2], p[3]).eq /\ ~R(p[1], p[3]).lt}}

AllViol == UNION {Laws(Obs[i]) : i \in 1..Len(Obs)}
Stats(A) == [forms |-> Len(Obs),
             pairs |-> [i \in 1..Len(Obs) |-> Len(Obs[i].vals) * Len(Obs[i].vals)],
             triples |-> [i \in 1..Len(Obs) |-> Len(Obs[i].vals) * Len(Obs[i].vals) * Len(Obs[i].vals)],
             violations |-> Cardinality(A)]
ASSUME LET A == AllViol IN PrintT(<<"LAWSTATS", ToJson(Stats(A))>>) /\ \A v \in A : PrintT(<<"LAWVIOL", ToJson(v)>>)

VARIABLE done
Init == done = TRUE
Next == UNCHANGED done
=============================================================================
