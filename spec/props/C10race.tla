----------------------------- MODULE C10race -----------------------------
(***************************************************************************)
(* C10, racing tasks.  AbraSched's invariant Confluence says that with the *)
(* runtime's scheduling discipline (one instruction per turn, round robin, *)
(* a spawned task enters the run queue at once) the printed result of a    *)
(* program is the same for every slicing of the run into step budgets -    *)
(* also when tasks race for a channel: who wins is decided by instruction  *)
(* counts, never by where the embedder's budget boundaries fall.  The      *)
(* abstract model cannot say *who* wins a race in real bytecode, so these  *)
(* programs carry no expected output: the check is relational (all drives  *)
(* of one program must agree).                                             *)
(*                                                                         *)
(* Every state is one program: two or three writer tasks push tagged       *)
(* values into one channel, each after its own number of padding           *)
(* statements and with `gap` padding statements of the main program        *)
(* between the spawns; main merges the stream into one printed number.     *)
(***************************************************************************)
EXTENDS Naturals, Sequences, TLC, Json, IOUtils
CONSTANTS MaxPad, MaxGap, MaxWrites

VARIABLES nw, p1, p2, p3, gap, k
vars == <<nw, p1, p2, p3, gap, k>>

RECURSIVE Rep(_, _)
Rep(line, n) == IF n = 0 THEN <<>> ELSE <<line>> \o Rep(line, n - 1)
Pad(v, n) == Rep("  " \o v \o " = " \o v \o " + 1", n)

Writer(tag, pad, writes) ==
  <<"task {", "  var q = 0">> \o Pad("q", pad) \o Rep("  ch.write(" \o ToString(tag) \o ")", writes) \o <<"}">>
MainPad(n) == [i \in 1..n |-> "m = m + 1"]

Text == LET ws == <<Writer(1, p1, k), Writer(2, p2, k)>> \o (IF nw = 3 THEN <<Writer(3, p3, k)>> ELSE <<>>)
            total == nw * k
        IN <<"let ch: channel<int> = channel()", "var m = 0">>
           \o ws[1] \o MainPad(gap) \o ws[2] \o (IF nw = 3 THEN MainPad(gap) \o ws[3] ELSE <<>>)
           \o <<"var acc = 0", "for i in " \o ToString(total) \o " {", "  acc = acc * 10 + ch.read()", "}", "println(acc)">>

RECURSIVE JoinL(_)
JoinL(ls) == IF ls = <<>> THEN "" ELSE ls[1] \o "\n" \o JoinL(Tail(ls))

Init == /\ nw \in {2, 3} /\ p1 \in 0..MaxPad /\ p2 \in 0..MaxPad /\ p3 \in (IF nw = 3 THEN 0..MaxPad ELSE {0})
        /\ gap \in 0..MaxGap /\ k \in 1..MaxWrites
Next == FALSE /\ UNCHANGED vars
Emit == PrintT(<<"CASE", ToJson([id |-> "race" \o ToString(nw) \o "." \o ToString(p1) \o "." \o ToString(p2) \o "." \o ToString(p3)
                                        \o ".g" \o ToString(gap) \o ".k" \o ToString(k),
                                 files |-> ("main.abra" :> JoinL(Text)), writers |-> nw, writes |-> k])>>)
=============================================================================
