------------------------------- MODULE C11host -------------------------------
(* C11, last clause: a pending host call exposes exactly the call's arguments and the program resumes with the
   value the host returns.  TLC enumerates every host-function signature of arity <= MaxArity over
   {int, float, bool, string} x every return type; each program declares two host functions whose names sort
   before and after the prelude's (ids are assigned by sorted name), calls each with distinct arguments (the
   third call through a variable holding the function as a first-class value) and prints what came back.  Expected: the host log (function, arguments in order) and the printed output. *)
EXTENDS Naturals, Integers, Sequences, FiniteSets, TLC, Json, IOUtils
CONSTANTS MaxArity

Types == <<"int", "float", "bool", "string">>
Rets == <<"void", "int", "float", "bool", "string">>
\* argument values: literal text, the value as the harness reports it, and its printed form
Vals(ty, j) ==
  CASE ty = "int"    -> <<[lit |-> "11", obs |-> "11", show |-> "11"], [lit |-> "-7", obs |-> "-7", show |-> "-7"],
                          [lit |-> "9000000000", obs |-> "9000000000", show |-> "9000000000"]>>[j]
    [] ty = "float"  -> <<[lit |-> "2.5", obs |-> "4612811918334230528", show |-> "2.5"],
                          [lit |-> "0.5", obs |-> "4602678819172646912", show |-> "0.5"],
                          [lit |-> "100.125", obs |-> "4636746087447658496", show |-> "100.125"]>>[j]
    [] ty = "bool"   -> <<[lit |-> "true", obs |-> TRUE, show |-> "true"], [lit |-> "false", obs |-> FALSE, show |-> "false"],
                          [lit |-> "true", obs |-> TRUE, show |-> "true"]>>[j]
    [] ty = "string" -> <<[lit |-> "\"s one\"", obs |-> "s one", show |-> "s one"], [lit |-> "\"\"", obs |-> "", show |-> ""],
                          [lit |-> "\"two\"", obs |-> "two", show |-> "two"]>>[j]

RECURSIVE SeqsOfLen(_, _)
SeqsOfLen(S, n) == IF n = 0 THEN {<<>>} ELSE {Append(s, x) : s \in SeqsOfLen(S, n - 1), x \in S}
Sigs == UNION {SeqsOfLen({1, 2, 3, 4}, n) : n \in 0..MaxArity}      \* sequences of type indices

RECURSIVE JoinC(_)
JoinC(ss) == IF ss = <<>> THEN "" ELSE IF Len(ss) = 1 THEN ss[1] ELSE ss[1] \o ", " \o JoinC(Tail(ss))
Decl(name, sig, ret) == "#host\nfn " \o name \o "(" \o JoinC([i \in 1..Len(sig) |-> "p" \o ToString(i) \o ": " \o Types[sig[i]]]) \o ") -> " \o ret \o "\n"
\* the j-th call uses the j-th value of each parameter's type, rotated by the parameter position
ArgV(sig, i, j) == Vals(Types[sig[i]], ((i + j) % 3) + 1)
CallTxt(name, sig, j) == name \o "(" \o JoinC([i \in 1..Len(sig) |-> ArgV(sig, i, j).lit]) \o ")"
Stmt(name, sig, ret, j) == IF ret = "void" THEN CallTxt(name, sig, j) \o "\nprintln(\"back\")\n"
                           ELSE "println(" \o CallTxt(name, sig, j) \o ")\n"
RetV(ret, j) == Vals(ret, j)
HostLog(name, sig, j) == [f |-> name, args |-> [i \in 1..Len(sig) |-> ArgV(sig, i, j).obs], tid |-> 0]

VARIABLES sig, ri
Init == sig \in Sigs /\ ri \in 1..Len(Rets)
Next == FALSE /\ UNCHANGED <<sig, ri>>
ret == Rets[ri]
RECURSIVE SigName(_)
SigName(s) == IF s = <<>> THEN "" ELSE ToString(s[1]) \o SigName(Tail(s))
Case ==
  [id |-> "h" \o SigName(sig) \o "_" \o ret,
   files |-> ("main.abra" :> (Decl("aa_host", sig, ret) \o Decl("zz_host", sig, ret) \o
                              Stmt("aa_host", sig, ret, 1) \o Stmt("zz_host", sig, ret, 2) \o
                              \* the third call goes through a variable that holds the host function as a value; a local below it
                              "let marker = 4242\nlet hv = aa_host\n" \o Stmt("hv", sig, ret, 3) \o "println(marker)\nprintln(\"end\")\n")),
   hostfns |-> << [name |-> "aa_host", args |-> [i \in 1..Len(sig) |-> Types[sig[i]]], ret |-> ret,
                   rets |-> IF ret = "void" THEN <<>> ELSE <<RetV(ret, 1).obs, RetV(ret, 3).obs>>],
                  [name |-> "zz_host", args |-> [i \in 1..Len(sig) |-> Types[sig[i]]], ret |-> ret,
                   rets |-> IF ret = "void" THEN <<>> ELSE <<RetV(ret, 2).obs>>] >>,
   expect |-> [status |-> "done",
               host |-> <<HostLog("aa_host", sig, 1), HostLog("zz_host", sig, 2), HostLog("aa_host", sig, 3)>>,
               out |-> (IF ret = "void" THEN "back\nback\nback\n"
                        ELSE RetV(ret, 1).show \o "\n" \o RetV(ret, 2).show \o "\n" \o RetV(ret, 3).show \o "\n") \o "4242\nend\n"]]
Emit == PrintT(<<"CASE", ToJson(Case)>>)
=============================================================================
