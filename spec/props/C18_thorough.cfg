CONSTANTS MaxArity = 3 Len3 = 4 Len3x = 3 Len3Kinds = {"free", "struct"}
  UnkLen2 = 3 UnkLen3 = 2 CallArity = 2
  Defaults3 = {{}, {1}, {2}, {3}, {1, 2}, {1, 3}, {2, 3}, {1, 2, 3}}
INIT Init
NEXT Next
INVARIANT Emit
CHECK_DEADLOCK FALSE
