CONSTANTS MaxArity = 3 Len3 = 4 UnkLen2 = 3 UnkLen3 = 3 CallArity = 2
INIT Init
NEXT Next
INVARIANT Emit
CHECK_DEADLOCK FALSE
