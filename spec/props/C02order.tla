------------------------------- MODULE C02order -------------------------------
(***************************************************************************)
(* C02, evaluation order: "left-to-right operand and argument evaluation". *)
(* Exhaustive family: a context with two operand positions, one holding a  *)
(* plain read of variable x, the other an expression with a side effect on *)
(* x (assignment inside a block / if-expression / match arm, or a call     *)
(* that prints).  AbraSem evaluates operands left to right and, for        *)
(* `x op= e`, reads x before evaluating e (x op= e means x = x op e).      *)
(* One state = (context, side-effect kind, which position reads x).        *)
(***************************************************************************)
EXTENDS GcStress, Cases, TLCExt

Ctxs == <<"binop+", "binop-", "binop*", "cmp<", "compound+=", "compound-=", "compound*=", "compound/=", "assign-self", "call2", "tuple2", "array2",
          "index", "concat", "nested-binop", "call-in-binop", "and", "ife-cond">>
Effs == <<"blk-assign", "blk-compound", "ife-assign", "match-assign", "print-call", "two-effects">>
Sides == <<"read-first", "effect-first">>

Blk(ss) == [k |-> "blk", ss |-> ss]
\* an int-valued expression that changes x (or prints) while being evaluated
Eff(e) ==
  CASE e = "blk-assign"   -> Blk(<<Assign(V("x"), "=", I(10)), ExprS(I(5))>>)
    [] e = "blk-compound" -> Blk(<<Assign(V("x"), "+=", I(100)), ExprS(V("x"))>>)
    [] e = "ife-assign"   -> [k |-> "ife", c |-> Bin(">", V("x"), I(0)), t |-> Blk(<<Assign(V("x"), "=", I(20)), ExprS(I(3))>>), e |-> I(4)]
    [] e = "match-assign" -> [k |-> "match", s |-> V("sel"), arms |-> <<[p |-> [k |-> "lit", v |-> IntV(1)], e |-> Blk(<<Assign(V("x"), "*=", I(3)), ExprS(I(7))>>)],
                                                                      [p |-> [k |-> "wild"], e |-> I(8)]>>]
    [] e = "print-call"   -> Call("noisy", <<V("x")>>)
    [] e = "two-effects"  -> Bin("+", Blk(<<Assign(V("x"), "=", I(2)), ExprS(V("x"))>>), Blk(<<Assign(V("x"), "=", I(30)), ExprS(V("x"))>>))
Ord(side, a, b) == IF side = "read-first" THEN <<a, b>> ELSE <<b, a>>
Stmts(c, e, side) ==
  LET o == Ord(side, V("x"), Eff(e)) IN
  CASE c = "binop+" -> <<Let("r", Bin("+", o[1], o[2])), PrintS(V("r"))>>
    [] c = "binop-" -> <<Let("r", Bin("-", o[1], o[2])), PrintS(V("r"))>>
    [] c = "binop*" -> <<Let("r", Bin("*", o[1], o[2])), PrintS(V("r"))>>
    [] c = "cmp<"   -> <<Let("r", Bin("<", o[1], o[2])), PrintS(V("r"))>>
    [] c = "compound+=" -> <<Assign(V("x"), "+=", Eff(e))>>
    [] c = "compound-=" -> <<Assign(V("x"), "-=", Eff(e))>>
    [] c = "compound*=" -> <<Assign(V("x"), "*=", Eff(e))>>
    [] c = "compound/=" -> <<Assign(V("x"), "/=", Eff(e))>>
    [] c = "assign-self" -> <<Assign(V("x"), "=", Bin("+", o[1], o[2]))>>
    [] c = "call2"  -> <<Let("r", Call("sub2", <<o[1], o[2]>>)), PrintS(V("r"))>>
    [] c = "tuple2" -> <<PrintS(Tup(<<o[1], o[2]>>))>>
    [] c = "array2" -> <<PrintS(Arr(<<o[1], o[2], V("x")>>))>>
    [] c = "index"  -> <<PrintS(Idx(Arr(<<o[1], o[2], I(0), I(0), I(0), I(0), I(0), I(0), I(0), I(0), I(0)>>), I(0)))>>
    [] c = "concat" -> <<PrintS(Bin("..", Bin("..", o[1], S(",")), o[2]))>>
    [] c = "nested-binop" -> <<Let("r", Bin("+", Bin("*", o[1], I(2)), Bin("*", o[2], I(1000)))), PrintS(V("r"))>>
    [] c = "call-in-binop" -> <<Let("r", Bin("-", Call("sub2", <<o[1], I(1)>>), o[2])), PrintS(V("r"))>>
    [] c = "and"    -> <<Let("r", Bin("and", Bin(">", o[1], I(1)), Bin(">", o[2], I(1)))), PrintS(V("r"))>>
    [] c = "ife-cond" -> <<Let("r", [k |-> "ife", c |-> Bin(">", o[1], I(4)), t |-> o[2], e |-> Bin("+", V("x"), I(1000))]), PrintS(V("r"))>>
Fns == << Fn("noisy", <<Par("n", "int")>>, "int", <<PrintS(Bin("..", S("noisy "), V("n"))), ExprS(Bin("+", V("n"), I(1)))>>),
          Fn("sub2", <<Par("a", "int"), Par("b", "int")>>, "int", <<ExprS(Bin("-", Bin("*", V("a"), I(100)), V("b")))>>) >>
\* the same statements inside a function body (locals instead of top-level variables) or at top level
Prog(c, e, side, infn) ==
  LET body == <<Var("x", I(1)), Let("sel", I(1))>> \o Stmts(c, e, side) \o <<PrintS(V("x"))>> IN
  IF infn THEN File1(Types, Fns \o <<Fn("work", <<>>, "", body)>>, <<ExprS(Call("work", <<>>)), PrintS(S("end"))>>)
  ELSE File1(Types, Fns, body \o <<PrintS(S("end"))>>)

VARIABLES ci, ei, si, infn
Init == ci \in 1..Len(Ctxs) /\ ei \in 1..Len(Effs) /\ si \in 1..Len(Sides) /\ infn \in BOOLEAN
Next == FALSE /\ UNCHANGED <<ci, ei, si, infn>>
\* compound assignment has only one operand position
Sensible == Ctxs[ci] \in {"compound+=", "compound-=", "compound*=", "compound/="} => si = 1
Emit == Sensible =>
  LET L == Layout(Prog(Ctxs[ci], Effs[ei], Sides[si], infn))
      r == Run(L.sem, 500)
      id == Ctxs[ci] \o "_" \o Effs[ei] \o "_" \o Sides[si] \o (IF infn THEN "_fn" ELSE "_top")
  IN PrintT(<<"CASE", ToJson(RunCase(id, L, r) @@ [ctx |-> Ctxs[ci], eff |-> Effs[ei], side |-> Sides[si]])>>)
=============================================================================
