CONSTANTS NF = 3 NS = 12 Fuel = 300
INIT Init
NEXT Next
INVARIANT Emit
CHECK_DEADLOCK FALSE
