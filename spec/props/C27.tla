----------------------------- MODULE C27 -----------------------------
(***************************************************************************)
(* C27: core/map and core/set behave like the dictionary / set model       *)
(* AbraMap for every history of insert, get, try_get, m[k], m[k] = v,      *)
(* contains, remove, len (map) and insert, contains, remove, len (set).    *)
(*                                                                         *)
(* Model checking mode (NEXT Next, INVARIANT Emit): a state is a history   *)
(* over the alphabet job.alpha on three keys of the family job.fam,        *)
(* started after the silent prefix job.prefix (which fills the table up    *)
(* to / beyond a resize boundary and optionally punches holes into it, so  *)
(* that the explored operations hit resize and slot reuse).  One program   *)
(* per maximal history; after every operation the program prints len,      *)
(* try_get and contains of every key of the domain (map) and len and       *)
(* contains (set); the model predicts the text.                            *)
(* Simulation mode (NEXT NextSim, INVARIANT EmitSim): long random          *)
(* histories over job.nkeys keys, values = step numbers.  The jobs of a    *)
(* run are the initial states: Plans[IOEnv.PLAN].                          *)
(***************************************************************************)
EXTENDS AbraMap, Json, IOUtils, TLCExt

VARIABLES job,   \* what is explored: [fam, alpha, prefix, maxlen, nkeys] (constant along a behaviour)
          hist,  \* MC: indices into Alpha; simulation: operation records
          mv     \* model verdict on the history: [c, err, why, peak, holes, reuse]; the last three are coverage
                 \* ghosts of the map: largest size so far, removed-and-not-refilled entries, inserts of a new
                 \* key while such a hole existed (they do not influence the expected observation)

Job(fam, alpha, prefix, maxlen) == [fam |-> fam, alpha |-> alpha, prefix |-> prefix, maxlen |-> maxlen, nkeys |-> 0]
SimJob(fam, nkeys, maxlen) == [fam |-> fam, alpha |-> "sim", prefix |-> "p0", maxlen |-> maxlen, nkeys |-> nkeys]
\* the enumeration plans (IOEnv.PLAN)
Plans ==
  [quick    |-> {Job("small", "R", "p0", 3), Job("const", "R", "p0", 3), Job("small", "F", "p4h", 2), Job("const", "F", "p4h", 2),
                 Job("small", "R", "p8", 2), Job("mod", "R", "p4h", 2), Job("bound", "R", "p0", 2), Job("bound", "R", "p4h", 2),
                 Job("str", "R", "p4h", 2), Job("mod", "R", "p8h", 2), Job("min", "R", "p0", 2)},
   thorough |-> {Job("const", "R", "p0", 4), Job("const", "F", "p4h", 2), Job("const", "F", "p0", 2),
                 Job("small", "R", "p0", 3), Job("small", "R", "p3", 3), Job("small", "R", "p4", 3), Job("small", "R", "p4h", 3),
                 Job("small", "R", "p8", 3), Job("small", "R", "p8h", 3), Job("const", "R", "p4", 3), Job("const", "R", "p8h", 3),
                 Job("mod", "R", "p0", 3), Job("mod", "R", "p4h", 3), Job("mod", "R", "p8h", 3),
                 Job("bound", "R", "p0", 3), Job("bound", "R", "p4h", 3), Job("bound", "R", "p8h", 3),
                 Job("str", "R", "p0", 3), Job("str", "R", "p4h", 3), Job("str", "R", "p8h", 3),
                 Job("small", "F", "p0", 2), Job("small", "F", "p4h", 2), Job("small", "F", "p8h", 2), Job("mod", "F", "p4h", 2),
                 Job("bound", "F", "p0", 2), Job("str", "F", "p0", 2), Job("min", "R", "p0", 2), Job("min", "R", "p4h", 2)},
   simquick    |-> {SimJob("small", 14, 40), SimJob("const", 14, 40), SimJob("mod", 14, 40), SimJob("bound", 14, 40), SimJob("str", 14, 40)},
   simthorough |-> {SimJob("small", 20, 80), SimJob("const", 20, 80), SimJob("mod", 20, 80), SimJob("bound", 16, 80), SimJob("str", 16, 80),
                    SimJob("small", 10, 40), SimJob("const", 10, 40)}]

FamOf(n) == CASE n = "small" -> FamSmall [] n = "const" -> FamConst [] n = "mod" -> FamMod
              [] n = "bound" -> FamBound [] n = "min" -> FamMin [] n = "str" -> FamStr
Fam == FamOf(job.fam)

\* ---------------------------------------------------------------- silent prefixes (keys from position 4 on)
Fill(n) == [i \in 1..n |-> MOp("insert", 3 + i, 100 + i)] \o [i \in 1..n |-> MOp("sinsert", 3 + i, 0)]
Holes(ps) == [i \in 1..Len(ps) |-> MOp("remove", 3 + ps[i], 0)] \o [i \in 1..Len(ps) |-> MOp("sremove", 3 + ps[i], 0)]
PrefixOf(n) == CASE n = "p0"  -> <<>>
                 [] n = "p3"  -> Fill(3)
                 [] n = "p4"  -> Fill(4)                       \* table of 4 full: next insert resizes
                 [] n = "p4h" -> Fill(4) \o Holes(<<2, 3>>)     \* ... and two free slots
                 [] n = "p8"  -> Fill(8)                       \* table of 8 full
                 [] n = "p8h" -> Fill(8) \o Holes(<<2, 5, 7>>)
PrefixKeys(n) == CASE n = "p0" -> 0 [] n = "p3" -> 3 [] n \in {"p4", "p4h"} -> 4 [] OTHER -> 8
PrefixHoles(n) == CASE n = "p4h" -> 2 [] n = "p8h" -> 3 [] OTHER -> 0
Prefix == PrefixOf(job.prefix)

\* ---------------------------------------------------------------- alphabets over key positions 1..3, values {1,2}
AlphaR == << MOp("insert", 1, 1), MOp("insert", 2, 1), MOp("iset", 3, 2), MOp("iset", 1, 2),
             MOp("remove", 1, 0), MOp("remove", 2, 0), MOp("remove", 3, 0), MOp("iget", 1, 0),
             MOp("sinsert", 1, 0), MOp("sremove", 1, 0) >>
AlphaF == << MOp("insert", 1, 1), MOp("insert", 2, 1), MOp("insert", 3, 1), MOp("iset", 1, 2), MOp("iset", 2, 2), MOp("iset", 3, 2),
             MOp("get", 1, 0), MOp("iget", 2, 0), MOp("remove", 1, 0), MOp("remove", 2, 0), MOp("remove", 3, 0),
             MOp("try_get", 3, 0), MOp("contains", 1, 0), MOp("len", 1, 0),
             MOp("sinsert", 1, 0), MOp("sinsert", 2, 0), MOp("sremove", 1, 0), MOp("sremove", 2, 0),
             MOp("scontains", 2, 0), MOp("slen", 1, 0) >>
Alpha == IF job.alpha = "R" THEN AlphaR ELSE AlphaF

\* number of keys in the observable projection
NK == IF job.alpha = "sim" THEN job.nkeys ELSE 3 + PrefixKeys(job.prefix)

Init == /\ job \in Plans[IOEnv.PLAN]
        /\ hist = <<>>
        /\ mv = [c |-> LET c0 == ApplyAll(EmptyCfg, Prefix, 1) IN [c0 EXCEPT !.out = @ \o ProjLine(c0, NK)],
                 err |-> "", why |-> "", peak |-> Cardinality(DOMAIN ApplyAll(EmptyCfg, Prefix, 1).m),
                 holes |-> PrefixHoles(job.prefix), reuse |-> 0]
Verdict(v, o) ==
  LET r == MStepP(v.c, o, NK)
      n0 == Cardinality(DOMAIN v.c.m)
      n1 == Cardinality(DOMAIN r.c.m)
      fresh == r.err = "" /\ n1 > n0
      gone == r.err = "" /\ n1 < n0
  IN [c |-> r.c, err |-> r.err, why |-> r.why, peak |-> IF n1 > v.peak THEN n1 ELSE v.peak,
      holes |-> IF gone THEN v.holes + 1 ELSE IF fresh /\ v.holes > 0 THEN v.holes - 1 ELSE v.holes,
      reuse |-> IF fresh /\ v.holes > 0 THEN v.reuse + 1 ELSE v.reuse]
Live == Len(hist) < job.maxlen /\ mv.err = ""
Next == Live /\ job' = job /\ LET al == Alpha IN \E k \in 1..Len(al) : hist' = Append(hist, k) /\ mv' = Verdict(mv, al[k])

\* ---------------------------------------------------------------- the emitted case
\* every history over a key domain that contains the minimum 64-bit integer carries the description of the
\* deviation known at the pinned revision (integer overflow in abs() of the hash), so that exactly it is filtered
CaseOf(id, ops) ==
  [id |-> id, fam |-> job.fam, alpha |-> job.alpha, prefix |-> job.prefix, maxlen |-> job.maxlen, nkeys |-> NK,
   files |-> ("main.abra" :> ProgText(Fam, NK, Prefix, ops)), inmodel |-> TRUE,
   ops |-> [i \in 1..Len(ops) |-> ROp(ops[i], Fam.keys)], kinds |-> [i \in 1..Len(ops) |-> ops[i].op], len |-> Len(ops),
   size |-> Cardinality(DOMAIN mv.c.m), peak |-> mv.peak, reuse |-> mv.reuse,
   expect |-> IF mv.err = "" THEN [status |-> "done", out |-> mv.c.out]
              ELSE [status |-> "error", errkind |-> mv.err, out |-> mv.c.out],
   key |-> "C27|" \o job.fam \o "|" \o (IF mv.err = "" THEN "done" ELSE mv.why)] @@
  (IF mv.err # "" THEN [why |-> mv.why] ELSE <<>>) @@
  (IF job.fam = "min"
   THEN [defect |-> [key |-> "C27|int-key=MIN|abs-overflow", expect |-> [status |-> "error", errkind |-> "overflow"]]]
   ELSE <<>>)

RECURSIVE IdOf(_, _)
IdOf(h, i) == IF i > Len(h) THEN "" ELSE "-" \o ToString(h[i]) \o IdOf(h, i + 1)
Emit == (~Live /\ hist # <<>>) =>
          LET al == Alpha IN
          PrintT(<<"CASE", ToJson(CaseOf(job.fam \o "." \o job.alpha \o "." \o job.prefix \o ToString(job.maxlen) \o IdOf(hist, 1),
                                         [i \in 1..Len(hist) |-> al[hist[i]]]))>>)

\* ---------------------------------------------------------------- simulation
Pick(S) == RandomElement(S)
SimOp ==
  LET c == mv.c
      step == Len(hist) + 1
      present == DOMAIN c.m
      absent == (1..NK) \ present
      anyk == Pick(1..NK)
      pk == IF present # {} /\ Pick(1..10) > 1 THEN Pick(present) ELSE anyk      \* mostly a present key
      nk == IF absent # {} /\ Pick(1..4) > 1 THEN Pick(absent) ELSE anyk          \* mostly a new key
      sk == IF c.s # {} /\ Pick(1..2) = 1 THEN Pick(c.s) ELSE anyk
      kind == Pick(1..40)
  IN CASE kind <= 9  -> MOp("insert", nk, step)
       [] kind <= 12 -> MOp("iset", nk, step)
       [] kind <= 14 -> MOp("insert", pk, step)
       [] kind <= 21 -> MOp("remove", pk, 0)
       [] kind <= 25 -> IF ~Has(c.m, pk) /\ Pick(1..12) > 1 THEN MOp("insert", nk, step)      \* rarely a failing get
                        ELSE IF kind <= 23 THEN MOp("get", pk, 0) ELSE MOp("iget", pk, 0)
       [] kind <= 27 -> MOp("try_get", anyk, 0)
       [] kind <= 29 -> MOp("contains", anyk, 0)
       [] kind = 30  -> MOp("len", 1, 0)
       [] kind <= 35 -> MOp("sinsert", anyk, 0)
       [] kind <= 38 -> MOp("sremove", sk, 0)
       [] kind = 39  -> MOp("scontains", anyk, 0)
       [] OTHER      -> MOp("slen", 1, 0)
\* (the random operation is drawn once, into hist', and read back from there)
NextSim == Live /\ job' = job /\ hist' = Append(hist, SimOp) /\ mv' = Verdict(mv, hist'[Len(hist')])
EmitSim == (~Live /\ hist # <<>>) =>
   LET id == job.fam \o ".s" \o ToString(TLCGet("stats").traces)
   IN JsonSerialize(IOEnv.OUTDIR \o "/" \o id \o ".json", CaseOf(id, hist))
=============================================================================
