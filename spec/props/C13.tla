------------------------------- MODULE C13 -------------------------------
(* C13: see spec/front/AbraMatch.tla (meaning of patterns), MatchCases.tla (universe, generated
   programs, expected verdicts) and MatchEnum.tla (enumeration); Prop = "C13" in the cfg. *)
EXTENDS MatchEnum
=============================================================================
