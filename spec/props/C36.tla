----------------------------- MODULE C36 -----------------------------
(***************************************************************************)
(* C36: host-function bindings carry arguments and results without loss.   *)
(*                                                                         *)
(* Conformance generator (tlc -simulate): every behaviour is one host      *)
(* function signature together with the `#host` types it uses and one      *)
(* argument value per parameter:                                           *)
(*   users   a `#host` struct (1..3 fields, void fields allowed) and a     *)
(*           `#host` enum (2..4 variants: no field / one field / several   *)
(*           fields / a void field), field types of depth <= 1, the enum   *)
(*           may use the struct;                                           *)
(*   args    0..3 parameters (void allowed), types of depth <= 2 over      *)
(*           int, float, bool, string, the two user types with array,      *)
(*           option, result, 2- and 3-tuples (void allowed as array        *)
(*           element, option/result argument and - rarely - tuple element);*)
(*   values  random, scalars from the boundary pools of HostText.          *)
(* The host function echoes its non-void arguments (or returns void); it   *)
(* is called by name or (one case in three) through a variable holding it  *)
(* as a first-class value.                                                 *)
(* Expected (HostText!HostCase): the host's `{:?}` log of the decoded      *)
(* arguments equals the rendering of the values passed, the Abra program   *)
(* prints the rendering of the same values for what came back, and a local *)
(* variable below the call on the operand stack is untouched.              *)
(* The protocol itself is model-checked in C36Abi.tla; the exhaustive part *)
(* of the conformance is C36X.tla.                                         *)
(***************************************************************************)
EXTENDS HostText, Json, IOUtils, TLCExt
VARIABLE case

Pick(S) == RandomElement(S)
Chance(k, n) == Pick(1..n) <= k
PickSeq(s) == s[Pick(1..Len(s))]

\* a sequence of n independently drawn items.  (Not [j \in 1..n |-> G(j)]: TLC keeps such a function lazy and
\* would draw again at every access.)
SeqGen(n, G(_)) == LET RECURSIVE go(_)
                       go(k) == IF k = 0 THEN <<>> ELSE go(k - 1) \o <<G(k)>>
                   IN go(n)

Scalars == <<TInt, TFloat, TBool, TStr>>

RECURSIVE GenTy(_, _)
\* a component that may be void: vk of vn
GenSlot(dd, atoms, vk, vn) == IF Chance(vk, vn) THEN TVoid ELSE GenTy(dd, atoms)
GenTy(dd, atoms) ==
  IF dd = 0 \/ Chance(1, 4) THEN PickSeq(atoms)
  ELSE LET c == Pick(1..6)
       IN CASE c = 1 -> TArr(GenSlot(dd - 1, atoms, 1, 12))
            [] c = 2 -> TOpt(GenSlot(dd - 1, atoms, 1, 8))
            [] c = 3 -> TRes(GenSlot(dd - 1, atoms, 1, 6), GenSlot(dd - 1, atoms, 1, 12))
            [] c \in {4, 5} -> TTup(<<GenSlot(dd - 1, atoms, 1, 30), GenSlot(dd - 1, atoms, 1, 30)>>)
            [] c = 6 -> TTup(<<GenSlot(dd - 1, atoms, 1, 40), GenSlot(dd - 1, atoms, 1, 40), GenSlot(dd - 1, atoms, 1, 40)>>)

FieldNames == <<"aa", "bb", "cc">>
CtorNames == <<"Aa", "Bb", "Cc", "Dd">>
GenStruct(name) ==
  LET n == Pick(1..3)
  IN TStruct(name, SubSeq(FieldNames, 1, n), SeqGen(n, LAMBDA j : GenSlot(1, Scalars, 1, 5)))
GenVariant(ctor, atoms) ==
  LET c == Pick(1..12)
  IN CASE c \in 1..3 -> TVariant(ctor, <<>>)
       [] c \in 4..7 -> TVariant(ctor, <<GenTy(1, atoms)>>)
       [] c \in 8..9 -> TVariant(ctor, <<GenTy(1, atoms), GenTy(1, atoms)>>)
       [] c = 10 -> TVariant(ctor, <<GenTy(0, atoms), GenTy(1, atoms), GenTy(0, atoms)>>)
       [] c = 11 -> TVariant(ctor, <<TVoid>>)
       [] c = 12 -> TVariant(ctor, <<GenSlot(0, atoms, 1, 2), GenSlot(0, atoms, 1, 2)>>)
GenEnum(name, atoms) ==
  LET n == Pick(2..4) IN TEnum(name, SeqGen(n, LAMBDA j : GenVariant(CtorNames[j], atoms)))

RECURSIVE GenVal(_)
GenVals(ts) == SeqGen(Len(ts), LAMBDA j : GenVal(ts[j]))
GenVal(t) ==
  CASE t.k = "int" -> HInt(PickSeq(IntPool))
    [] t.k = "float" -> HFloat(PickSeq(FloatPool))
    [] t.k = "bool" -> HBool(PickSeq(BoolPool))
    [] t.k = "str" -> HStr(PickSeq(StrPool))
    [] t.k = "void" -> HUnit
    [] t.k = "arr" -> LET n == Pick(0..3) IN HArr(SeqGen(n, LAMBDA j : GenVal(t.ts[1])))
    [] t.k = "tup" -> HTup(GenVals(t.ts))
    [] t.k = "struct" -> HStructV(GenVals(t.ts))
    [] t.k \in {"opt", "res", "enum"} ->
         LET vars == VariantsOf(t)
             tag == Pick(0..(Len(vars) - 1))
         IN HVar(t.k, tag, GenVals(vars[tag + 1].ts))

Gen(id) ==
  LET st == GenStruct("Sa" \o id)
      en == GenEnum("Ea" \o id, Scalars \o <<st>>)
      atoms == Scalars \o <<st, en>>
      n == PickSeq(<<0, 1, 1, 1, 2, 2, 2, 3, 3>>)
      args == SeqGen(n, LAMBDA j : GenSlot(2, atoms, 1, 10))
      sig == [name |-> "hf" \o id, camel |-> "Hf" \o id, args |-> args, retvoid |-> Chance(1, 7),
              via |-> IF Chance(1, 3) THEN "value" ELSE "direct"]
      vs == GenVals(args)          \* LET-bound: drawn once
  IN HostCase("c" \o id, <<st, en>>, sig, vs)

Init == case = <<>>
Next == case = <<>> /\ case' = Gen(ToString(TLCGet("stats").traces))
Emit == case # <<>> => JsonSerialize(IOEnv.OUTDIR \o "/" \o case.id \o ".json", case)
=============================================================================
