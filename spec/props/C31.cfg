CONSTANTS D = 2 DS = 3 M = 25
INIT Init
NEXT Next
INVARIANT Emit
CHECK_DEADLOCK FALSE
