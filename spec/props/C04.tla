----------------------------- MODULE C04 -----------------------------
(* C04: the compiler terminates with a result or diagnostics on any text.
   Three uses of the same module (one .cfg each):
     C04.cfg   tlc -simulate: every behaviour is one random input drawn from the input space of
               spec/front/Mutants.tla (corpus mutants, token soup, filled skeletons);
     C04x.cfg  model checking mode, states = inputs: the exhaustive part (all seeds, all corpus programs
               unmodified, every mutant of every corpus program with at most MAXSOLID solid lexemes,
               token soup up to length SOUPLEN, skeletons with all holes = the same token);
     C04v.cfg  validation, states = observations: every recorded observation of the harness is checked
               against the legal outcomes of spec/front/Pipeline.tla; illegal ones get their finding key.
   Parameters come through environment variables (CORPUS, MAXSOLID, SOUPLEN, OBS). *)
EXTENDS Pipeline
VARIABLE st

NoD == [op |-> "orig", i |-> 0, a |-> 0]
St(g, p, d, ix) == [g |-> g, p |-> p, d |-> d, ix |-> ix]

CaseOf(s) == CASE s.g = "seed" -> SeedCase(s.p)
               [] s.g = "orig" -> OrigCase(s.p)
               [] s.g = "mut"  -> MutantCase(s.p, s.d)
               [] s.g = "soup" -> SoupCase(s.ix)
               [] s.g = "skel" -> SkelCase(s.p, s.ix)

Emit == st.g # "none" => PrintT(<<"CASE", ToJson(CaseOf(st))>>)

(* ---- random ---- *)
InitR == st = St("none", 0, NoD, <<>>)
NextR == /\ st.g = "none"
         /\ st' = LET c == Pick(1..100) IN
                  IF c <= 78 THEN LET p == Pick(1..NProg) IN St("mut", p, RandomDesc(LexOf(p), SolidOf(p)), <<>>)
                  ELSE IF c <= 86 THEN St("soup", 0, NoD, RandomIdx(Pick(1..8)))
                  ELSE LET k == Pick(1..Len(Skeletons)) IN St("skel", k, NoD, RandomIdx(NHoles(Skeletons[k])))

(* ---- exhaustive ---- *)
MaxSolid == Nat10(IOEnv.MAXSOLID)
SoupLen == Nat10(IOEnv.SOUPLEN)
SmallProgs == {p \in 1..NProg : Corpus[p].nsolid <= MaxSolid}
Tuples(n) == [1..n -> TokIdx]
InitX == st \in
   { St("seed", k, NoD, <<>>) : k \in 1..Len(Seeds) } \cup
   { St("orig", p, NoD, <<>>) : p \in 1..NProg } \cup
   UNION { { St("mut", p, d, <<>>) : d \in AllDescs(LexOf(p), SolidOf(p)) } : p \in SmallProgs } \cup
   UNION { { St("soup", 0, NoD, ix) : ix \in Tuples(n) } : n \in 1..SoupLen } \cup
   { St("skel", k, NoD, [j \in 1..NHoles(Skeletons[k]) |-> a]) : k \in 1..Len(Skeletons), a \in TokIdx }
NextX == UNCHANGED st

(* ---- validation of observations ---- *)
Obs == ndJsonDeserialize(IOEnv.OBS)
InitV == st \in { St("obs", k, NoD, <<>>) : k \in 1..Len(Obs) }
NextV == UNCHANGED st
Verdict == st.g = "obs" =>
   LET o == Obs[st.p] IN
   IF LegalC04(o) THEN TRUE
   ELSE PrintT(<<"CASE", ToJson([id |-> o.id, legal |-> FALSE, key |-> KeyC04(o)])>>)
=============================================================================
