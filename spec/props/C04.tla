----------------------------- MODULE C04 -----------------------------
(* C04: the compiler terminates with a result or diagnostics on any text.
   C04.cfg / C04x.cfg: the random and the exhaustive enumerator of spec/front/FrontGen.tla (inputs);
   C04v.cfg: validation, states = observations: every observation recorded by the harness (mode "both":
   abra_core::check and abra_core::compile_bytecode on the input) is checked against the legal outcomes
   of spec/front/Pipeline.tla; an illegal one is printed with its finding key. *)
EXTENDS FrontGen

Obs == ndJsonDeserialize(IOEnv.OBS)
InitV == st \in { St("obs", k, NoD, <<>>) : k \in 1..Len(Obs) }
NextV == UNCHANGED st
Verdict == st.g = "obs" =>
   LET o == Obs[st.p] IN
   IF LegalC04(o) THEN TRUE
   ELSE PrintT(<<"CASE", ToJson([id |-> o.id, legal |-> FALSE, keys |-> <<KeyC04(o)>>, expect |-> ExpectC04])>>)
=============================================================================
