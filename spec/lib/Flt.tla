------------------------------- MODULE Flt -------------------------------
(***************************************************************************)
(* IEEE-754 binary64 as a state-free exact model on top of the unbounded   *)
(* integers of I64.tla, and the definition of Abra's float operations.     *)
(*                                                                         *)
(* A float is identified by its 64-bit pattern (a magnitude of I64: the    *)
(* harness transports floats as the decimal string of that pattern).       *)
(* Decoded form:                                                           *)
(*   [k |-> "nan", neg]   [k |-> "inf", neg]                               *)
(*   [k |-> "fin", neg, m, e]     value = (-1)^neg * m * 2^e, m a magnitude*)
(*                                (m = <<>> : a signed zero)               *)
(* Rounding: RoundQ(neg, N, D, e) is the binary64 nearest (ties to even)   *)
(* to N/D * 2^e, computed exactly with integer arithmetic: this is the     *)
(* IEEE-754 definition of the result of + - * / sqrt, of convertFromInt    *)
(* and of decimal-to-binary conversion.  Powers of two beyond the table    *)
(* never occur because exponents are carried separately from mantissas.    *)
(***************************************************************************)
EXTENDS I64

\* ------------------------------------------------------------------ powers of two (magnitudes), bit length
TMAX == 2400
RECURSIVE P2Build(_, _)
P2Build(acc, k) == IF k > TMAX THEN acc ELSE P2Build(Append(acc, MAdd(acc[k], acc[k])), k + 1)
\* TLC re-evaluates a definition that depends on a RECURSIVE operator at every use, so the table is computed once,
\* when the assumptions are checked, and kept in TLC register 64 (TLCSet from an ASSUME reaches every worker)
P2Reg == 64
ASSUME TLCSet(P2Reg, P2Build(<< <<1>> >>, 1))
TwoM(k) == TLCGet(P2Reg)[k + 1]                          \* magnitude of 2^k, 0 <= k <= TMAX
MShl(m, s) == IF s = 0 THEN m ELSE MMul(m, TwoM(s))
MOne == <<1>>
M52 == TwoM(52)
M53 == TwoM(53)
M63 == TwoM(63)
MInfBits == MMul(MFromNat(2047), M52)

\* smallest k in lo..hi with m < 2^k  (m < 2^hi given)
RECURSIVE MBLSearch(_, _, _)
MBLSearch(m, lo, hi) == IF lo = hi THEN lo
                        ELSE LET mid == (lo + hi) \div 2 IN
                             IF MCmp(m, TwoM(mid)) < 0 THEN MBLSearch(m, lo, mid) ELSE MBLSearch(m, mid + 1, hi)
\* number of bits of m (0 for zero); 10^4 lies between 2^13 and 2^14
MBitLen(m) == IF m = <<>> THEN 0 ELSE MBLSearch(m, 13 * (Len(m) - 1) + 1, 14 * Len(m))

\* ------------------------------------------------------------------ encode / decode
NaNV(neg) == [k |-> "nan", neg |-> neg]
InfV(neg) == [k |-> "inf", neg |-> neg]
FinV(neg, m, e) == [k |-> "fin", neg |-> neg, m |-> m, e |-> e]
ZeroV(neg) == FinV(neg, <<>>, 0)
IsZeroV(x) == x.k = "fin" /\ x.m = <<>>
IsNaN(x) == x.k = "nan"

WithSign(neg, bits) == IF neg THEN MAdd(bits, M63) ELSE bits
QNaNBits == MAdd(MInfBits, TwoM(51))                  \* 0x7FF8000000000000, the default quiet NaN
\* IEEE-754 does not fix the sign of a generated NaN: both default quiet NaNs are acceptable results
NaNSet == {QNaNBits, WithSign(TRUE, QNaNBits)}

Decode(bits) ==
  LET neg == MCmp(bits, M63) >= 0
      b == IF neg THEN MSub(bits, M63) ELSE bits
      qr == MDivMod(b, M52)
      ef == IF qr[1] = <<>> THEN 0 ELSE qr[1][1]
      fr == qr[2]
  IN IF ef = 2047 THEN (IF fr = <<>> THEN InfV(neg) ELSE NaNV(neg))
     ELSE IF ef = 0 THEN FinV(neg, fr, -1074)
     ELSE FinV(neg, MAdd(fr, M52), ef - 1075)

\* nearest binary64 (ties to even) of N/D * 2^e, N, D non-zero magnitudes: [bits, inexact]
RoundQ(neg, N, D, e) ==
  LET k0 == MBitLen(N) - MBitLen(D)
      ge == IF k0 >= 0 THEN MCmp(N, MShl(D, k0)) >= 0 ELSE MCmp(MShl(N, 0 - k0), D) >= 0
      kk == IF ge THEN k0 ELSE k0 - 1                  \* 2^kk <= N/D < 2^(kk+1)
      E == kk + e                                      \* exponent of the leading bit of the value
  IN IF E > 1023 THEN [bits |-> WithSign(neg, MInfBits), inexact |-> TRUE]
     ELSE IF E < -1075 THEN [bits |-> WithSign(neg, <<>>), inexact |-> TRUE]          \* below half the least subnormal
     ELSE LET t == IF E >= -1022 THEN E - 52 ELSE -1074                               \* exponent of the last kept bit
              s == e - t
              num == IF s >= 0 THEN MShl(N, s) ELSE N
              den == IF s >= 0 THEN D ELSE MShl(D, 0 - s)
              qr == MDivMod(num, den)
              tw == MCmp(MAdd(qr[2], qr[2]), den)
              q == IF tw > 0 \/ (tw = 0 /\ MIsOdd(qr[1])) THEN MAdd(qr[1], MOne) ELSE qr[1]
              \* normal: (E+1023)*2^52 + (q - 2^52); a carry out of the mantissa lands in the exponent, up to infinity
              b == IF E >= -1022 THEN MAdd(MMul(MFromNat(E + 1022), M52), q) ELSE q
          IN [bits |-> WithSign(neg, b), inexact |-> qr[2] # <<>>]

\* bits of a decoded value (exact for every value produced by Decode)
Encode(x) == CASE x.k = "nan" -> WithSign(x.neg, QNaNBits)
               [] x.k = "inf" -> WithSign(x.neg, MInfBits)
               [] OTHER -> IF x.m = <<>> THEN WithSign(x.neg, <<>>) ELSE RoundQ(x.neg, x.m, MOne, x.e).bits

\* exponent of the leading bit of a non-zero finite value
LeadE(x) == x.e + MBitLen(x.m) - 1

\* ------------------------------------------------------------------ results
\* [k |-> "bits", bits, inexact]   one definite bit pattern
\* [k |-> "nan"]                   some NaN (NaNSet when no operand is a NaN)
\* [k |-> "err", e |-> "divzero"]
\* [k |-> "open"]                  not decided by this model
RBits(r) == [k |-> "bits", bits |-> r.bits, inexact |-> r.inexact]
RExact(bits) == [k |-> "bits", bits |-> bits, inexact |-> FALSE]
RNaN == [k |-> "nan"]
ROpen == [k |-> "open"]
RErr(e) == [k |-> "err", e |-> e]
RVal(x) == RExact(Encode(x))

\* ------------------------------------------------------------------ arithmetic (IEEE-754 sections 5.4.1, 6.1-6.3)
FNeg(x) == [x EXCEPT !.neg = ~x.neg]

FAdd(a, b) ==
  IF IsNaN(a) \/ IsNaN(b) THEN RNaN
  ELSE IF a.k = "inf" THEN (IF b.k = "inf" /\ b.neg # a.neg THEN RNaN ELSE RVal(a))
  ELSE IF b.k = "inf" THEN RVal(b)
  ELSE IF IsZeroV(a) /\ IsZeroV(b) THEN RVal(ZeroV(a.neg /\ b.neg))
  ELSE IF IsZeroV(a) THEN RVal(b)
  ELSE IF IsZeroV(b) THEN RVal(a)
  ELSE LET ea == LeadE(a)  eb == LeadE(b) IN
       \* far below half an ulp of the larger operand (also just under a power of two): the larger operand, inexact
       IF ea - eb > 120 THEN [k |-> "bits", bits |-> Encode(a), inexact |-> TRUE]
       ELSE IF eb - ea > 120 THEN [k |-> "bits", bits |-> Encode(b), inexact |-> TRUE]
       ELSE LET e0 == IF a.e < b.e THEN a.e ELSE b.e
                s == Add(Mk(a.neg, MShl(a.m, a.e - e0)), Mk(b.neg, MShl(b.m, b.e - e0)))
            IN IF IsZero(s) THEN RVal(ZeroV(FALSE))              \* exact cancellation: +0 under round-to-nearest
               ELSE RBits(RoundQ(s.neg, s.mag, MOne, e0))
FSub(a, b) == FAdd(a, FNeg(b))

FMul(a, b) ==
  LET neg == a.neg # b.neg IN
  IF IsNaN(a) \/ IsNaN(b) THEN RNaN
  ELSE IF a.k = "inf" \/ b.k = "inf" THEN (IF IsZeroV(a) \/ IsZeroV(b) THEN RNaN ELSE RVal(InfV(neg)))
  ELSE IF IsZeroV(a) \/ IsZeroV(b) THEN RVal(ZeroV(neg))
  ELSE RBits(RoundQ(neg, MMul(a.m, b.m), MOne, a.e + b.e))

\* Abra: a zero divisor stops the program with a division-by-zero error (C16 statement); otherwise IEEE division
FDiv(a, b) ==
  LET neg == a.neg # b.neg IN
  IF IsZeroV(b) THEN RErr("divzero")
  ELSE IF IsNaN(a) \/ IsNaN(b) THEN RNaN
  ELSE IF a.k = "inf" THEN (IF b.k = "inf" THEN RNaN ELSE RVal(InfV(neg)))
  ELSE IF b.k = "inf" THEN RVal(ZeroV(neg))
  ELSE IF IsZeroV(a) THEN RVal(ZeroV(neg))
  ELSE RBits(RoundQ(neg, a.m, b.m, a.e - b.e))

\* ---- integer-valued floats
\* [int |-> BOOLEAN, odd |-> BOOLEAN, n |-> small TLC integer or 0 when |value| > 64, big |-> BOOLEAN]
IntInfo(x) ==
  IF x.k # "fin" THEN [int |-> FALSE, odd |-> FALSE, n |-> 0, big |-> FALSE]
  ELSE IF x.m = <<>> THEN [int |-> TRUE, odd |-> FALSE, n |-> 0, big |-> FALSE]
  ELSE IF x.e >= 0 THEN (IF x.e = 0 /\ MCmp(x.m, <<2000>>) <= 0
                         THEN [int |-> TRUE, odd |-> MIsOdd(x.m), n |-> (IF x.neg THEN 0 - x.m[1] ELSE x.m[1]), big |-> FALSE]
                         ELSE [int |-> TRUE, odd |-> (x.e = 0 /\ MIsOdd(x.m)), n |-> 0, big |-> TRUE])
  ELSE IF 0 - x.e > 60 THEN [int |-> FALSE, odd |-> FALSE, n |-> 0, big |-> FALSE]    \* m < 2^53: cannot have that many trailing zeros... unless subnormal-range: not an integer
  ELSE LET qr == MDivMod(x.m, TwoM(0 - x.e)) IN
       IF qr[2] # <<>> THEN [int |-> FALSE, odd |-> FALSE, n |-> 0, big |-> FALSE]
       ELSE IF MCmp(qr[1], <<2000>>) <= 0
            THEN [int |-> TRUE, odd |-> MIsOdd(qr[1]), n |-> (IF x.neg THEN 0 - qr[1][1] ELSE qr[1][1]), big |-> FALSE]
            ELSE [int |-> TRUE, odd |-> MIsOdd(qr[1]), n |-> 0, big |-> TRUE]

\* strip factors of two from the mantissa: <<m', e'>> with m * 2^e = m' * 2^e' and m' odd (m # 0, m < 2^64)
Strip2(me, t) == LET qr == MDivMod(me[1], TwoM(t)) IN IF qr[2] = <<>> THEN <<qr[1], me[2] + t>> ELSE me
NormM(m, e) == Strip2(Strip2(Strip2(Strip2(Strip2(Strip2(<<m, e>>, 32), 16), 8), 4), 2), 1)

RECURSIVE MPowN(_, _)
MPowN(m, n) == IF n = 0 THEN MOne ELSE MMul(m, MPowN(m, n - 1))

\* sign of |x| - 1 for a non-NaN value
MagVsOne(x) == IF x.k = "inf" THEN 1 ELSE IF x.m = <<>> THEN -1
               ELSE LET le == LeadE(x) IN IF le > 0 THEN 1 ELSE IF le < 0 THEN -1
                    ELSE IF MCmp(x.m, TwoM(0 - x.e)) = 0 THEN 0 ELSE 1      \* le = 0: 1 <= |x| < 2, so -x.e = bitlen-1 <= 52

\* pow(a, b) as specified by IEEE-754-2008 9.2.1 / C Annex F.10.4.4 for the special operands, and exactly for the
\* integer powers whose mathematical result is a binary64 number; everything else is left open (not decided)
FPow(a, b) ==
  LET ib == IntInfo(b) IN
  IF IsZeroV(b) THEN RVal(FinV(FALSE, MOne, 0))                                   \* pow(x, +-0) = 1 even for NaN
  ELSE IF a.k = "fin" /\ ~a.neg /\ a.m # <<>> /\ MagVsOne(a) = 0 THEN RVal(FinV(FALSE, MOne, 0))   \* pow(+1, y) = 1 even for NaN
  ELSE IF IsNaN(a) \/ IsNaN(b) THEN RNaN
  ELSE IF IsZeroV(a) THEN
         (IF b.neg THEN RVal(InfV(a.neg /\ ib.odd))                               \* pow(+-0, y<0): +-inf for odd integers, else +inf
          ELSE RVal(ZeroV(a.neg /\ ib.odd)))
  ELSE IF b.k = "inf" THEN
         (LET c == MagVsOne(a) IN
          IF c = 0 THEN RVal(FinV(FALSE, MOne, 0))                                \* pow(-1, +-inf) = 1
          ELSE IF (c < 0) = b.neg THEN RVal(InfV(FALSE)) ELSE RVal(ZeroV(FALSE)))
  ELSE IF a.k = "inf" THEN
         (IF a.neg THEN (IF b.neg THEN RVal(ZeroV(ib.odd)) ELSE RVal(InfV(ib.odd)))
          ELSE (IF b.neg THEN RVal(ZeroV(FALSE)) ELSE RVal(InfV(FALSE))))
  ELSE IF a.neg /\ ~ib.int THEN RNaN                                              \* finite x < 0, finite non-integer y
  ELSE IF ib.int /\ ~ib.big /\ ib.n # 0 THEN
         (LET n == IF ib.n < 0 THEN 0 - ib.n ELSE ib.n
              me == NormM(a.m, a.e)
              neg == a.neg /\ ib.odd
          IN IF me[1] # MOne /\ MBitLen(me[1]) * n > 200 THEN ROpen             \* (a power of two to any such power is decided)
             ELSE LET p == IF me[1] = MOne THEN MOne ELSE MPowN(me[1], n)
                      r == IF ib.n > 0 THEN RoundQ(neg, p, MOne, me[2] * n) ELSE RoundQ(neg, MOne, p, 0 - me[2] * n)
                  IN IF r.inexact THEN ROpen ELSE RBits(r))
  ELSE ROpen

\* ---- roundToIntegral (floor / ceil / round = ties away from zero), IEEE-754 5.9: exact, the sign is kept
\* mode: "floor" | "ceil" | "round"
FRoundInt(mode, x) ==
  IF x.k = "nan" THEN RNaN
  ELSE IF x.k = "inf" \/ x.m = <<>> \/ x.e >= 0 THEN RVal(x)
  ELSE LET sh == 0 - x.e
           frac == sh > 60                                   \* |x| < 2^-7 at most: integer part 0, fraction non-zero
           qr == IF frac THEN << <<>>, MOne >> ELSE MDivMod(x.m, TwoM(sh))
           half == IF frac THEN -1 ELSE MCmp(MAdd(qr[2], qr[2]), TwoM(sh))       \* fraction vs 1/2
           up == CASE mode = "floor" -> x.neg /\ qr[2] # <<>>
                   [] mode = "ceil" -> ~x.neg /\ qr[2] # <<>>
                   [] mode = "round" -> half >= 0
           q == IF up THEN MAdd(qr[1], MOne) ELSE qr[1]
       IN IF q = <<>> THEN RVal(ZeroV(x.neg)) ELSE RBits(RoundQ(x.neg, q, MOne, 0))

\* ---- square root (IEEE-754 5.4.1: correctly rounded)
\* largest r with r*r <= n, by bisection on the bit length
RECURSIVE MSqrtR(_, _, _)
MSqrtR(n, lo, hi) == IF MCmp(lo, hi) = 0 THEN lo
                     ELSE LET mid == MDivMod(MAdd(MAdd(lo, hi), MOne), <<2>>)[1] IN
                          IF MCmp(MMul(mid, mid), n) <= 0 THEN MSqrtR(n, mid, hi) ELSE MSqrtR(n, lo, MSub(mid, MOne))
MSqrt(n) == IF n = <<>> THEN <<>> ELSE MSqrtR(n, MOne, TwoM((MBitLen(n) + 1) \div 2))
FSqrt(x) ==
  IF x.k = "nan" THEN RNaN
  ELSE IF IsZeroV(x) THEN RVal(x)
  ELSE IF x.neg THEN RNaN
  ELSE IF x.k = "inf" THEN RVal(x)
  ELSE LET odd == x.e % 2 # 0
           m1 == IF odd THEN MAdd(x.m, x.m) ELSE x.m
           e1 == IF odd THEN x.e - 1 ELSE x.e
           r == MSqrt(m1)
       IN IF MCmp(MMul(r, r), m1) = 0 THEN RBits(RoundQ(FALSE, r, MOne, e1 \div 2))
          ELSE \* irrational: take 60 more bits; the root lies strictly between q and q+1 and is never a rounding tie,
               \* so it rounds like q + 1/2
               LET q == MSqrt(MShl(m1, 120))
                   rr == RoundQ(FALSE, MAdd(MAdd(q, q), MOne), <<2>>, (e1 \div 2) - 60)
               IN [k |-> "bits", bits |-> rr.bits, inexact |-> TRUE]

\* ---- conversions
\* int_from_float: the integer part (truncation toward zero, builtin_types.md) when it is a 64-bit integer; else open
FToInt(x) ==
  IF x.k # "fin" THEN ROpen
  ELSE IF x.m = <<>> THEN [k |-> "int", v |-> Zero]
  ELSE IF LeadE(x) >= 64 THEN ROpen
  ELSE LET q == IF x.e >= 0 THEN MShl(x.m, x.e)
                ELSE IF 0 - x.e > 60 + 53 THEN <<>> ELSE MDivMod(x.m, TwoM(0 - x.e))[1]
           v == Mk(x.neg, q)
       IN IF Fits64(v) THEN [k |-> "int", v |-> v] ELSE ROpen
\* float_from_int: convertFromInt, correctly rounded
FFromInt(n) == IF IsZero(n) THEN RVal(ZeroV(FALSE)) ELSE RBits(RoundQ(n.neg, n.mag, MOne, 0))

\* ---- numeric comparison of non-NaN values: sign of a - b (signed zeros are numerically equal)
FCmpNum(a, b) ==
  LET sa == IF IsZeroV(a) THEN 0 ELSE IF a.neg THEN -1 ELSE 1
      sb == IF IsZeroV(b) THEN 0 ELSE IF b.neg THEN -1 ELSE 1
  IN IF sa # sb THEN (IF sa < sb THEN -1 ELSE 1)
     ELSE IF sa = 0 THEN 0
     ELSE LET mc == IF a.k = "inf" THEN (IF b.k = "inf" THEN 0 ELSE 1)
                    ELSE IF b.k = "inf" THEN -1
                    ELSE LET ea == LeadE(a)  eb == LeadE(b) IN
                         IF ea # eb THEN (IF ea < eb THEN -1 ELSE 1)
                         ELSE LET e0 == IF a.e < b.e THEN a.e ELSE b.e IN
                              MCmp(MShl(a.m, a.e - e0), MShl(b.m, b.e - e0))
          IN IF sa > 0 THEN mc ELSE 0 - mc

\* ------------------------------------------------------------------ decimal literals
RECURSIVE MPow10(_)
MPow10(k) == IF k = 0 THEN MOne ELSE IF k >= 4 THEN MShift(MPow10(k - 4), 1) ELSE MMulSmall(MPow10(k - 1), 10)
\* the binary64 denoted by the decimal literal  [-]D / 10^k  (D a magnitude): correctly rounded (Rust str::parse::<f64>)
LitBits(neg, D, k) == IF D = <<>> THEN WithSign(neg, <<>>) ELSE RoundQ(neg, D, MPow10(k), 0).bits

RECURSIVE ZerosS(_)
ZerosS(n) == IF n <= 0 THEN "" ELSE "0" \o ZerosS(n - 1)
\* spelling of D / 10^k with at least one digit on each side of the point
DecSpell(D, k) ==
  LET ds == MDec(D)
      padded == IF Len(ds) <= k THEN ZerosS(k + 1 - Len(ds)) \o ds ELSE ds
      n == Len(padded)
  IN IF k = 0 THEN padded \o ".0" ELSE SubSeq(padded, 1, n - k) \o "." \o SubSeq(padded, n - k + 1, n)

RECURSIVE MPow5(_)
MPow5(k) == IF k = 0 THEN MOne ELSE IF k >= 5 THEN MMulSmall(MPow5(k - 5), 3125) ELSE MMulSmall(MPow5(k - 1), 5)
RECURSIVE MPow2Big(_)
MPow2Big(k) == IF k <= TMAX THEN TwoM(k) ELSE MMulSmall(MPow2Big(k - 13), 8192)
\* exact decimal spelling of the magnitude of a finite value m * 2^e
ExactSpell(m, e) == IF e >= 0 THEN DecSpell(MMul(m, MPow2Big(e)), 0) ELSE DecSpell(MMul(m, MPow5(0 - e)), 0 - e)
=============================================================================
