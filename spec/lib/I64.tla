------------------------------- MODULE I64 -------------------------------
(***************************************************************************)
(* Exact signed integers of unbounded size, and on top of them the         *)
(* *definition* of Abra's 64-bit integer arithmetic (language reference:   *)
(* builtin_types.md "int: a 64-bit signed integer", operators.md).         *)
(*                                                                         *)
(* TLC integers have 32 bits, so a number is a record                      *)
(*     [neg |-> BOOLEAN, mag |-> little-endian sequence of limbs base 10^4]*)
(* with no most-significant zero limb; zero is [neg |-> FALSE, mag |-> <<>>]*)
(* Every intermediate value stays below 10^8 + 10^4 < 2^31.                *)
(*                                                                         *)
(* Everything here is a plain function of its arguments (no state).        *)
(***************************************************************************)
EXTENDS Integers, Sequences, TLC

IB == 10000                      \* limb base
IBDigits == 4

\* ------------------------------------------------------------------ magnitudes (naturals)
RECURSIVE MTrim(_)
MTrim(m) == IF m = <<>> THEN m
            ELSE IF m[Len(m)] = 0 THEN MTrim(SubSeq(m, 1, Len(m) - 1)) ELSE m

RECURSIVE MFromNat(_)
MFromNat(n) == IF n = 0 THEN <<>> ELSE <<n % IB>> \o MFromNat(n \div IB)

MLimb(x, i) == IF i <= Len(x) THEN x[i] ELSE 0

RECURSIVE MCmpAt(_, _, _)
MCmpAt(x, y, i) == IF i = 0 THEN 0
                   ELSE IF x[i] # y[i] THEN (IF x[i] < y[i] THEN -1 ELSE 1)
                   ELSE MCmpAt(x, y, i - 1)
\* -1, 0, 1  (both arguments trimmed)
MCmp(x, y) == IF Len(x) # Len(y) THEN (IF Len(x) < Len(y) THEN -1 ELSE 1) ELSE MCmpAt(x, y, Len(x))

RECURSIVE MAddR(_, _, _, _, _)
MAddR(x, y, i, c, acc) ==
  IF i > Len(x) /\ i > Len(y) THEN (IF c = 0 THEN acc ELSE Append(acc, c))
  ELSE LET s == MLimb(x, i) + MLimb(y, i) + c IN MAddR(x, y, i + 1, s \div IB, Append(acc, s % IB))
MAdd(x, y) == MAddR(x, y, 1, 0, <<>>)

\* x - y for x >= y
RECURSIVE MSubR(_, _, _, _, _)
MSubR(x, y, i, brw, acc) ==
  IF i > Len(x) THEN acc
  ELSE LET d == x[i] - MLimb(y, i) - brw IN
       IF d < 0 THEN MSubR(x, y, i + 1, 1, Append(acc, d + IB)) ELSE MSubR(x, y, i + 1, 0, Append(acc, d))
MSub(x, y) == MTrim(MSubR(x, y, 1, 0, <<>>))

\* x * k for 0 <= k < IB
RECURSIVE MMulSmallR(_, _, _, _, _)
MMulSmallR(x, k, i, c, acc) ==
  IF i > Len(x) THEN (IF c = 0 THEN acc ELSE Append(acc, c))
  ELSE LET p == x[i] * k + c IN MMulSmallR(x, k, i + 1, p \div IB, Append(acc, p % IB))
MMulSmall(x, k) == IF k = 0 \/ x = <<>> THEN <<>> ELSE MMulSmallR(x, k, 1, 0, <<>>)

\* x * IB^n
MShift(x, n) == IF x = <<>> THEN x ELSE [i \in 1..n |-> 0] \o x

RECURSIVE MMulR(_, _, _, _)
MMulR(x, y, i, acc) == IF i > Len(y) THEN acc
                       ELSE MMulR(x, y, i + 1, MAdd(acc, MShift(MMulSmall(x, y[i]), i - 1)))
MMul(x, y) == IF x = <<>> \/ y = <<>> THEN <<>> ELSE MMulR(x, y, 1, <<>>)

\* largest d in lo..hi with y * d <= r   (y # 0; y * lo <= r is given)
RECURSIVE MQDigit(_, _, _, _)
MQDigit(r, y, lo, hi) ==
  IF lo = hi THEN lo
  ELSE LET mid == (lo + hi + 1) \div 2 IN
       IF MCmp(MMulSmall(y, mid), r) <= 0 THEN MQDigit(r, y, mid, hi) ELSE MQDigit(r, y, lo, mid - 1)

\* x div k and x mod k for a single-limb divisor 1 <= k < IB, most significant limb first: <<quotient, remainder (integer)>>
RECURSIVE MDivSmallR(_, _, _, _, _)
MDivSmallR(x, k, i, r, q) == IF i = 0 THEN <<MTrim(q), r>>
                             ELSE LET c == r * IB + x[i] IN MDivSmallR(x, k, i - 1, c % k, <<c \div k>> \o q)

\* schoolbook long division (Knuth 4.3.1 D): the divisor y is scaled so that its top limb is >= IB/2; the quotient
\* limb estimated from the two top limbs of the running remainder is then at most 2 too large
RECURSIVE MDivR(_, _, _, _, _)
MDivR(x, y, i, q, r) ==
  IF i = 0 THEN <<MTrim(q), r>>
  ELSE LET r1 == MTrim(<<x[i]>> \o r)           \* r * IB + x[i]
           n  == Len(y)
           top == IF Len(r1) > n THEN r1[n + 1] * IB + r1[n] ELSE IF Len(r1) = n THEN r1[n] ELSE 0
           est == top \div y[n]
           hi == IF est > IB - 1 THEN IB - 1 ELSE est
           d  == IF Len(r1) < n THEN 0 ELSE MQDigit(r1, y, IF hi >= 2 THEN hi - 2 ELSE 0, hi)
       IN MDivR(x, y, i - 1, <<d>> \o q, IF d = 0 THEN r1 ELSE MSub(r1, MMulSmall(y, d)))
\* <<quotient, remainder>>  (y # 0)
MDivMod(x, y) ==
  IF Len(y) = 1 THEN (LET qr == MDivSmallR(x, y[1], Len(x), 0, <<>>) IN <<qr[1], MFromNat(qr[2])>>)
  ELSE IF MCmp(x, y) < 0 THEN << <<>>, x >>
  ELSE LET sc == IB \div (y[Len(y)] + 1)
           qr == MDivR(MMulSmall(x, sc), MMulSmall(y, sc), Len(MMulSmall(x, sc)), <<>>, <<>>)
       IN <<qr[1], MDivSmallR(qr[2], sc, Len(qr[2]), 0, <<>>)[1]>>

MIsOdd(x) == x # <<>> /\ x[1] % 2 = 1

\* decimal digits, most significant limb unpadded
Pad4(n) == IF n < 10 THEN "000" \o ToString(n) ELSE IF n < 100 THEN "00" \o ToString(n)
           ELSE IF n < 1000 THEN "0" \o ToString(n) ELSE ToString(n)
RECURSIVE MDecR(_, _)
MDecR(x, i) == IF i = 0 THEN "" ELSE Pad4(x[i]) \o MDecR(x, i - 1)
MDec(x) == IF x = <<>> THEN "0" ELSE ToString(x[Len(x)]) \o MDecR(x, Len(x) - 1)

\* ------------------------------------------------------------------ signed numbers
Mk(neg, m) == LET t == MTrim(m) IN [neg |-> (neg /\ t # <<>>), mag |-> t]
Zero == [neg |-> FALSE, mag |-> <<>>]
IsZero(x) == x.mag = <<>>
\* from a TLC integer (|n| < 2^31)
Big(n) == IF n < 0 THEN Mk(TRUE, MFromNat(0 - n)) ELSE Mk(FALSE, MFromNat(n))
Neg(x) == Mk(~x.neg, x.mag)
AbsI(x) == Mk(FALSE, x.mag)
\* sign of x - y
Cmp(x, y) == IF x.neg # y.neg THEN (IF x.neg THEN -1 ELSE 1)
             ELSE IF x.neg THEN MCmp(y.mag, x.mag) ELSE MCmp(x.mag, y.mag)
Add(x, y) == IF x.neg = y.neg THEN Mk(x.neg, MAdd(x.mag, y.mag))
             ELSE IF MCmp(x.mag, y.mag) >= 0 THEN Mk(x.neg, MSub(x.mag, y.mag))
             ELSE Mk(y.neg, MSub(y.mag, x.mag))
Sub(x, y) == Add(x, Neg(y))
Mul(x, y) == Mk(x.neg # y.neg, MMul(x.mag, y.mag))
MulInt(x, k) == Mul(x, Big(k))
\* truncating division (quotient rounded toward zero, remainder has the sign of the dividend); y # 0
TDiv(x, y) == Mk(x.neg # y.neg, MDivMod(x.mag, y.mag)[1])
TRem(x, y) == Mk(x.neg, MDivMod(x.mag, y.mag)[2])
\* Euclidean remainder: the unique r with 0 <= r < |y| and x = q*y + r for some integer q; y # 0
EMod(x, y) == LET r == TRem(x, y) IN IF r.neg THEN Add(r, AbsI(y)) ELSE r
IsOdd(x) == MIsOdd(x.mag)
ToDec(x) == (IF x.neg THEN "-" ELSE "") \o MDec(x.mag)

RECURSIVE Pow2(_)
Pow2(k) == IF k = 0 THEN Big(1) ELSE IF k >= 13 THEN MulInt(Pow2(k - 13), 8192) ELSE MulInt(Pow2(k - 1), 2)

\* ------------------------------------------------------------------ the 64-bit range
\* (written out as limbs: TLC caches a definition only if it does not depend on a RECURSIVE operator)
Two63 == [neg |-> FALSE, mag |-> <<5808, 5477, 368, 3372, 922>>]           \* 2^63 = 9223372036854775808
MaxI64 == [neg |-> FALSE, mag |-> <<5807, 5477, 368, 3372, 922>>]          \* 2^63 - 1
MinI64 == [neg |-> TRUE, mag |-> <<5808, 5477, 368, 3372, 922>>]           \* -2^63
ASSUME Two63 = Pow2(63) /\ MaxI64 = Sub(Two63, Big(1)) /\ MinI64 = Neg(Two63)
Fits64(x) == Cmp(x, MinI64) >= 0 /\ Cmp(x, MaxI64) <= 0

\* x ^ n for a TLC integer n >= 0, stopping as soon as the magnitude exceeds 2^63 (it can only grow
\* afterwards because |x| >= 2 in that case): result [ovf |-> BOOLEAN, v |-> number]
RECURSIVE PowR(_, _, _)
PowR(x, n, acc) == IF n = 0 THEN [ovf |-> FALSE, v |-> acc]
                   ELSE LET p == Mul(acc, x) IN
                        IF MCmp(p.mag, Two63.mag) > 0 THEN [ovf |-> TRUE, v |-> p] ELSE PowR(x, n - 1, p)

\* ------------------------------------------------------------------ Abra int operations
\* Outcome of an operation:  [k |-> "val", v |-> number] | [k |-> "err", e |-> "overflow" | "divzero"]
\*                         | [k |-> "unspec"]   (the reference does not define it: negative exponent)
Val(v) == [k |-> "val", v |-> v]
Err(e) == [k |-> "err", e |-> e]
Unspec == [k |-> "unspec"]
Checked(v) == IF Fits64(v) THEN Val(v) ELSE Err("overflow")

\* a ^ b, b >= 0:  exact power if it fits, else overflow
PowOp(a, b) ==
  IF b.neg THEN Unspec
  ELSE IF IsZero(b) THEN Val(Big(1))                                   \* x^0 = 1 (also 0^0, as for every exact power)
  ELSE IF IsZero(a) THEN Val(Zero)
  ELSE IF a = Big(1) THEN Val(a)
  ELSE IF a = Big(-1) THEN Val(IF IsOdd(b) THEN a ELSE Big(1))
  ELSE IF Cmp(b, Big(64)) >= 0 THEN Err("overflow")                    \* |a| >= 2: |a^b| >= 2^64
  ELSE LET n == b.mag[1]                                               \* 1..63
           r == PowR(a, n, Big(1))
       IN IF r.ovf THEN Err("overflow") ELSE Checked(r.v)

BinOp(op, a, b) ==
  CASE op = "+" -> Checked(Add(a, b))
    [] op = "-" -> Checked(Sub(a, b))
    [] op = "*" -> Checked(Mul(a, b))
    [] op = "/" -> IF IsZero(b) THEN Err("divzero") ELSE Checked(TDiv(a, b))
    [] op = "%" -> IF IsZero(b) THEN Err("divzero") ELSE Checked(EMod(a, b))
    [] op = "^" -> PowOp(a, b)
NegOp(a) == Checked(Neg(a))
CmpOp(op, a, b) == LET c == Cmp(a, b) IN
  CASE op = "<" -> c < 0 [] op = "<=" -> c <= 0 [] op = ">" -> c > 0 [] op = ">=" -> c >= 0
    [] op = "==" -> c = 0 [] op = "!=" -> c # 0

\* ------------------------------------------------------------------ defining relations (used as self-checks of
\* the model: every spec that uses the module asserts them on the operands it enumerates)
DivLaw(a, b) ==   \* b # 0:  a = q*b + r, |r| < |b|, r = 0 or sign r = sign a
  LET q == TDiv(a, b)  r == TRem(a, b) IN
    /\ Add(Mul(q, b), r) = a
    /\ MCmp(r.mag, b.mag) < 0
    /\ (IsZero(r) \/ r.neg = a.neg)
ModLaw(a, b) ==   \* b # 0:  0 <= m < |b| and b divides a - m
  LET m == EMod(a, b) IN
    /\ ~m.neg /\ MCmp(m.mag, b.mag) < 0
    /\ IsZero(TRem(Sub(a, m), b))
RingLaw(a, b) ==
    /\ Add(a, b) = Add(b, a) /\ Mul(a, b) = Mul(b, a)
    /\ Sub(Add(a, b), b) = a
    /\ (IsZero(b) \/ (TDiv(Mul(a, b), b) = a /\ IsZero(TRem(Mul(a, b), b))))
    /\ Mul(Add(a, Big(1)), b) = Add(Mul(a, b), b)
=============================================================================
