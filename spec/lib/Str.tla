------------------------------- MODULE Str -------------------------------
(***************************************************************************)
(* Strings as the language defines them: sequences of Unicode code points  *)
(* stored as UTF-8; concatenation is concatenation of the byte sequences,  *)
(* comparison is lexicographic comparison of the byte sequences (C17).     *)
(* TLA+ string literals are ASCII only, so a string value is a sequence of *)
(* code points and text that leaves the specification is a sequence of     *)
(* segments [s |-> ASCII text] / [cp |-> code points] which the driver     *)
(* merely concatenates (transport, no semantics).                          *)
(***************************************************************************)
EXTENDS Naturals, Integers, Sequences, FiniteSets, TLC

\* UTF-8 encoding of a code point (RFC 3629)
Utf8(c) == IF c < 128 THEN <<c>>
           ELSE IF c < 2048 THEN <<192 + (c \div 64), 128 + (c % 64)>>
           ELSE IF c < 65536 THEN <<224 + (c \div 4096), 128 + ((c \div 64) % 64), 128 + (c % 64)>>
           ELSE <<240 + (c \div 262144), 128 + ((c \div 4096) % 64), 128 + ((c \div 64) % 64), 128 + (c % 64)>>
RECURSIVE Bytes(_)
Bytes(s) == IF s = <<>> THEN <<>> ELSE Utf8(s[1]) \o Bytes(Tail(s))

Concat(a, b) == a \o b
\* -1, 0, 1: lexicographic order of byte sequences
RECURSIVE CmpSeq(_, _)
CmpSeq(x, y) == IF x = <<>> THEN (IF y = <<>> THEN 0 ELSE -1)
                ELSE IF y = <<>> THEN 1
                ELSE IF x[1] < y[1] THEN -1 ELSE IF x[1] > y[1] THEN 1 ELSE CmpSeq(Tail(x), Tail(y))
CmpBytes(a, b) == CmpSeq(Bytes(a), Bytes(b))
Rel(op, a, b) == LET c == CmpBytes(a, b) IN
  CASE op = "==" -> c = 0 [] op = "!=" -> c # 0 [] op = "<" -> c < 0 [] op = "<=" -> c <= 0 [] op = ">" -> c > 0 [] op = ">=" -> c >= 0

Seg(s) == [s |-> s]
SegCp(cps) == [cp |-> cps]
BoolTxt(b) == IF b THEN "true" ELSE "false"
=============================================================================
