----------------------------- MODULE LamCapture -----------------------------
(***************************************************************************)
(* Programs about lambda capture (lambdas.md "Capturing values": a lambda   *)
(* captures the values of variables in its enclosing scope by value at the  *)
(* time the lambda is created).  What such a program prints is *defined* by *)
(* AbraSem (a closure value holds a copy of the environment of its creation;*)
(* every call extends that copy with fresh parameters and locals).          *)
(*                                                                          *)
(* A shape c describes one program:                                         *)
(*   d      nesting depth of lambdas f1 .. fd (f(k+1) is created in fk)     *)
(*   src    how the captured variable x is bound: let, var, param, loop,    *)
(*          match                                                           *)
(*   lvl    where x is bound: 0 = outside all lambdas, k = in the body of   *)
(*          fk (src = param: x is the parameter of fk)                      *)
(*   uses   the lambdas (levels > lvl) whose own body reads x               *)
(*   before / after   (src = var) x is reassigned between its declaration   *)
(*          and the creation of f(lvl+1) / after that creation              *)
(*   mode   inner: fk calls f(k+1);  ret: fk returns f(k+1) as a value      *)
(*   ctx    fn: level 0 is a function body;  main: level 0 is the top level *)
(*   ysrc, ylvl, yuses, yafter   an optional second captured variable y     *)
(*          (none / let / var), bound at level ylvl before x, read by the   *)
(*          lambdas in yuses, reassigned after the creation of f(ylvl+1)    *)
(* Every lambda has its own local t_k which it updates and prints, and      *)
(* every lambda value is invoked at least twice with distinct arguments.    *)
(***************************************************************************)
EXTENDS AbraGen, Cases

XN == "x"
PName(c, k) == IF c.src = "param" /\ c.lvl = k THEN XN ELSE "a" \o ToString(k)
TN(k) == "t" \o ToString(k)
FName(k) == "f" \o ToString(k)
RN(k) == "r" \o ToString(k)
CallV(f, es) == [k |-> "callv", f |-> f, es |-> es]
Blk(ss) == [k |-> "blk", ss |-> ss]
RangeIt(a, b) == [k |-> "range", a |-> I(a), b |-> I(b)]
ForS(p, it, body) == [k |-> "for", p |-> PB(p), it |-> it, body |-> body]
MatchSome(e, nm, someE, noneE) ==
  [k |-> "match", s |-> e, arms |-> << [p |-> [k |-> "var", c |-> "some", ps |-> <<PB(nm)>>], e |-> someE],
                                      [p |-> [k |-> "var", c |-> "none", ps |-> <<>>], e |-> noneE] >>]

X0 == 7
BeforeS == Assign(V(XN), "=", Bin("+", V(XN), I(5)))
AfterS == Assign(V(XN), "=", I(100))
BindX(c) == IF c.src = "let" THEN <<Let(XN, I(X0))>>
            ELSE <<Var(XN, I(X0))>> \o (IF c.before THEN <<BeforeS>> ELSE <<>>)
AfterX(c) == IF c.src = "var" /\ c.after THEN <<AfterS>> ELSE <<>>
YN == "y"
Y0 == 20
BindY(c, k) == IF c.ysrc = "none" \/ c.ylvl # k THEN <<>> ELSE IF c.ysrc = "let" THEN <<Let(YN, I(Y0))>> ELSE <<Var(YN, I(Y0))>>
AfterY(c, k) == IF c.ysrc = "var" /\ c.ylvl = k /\ c.yafter THEN <<Assign(V(YN), "=", I(200))>> ELSE <<>>

RECURSIVE Lam(_, _), LevelBody(_, _)
Lam(c, k) == [k |-> "lam", ps |-> <<PName(c, k)>>, ptys |-> <<"int">>, body |-> Blk(LevelBody(c, k))]
\* what fk does with f(k+1)
Result(c, k) == IF c.mode = "inner" THEN Call(FName(k + 1), <<V(TN(k))>>) ELSE V(FName(k + 1))
LevelBody(c, k) ==
  LET head == << Var(TN(k), Bin("*", V(PName(c, k)), I(2))),
                 Assign(V(TN(k)), "=", Bin("+", V(TN(k)), IF k \in c.uses THEN V(XN) ELSE I(1))),
                 PrintS(V(TN(k))) >> \o
              (IF k \in c.yuses THEN <<Assign(V(TN(k)), "=", Bin("+", V(TN(k)), V(YN)))>> ELSE <<>>)
      make == <<Let(FName(k + 1), Lam(c, k + 1))>> \o AfterY(c, k)
  IN head \o
     (IF k = c.d THEN <<ExprS(V(TN(k)))>>
      ELSE BindY(c, k) \o
       (IF c.lvl # k \/ c.src = "param" THEN make \o <<ExprS(Result(c, k))>>
        ELSE IF c.src \in {"let", "var"} THEN BindX(c) \o make \o AfterX(c) \o <<ExprS(Result(c, k))>>
        ELSE IF c.src = "loop" THEN          \* mode = inner
           << Var(RN(k), I(0)),
              ForS(XN, RangeIt(X0, X0 + 2), make \o <<Assign(V(RN(k)), "=", Bin("+", V(RN(k)), Result(c, k)))>>),
              ExprS(V(RN(k))) >>
        ELSE <<ExprS(MatchSome(Some(I(X0)), XN, Blk(make \o <<ExprS(Result(c, k))>>), I(0)))>>))

\* level 0: invoke every lambda value twice with distinct arguments
Invoke(c) ==
  IF c.d = 1 \/ c.mode = "inner" THEN <<PrintS(Call("f1", <<I(1)>>)), PrintS(Call("f1", <<I(2)>>))>>
  ELSE IF c.d = 2 THEN << Let("g1", Call("f1", <<I(1)>>)), PrintS(Call("g1", <<I(3)>>)), PrintS(Call("g1", <<I(4)>>)),
                          PrintS(CallV(Call("f1", <<I(2)>>), <<I(3)>>)) >>
  ELSE << Let("g1", Call("f1", <<I(1)>>)), Let("h1", Call("g1", <<I(3)>>)), PrintS(Call("h1", <<I(5)>>)), PrintS(Call("h1", <<I(6)>>)),
          PrintS(CallV(CallV(Call("f1", <<I(2)>>), <<I(4)>>), <<I(6)>>)) >>
Level0(c) ==
  LET make == <<Let("f1", Lam(c, 1))>> \o AfterY(c, 0) IN
  BindY(c, 0) \o
  (IF c.lvl # 0 \/ c.src = "param" THEN make \o Invoke(c)
   ELSE IF c.src \in {"let", "var"} THEN BindX(c) \o make \o AfterX(c) \o Invoke(c)
   ELSE IF c.src = "loop" THEN <<ForS(XN, RangeIt(X0, X0 + 2), make \o Invoke(c))>>
   ELSE <<ExprS(MatchSome(Some(I(X0)), XN, Blk(make \o Invoke(c)), Blk(<<PrintS(S("none"))>>)))>>)

ProgOf(c) ==
  IF c.ctx = "main" THEN File1(<<>>, <<>>, Level0(c) \o <<PrintS(S("end"))>>)
  ELSE File1(<<>>, << [n |-> "run", ps |-> <<[n |-> IF c.src = "param" /\ c.lvl = 0 THEN XN ELSE "p0", ty |-> "int", d |-> NoD]>>,
                       ret |-> "", body |-> Level0(c)] >>,
             <<ExprS(Call("run", <<I(X0)>>)), PrintS(S("end"))>>)

\* ---------------------------------------------------------------- the space of shapes
Uses(d, lvl) == (SUBSET ((lvl + 1)..d)) \ {{}}
ShapeOK(c) ==
  /\ c.lvl < c.d /\ c.uses \in Uses(c.d, c.lvl)
  /\ (c.src # "var" => ~c.before /\ ~c.after)
  /\ (c.d = 1 => c.mode = "inner")
  /\ (c.src \in {"loop", "match"} /\ c.lvl >= 1 => c.mode = "inner")     \* a loop / match arm cannot hand a lambda out
  /\ (c.ctx = "main" => c.lvl = 0 /\ c.src # "param")                    \* only level 0 differs between the contexts
NoY == [ysrc |-> "none", ylvl |-> 0, yuses |-> {}, yafter |-> FALSE]
Shapes1(maxd) ==
  {c @@ NoY : c \in {c \in [d : 1..maxd, src : {"let", "var", "param", "loop", "match"}, lvl : 0..(maxd - 1), uses : SUBSET (1..maxd),
                             before : BOOLEAN, after : BOOLEAN, mode : {"inner", "ret"}, ctx : {"fn", "main"}] : ShapeOK(c)}}
\* two captured variables: x as above (function context; reassigned both before and after, or not at all), y a reassigned var
YShapes(c) == {[ysrc |-> ys, ylvl |-> yl, yuses |-> yu, yafter |-> ys = "var"] : ys \in {"var"}, yl \in 0..(c.d - 1), yu \in SUBSET (1..c.d)}
Shapes2(maxd) ==
  UNION {{[k \in DOMAIN c \ DOMAIN NoY |-> c[k]] @@ y : y \in {y \in YShapes(c) : y.yuses \in Uses(c.d, y.ylvl)}} :
         c \in {c \in Shapes1(maxd) : c.ctx = "fn" /\ c.before = c.after}}

\* x is read by a lambda at least two levels below its binding although a lambda in between does not read it itself
TransitiveX(c) == \E j \in c.uses : \E k \in (c.lvl + 1)..(j - 1) : k \notin c.uses
TransitiveY(c) == c.ysrc # "none" /\ \E j \in c.yuses : \E k \in (c.ylvl + 1)..(j - 1) : k \notin c.yuses
Transitive(c) == TransitiveX(c) \/ TransitiveY(c)
\* deepest distance between the binding of x and a reader
Reach(c) == CHOOSE m \in 1..3 : (c.lvl + m) \in c.uses /\ \A j \in c.uses : j <= c.lvl + m

SetStr(U) == JoinS([i \in 1..3 |-> IF i \in U THEN ToString(i) ELSE ""], "")
IdOf(c) == "d" \o ToString(c.d) \o "." \o c.src \o ToString(c.lvl) \o ".u" \o SetStr(c.uses) \o
           (IF c.before THEN ".b" ELSE "") \o (IF c.after THEN ".a" ELSE "") \o "." \o c.mode \o "." \o c.ctx \o
           (IF c.ysrc = "none" THEN "" ELSE ".y" \o c.ysrc \o ToString(c.ylvl) \o "u" \o SetStr(c.yuses))
CaseOf(c) ==
  LET L == Layout(ProgOf(c))
      r == Run(L.sem, 200)
  IN [expect |-> [compile |-> "ok"] @@ ExpectOf(r)] @@ RunCase(IdOf(c), L, r) @@
     [depth |-> c.d, src |-> c.src, lvl |-> c.lvl, uses |-> SetStr(c.uses), reach |-> Reach(c), mode |-> c.mode, ctx |-> c.ctx,
      reassign |-> (IF c.before THEN "b" ELSE "") \o (IF c.after THEN "a" ELSE ""),
      transitive |-> Transitive(c), vars |-> IF c.ysrc = "none" THEN 1 ELSE 2,
      key |-> IF Transitive(c) THEN "C19|capture-through-non-using-lambda" ELSE "C19|" \o IdOf(c)]
=============================================================================
