----------------------------- MODULE Trivia -----------------------------
(***************************************************************************)
(* Trivia: comments, blank lines and optional separators.                  *)
(*                                                                         *)
(* Law (C29): re-printing a program with                                   *)
(*   - line comments  `// text`  in front of a line break (any text        *)
(*     without a line break),                                              *)
(*   - block comments `/* body */` between two tokens (any body that does  *)
(*     not contain the closing delimiter, line breaks included),           *)
(*   - blank lines between lines,                                          *)
(*   - `;` instead of the line break between two statements, a line break  *)
(*     instead of the `;` between statements of an inline block,           *)
(*   - a line break instead of the `,` between list elements               *)
(* yields a program with the same token sequence up to these separators,   *)
(* hence the same outcome (output, result, error kind; line numbers may    *)
(* move).  Variant(lines, plan) is that re-printing, applied to the        *)
(* canonical one-statement-per-line rendering of Render.tla; every choice  *)
(* is read from plan.tape, so a variant is a function of (program, plan).  *)
(*                                                                         *)
(* Token boundaries of the canonical text: Render separates tokens by      *)
(* single blanks, writes list separators as ", " and inline statement      *)
(* separators as "; "; these, and the position behind "(" and "[", are     *)
(* recognised outside string literals (Render writes strings with double   *)
(* quotes and backslash escapes).                                          *)
(***************************************************************************)
EXTENDS Render

\* ---------------------------------------------------------------- comment texts
BodyAlphabet == <<"a", "*", "/", " ", "\"", "\n", "\\">>  \* block comment bodies (a backslash is an ordinary character)
SafeAlphabet == <<"a", " ", "\"", "\n", "b", "'", "\\">>  \* ... without the two characters of the delimiters
LineAlphabet == <<"a", "*", "/", " ", "\"", "'", "\\">>   \* line comment texts (no line break)

HasCloser(b) == \E i \in 1..(Len(b) - 1) : SubSeq(b, i, i + 1) = "*/"
BlockComment(b) == "/*" \o b \o "*/"
LineComment(t) == "//" \o t

\* all strings of length <= n over an alphabet (sequence of one-character strings)
RECURSIVE StringsUpTo(_, _)
StringsUpTo(alpha, n) == IF n = 0 THEN {""}
                         ELSE LET prev == StringsUpTo(alpha, n - 1) IN prev \cup {s \o alpha[i] : s \in prev, i \in 1..Len(alpha)}
Bodies(n) == {b \in StringsUpTo(BodyAlphabet, n) : ~HasCloser(b)}
LineTexts(n) == StringsUpTo(LineAlphabet, n)

\* ---- the known deviation (B13), used only to attribute a mismatch to that family: the implementation skips a
\* block comment by advancing while (current char # '*' and next char # '/'), then skips two more characters.
RECURSIVE DevScan(_, _)
DevScan(t, next) ==       \* t = "/*" body "*/" followed by anything; next is 1-based here
  IF next + 1 <= Len(t) /\ SubSeq(t, next, next) # "*" /\ SubSeq(t, next + 1, next + 1) # "/" THEN DevScan(t, next + 1) ELSE next
DevSkipped(b) == LET t == BlockComment(b) \o " " IN DevScan(t, 3) + 1       \* number of characters skipped
DevSkipsExactly(b) == DevSkipped(b) = Len(b) + 4

\* ---------------------------------------------------------------- plans
\* plan = [tape |-> sequence of numbers 0..99, pLine, pBlock, pBlank, pSemi, pComma, pInline |-> percentages,
\*         safe |-> block comment bodies avoid '*' and '/']
Roll(plan, k) == plan.tape[(k % Len(plan.tape)) + 1]
RECURSIVE TextFromTape(_, _, _, _)
TextFromTape(plan, k, n, alpha) == IF n = 0 THEN "" ELSE alpha[(Roll(plan, k) % Len(alpha)) + 1] \o TextFromTape(plan, k + 1, n - 1, alpha)
\* a block comment body chosen by the tape at position k (length 0..4); bodies containing the closer are cut
BodyAt(plan, k) ==
  LET n == Roll(plan, k + 1) % 5
      b == TextFromTape(plan, k + 2, n, IF plan.safe THEN SafeAlphabet ELSE BodyAlphabet)
  IN IF HasCloser(b) THEN "" ELSE b
LineTextAt(plan, k) == TextFromTape(plan, k + 2, Roll(plan, k + 1) % 6, LineAlphabet)

\* ---------------------------------------------------------------- inside one canonical line
\* Scan(s, i, inStr, k, plan, acc): [text, k, bodies]; k counts the slots seen so far (tape position)
RECURSIVE Scan(_, _, _, _, _, _, _)
Scan(s, i, inStr, k, plan, acc, bodies) ==
  IF i > Len(s) THEN [text |-> acc, k |-> k, bodies |-> bodies]
  ELSE LET c == SubSeq(s, i, i)
           nx == IF i < Len(s) THEN SubSeq(s, i + 1, i + 1) ELSE ""
       IN IF inStr THEN
             (IF c = "\\" THEN Scan(s, i + 2, TRUE, k, plan, acc \o c \o nx, bodies)
              ELSE Scan(s, i + 1, c # "\"", k, plan, acc \o c, bodies))
          ELSE IF c = "\"" THEN Scan(s, i + 1, TRUE, k, plan, acc \o c, bodies)
          ELSE IF c = "," /\ nx = " " THEN
             Scan(s, i + 2, FALSE, k + 1, plan, acc \o (IF Roll(plan, k) < plan.pComma THEN "\n" ELSE ", "), bodies)
          ELSE IF c = ";" /\ nx = " " THEN
             Scan(s, i + 2, FALSE, k + 1, plan, acc \o (IF Roll(plan, k) < plan.pInline THEN "\n" ELSE "; "), bodies)
          ELSE IF c = " " THEN
             (IF Roll(plan, k) < plan.pBlock
              THEN LET b == BodyAt(plan, k) IN Scan(s, i + 1, FALSE, k + 7, plan, acc \o " " \o BlockComment(b) \o " ", Append(bodies, b))
              ELSE Scan(s, i + 1, FALSE, k + 1, plan, acc \o " ", bodies))
          ELSE IF c \in {"(", "["} THEN            \* no blank needed: a comment directly behind an opening bracket
             (IF 2 * Roll(plan, k) < plan.pBlock
              THEN LET b == BodyAt(plan, k) IN Scan(s, i + 1, FALSE, k + 7, plan, acc \o c \o BlockComment(b), Append(bodies, b))
              ELSE Scan(s, i + 1, FALSE, k + 1, plan, acc \o c, bodies))
          ELSE Scan(s, i + 1, FALSE, k, plan, acc \o c, bodies)

\* ---------------------------------------------------------------- between canonical lines
RECURSIVE LStrip(_)
LStrip(s) == IF Len(s) > 0 /\ SubSeq(s, 1, 1) = " " THEN LStrip(SubSeq(s, 2, Len(s))) ELSE s
IndentOf(s) == Len(s) - Len(LStrip(s))
StartsWith(s, p) == Len(s) >= Len(p) /\ SubSeq(s, 1, Len(p)) = p
EndsWith(s, p) == Len(s) >= Len(p) /\ SubSeq(s, Len(s) - Len(p) + 1, Len(s)) = p
\* a canonical line holding one complete simple statement
PlainStmt(s) == LET t == LStrip(s) IN
  /\ t # "" /\ ~EndsWith(t, "{") /\ ~StartsWith(t, "}")
  /\ ~StartsWith(t, "type ") /\ ~StartsWith(t, "fn ") /\ ~StartsWith(t, "use ")
\* may the line break between canonical lines a and b be replaced by ";" ?
Joinable(a, b) == PlainStmt(a) /\ IndentOf(a) = IndentOf(b) /\ LStrip(b) # "" /\ ~StartsWith(LStrip(b), "}")
                  /\ ~StartsWith(LStrip(b), "type ") /\ ~StartsWith(LStrip(b), "fn ") /\ ~StartsWith(LStrip(b), "use ")

BlankLines == <<"\n", "\n\n", "  \n", "\t\n\n">>
\* Weave(lines, i, joined, k, plan, acc, bodies): the whole text; joined: line i continues the previous line after ";"
\* (it is then written without its indentation)
RECURSIVE Weave(_, _, _, _, _, _, _)
Weave(lines, i, joined, k, plan, acc, bodies) ==
  IF i > Len(lines) THEN [text |-> acc, bodies |-> bodies]
  ELSE LET r == Scan(IF joined THEN LStrip(lines[i]) ELSE lines[i], 1, FALSE, k, plan, "", <<>>)
           k1 == r.k + 1
           last == i = Len(lines)
           semi == ~last /\ Joinable(lines[i], lines[i + 1]) /\ Roll(plan, k1) < plan.pSemi
           lc == IF ~semi /\ Roll(plan, k1 + 1) < plan.pLine THEN " " \o LineComment(LineTextAt(plan, k1 + 1)) ELSE ""
           blank == IF ~semi /\ Roll(plan, k1 + 8) < plan.pBlank THEN BlankLines[(Roll(plan, k1 + 9) % Len(BlankLines)) + 1] ELSE ""
           sep == IF semi THEN "; " ELSE lc \o "\n" \o blank
       IN Weave(lines, i + 1, semi, k1 + 10, plan, acc \o r.text \o sep, bodies \o r.bodies)

Variant(lines, plan) == Weave(lines, 1, FALSE, 0, plan, "", <<>>)
\* is some block comment of the variant mis-skipped by the known deviation?
InKnownFamily(bodies) == \E j \in 1..Len(bodies) : ~DevSkipsExactly(bodies[j])
HasStarOrSlash(bodies) == \E j \in 1..Len(bodies) : \E i \in 1..Len(bodies[j]) : SubSeq(bodies[j], i, i) \in {"*", "/"}

\* plans per kind of trivia (tape supplied by the caller)
Plan(kind, tape) ==
  LET z == [tape |-> tape, pLine |-> 0, pBlock |-> 0, pBlank |-> 0, pSemi |-> 0, pComma |-> 0, pInline |-> 0, safe |-> TRUE, kind |-> kind]
  IN CASE kind = "line-comments"  -> [z EXCEPT !.pLine = 60]
       [] kind = "blank-lines"    -> [z EXCEPT !.pBlank = 50]
       [] kind = "semicolons"     -> [z EXCEPT !.pSemi = 70]
       [] kind = "newline-for-comma" -> [z EXCEPT !.pComma = 60, !.pInline = 60]
       [] kind = "block-comments-safe" -> [z EXCEPT !.pBlock = 25]
       [] kind = "block-comments-any"  -> [z EXCEPT !.pBlock = 8, !.safe = FALSE]
       [] kind = "mix"            -> [z EXCEPT !.pLine = 30, !.pBlank = 25, !.pSemi = 35, !.pComma = 30, !.pInline = 30, !.pBlock = 10]
Kinds == <<"line-comments", "blank-lines", "semicolons", "newline-for-comma", "block-comments-safe", "block-comments-any", "mix", "mix">>
=============================================================================
