----------------------------- MODULE Prec -----------------------------
(***************************************************************************)
(* Operator precedence of Abra expressions, as documented in               *)
(* book/src/language_reference/operators.md ("Operator precedence", from   *)
(* lowest to highest; all binary operators are left associative).          *)
(*                                                                         *)
(*  - Table:      the documented table, as data.                           *)
(*  - trees:      typed expression trees over all binary operators, the    *)
(*                prefix operators `-` and `not`, and leaves in the forms  *)
(*                {variable, literal, negative literal}.                   *)
(*  - RefParse:   the grammar the table denotes (precedence climbing over  *)
(*                the table; a prefix operator of precedence p takes as    *)
(*                operand everything that binds tighter than p).  A `-`    *)
(*                in front of a literal is the same prefix operator as a   *)
(*                `-` in front of a variable.                              *)
(*  - Toks/Text:  printing with minimal parentheses w.r.t. that grammar;   *)
(*                RoundTrip and MinimalParens are checked by TLC on every  *)
(*                emitted tree, so the printer is validated against the    *)
(*                table in the same run.                                   *)
(*  - EvalTree:   value of the *tree* under AbraSem (BinOp/IntBin).        *)
(*  - FoldParse:  model of the known deviation B14 (a `-` directly in      *)
(*                front of a numeric literal is folded into the literal    *)
(*                before precedence is applied), used only to attribute a  *)
(*                mismatch to that known family.                           *)
(***************************************************************************)
EXTENDS AbraSem

\* ---------------------------------------------------------------- the documented table
Table == <<
  [prec |-> 1,  kind |-> "binary", ops |-> {"and", "or"}],
  [prec |-> 2,  kind |-> "binary", ops |-> {"==", "!="}],
  [prec |-> 3,  kind |-> "binary", ops |-> {".."}],
  [prec |-> 5,  kind |-> "binary", ops |-> {"<", "<=", ">", ">="}],
  [prec |-> 6,  kind |-> "binary", ops |-> {"+", "-"}],
  [prec |-> 6,  kind |-> "prefix", ops |-> {"-"}],
  [prec |-> 7,  kind |-> "binary", ops |-> {"*", "/"}],
  [prec |-> 8,  kind |-> "binary", ops |-> {"%"}],
  [prec |-> 9,  kind |-> "binary", ops |-> {"^"}],
  [prec |-> 10, kind |-> "prefix", ops |-> {"not"}] >>

OpsOfKind(kind) == UNION {Table[i].ops : i \in {j \in 1..Len(Table) : Table[j].kind = kind}}
BinOpSet == OpsOfKind("binary")
PreOpSet == OpsOfKind("prefix")
BinPrecF == [op \in BinOpSet |-> Table[CHOOSE i \in 1..Len(Table) : Table[i].kind = "binary" /\ op \in Table[i].ops].prec]
PrePrecF == [op \in PreOpSet |-> Table[CHOOSE i \in 1..Len(Table) : Table[i].kind = "prefix" /\ op \in Table[i].ops].prec]
BinPrec(op) == BinPrecF[op]
PrePrec(op) == PrePrecF[op]

ArithOps == {"+", "-", "*", "/", "%", "^"}
CmpOps == {"<", "<=", ">", ">="}
EqOps == {"==", "!="}
LogOps == {"and", "or"}

\* ---------------------------------------------------------------- trees
\* leaf: position i (left to right, filled in by Number) selects the value; form "neglit" is the literal -v
Leaf(ty, form) == [k |-> "leaf", ty |-> ty, form |-> form, i |-> 0]
Un(op, e) == [k |-> "un", op |-> op, e |-> e]
Bn(op, l, r) == [k |-> "bin", op |-> op, l |-> l, r |-> r]

\* L: the leaf forms allowed, [int |-> set of forms, bool |-> ..., str |-> ...]
AllForms == [int |-> {"var", "lit", "neglit"}, bool |-> {"var", "lit"}, str |-> {"lit"}]
LeavesOfL(ty, L) == {Leaf(ty, f) : f \in L[ty]}
LeavesOf(ty) == LeavesOfL(ty, AllForms)

\* all well-typed trees of type ty and depth <= d (operators: every row of the table) with leaves from L
RECURSIVE TreesOfL(_, _, _)
TreesOfL(ty, d, L) ==
  IF d = 0 THEN LeavesOfL(ty, L)
  ELSE LET I == TreesOfL("int", d - 1, L)
           B == TreesOfL("bool", d - 1, L)
           S == TreesOfL("str", d - 1, L)
       IN LeavesOfL(ty, L) \cup
          (CASE ty = "int"  -> {Bn(op, l, r) : op \in ArithOps, l \in I, r \in I} \cup {Un("-", e) : e \in I}
             [] ty = "bool" -> {Bn(op, l, r) : op \in CmpOps \cup EqOps, l \in I, r \in I}
                               \cup {Bn(op, l, r) : op \in EqOps \cup LogOps, l \in B, r \in B}
                               \cup {Bn(op, l, r) : op \in EqOps, l \in S, r \in S}
                               \cup {Un("not", e) : e \in B}
             [] ty = "str"  -> {Bn("..", l, r) : l \in I \cup B \cup S, r \in I \cup B \cup S})
TreesOf(ty, d) == TreesOfL(ty, d, AllForms)
\* the trees in which all leaves of one type have the same form (every operator structure still occurs)
UniformTreesOf(ty, d) == UNION {TreesOfL(ty, d, [int |-> {f}, bool |-> {g}, str |-> {"lit"}]) : f \in AllForms.int, g \in AllForms.bool}
\* a smaller selection for the quick tier: 3 of the 6 (int form, bool form) pairs; every form still occurs
Uniform3TreesOf(ty, d) == UNION {TreesOfL(ty, d, [int |-> {p[1]}, bool |-> {p[2]}, str |-> {"lit"}]) :
                                    p \in {<<"var", "var">>, <<"lit", "lit">>, <<"neglit", "lit">>}}
Types == {"int", "bool", "str"}

RECURSIVE Depth(_)
Depth(t) == IF t.k = "leaf" THEN 0
            ELSE IF t.k = "un" THEN 1 + Depth(t.e)
            ELSE 1 + (IF Depth(t.l) > Depth(t.r) THEN Depth(t.l) ELSE Depth(t.r))

\* number the leaves left to right: [t, n] where n is the next free position
RECURSIVE Number(_, _)
Number(t, n) ==
  IF t.k = "leaf" THEN [t |-> [t EXCEPT !.i = n], n |-> n + 1]
  ELSE IF t.k = "un" THEN LET r == Number(t.e, n) IN [t |-> Un(t.op, r.t), n |-> r.n]
  ELSE LET l == Number(t.l, n)
           r == Number(t.r, l.n)
       IN [t |-> Bn(t.op, l.t, r.t), n |-> r.n]

\* a negative literal *is* the prefix operator `-` applied to the literal (operators.md: "Unary - negates a number")
RECURSIVE Norm(_)
Norm(t) ==
  IF t.k = "leaf" THEN (IF t.form = "neglit" THEN Un("-", [t EXCEPT !.form = "lit"]) ELSE t)
  ELSE IF t.k = "un" THEN Un(t.op, Norm(t.e))
  ELSE Bn(t.op, Norm(t.l), Norm(t.r))

RECURSIVE OpsIn(_), FormsIn(_)
OpsIn(t) == IF t.k = "leaf" THEN <<>>
            ELSE IF t.k = "un" THEN <<"u" \o t.op>> \o OpsIn(t.e)
            ELSE OpsIn(t.l) \o <<t.op>> \o OpsIn(t.r)
FormsIn(t) == IF t.k = "leaf" THEN <<t.ty \o ":" \o t.form>>
              ELSE IF t.k = "un" THEN FormsIn(t.e)
              ELSE FormsIn(t.l) \o FormsIn(t.r)

\* ---------------------------------------------------------------- tokens and minimal parentheses
LP == [k |-> "lp", s |-> "("]
RP == [k |-> "rp", s |-> ")"]
OpTok(op) == [k |-> "op", s |-> op]
PreTok(op) == [k |-> "pre", s |-> op]
Atom(leaf) == [k |-> "atom", s |-> "", leaf |-> leaf]

\* Toks(t, lp, rp): t printed between an operator of precedence lp on its left and one of precedence rp on
\* its right (0 = none).  A binary node of precedence p needs parentheses iff the left neighbour binds at
\* least as tightly (p <= lp: left associativity) or the right neighbour binds more tightly (p < rp).  A
\* prefix node of precedence p needs them iff the right neighbour binds more tightly than p (it would be
\* swallowed by the operand).  t is normalised (no neglit leaves).
RECURSIVE Toks(_, _, _)
Toks(t, lp, rp) ==
  IF t.k = "leaf" THEN <<Atom(t)>>
  ELSE IF t.k = "un" THEN
       LET p == PrePrec(t.op)
           par == rp > p
           inner == <<PreTok(t.op)>> \o Toks(t.e, p, IF par THEN 0 ELSE rp)
       IN IF par THEN <<LP>> \o inner \o <<RP>> ELSE inner
  ELSE LET p == BinPrec(t.op)
           par == p <= lp \/ p < rp
           inner == Toks(t.l, IF par THEN 0 ELSE lp, p) \o <<OpTok(t.op)>> \o Toks(t.r, p, IF par THEN 0 ELSE rp)
       IN IF par THEN <<LP>> \o inner \o <<RP>> ELSE inner

\* ---------------------------------------------------------------- the grammar denoted by the table
\* PExpr(toks, i, minp, fold): parse an expression starting at token i that may only contain (outside
\* parentheses) binary operators binding more tightly than minp.  Result [t, i] (i = next token).
\* fold = FALSE is the documented grammar; fold = TRUE is the deviation model (see FoldParse).
FoldedLeaf(leaf) == [leaf EXCEPT !.form = "folded"]
RECURSIVE PExpr(_, _, _, _), PLoop(_, _, _, _, _)
PExpr(toks, i, minp, fold) ==
  LET tk == toks[i]
      head ==
        IF tk.k = "pre" THEN
           IF fold /\ tk.s = "-" /\ i < Len(toks) /\ toks[i + 1].k = "atom"
                   /\ toks[i + 1].leaf.ty = "int" /\ toks[i + 1].leaf.form = "lit"
           THEN [t |-> FoldedLeaf(toks[i + 1].leaf), i |-> i + 2]
           ELSE LET r == PExpr(toks, i + 1, PrePrec(tk.s), fold) IN [t |-> Un(tk.s, r.t), i |-> r.i]
        ELSE IF tk.k = "lp" THEN LET r == PExpr(toks, i + 1, 0, fold) IN [t |-> r.t, i |-> r.i + 1]
        ELSE [t |-> tk.leaf, i |-> i + 1]
  IN PLoop(toks, head.t, head.i, minp, fold)
PLoop(toks, lhs, i, minp, fold) ==
  IF i > Len(toks) \/ toks[i].k # "op" THEN [t |-> lhs, i |-> i]
  ELSE IF BinPrec(toks[i].s) <= minp THEN [t |-> lhs, i |-> i]
  ELSE LET r == PExpr(toks, i + 1, BinPrec(toks[i].s), fold)
       IN PLoop(toks, Bn(toks[i].s, lhs, r.t), r.i, minp, fold)

RefParse(toks) == PExpr(toks, 1, 0, FALSE)
FoldParse(toks) == PExpr(toks, 1, 0, TRUE)

\* the printer is right: the documented grammar reads the printed tokens back as the same tree
RoundTripT(t, toks) == LET r == RefParse(toks) IN r.t = t /\ r.i = Len(toks) + 1
RoundTrip(t) == RoundTripT(t, Toks(t, 0, 0))

\* ... and minimal: dropping any one pair of parentheses changes the tree the grammar reads
RECURSIVE CloseOf(_, _, _)
CloseOf(toks, j, depth) ==        \* index of the ")" matching the "(" counted in depth, scanning from j
  IF toks[j].k = "lp" THEN CloseOf(toks, j + 1, depth + 1)
  ELSE IF toks[j].k = "rp" THEN (IF depth = 1 THEN j ELSE CloseOf(toks, j + 1, depth - 1))
  ELSE CloseOf(toks, j + 1, depth)
Without(toks, a, b) == [j \in 1..(Len(toks) - 2) |-> IF j < a THEN toks[j] ELSE IF j < b - 1 THEN toks[j + 1] ELSE toks[j + 2]]
MinimalParensT(t, toks) ==
  \A a \in {j \in 1..Len(toks) : toks[j].k = "lp"} :
     LET b == CloseOf(toks, a + 1, 1)
         w == Without(toks, a, b)
         r == RefParse(w)
     IN r.t # t \/ r.i # Len(w) + 1
MinimalParens(t) == MinimalParensT(t, Toks(t, 0, 0))
NParens(toks) == Cardinality({j \in 1..Len(toks) : toks[j].k = "lp"})

\* ---------------------------------------------------------------- values of the leaves (assignment a, position i)
IntVals == << <<7, 2, 3, 5, 2, 3, 7, 5>>, <<2, 3, 2, 7, 3, 5, 2, 3>>, <<5, 4, 3, 2, 7, 2, 3, 3>>, <<3, 7, 5, 2, 2, 3, 4, 6>> >>
BoolVals == << <<TRUE, FALSE, TRUE, FALSE, TRUE, TRUE, FALSE, FALSE>>, <<FALSE, TRUE, TRUE, FALSE, FALSE, TRUE, FALSE, TRUE>>,
               <<FALSE, FALSE, TRUE, TRUE, TRUE, FALSE, TRUE, FALSE>>, <<TRUE, TRUE, FALSE, FALSE, TRUE, FALSE, TRUE, TRUE>> >>
StrVals == << <<"a", "b", "c", "d", "e", "f", "g", "h">>, <<"a", "a", "b", "b", "2", "3", "c", "c">>,
              <<"7", "2", "a", "a", "b", "c", "c", "d">>, <<"x", "y", "x", "y", "x", "y", "x", "y">> >>
NAssign == Len(IntVals)
MaxLeaves == 8

IntName(i) == "n" \o ToString(i)
BoolName(i) == "p" \o ToString(i)
BoolText(b) == IF b THEN "true" ELSE "false"

\* concrete text of a token under assignment a
TokText(tk, a) ==
  IF tk.k # "atom" THEN tk.s
  ELSE LET l == tk.leaf IN
       IF l.ty = "int" THEN (IF l.form = "var" THEN IntName(l.i) ELSE ToString(IntVals[a][l.i]))
       ELSE IF l.ty = "bool" THEN (IF l.form = "var" THEN BoolName(l.i) ELSE BoolText(BoolVals[a][l.i]))
       ELSE "\"" \o StrVals[a][l.i] \o "\""

\* tokens are separated by one blank; a prefix `-` is written directly in front of its operand, no blank
\* inside parentheses
RECURSIVE TextFrom(_, _, _)
TextFrom(toks, j, a) ==
  IF j > Len(toks) THEN ""
  ELSE LET tk == toks[j]
           glue == IF j = Len(toks) THEN ""
                   ELSE IF tk.k = "lp" \/ (tk.k = "pre" /\ tk.s = "-") \/ toks[j + 1].k = "rp" THEN "" ELSE " "
       IN TokText(tk, a) \o glue \o TextFrom(toks, j + 1, a)
Text(toks, a) == TextFrom(toks, 1, a)

\* declarations the printed expression refers to: `let n1 = 7` ... one per line
RECURSIVE JoinL(_)
JoinL(ls) == IF ls = <<>> THEN "" ELSE ls[1] \o "\n" \o JoinL(Tail(ls))
PreLines(a, n) == [i \in 1..n |-> "let " \o IntName(i) \o " = " \o ToString(IntVals[a][i])] \o
                  [i \in 1..n |-> "let " \o BoolName(i) \o " = " \o BoolText(BoolVals[a][i])]

\* ---------------------------------------------------------------- reference evaluation of the tree
RECURSIVE ToAst(_, _)
ToAst(t, a) ==
  IF t.k = "leaf" THEN
     (IF t.ty = "int" THEN (IF t.form = "var" THEN [k |-> "var", n |-> IntName(t.i)]
                            ELSE IF t.form = "folded" THEN [k |-> "int", v |-> -IntVals[a][t.i]]
                            ELSE [k |-> "int", v |-> IntVals[a][t.i]])
      ELSE IF t.ty = "bool" THEN (IF t.form = "var" THEN [k |-> "var", n |-> BoolName(t.i)]
                                  ELSE [k |-> "bool", v |-> BoolVals[a][t.i]])
      ELSE [k |-> "str", v |-> StrVals[a][t.i]])
  ELSE IF t.k = "un" THEN (IF t.op = "-" THEN [k |-> "neg", e |-> ToAst(t.e, a)] ELSE [k |-> "not", e |-> ToAst(t.e, a)])
  ELSE [k |-> "bin", op |-> t.op, l |-> ToAst(t.l, a), r |-> ToAst(t.r, a)]

EmptyProg == [fns |-> <<>>, structs |-> <<>>, main |-> <<>>, mainfile |-> "main.abra"]
EnvOf(a, n) == [i \in 1..n |-> [n |-> IntName(i), v |-> IntV(IntVals[a][i])]] \o
               [i \in 1..n |-> [n |-> BoolName(i), v |-> BoolV(BoolVals[a][i])]]
\* the outcome of `println(<tree>)` on line ln of main.abra, in the shape of AbraSem!Run
EvalTree(t, a, n, ln) ==
  LET st0 == [InitSt(EmptyProg, 10) EXCEPT !.env = EnvOf(a, n)]
      r == EvalE(ToAst(t, a), st0, ln)
  IN [inmodel |-> r.sig # "oom",
      status  |-> IF r.sig = "err" THEN "error" ELSE "done",
      out     |-> IF r.sig = "ok" THEN Show(r.v, r.st.heap) \o "\n" ELSE "",
      result  |-> [ty |-> "none", v |-> ""],
      err     |-> r.st.err]

\* ---------------------------------------------------------------- the known deviation family (B14)
\* operators above a folded literal along the left spine of the operand of the `-` that was folded away
RECURSIVE Unfold(_)
Unfold(t) ==
  IF t.k = "leaf" THEN (IF t.form = "folded" THEN Un("-", [t EXCEPT !.form = "lit"]) ELSE t)
  ELSE IF t.k = "un" THEN Un(t.op, Unfold(t.e))
  ELSE Bn(t.op, Unfold(t.l), Unfold(t.r))
\* does the deviation read the printed tokens as a different tree?
FoldChangesTree(t) == Unfold(FoldParse(Toks(t, 0, 0)).t) # t
\* Spine(t, m): t is printed directly after a prefix `-`; a binary node is parenthesised there iff its
\* precedence is <= m.  lit: the token after the `-` is an int literal; ops: the operators on the way to it.
RECURSIVE Spine(_, _)
Spine(t, m) ==
  IF t.k = "leaf" THEN [lit |-> t.ty = "int" /\ t.form = "lit", ops |-> {}]
  ELSE IF t.k = "un" THEN [lit |-> FALSE, ops |-> {}]
  ELSE IF BinPrec(t.op) <= m THEN [lit |-> FALSE, ops |-> {}]
  ELSE LET s == Spine(t.l, BinPrec(t.op) - 1) IN [lit |-> s.lit, ops |-> s.ops \cup {t.op}]
RECURSIVE FoldSiteOps(_)
FoldSiteOps(t) ==       \* operators that wrongly receive a folded literal as (part of) their left operand
  IF t.k = "leaf" THEN {}
  ELSE IF t.k = "bin" THEN FoldSiteOps(t.l) \cup FoldSiteOps(t.r)
  ELSE (IF t.op = "-" THEN (LET s == Spine(t.e, PrePrec("-")) IN IF s.lit THEN s.ops ELSE {}) ELSE {})
       \cup FoldSiteOps(t.e)
FoldKey(t) == LET o == FoldSiteOps(t) IN
  "C31|neg-literal-folded|" \o (IF "%" \in o THEN "%" ELSE "") \o (IF "^" \in o THEN "^" ELSE "") \o
  (IF "%" \notin o /\ "^" \notin o THEN "*/" ELSE "")
=============================================================================
