----------------------------- MODULE Lsp -----------------------------
(***************************************************************************)
(* C35: go-to-definition and hover agree with the compiler.                *)
(*                                                                         *)
(* A generator of programs with nested scopes and shadowing (names are     *)
(* drawn from a pool of three, so inner bindings constantly shadow outer   *)
(* ones) in which, BY CONSTRUCTION, the spec knows for every identifier    *)
(* occurrence                                                              *)
(*   - the declaring occurrence: the innermost binding of that name in     *)
(*     scope (lexical scoping: a binding is visible from the end of its    *)
(*     statement to the end of the enclosing block; an initialiser is      *)
(*     resolved before its own binding; parameters are visible in the      *)
(*     body; a top-level function body sees its parameters and locals      *)
(*     only; a lambda body also sees the enclosing bindings);              *)
(*   - its static type, and the type of every literal;                     *)
(*   - its VALUE (every declaration gets a value that is unique in the     *)
(*     program), hence the program's output.                               *)
(* The program is a sequence of tokens  [s text, r role, d index of the    *)
(* declaring token, ty type string, dk kind of declaration]; byte offsets  *)
(* are prefix sums of the token lengths (+ the UTF-8 length of an optional *)
(* non-ASCII string literal on the first line).                            *)
(*                                                                         *)
(* Expected observations: running the program prints `out` (this confirms, *)
(* against the compiler itself, which declaration every printed use        *)
(* resolves to); for every offset inside a use occurrence                  *)
(* definition_at = the byte range of the declaring token, type_at = ty;    *)
(* for every offset inside a literal type_at = its type; for every offset  *)
(* of a binary operator / call parenthesis type_at = the type of the       *)
(* compound expression.                                                    *)
(***************************************************************************)
EXTENDS Integers, Sequences, FiniteSets, TLC, Json, IOUtils

Pick(S) == RandomElement(S)
Chance(k, n) == Pick(1..n) <= k

Tk(s) == [s |-> s, r |-> "t", d |-> 0, ty |-> "", dk |-> ""]
Dc(s, ty, dk) == [s |-> s, r |-> "decl", d |-> 0, ty |-> ty, dk |-> dk]
Us(b) == [s |-> b.n, r |-> "use", d |-> b.tok, ty |-> b.ty, dk |-> b.dk]
Li(s, ty) == [s |-> s, r |-> "lit", d |-> 0, ty |-> ty, dk |-> ""]
Op(s, ty) == [s |-> s, r |-> "op", d |-> 0, ty |-> ty, dk |-> ""]      \* operator / call parenthesis: the compound expression's type

Names == {"a", "b", "c"}
\* bool is left out of the variable types: two bool bindings cannot be told apart by their printed value
ValTypes == {"int", "string", "float", "array<int>", "(int, string)"}
Printable == ValTypes

\* a binding: name, token index of the declaring occurrence, type, printed value, components, mutable, kind
Bind(n, tok, ty, e, mut, dk) == [n |-> n, tok |-> tok, ty |-> ty, val |-> e.val, num |-> e.num, str |-> e.str, mut |-> mut, dk |-> dk]
LastIdx(env, n) == CHOOSE i \in 1..Len(env) : env[i].n = n /\ \A j \in (i + 1)..Len(env) : env[j].n # n
InScope(env) == {env[i].n : i \in 1..Len(env)}
Lookup(env, n) == env[LastIdx(env, n)]
Visible(env, ty) == {n \in InScope(env) : Lookup(env, n).ty = ty}
VisibleMut(env) == {n \in InScope(env) : Lookup(env, n).mut}
Frozen(env) == [i \in 1..Len(env) |-> [env[i] EXCEPT !.mut = FALSE]]     \* captured by a lambda: not assignable

(* ---- expressions: [toks, val, num, str]; `at` = number of tokens in front ---- *)
E(toks, val, num, str) == [toks |-> toks, val |-> val, num |-> num, str |-> str]
Literal(ty, at) ==
  LET u == 100 + at  us == ToString(u) IN
  CASE ty = "int"    -> E(<<Li(us, "int")>>, us, u, "")
    [] ty = "string" -> E(<<Li("\"s" \o us \o "\"", "string")>>, "s" \o us, 0, "s" \o us)
    [] ty = "bool"   -> LET b == Pick({"true", "false"}) IN E(<<Li(b, "bool")>>, b, 0, "")
    [] ty = "float"  -> E(<<Li(us \o ".5", "float")>>, us \o ".5", 0, "")
    [] ty = "array<int>" -> E(<<Tk("["), Li(us, "int"), Tk("]")>>, "[ " \o us \o " ]", u, "")
    [] ty = "(int, string)" -> E(<<Tk("("), Li(us, "int"), Tk(", "), Li("\"t" \o us \o "\"", "string"), Tk(")")>>,
                                 "(" \o us \o ", t" \o us \o ")", u, "t" \o us)

Expr(ty, env, at) ==
  LET vs == Visible(env, ty) IN
  IF vs = {} \/ Chance(1, 3) THEN Literal(ty, at)
  ELSE LET b == Lookup(env, Pick(vs)) IN
       IF ty = "int" /\ Chance(1, 3)
       THEN LET u == 100 + at + 2 IN E(<<Us(b), Op(" + ", "int"), Li(ToString(u), "int")>>, ToString(b.num + u), b.num + u, "")
       ELSE IF ty = "string" /\ Chance(1, 3)
       THEN LET l == "x" \o ToString(at) IN E(<<Us(b), Op(" .. ", "string"), Li("\"" \o l \o "\"", "string")>>, b.val \o l, 0, b.val \o l)
       ELSE E(<<Us(b)>>, b.val, b.num, b.str)

(* ---- statements: [toks, env, out] ---- *)
R(toks, env, out) == [toks |-> toks, env |-> env, out |-> out]
ParamTypes == {"int", "string", "float"}
FnTy(ps, r) == "fn(" \o (IF Len(ps) = 1 THEN ps[1] ELSE ps[1] \o ", " \o ps[2]) \o ") -> " \o r

MaxDepth == 3
RECURSIVE GenStmts(_, _, _, _), GenStmt(_, _, _)
GenStmts(env, at, depth, n) ==
  IF n = 0 THEN R(<<>>, env, "")
  ELSE LET s == GenStmt(env, at, depth)
           r == GenStmts(s.env, at + Len(s.toks), depth, n - 1)
       IN R(s.toks \o r.toks, r.env, s.out \o r.out)

\* a block body: n statements in a new scope; bindings made inside are dropped, the rest of env is kept
Body(env, at, depth, n) == LET r == GenStmts(env, at, depth, n) IN R(r.toks, env, r.out)

\* println(NAME) for a binding: makes the value that reached it (hence every use in its initialiser) observable
Show(b) == <<Tk("println("), Us(b), Tk(")\n")>>

GenLet(env, at) ==
  LET name == Pick(Names)  ty == Pick(ValTypes)  mut == Chance(1, 3)  ann == Chance(1, 4)
      head == <<Tk(IF mut THEN "var " ELSE "let "), Dc(name, ty, IF mut THEN "var" ELSE "let")>> \o
              (IF ann THEN <<Tk(": " \o ty)>> ELSE <<>>) \o <<Tk(" = ")>>
      e == Expr(ty, env, at + Len(head))
      b == Bind(name, at + 2, ty, e, mut, IF mut THEN "var" ELSE "let")
  IN R(head \o e.toks \o <<Tk("\n")>> \o Show(b), Append(env, b), e.val \o "\n")

\* let (N1, N2) = <(int, string) expression>: both names are (re)bound in the CURRENT scope, often shadowing earlier
\* bindings of the same scope; the initialiser is resolved before them
GenLetTuple(env, at) ==
  LET n1 == Pick(Names)  n2 == Pick(Names \ {n1})
      e == Expr("(int, string)", env, at + 5)
      p1 == Bind(n1, at + 2, "int", E(<<>>, ToString(e.num), e.num, ""), FALSE, "let")
      p2 == Bind(n2, at + 4, "string", E(<<>>, e.str, 0, e.str), FALSE, "let")
  IN R(<<Tk("let ("), Dc(n1, "int", "let"), Tk(", "), Dc(n2, "string", "let"), Tk(") = ")>> \o e.toks \o <<Tk("\n")>> \o Show(p1) \o Show(p2),
       env \o <<p1, p2>>, p1.val \o "\n" \o p2.val \o "\n")

GenPrint(env, at) ==
  LET ty == Pick(Printable \cup {"bool"})
      e == Expr(ty, env, at + 1)
  IN R(<<Tk("println(")>> \o e.toks \o <<Tk(")\n")>>, env, e.val \o "\n")

GenAssign(env, at) ==      \* value-preserving, so that the printed values stay determined by the declarations
  LET ms == VisibleMut(env) IN
  IF ms = {} THEN GenPrint(env, at)
  ELSE LET b == Lookup(env, Pick(ms)) IN
       R(<<Us(b), Tk(" = "), Us(b),
           Tk(IF b.ty = "int" THEN " + 0\n" ELSE IF b.ty = "string" THEN " .. \"\"\n" ELSE "\n")>> \o Show(b), env, b.val \o "\n")

GenIf(env, at, depth) ==
  LET b == Body(env, at + 1, depth + 1, Pick(1..3))
  IN R(<<Tk("if true {\n")>> \o b.toks \o <<Tk("}\n")>>, env, b.out)

\* the iterable is resolved outside the loop variable's scope: where it is a plain variable, every other loop reuses its
\* name for the loop variable (`for a in a`)
GenFor(env, at, depth) ==
  LET e == Expr("array<int>", env, at + 3)
      name == IF Len(e.toks) = 1 /\ e.toks[1].r = "use" /\ Chance(1, 2) THEN e.toks[1].s ELSE Pick(Names)
      head == <<Tk("for "), Dc(name, "int", "for"), Tk(" in ")>>
      lv == Bind(name, at + 2, "int", E(<<>>, ToString(e.num), e.num, ""), FALSE, "for")
      b == Body(Append(env, lv), at + 3 + Len(e.toks) + 1 + 3, depth + 1, Pick(0..2))
  IN R(head \o e.toks \o <<Tk(" {\n")>> \o Show(lv) \o b.toks \o <<Tk("}\n")>>, env, lv.val \o "\n" \o b.out)

\* two arms: the first one binds a name (preferably one that is also bound outside), the second one does not bind it and
\* uses the outer binding of that name: a binding made by one arm is not in scope in another arm
GenMatch2(env, at, depth) ==
  LET outer == InScope(env)
      n2 == IF outer # {} /\ Chance(3, 4) THEN Pick(outer) ELSE Pick(Names)
      n1 == Pick(Names \ {n2})
      e == Expr("(int, string)", env, at + 1)
      k == at + 1 + Len(e.toks) + 1
      p2 == Bind(n2, k + 1, "string", E(<<>>, e.str, 0, e.str), FALSE, "match")
      p1 == Bind(n1, k + 7, "int", E(<<>>, ToString(e.num), e.num, ""), FALSE, "match")
      shown == n2 \in outer
      ob == Lookup(env, n2)
      b == Body(Append(env, p1), k + 11 + (IF shown THEN 3 ELSE 0), depth + 1, Pick(0..2))
  IN R(<<Tk("match ")>> \o e.toks \o <<Tk(" {\n(0, "), Dc(n2, "string", "match"), Tk(") -> {\n")>> \o Show(p2)
       \o <<Tk("}\n("), Dc(n1, "int", "match"), Tk(", _) -> {\n")>> \o Show(p1) \o (IF shown THEN Show(ob) ELSE <<>>) \o b.toks
       \o <<Tk("}\n}\n")>>,
       env, p1.val \o "\n" \o (IF shown THEN ob.val \o "\n" ELSE "") \o b.out)

GenMatch(env, at, depth) ==
  IF Chance(1, 3) THEN GenMatch2(env, at, depth)
  ELSE IF Chance(1, 2)
  THEN \* binding pattern: the whole scrutinee
       LET ty == Pick(ValTypes)  name == Pick(Names)
           e == Expr(ty, env, at + 1)
           k == at + 1 + Len(e.toks) + 1           \* tokens in front of the pattern
           pb == Bind(name, k + 1, ty, e, FALSE, "match")
           b == Body(Append(env, pb), k + 2 + 3, depth + 1, Pick(0..2))
       IN R(<<Tk("match ")>> \o e.toks \o <<Tk(" {\n"), Dc(name, ty, "match"), Tk(" -> {\n")>> \o Show(pb) \o b.toks \o <<Tk("}\n}\n")>>,
            env, pb.val \o "\n" \o b.out)
  ELSE \* tuple pattern with two distinct names
       LET n1 == Pick(Names)  n2 == Pick(Names \ {n1})
           e == Expr("(int, string)", env, at + 1)
           k == at + 1 + Len(e.toks) + 1
           p1 == Bind(n1, k + 1, "int", E(<<>>, ToString(e.num), e.num, ""), FALSE, "match")
           p2 == Bind(n2, k + 3, "string", E(<<>>, e.str, 0, e.str), FALSE, "match")
           b == Body(env \o <<p1, p2>>, k + 4 + 6, depth + 1, Pick(0..2))
       IN R(<<Tk("match ")>> \o e.toks \o <<Tk(" {\n("), Dc(n1, "int", "match"), Tk(", "), Dc(n2, "string", "match"), Tk(") -> {\n")>>
            \o Show(p1) \o Show(p2) \o b.toks \o <<Tk("}\n}\n")>>, env, p1.val \o "\n" \o p2.val \o "\n" \o b.out)

GenBlockLet(env, at, depth) ==
  LET name == Pick(Names)  ty == Pick(Printable)
      inner == GenStmts(env, at + 3, depth + 1, Pick(1..2))
      e == Expr(ty, inner.env, at + 3 + Len(inner.toks))
      b == Bind(name, at + 2, ty, e, FALSE, "let")
  IN R(<<Tk("let "), Dc(name, ty, "let"), Tk(" = {\n")>> \o inner.toks \o e.toks \o <<Tk("\n}\n")>> \o Show(b),
       Append(env, b), inner.out \o e.val \o "\n")

\* let F = (p1: t1, p2: t2) -> { body; result }  followed at once by  println(F(arg1, arg2))
GenLambda(env, at, depth) ==
  LET f == Pick(Names)  two == Chance(1, 2)
      n1 == Pick(Names)  n2 == Pick(Names \ {n1})  t1 == Pick(ParamTypes)  t2 == Pick(ParamTypes)  rt == Pick(Printable)
      fty == IF two THEN FnTy(<<t1, t2>>, rt) ELSE FnTy(<<t1>>, rt)
      a1 == Literal(t1, at)  a2 == Literal(t2, at + 1)           \* the arguments of the call below: literals
      head == <<Tk("let "), Dc(f, fty, "let"), Tk(" = ("), Dc(n1, t1, "lambda-param"), Tk(": " \o t1)>> \o
              (IF two THEN <<Tk(", "), Dc(n2, t2, "lambda-param"), Tk(": " \o t2)>> ELSE <<>>) \o <<Tk(") -> {\n")>>
      p1 == Bind(n1, at + 4, t1, a1, FALSE, "lambda-param")
      p2 == Bind(n2, at + 7, t2, a2, FALSE, "lambda-param")
      inner0 == Frozen(env) \o (IF two THEN <<p1, p2>> ELSE <<p1>>)
      inner == GenStmts(inner0, at + Len(head), MaxDepth, Pick(0..2))      \* no nested blocks / lambdas inside a lambda
      e == Expr(rt, inner.env, at + Len(head) + Len(inner.toks))
      fb == Bind(f, at + 2, fty, E(<<>>, "", 0, ""), FALSE, "let")
      def == head \o inner.toks \o e.toks \o <<Tk("\n}\n")>>
      call == <<Tk("println("), Us(fb), Op("(", rt)>> \o a1.toks \o (IF two THEN <<Tk(", ")>> \o a2.toks ELSE <<>>) \o <<Tk("))\n")>>
  IN R(def \o call, Append(env, fb), inner.out \o e.val \o "\n")

\* top level only:  fn NAME(p1: t1, p2: t2) -> rt { body; result }  followed at once by  println(NAME(arg1, arg2))
GenFn(env, at) ==
  LET f == "f" \o ToString(at)  two == Chance(1, 2)
      n1 == Pick(Names)  n2 == Pick(Names \ {n1})  t1 == Pick(ParamTypes)  t2 == Pick(ParamTypes)  rt == Pick(Printable)
      fty == IF two THEN FnTy(<<t1, t2>>, rt) ELSE FnTy(<<t1>>, rt)
      a1 == Literal(t1, at)  a2 == Literal(t2, at + 1)
      head == <<Tk("fn "), Dc(f, fty, "fn"), Tk("("), Dc(n1, t1, "param"), Tk(": " \o t1)>> \o
              (IF two THEN <<Tk(", "), Dc(n2, t2, "param"), Tk(": " \o t2)>> ELSE <<>>) \o <<Tk(") -> " \o rt \o " {\n")>>
      p1 == Bind(n1, at + 4, t1, a1, FALSE, "param")
      p2 == Bind(n2, at + 7, t2, a2, FALSE, "param")
      inner == GenStmts(IF two THEN <<p1, p2>> ELSE <<p1>>, at + Len(head), 1, Pick(0..3))
      e == Expr(rt, inner.env, at + Len(head) + Len(inner.toks))
      fb == Bind(f, at + 2, fty, E(<<>>, "", 0, ""), FALSE, "fn")
      def == head \o inner.toks \o e.toks \o <<Tk("\n}\n")>>
      call == <<Tk("println("), Us(fb), Op("(", rt)>> \o a1.toks \o (IF two THEN <<Tk(", ")>> \o a2.toks ELSE <<>>) \o <<Tk("))\n")>>
  IN R(def \o call, env, inner.out \o e.val \o "\n")

GenStmt(env, at, depth) ==
  LET k == Pick(1..20) IN
  IF k <= 5 THEN GenLet(env, at)
  ELSE IF k <= 6 THEN GenLetTuple(env, at)
  ELSE IF k <= 10 THEN GenPrint(env, at)
  ELSE IF k <= 11 THEN GenAssign(env, at)
  ELSE IF depth >= MaxDepth THEN GenPrint(env, at)
  ELSE IF k <= 13 THEN GenIf(env, at, depth)
  ELSE IF k <= 15 THEN GenFor(env, at, depth)
  ELSE IF k <= 17 THEN GenMatch(env, at, depth)
  ELSE IF k <= 18 THEN GenBlockLet(env, at, depth)
  ELSE IF k <= 19 \/ depth > 0 THEN GenLambda(env, at, depth)
  ELSE GenFn(env, at)

(* ---- layout and expected answers ---- *)
\* optional first line with a non-ASCII string literal: let u0 = "<code points>"
Utf8Len(c) == IF c < 128 THEN 1 ELSE IF c < 2048 THEN 2 ELSE IF c < 65536 THEN 3 ELSE 4
RECURSIVE SumLen(_, _)
SumLen(cps, i) == IF i > Len(cps) THEN 0 ELSE Utf8Len(cps[i]) + SumLen(cps, i + 1)
PrefixChoices == << <<>>, <<233>>, <<8594, 233>>, <<128512>> >>
PrefixBytes(cps) == IF cps = <<>> THEN 0 ELSE 10 + SumLen(cps, 1) + 2       \* let u0 = "  ...  "\n
PrefixParts(cps) == IF cps = <<>> THEN <<>> ELSE <<[s |-> "let u0 = \""]>> \o [j \in 1..Len(cps) |-> [cp |-> cps[j]]] \o <<[s |-> "\"\n"]>>

RECURSIVE Offsets(_, _, _)      \* byte offset of every token
Offsets(toks, i, acc) == IF i > Len(toks) THEN <<>> ELSE <<acc>> \o Offsets(toks, i + 1, acc + Len(toks[i].s))
RECURSIVE JoinToks(_, _, _)
JoinToks(toks, a, b) == IF a > b THEN "" ELSE IF a = b THEN toks[a].s
                        ELSE LET m == (a + b) \div 2 IN JoinToks(toks, a, m) \o JoinToks(toks, m + 1, b)

\* one query per byte offset inside every use / literal / operator occurrence; kdef / ktype: the finding keys of a wrong answer
Queries(toks, off, na) ==
  LET occ == SelectSeq([i \in 1..Len(toks) |-> i], LAMBDA i : toks[i].r \in {"use", "lit", "op"})
      where == IF na THEN "|after-non-ascii-text" ELSE "|ascii"
      Q(i, o) == IF toks[i].r = "use"
                 THEN [off |-> o, kind |-> "use", name |-> toks[i].s, dk |-> toks[i].dk, type |-> toks[i].ty,
                       def |-> [file |-> "main.abra", start |-> off[toks[i].d], end |-> off[toks[i].d] + Len(toks[toks[i].d].s)],
                       kdef |-> IF na THEN "C35|definition" \o where ELSE "C35|definition|use-of-" \o toks[i].dk \o where,
                       ktype |-> IF na THEN "C35|hover" \o where ELSE "C35|hover|use-of-" \o toks[i].dk \o where]
                 ELSE [off |-> o, kind |-> toks[i].r, name |-> toks[i].s, dk |-> "", type |-> toks[i].ty,
                       ktype |-> IF na THEN "C35|hover" \o where
                                 ELSE "C35|hover|" \o (IF toks[i].r = "lit" THEN "literal-" ELSE "compound-") \o toks[i].ty \o where]
      RECURSIVE Go(_)
      Go(j) == IF j > Len(occ) THEN <<>>
               ELSE [o \in 1..Len(toks[occ[j]].s) |-> Q(occ[j], off[occ[j]] + o - 1)] \o Go(j + 1)
  IN Go(1)

Program(nstmts, cps) ==
  LET g == GenStmts(<<>>, 0, 0, nstmts)
      off == Offsets(g.toks, 1, PrefixBytes(cps))
  IN [parts |-> PrefixParts(cps) \o <<[s |-> JoinToks(g.toks, 1, Len(g.toks))]>>,
      out |-> g.out, nonascii |-> cps # <<>>,
      queries |-> Queries(g.toks, off, cps # <<>>),
      ndecl |-> Cardinality({i \in 1..Len(g.toks) : g.toks[i].r = "decl"}),
      nuse |-> Cardinality({i \in 1..Len(g.toks) : g.toks[i].r = "use"}),
      \* uses whose name is bound more than once in the program: shadowing is really exercised
      nshadowed |-> Cardinality({i \in 1..Len(g.toks) : g.toks[i].r = "use" /\
                       Cardinality({j \in 1..Len(g.toks) : g.toks[j].r = "decl" /\ g.toks[j].s = g.toks[i].s}) > 1}),
      kinds |-> {g.toks[i].dk : i \in {i \in 1..Len(g.toks) : g.toks[i].r = "use"}}]
=============================================================================
