----------------------------- MODULE Pipeline -----------------------------
(***************************************************************************)
(* The LEGAL OUTCOMES of the front end on arbitrary text (C04, C34) and    *)
(* the classification of illegal ones into defect families (finding keys). *)
(*                                                                         *)
(* C04: `check` returns Ok(()) or Err(non-empty diagnostics);              *)
(*      `compile_bytecode` returns Ok(program) or Err(non-empty            *)
(*      diagnostics); both within the per-case time limit; neither ever    *)
(*      panics, aborts the process, or fails to terminate.                 *)
(* C34: `check_lsp` returns; `errors()` returns; `definition_at`,          *)
(*      `type_at`, `completions_at` return at every character-boundary     *)
(*      offset of the main file.                                           *)
(*                                                                         *)
(* An observation record (written by the driver from the harness output):  *)
(*   C04: [id, check, compile, ctext, dtext, csite, dsite, lex]            *)
(*   C34: [id, lsp, site, qsites, lex]                                     *)
(* outcome values: ok diag panic abort timeout;  ctext/dtext: the rendered *)
(* diagnostics are non-blank;  *site: "file:line|message" of a panic ("" if*)
(* none);  lex: the solid lexemes (strings) of the input, supplied only for*)
(* illegal observations (used by the family recognisers below).            *)
(***************************************************************************)
EXTENDS Mutants

Returned == {"ok", "diag"}

LegalApi(outcome, hastext) == outcome \in Returned /\ (outcome = "diag" => hastext)
LegalC04(o) == LegalApi(o.check, o.ctext) /\ LegalApi(o.compile, o.dtext)
LegalC34(o) == o.lsp = "ok"

\* the same law in the form understood by vlib.compare (membership)
ExpectC04 == [check |-> [oneof |-> <<"ok", "diag">>], compile |-> [oneof |-> <<"ok", "diag">>]]
ExpectC34 == [lsp |-> "ok"]

(* ---- defect families ---------------------------------------------------
   A panic is identified by its site (source location + message): one panic site = one defect.
   A process abort (stack overflow, allocation failure) or a non-termination has no site; the only
   family recognisable from the input text is the missing occurs check of type inference:

   "fn-cycle":  a top-level function name g is used as a *value* (not directly called, not declared,
   not a field name) inside the body of a function f, and f is reachable from g through references
   (calls or value uses) in function bodies -- the simplest instance is `fn g(a: int) { g }`, a longer one
   `fn a() { b() }  fn b() { c() }  fn c() { a }`.  The inferred type of g then contains itself;
   unification recurses without bound (stack overflow abort in check / compile / check_lsp) or builds
   an unbounded type (allocation until the memory limit / time limit).

   S is the sequence of solid lexeme texts of the input.                                       *)
IsIdent(s) == Len(s) > 0 /\ Head1(s) \in {"a","b","c","d","e","f","g","h","i","j","k","l","m","n","o","p","q","r","s","t",
   "u","v","w","x","y","z","A","B","C","D","E","F","G","H","I","J","K","L","M","N","O","P","Q","R","S","T","U","V","W","X","Y","Z","_"}
   /\ s \notin {KwTokens[i] : i \in 1..Len(KwTokens)}

FnDeclIdx(S) == {j \in 1..(Len(S) - 1) : S[j] = "fn" /\ IsIdent(S[j + 1])}
FnNames(S) == {S[j + 1] : j \in FnDeclIdx(S)}

\* body of the function declared at j: from the first "{" after j to its matching "}" (or the end of the text)
RECURSIVE FindOpen(_, _), MatchClose(_, _, _)
FindOpen(S, k) == IF k > Len(S) THEN 0 ELSE IF S[k] = "{" THEN k ELSE FindOpen(S, k + 1)
MatchClose(S, k, depth) ==
  IF k > Len(S) THEN Len(S)
  ELSE IF S[k] = "{" THEN MatchClose(S, k + 1, depth + 1)
  ELSE IF S[k] = "}" THEN (IF depth = 1 THEN k ELSE MatchClose(S, k + 1, depth - 1))
  ELSE MatchClose(S, k + 1, depth)
BodyOf(S, j) == LET b == FindOpen(S, j + 2) IN IF b = 0 THEN <<1, 0>> ELSE <<b, MatchClose(S, b + 1, 1)>>

ValueUse(S, k, names) ==
  /\ S[k] \in names
  /\ (k = Len(S) \/ S[k + 1] # "(")
  /\ (k = 1 \/ S[k - 1] \notin {"fn", "."})

\* f -> g  iff  g is used as a value in the body of f  /  g is mentioned at all in the body of f
EdgesBy(S, P(_)) ==
  UNION { LET r == BodyOf(S, j) IN { <<S[j + 1], S[k]>> : k \in {k \in r[1]..r[2] : P(k)} } : j \in FnDeclIdx(S) }
ValueEdges(S) == LET names == FnNames(S) IN EdgesBy(S, LAMBDA k : ValueUse(S, k, names))
RefEdges(S) == LET names == FnNames(S) IN EdgesBy(S, LAMBDA k : S[k] \in names /\ (k = 1 \/ S[k - 1] # "fn"))

\* a value edge f -> g that closes a cycle: f is reachable from g  (reachability by iterated image; the name sets are small)
RECURSIVE ReachFrom(_, _)
ReachFrom(E, F) == LET nxt == F \cup {e[2] : e \in {e \in E : e[1] \in F}} IN IF nxt = F THEN F ELSE ReachFrom(E, nxt)
FnCycle(S) == LET R == RefEdges(S) IN \E e \in ValueEdges(S) : e[1] \in ReachFrom(R, {e[2]})

Family(o) == IF FnCycle(o.lex) THEN "fn-cycle" ELSE "input=" \o o.id

(* ---- finding keys ------------------------------------------------------
   panic: the panic site;  abort / timeout (one class: which of the two is observed depends on the limits
   and the machine): the input family;  diag with blank text: "empty-diagnostics".                  *)
OutcomeClass(outcome) == IF outcome \in {"abort", "timeout"} THEN "abort-or-timeout" ELSE outcome
KeyOf(prop, api, outcome, site, o) ==
  prop \o "|" \o api \o "|" \o OutcomeClass(outcome) \o "|" \o
  (IF outcome = "panic" THEN site
   ELSE IF outcome = "diag" THEN "empty-diagnostics"
   ELSE Family(o))

\* C04: the first API that fails names the finding (compile_bytecode runs the same analysis as check first)
KeyC04(o) ==
  IF ~LegalApi(o.check, o.ctext) THEN KeyOf("C04", "check", o.check, o.csite, o)
  ELSE KeyOf("C04", "compile", o.compile, o.dsite, o)

\* C34: check_lsp itself, or every distinct failing (query kind, panic site) of the case
KeysC34(o) ==
  IF o.lsp = "panic" /\ o.qsites # <<>>
  THEN [j \in 1..Len(o.qsites) |-> "C34|" \o o.qsites[j].q \o "|panic|" \o o.qsites[j].site]
  ELSE << KeyOf("C34", "check_lsp", o.lsp, o.site, o) >>

(* ---- regression seeds: the minimal input of every defect family known at the pinned commit;
        they keep the families covered whatever the random sample contains ------------------ *)
Seeds == <<
  [n |-> "for-binding-assign",  t |-> "for i in 3 { i = 5 }"],
  [n |-> "match-binding-assign", t |-> "match 5 { x -> { x = 2 } }"],
  [n |-> "unknown-named-arg",   t |-> "fn f(a) { a }\nf(1, c = 3)"],
  [n |-> "fn-returns-itself",   t |-> "fn g(a: int) { g }"],
  [n |-> "fn-operand-of-itself", t |-> "fn x(sub, y) { x - y }"],
  [n |-> "fn-mutual-cycle",     t |-> "fn f() { g }\nfn g() { f }"],
  [n |-> "fn-cycle-through-calls", t |-> "fn a1() { b1() }\nfn b1() { c1() }\nfn c1() { a1 }"],
  [n |-> "task-block",          t |-> "let c = channel()\nlet t = task { c.write(1) }\nprintln(c.read())"],
  [n |-> "task-in-lambda",      t |-> "let f = () -> task { 1 }"],
  [n |-> "nested-lambda-capture", t |-> "let x = 1\nlet f = () -> { let g = () -> x\n g() }\nf()"],
  [n |-> "break-in-lambda-in-loop", t |-> "var i = 0\nwhile i < 1 { let f = () -> { break }\n i = i + 1 }"],
  [n |-> "assign-captured-var", t |-> "var x = 1\nlet f = () -> { x = 2 }"],
  [n |-> "lambda-match-captured", t |-> "let v = 3\nlet f = (q: int) -> match v { 1 -> -9, _ -> 4 }"],
  [n |-> "impl-for-unparsable-type", t |-> "implement ToString forfn self)\"Person(\""],
  [n |-> "try-impl-with-syntax-error", t |-> "type St = | Bad | Good\nimplement Try for St {\n fn branch(self) -> ControlFlow<St, St> {\n match self {\n .Bad -> .Break(self)\n .Good -> .Continueself)\n }\n }\n fn from_residual(r: St) -> St { r }\n}\nfn t() -> St {\n St.Good?\n St.Bad\n}\n"],
  [n |-> "array-without-type-argument", t |-> "let a: array<> = [1]\na[0]"],
  [n |-> "unterminated-multiline-string", t |-> "\"\"\"a\n\n"],
  [n |-> "if-else-chain-in-constrained-argument", t |-> "let v = true\nprintln(if v { \"b\" } else { if v { \"b\" } else { if v { \"b\" } else { if v { \"b\" } else { if v { \"b\" } else { if v { \"b\" } else { if v { \"b\" } else { if v { \"b\" } else { if v { \"b\" } else { \"b\" } } } } } } } } })"],
  [n |-> "if-else-tree-in-constrained-argument", t |-> "let v = true\nprintln(if v { if v { if v { 1 } else { 1 } } else { if v { 1 } else { 1 } } } else { if v { if v { 1 } else { 1 } } else { if v { 1 } else { 1 } } })"],
  [n |-> "empty",               t |-> ""],
  [n |-> "hello",               t |-> "println(\"hello\")"]
>>
SeedCase(k) == [id |-> "seed." \o Seeds[k].n, gen |-> "seed", prog |-> "", p |-> 0, op |-> "seed", i |-> k, a |-> 0,
                parts |-> <<[s |-> Seeds[k].t]>>]
=============================================================================
