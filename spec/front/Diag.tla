----------------------------- MODULE Diag -----------------------------
(***************************************************************************)
(* C33: diagnostics point at the offending source text.                    *)
(*                                                                         *)
(* A *template* is an erroneous statement (one per diagnostic kind that is *)
(* reachable from source text) in which the spec marks the offending       *)
(* token(s) / construct.  A *context* puts a string literal or a comment   *)
(* with a SLOT in front of (or, as a control, behind) the statement; a     *)
(* *variant* fills the slot with a sequence of code points.  Variant 1 is  *)
(* empty (the ASCII baseline).  Optional valid *filler* lines go between   *)
(* the slot and the statement.                                             *)
(*                                                                         *)
(* Oracle.  For every diagnostic d of the variant text and the diagnostic  *)
(* d0 with the same index in the baseline's list:                          *)
(*   InFile      0 <= d.start <= d.end <= byte length of the text          *)
(*   OnBoundary  d.start and d.end are character boundaries (UTF-8)        *)
(*   Shift       d = d0 moved by the inserted BYTES where it lies behind   *)
(*               the slot (relational: the text under the range is the     *)
(*               same text as in the baseline); unchanged before the slot  *)
(*   Covers      (baseline, the diagnostic the template is about) the      *)
(*               range contains one of the marked tokens/constructs        *)
(*   Balanced    (baseline, same diagnostic, not for stray-token kinds)    *)
(*               the text under the range has balanced brackets            *)
(* Same number of diagnostics and same messages as the baseline.           *)
(***************************************************************************)
EXTENDS Integers, Sequences, FiniteSets, TLC, Json, IOUtils

T(s) == [k |-> "t", s |-> s]
M(s) == [k |-> "m", s |-> s]          \* marked: the token / construct the diagnostic must cover
Slot == [k |-> "slot", s |-> ""]

(* ---- templates: n name, msg expected message prefix, st pieces ---- *)
Templates == <<
  [n |-> "unresolved",   msg |-> "Could not resolve identifier",
   st |-> <<T("let y = "), M("zzz"), T("\n")>>],
  [n |-> "annotation",   msg |-> "Variable and assignment do not match",
   st |-> <<T("let y: "), M("int"), T(" = "), M("\"no\""), T("\n")>>],
  [n |-> "binop",        msg |-> "Operands must have the same type",
   st |-> <<T("let y = 1 "), M("+"), T(" true\n")>>],
  \* a parenthesised operand at the edge of the offending binary expression (the parentheses are not part of the operand's node)
  [n |-> "binop-paren-left", msg |-> "Operands must have the same type",
   st |-> <<T("let y = (1 + 2) "), M("*"), T(" \"s\"\n")>>],
  [n |-> "binop-paren-right", msg |-> "Operands must have the same type",
   st |-> <<T("let y = \"s\" "), M("*"), T(" (1 + 2)\n")>>],
  [n |-> "binop-paren-both", msg |-> "Operands must have the same type",
   st |-> <<T("let y = (1) "), M("+"), T(" (true)\n")>>],
  [n |-> "binop-paren-nested", msg |-> "Operands must have the same type",
   st |-> <<T("let y = ((1 + 2) * (3 + 4)) "), M("+"), T(" (true)\n")>>],
  [n |-> "and-paren-left", msg |-> "Operand must be `bool`",
   st |-> <<T("let v = (1 + 2) "), M("and"), T(" true\n")>>],
  [n |-> "and-paren-right", msg |-> "Operand must be `bool`",
   st |-> <<T("let v = true "), M("and"), T(" (1 + 2)\n")>>],
  [n |-> "argtype",      msg |-> "Wrong argument type",
   st |-> <<T("fn f(a: int) { a }\n"), M("f(\"x\")"), T("\n")>>],
  [n |-> "argconflict",  msg |-> "Conflicting types",
   st |-> <<T("fn f(a: "), M("int"), T(") { a }\nf("), M("\"x\""), T(")\n")>>],
  [n |-> "nonexhaustive", msg |-> "This match expression doesn't cover every case",
   st |-> <<T("let b = true\n"), M("match b { true -> 1 }"), T("\n")>>],
  [n |-> "redundant",    msg |-> "This match expression has redundant cases",
   st |-> <<T("let b = true\n"), M("match b { true -> 1, false -> 2, true -> 3 }"), T("\n")>>],
  [n |-> "assign-let",   msg |-> "Can't modify immutable variable",
   st |-> <<T("let q = 1\n"), M("q"), T(" = 2\n")>>],
  [n |-> "missing-arg",  msg |-> "Missing argument",
   st |-> <<T("fn f(a: int, b: int) { a }\n"), M("f(1)"), T("\n")>>],
  [n |-> "unknown-field", msg |-> "Could not resolve identifier",
   st |-> <<T("type Pt = { x: int }\nlet p = Pt(1)\np."), M("zz"), T("\n")>>],
  [n |-> "syntax",       msg |-> "Unexpected token",
   st |-> <<T("let y = "), M("="), T(" 3\n")>>],
  [n |-> "syntax-eof",   msg |-> "Unexpected token",
   st |-> <<T("let y = (1 +"), M("")>>],
  [n |-> "unrecognized-char", msg |-> "Unrecognized token",
   st |-> <<T("let y = 3 "), M("@"), T(" 4\n")>>],
  [n |-> "escape",       msg |-> "Unrecognized escape sequence",
   st |-> <<T("let t = \"a"), M("\\q"), T("b\"\n")>>],
  [n |-> "break-outside", msg |-> "This statement must be in a loop",
   st |-> <<M("break"), T("\n")>>],
  [n |-> "continue-outside", msg |-> "This statement must be in a loop",
   st |-> <<T("if true { "), M("continue"), T(" }\n")>>],
  [n |-> "condition",    msg |-> "Condition must be a `bool`",
   st |-> <<T("if "), M("3"), T(" { 1 } else { 2 }\n")>>],
  \* the offending token is a numeric literal written with digit separators
  [n |-> "condition-sep", msg |-> "Condition must be a `bool`",
   st |-> <<T("if "), M("1_000"), T(" { 1 } else { 2 }\n")>>],
  [n |-> "annotation-sep", msg |-> "Variable and assignment do not match",
   st |-> <<T("let y: "), M("string"), T(" = "), M("1_000_000"), T("\n")>>],
  [n |-> "annotation-fsep", msg |-> "Variable and assignment do not match",
   st |-> <<T("let y: "), M("string"), T(" = "), M("3.141_592"), T("\n")>>],
  [n |-> "if-branches",  msg |-> "Branches of if-else expression do not match",
   st |-> <<T("let v = if true { "), M("1"), T(" } else { "), M("\"x\""), T(" }\n")>>],
  [n |-> "return-type",  msg |-> "Conflicting types",
   st |-> <<T("fn f() -> "), M("int"), T(" { "), M("\"x\""), T(" }\n")>>],
  [n |-> "name-clash",   msg |-> "`f` was declared more than once",
   st |-> <<T("fn "), M("f"), T("() { 1 }\nfn "), M("f"), T("() { 2 }\n")>>],
  [n |-> "empty-parens", msg |-> "Parentheses are empty",
   st |-> <<T("let y = "), M("()"), T("\n")>>],
  [n |-> "member-fn",    msg |-> "Could not resolve member function",
   st |-> <<T("let n = 3\n"), M("n"), T("."), M("frob"), T("()\n")>>],
  [n |-> "interface",    msg |-> "Interface `ToString` is not implemented",
   st |-> <<T("type Pt = { x: int }\n"), M("println"), T("("), M("Pt(1)"), T(")\n")>>],
  [n |-> "named-arg-twice", msg |-> "Can't specify a named argument more than once",
   st |-> <<T("fn f(a: int) { a }\nf(a = 1, "), M("a"), T(" = 2)\n")>>],
  [n |-> "unsolved-type", msg |-> "Can't fully solve type",
   st |-> <<T("let "), M("e"), T(" = "), M("[]"), T("\n")>>],
  [n |-> "unknown-variant", msg |-> "Could not resolve identifier",
   st |-> <<T("type Co = Red | Green\nlet c = Co."), M("Blue"), T("\n")>>],
  [n |-> "pattern-type", msg |-> "Match expression input has type",
   st |-> <<T("match "), M("5"), T(" { "), M("\"x\""), T(" -> 1, _ -> 2 }\n")>>],
  [n |-> "not-operand",  msg |-> "Conflicting types",
   st |-> <<T("let v = not "), M("3"), T("\n")>>],
  [n |-> "and-operand",  msg |-> "Operand must be `bool`",
   st |-> <<T("let v = 3 "), M("and"), T(" true\n")>>],
  [n |-> "unknown-import", msg |-> "Could not resolve identifier",
   st |-> <<M("use nosuchmodule"), T("\n")>>],
  [n |-> "try-toplevel", msg |-> "Cannot use `?` operator at the top level",
   st |-> <<T("let o: option<int> = option.some(1)\n"), M("o?"), T("\n")>>],
  [n |-> "assign-function", msg |-> "Can't assign to this",
   st |-> <<T("fn f() { 1 }\n"), M("f"), T(" = 4\n")>>],
  [n |-> "index-unknown", msg |-> "Can't index expression without knowing type",
   st |-> <<T("fn g(a) { "), M("a"), T("[0] }\n")>>]
>>

(* ---- contexts: where the slot is (pieces before and after the statement) ---- *)
Contexts == <<
  [n |-> "string-line-before",  pre |-> <<T("let s = \"ab"), Slot, T("cd\"\n")>>,      post |-> <<>>],
  [n |-> "comment-line-before", pre |-> <<T("// note "), Slot, T(" end\n")>>,          post |-> <<>>],
  [n |-> "block-comment-same-line", pre |-> <<T("/* "), Slot, T(" */ ")>>,            post |-> <<>>],
  [n |-> "string-same-line",    pre |-> <<T("println(\"p"), Slot, T("\"); ")>>,       post |-> <<>>],
  [n |-> "single-quote-string", pre |-> <<T("let s = 'ab"), Slot, T("'\n")>>,          post |-> <<>>],
  [n |-> "multiline-string",    pre |-> <<T("let s = \"\"\"\n  a"), Slot, T("\n  b\n  \"\"\"\n")>>, post |-> <<>>],
  [n |-> "string-after (control)", pre |-> <<>>,  post |-> <<T("let s = \"ab"), Slot, T("\"\n")>>],
  \* the file is a script: its first line is a `#!` line (skipped by the lexer, but part of the text the ranges refer to)
  [n |-> "shebang-line", pre |-> <<T("#!/usr/bin/env abra "), Slot, T("\n")>>, post |-> <<>>]
>>

\* valid lines between the slot and the erroneous statement
Fillers == << "", "let k1 = 10\n", "fn h1(u: int) -> int { u + 1 }\nlet k2 = h1(2)\n",
              "let arr1 = [1, 2, 3]\nfor i1 in arr1 { println(i1) }\n" >>

(* ---- variants: code points put into the slot ---- *)
Variants == << <<>>,                         \* 1: baseline
               <<120, 121, 122>>,            \* ASCII control "xyz"
               <<233>>,                      \* 2-byte
               <<8594>>,                     \* 3-byte
               <<128512>>,                   \* 4-byte
               <<233, 8594, 128512>>,
               <<233, 233, 233, 233, 233>>,
               <<101, 769>>,                 \* e + combining acute
               <<128512, 128512, 128512, 128512>> >>

Utf8Len(c) == IF c < 128 THEN 1 ELSE IF c < 2048 THEN 2 ELSE IF c < 65536 THEN 3 ELSE 4
RECURSIVE SumLen(_, _)
SumLen(cps, i) == IF i > Len(cps) THEN 0 ELSE Utf8Len(cps[i]) + SumLen(cps, i + 1)
DeltaBytes(v) == SumLen(Variants[v], 1)
DeltaChars(v) == Len(Variants[v])

(* ---- layout ---- *)
Pieces(t, c, f) == Contexts[c].pre \o (IF Fillers[f] = "" THEN <<>> ELSE <<T(Fillers[f])>>) \o Templates[t].st \o Contexts[c].post

RECURSIVE OffsetOf(_, _)      \* baseline byte (= char) offset of piece i
OffsetOf(ps, i) == IF i = 1 THEN 0 ELSE OffsetOf(ps, i - 1) + Len(ps[i - 1].s)
BaseLen(ps) == OffsetOf(ps, Len(ps)) + Len(ps[Len(ps)].s)
SlotPos(ps) == OffsetOf(ps, CHOOSE i \in 1..Len(ps) : ps[i].k = "slot")
Marks(ps) == { <<OffsetOf(ps, i), OffsetOf(ps, i) + Len(ps[i].s)>> : i \in {i \in 1..Len(ps) : ps[i].k = "m"} }

\* parts for the driver (strings and code points)
RECURSIVE PartsOf(_, _, _)
PartsOf(ps, v, i) ==
  IF i > Len(ps) THEN <<>>
  ELSE (IF ps[i].k = "slot" THEN [j \in 1..Len(Variants[v]) |-> [cp |-> Variants[v][j]]] ELSE <<[s |-> ps[i].s]>>)
       \o PartsOf(ps, v, i + 1)

CaseId(t, c, f, v) == "t" \o ToString(t) \o ".c" \o ToString(c) \o ".f" \o ToString(f) \o ".v" \o ToString(v)
DiagCase(t, c, f, v) ==
  LET ps == Pieces(t, c, f) IN
  [id |-> CaseId(t, c, f, v), base |-> CaseId(t, c, f, 1), t |-> t, c |-> c, f |-> f, v |-> v,
   template |-> Templates[t].n, context |-> Contexts[c].n, msg |-> Templates[t].msg,
   slot |-> SlotPos(ps), dbytes |-> DeltaBytes(v), dchars |-> DeltaChars(v), baselen |-> BaseLen(ps),
   marks |-> Marks(ps), parts |-> PartsOf(ps, v, 1)]

(* ---- oracle ---- *)
\* byte offsets of the variant text that are character boundaries: everything except the inside of inserted characters
RECURSIVE InsideOffsets(_, _, _)
InsideOffsets(cps, i, at) ==      \* offsets strictly inside a multi-byte character, slot-relative start `at`
  IF i > Len(cps) THEN {} ELSE { at + k : k \in 1..(Utf8Len(cps[i]) - 1) } \cup InsideOffsets(cps, i + 1, at + Utf8Len(cps[i]))
OnBoundary(ps, v, x) == x \notin InsideOffsets(Variants[v], 1, SlotPos(ps))

\* where a baseline offset lies in the variant text
ShiftOff(ps, v, x, isEnd) ==
  IF x < SlotPos(ps) \/ (x = SlotPos(ps) /\ isEnd) THEN x ELSE x + DeltaBytes(v)
\* what an implementation that counts characters instead of bytes would report
CharOff(ps, v, x, isEnd) ==
  IF x < SlotPos(ps) \/ (x = SlotPos(ps) /\ isEnd) THEN x ELSE x + DeltaChars(v)

PrefixOf(p, s) == Len(s) >= Len(p) /\ SubSeq(s, 1, Len(p)) = p
Covers(ps, d) == \E m \in Marks(ps) : d.start <= m[1] /\ m[2] <= d.end
\* the range of a diagnostic about a construct (not about a stray token) is a whole construct: the text under it has balanced
\* brackets - a range that starts inside a parenthesised operand and ends outside it denotes nothing
RECURSIVE BaseText(_, _)
BaseText(ps, i) == IF i > Len(ps) THEN "" ELSE ps[i].s \o BaseText(ps, i + 1)
RECURSIVE Depths(_, _, _, _)       \* FALSE if the depth drops below zero or does not end at zero
Depths(s, i, e, d) ==
  IF i > e THEN d = 0
  ELSE LET ch == SubSeq(s, i, i)
           d2 == IF ch \in {"(", "[", "{"} THEN d + 1 ELSE IF ch \in {")", "]", "}"} THEN d - 1 ELSE d
       IN d2 >= 0 /\ Depths(s, i + 1, e, d2)
TokenTemplates == {"syntax", "syntax-eof", "unrecognized-char", "escape"}      \* these are about a single (possibly stray) token
Balanced(ps, d) == d.start < 0 \/ d.end > BaseLen(ps) \/ d.start > d.end \/ Depths(BaseText(ps, 1), d.start + 1, d.end, 0)

\* the clauses violated by diagnostic number j of observation o ([t, c, f, v, diags, base] ; base = baseline diags)
Violations(o, j) ==
  LET ps == Pieces(o.t, o.c, o.f)
      d == o.diags[j]
      len == BaseLen(ps) + DeltaBytes(o.v)
      d0 == o.base[j]
      about == PrefixOf(Templates[o.t].msg, d0.msg)
  IN (IF 0 <= d.start /\ d.start <= d.end /\ d.end <= len THEN {} ELSE {"InFile"}) \cup
     (IF OnBoundary(ps, o.v, d.start) /\ OnBoundary(ps, o.v, d.end) THEN {} ELSE {"OnBoundary"}) \cup
     (IF d.start = ShiftOff(ps, o.v, d0.start, FALSE) /\ d.end = ShiftOff(ps, o.v, d0.end, TRUE) THEN {} ELSE {"Shift"}) \cup
     (IF o.v = 1 /\ about /\ ~Covers(ps, d) THEN {"Covers"} ELSE {}) \cup
     (IF o.v = 1 /\ about /\ Templates[o.t].n \notin TokenTemplates /\ ~Balanced(ps, d) THEN {"Balanced"} ELSE {})

CountsChars(o, j) ==
  LET ps == Pieces(o.t, o.c, o.f) IN
  /\ o.diags[j].start = CharOff(ps, o.v, o.base[j].start, FALSE)
  /\ o.diags[j].end = CharOff(ps, o.v, o.base[j].end, TRUE)
  /\ DeltaBytes(o.v) # DeltaChars(o.v)

SameMessages(o) == Len(o.diags) = Len(o.base) /\ \A j \in 1..Len(o.diags) : o.diags[j].msg = o.base[j].msg
Triggered(o) == \E j \in 1..Len(o.base) : PrefixOf(Templates[o.t].msg, o.base[j].msg)

ClauseStr(S) == (IF "InFile" \in S THEN "+InFile" ELSE "") \o (IF "OnBoundary" \in S THEN "+OnBoundary" ELSE "") \o
                (IF "Shift" \in S THEN "+Shift" ELSE "") \o (IF "Covers" \in S THEN "+Covers" ELSE "") \o (IF "Balanced" \in S THEN "+Balanced" ELSE "")

\* what the ASCII baseline of the same input already violates for diagnostic j (Shift holds trivially there)
BaseViolations(o, j) == Violations([o EXCEPT !.v = 1, !.diags = o.base], j)

\* finding key of violated diagnostic j:
\*  - nothing beyond what the baseline already violates: the template's ASCII key
\*  - the reported range is exactly what counting characters instead of bytes gives: one family
\*  - otherwise a key of its own
KeyOfViolation(o, j) ==
  LET S == Violations(o, j)  B == BaseViolations(o, j) IN
  IF S \subseteq B THEN "C33|" \o Templates[o.t].n \o "|ascii|" \o ClauseStr(S)
  ELSE IF CountsChars(o, j) THEN "C33|range-counts-chars-not-bytes|" \o ClauseStr(S \ B)
  ELSE "C33|" \o Templates[o.t].n \o "|" \o Contexts[o.c].n \o "|v" \o ToString(o.v) \o "|" \o ClauseStr(S)
=============================================================================
