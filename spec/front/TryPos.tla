----------------------------- MODULE TryPos -----------------------------
(***************************************************************************)
(* Programs that use `?` and `!` at every syntactic position               *)
(* (error_handling.md, operators.md "Unwrap" / "Try").  What they print is *)
(* defined by AbraSem:  e? is the payload of some/ok, otherwise the        *)
(* enclosing function (or lambda) returns that none/err at once;  e! is    *)
(* the payload, otherwise the program stops with the panic raised by the   *)
(* prelude's `unwrap`.                                                     *)
(*                                                                         *)
(* The operand is always a call  src(k, flag)  of a source function that   *)
(* prints "src k" and returns some(k)/ok(k) when flag holds and            *)
(* none/err("bad") otherwise.  Sibling operands are calls tr(k) that print *)
(* k, the surrounding function prints "s1" before and "s2" after the       *)
(* statement under test, so the printed trace shows exactly which operands *)
(* and statements ran.  The function is called inside a tuple literal, so  *)
(* that values left behind on the operand stack by an early return would   *)
(* corrupt the tuple that is printed next.                                 *)
(***************************************************************************)
EXTENDS AbraGen, Cases

Carriers == {"option", "result"}
OpsTU == {"?", "!"}
SrcN(car) == IF car = "option" THEN "srco" ELSE "srcr"
SrcAN(car) == IF car = "option" THEN "srcao" ELSE "srcar"
TyOf(car, t) == IF car = "option" THEN "option<" \o t \o ">" ELSE "result<" \o t \o ", string>"
Good(car, e) == IF car = "option" THEN Some(e) ELSE [k |-> "variant", q |-> "result", c |-> "ok", es |-> <<e>>]
Bad(car) == IF car = "option" THEN None ELSE [k |-> "variant", q |-> "result", c |-> "err", es |-> <<S("bad")>>]

Fld(o, f) == [k |-> "fld", o |-> o, f |-> f]
Idx(a, i) == [k |-> "idx", a |-> a, i |-> i]
Arr(es) == [k |-> "arr", es |-> es]
Tup(es) == [k |-> "tup", es |-> es]
Blk(ss) == [k |-> "blk", ss |-> ss]
Ife(c, t, e) == [k |-> "ife", c |-> c, t |-> t, e |-> e]
Tr(k) == Call("tr", <<I(k)>>)
Nil == [k |-> "nil"]
\* the operator applied to a source whose payload is void
TV(op, car, k, flag) == [k |-> IF op = "?" THEN "try" ELSE "unwrap", e |-> Call("guard", <<I(k), flag>>)]
P(n, d) == [n |-> n, ty |-> d, d |-> NoD]
FnD(name, ps, ret, body) == [n |-> name, ps |-> ps, ret |-> ret, body |-> body]

\* the operator under test applied to e
Op(op, e) == [k |-> IF op = "?" THEN "try" ELSE "unwrap", e |-> e]
\* T: the operand of interest: src(k, flag)? / src(k, flag)!
T(op, car, k, flag) == Op(op, Call(SrcN(car), <<I(k), flag>>))
TA(op, car, k, flag) == Op(op, Call(SrcAN(car), <<I(k), flag>>))

PtT == [k |-> "struct", n |-> "Pt", fs |-> <<"px", "py">>, tys |-> <<"int", "int">>, ds |-> <<NoD, NoD>>]
Helpers(car) == <<
  FnD("tr", <<P("k", "int")>>, "int", <<PrintS(V("k")), ExprS(V("k"))>>),
  FnD("add2", <<P("a", "int"), P("b", "int")>>, "int", <<PrintS(S("add2")), ExprS(Bin("+", V("a"), V("b")))>>),
  FnD("add3", <<P("a", "int"), P("b", "int"), P("c", "int")>>, "int",
      <<PrintS(S("add3")), ExprS(Bin("+", Bin("+", V("a"), V("b")), V("c")))>>),
  FnD(SrcN(car), <<P("k", "int"), P("good", "bool")>>, TyOf(car, "int"),
      <<PrintS(Bin("..", S("src "), V("k"))), ExprS(Ife(V("good"), Good(car, V("k")), Bad(car)))>>),
  FnD("guard", <<P("k", "int"), P("good", "bool")>>, TyOf(car, "void"),
      <<PrintS(Bin("..", S("guard "), V("k"))), ExprS(Ife(V("good"), Good(car, Nil), Bad(car)))>>),
  \* a generic function that tries its parameter in a loop: instantiated with a void payload, the success of `?` leaves nothing
  FnD("gtry", <<P("x", TyOf(car, "W"))>>, TyOf(car, "int"),
      <<Var("gn", I(0)),
        [k |-> "for", p |-> PB("gi"), it |-> [k |-> "array", e |-> Arr(<<I(1), I(2), I(3)>>)],
         body |-> <<ExprS(Op("?", V("x"))), Assign(V("gn"), "=", Bin("+", V("gn"), V("gi")))>>],
        ExprS(Good(car, V("gn")))>>),
  FnD(SrcAN(car), <<P("k", "int"), P("good", "bool")>>, TyOf(car, "array<int>"),
      <<PrintS(Bin("..", S("srca "), V("k"))), ExprS(Ife(V("good"), Good(car, Arr(<<V("k"), Bin("+", V("k"), I(1))>>)), Bad(car)))>> ) >>

Positions == <<"stmt", "let", "left", "right", "deep", "neg", "arg1of1", "arg1of3", "arg2of3", "arg3of3",
               "receiver", "methodarg", "tuple", "array", "nested", "twice", "for", "forarr", "while", "ifcond", "ifbranch",
               "matchscrut", "matcharm", "return", "index", "indexee", "structarg", "variantarg", "assign", "assignop",
               "idxassign", "idxassigni", "fldassign", "concat", "block", "lambda", "cmp", "andrhs", "second", "first",
               \* the tried payload is void (its success leaves nothing behind), in positions where the operand stack matters
               "vstmt", "vfor", "vforarr", "voperand", "vwhile",
               \* ... and the void payload is the instance of a type parameter (gtry above), once void and once int
               "gvoid", "gint",
               \* the operand of the operator binds a variable itself (a match arm binding / a let in an if block)
               "m-let", "m-arg", "m-stmt", "l-let", "l-arg">>
\* positions combined pairwise in the thorough tier
CorePositions == <<"stmt", "let", "right", "deep", "arg2of3", "receiver", "tuple", "array", "nested", "for", "while",
                   "matchscrut", "structarg", "assignop", "lambda">>

\* PosOf(pos, n, op, car, g) = [ss, v]: the statements (names suffixed by n, source tags 10n + ..) and the int result expression;
\* g is the expression that decides success of the operand of interest
PosOf(pos, n, op, car, g) ==
  LET sfx == ToString(n)
      v == "v" \o sfx   arr == "arr" \o sfx   acc == "acc" \o sfx   ii == "i" \o sfx   pt == "pt" \o sfx   tt == "t" \o sfx
      k == 10 * n
      t == T(op, car, k + 5, g)
      none == [ss |-> <<>>, v |-> I(0)]
      letv(e) == [ss |-> <<Let(v, e)>>, v |-> V(v)]
      \* succeeds in the first round only unless g
      late(ix, first) == Bin("or", g, Bin("<", ix, I(first)))
  IN
  CASE pos = "stmt"    -> [ss |-> <<ExprS(t)>>, v |-> I(0)]
    [] pos = "let"     -> letv(t)
    [] pos = "left"    -> letv(Bin("+", t, Tr(k + 1)))
    [] pos = "right"   -> letv(Bin("+", Tr(k + 1), t))
    [] pos = "deep"    -> letv(Bin("+", Tr(k + 1), Bin("*", Tr(k + 2), t)))
    [] pos = "neg"     -> letv([k |-> "neg", e |-> t])
    [] pos = "arg1of1" -> letv(Call("tr", <<t>>))
    [] pos = "arg1of3" -> letv(Call("add3", <<t, Tr(k + 2), Tr(k + 3)>>))
    [] pos = "arg2of3" -> letv(Call("add3", <<Tr(k + 1), t, Tr(k + 3)>>))
    [] pos = "arg3of3" -> letv(Call("add3", <<Tr(k + 1), Tr(k + 2), t>>))
    [] pos = "receiver" -> letv(MCall(TA(op, car, k + 5, g), "len", <<>>))
    [] pos = "methodarg" -> [ss |-> <<Let(arr, Arr(<<Tr(k + 1)>>)), ExprS(MCall(V(arr), "push", <<t>>)), PrintS(V(arr))>>, v |-> MCall(V(arr), "len", <<>>)]
    [] pos = "tuple"   -> [ss |-> <<Let(tt, Tup(<<Tr(k + 1), t, Tr(k + 3)>>)), PrintS(V(tt))>>, v |-> I(0)]
    [] pos = "array"   -> [ss |-> <<Let(arr, Arr(<<Tr(k + 1), t, Tr(k + 3)>>)), PrintS(V(arr))>>, v |-> I(0)]
    [] pos = "nested"  -> letv(Call("add2", <<Tr(k + 1), Call("add2", <<Tr(k + 2), t>>)>>))
    [] pos = "twice"   -> letv(Op(op, Call(SrcN(car), <<t, Bl(TRUE)>>)))
    [] pos = "for"     -> [ss |-> <<Var(acc, I(0)),
                                    [k |-> "for", p |-> PB(ii), it |-> [k |-> "count", e |-> I(3)],
                                     body |-> <<Assign(V(acc), "=", Bin("+", V(acc), T(op, car, k + 5, late(V(ii), 1))))>>]>>,
                           v |-> V(acc)]
    [] pos = "forarr"  -> [ss |-> <<Var(acc, I(0)),
                                    [k |-> "for", p |-> PB(ii), it |-> [k |-> "array", e |-> Arr(<<I(1), I(2), I(3)>>)],
                                     body |-> <<Assign(V(acc), "=", Bin("+", V(acc), T(op, car, k + 5, late(V(ii), 2))))>>]>>,
                           v |-> V(acc)]
    [] pos = "while"   -> [ss |-> <<Var(ii, I(0)), Var(acc, I(0)),
                                    [k |-> "while", c |-> Bin("<", V(ii), I(3)),
                                     body |-> <<Assign(V(ii), "+=", I(1)),
                                                Assign(V(acc), "=", Bin("+", V(acc), T(op, car, k + 5, late(V(ii), 2))))>>]>>,
                           v |-> V(acc)]
    [] pos = "ifcond"  -> [ss |-> <<Var(v, I(0)), If(Bin(">", t, I(3)), <<Assign(V(v), "=", I(1))>>, <<Assign(V(v), "=", I(2))>>)>>, v |-> V(v)]
    [] pos = "ifbranch" -> letv(Ife(Bin("<", Tr(k + 1), I(1000)), t, I(0)))
    [] pos = "matchscrut" -> letv([k |-> "match", s |-> t, arms |-> <<[p |-> [k |-> "lit", v |-> IntV(k + 5)], e |-> I(50)], [p |-> [k |-> "wild"], e |-> I(0)]>>])
    [] pos = "matcharm" -> letv([k |-> "match", s |-> Tr(k + 1), arms |-> <<[p |-> [k |-> "lit", v |-> IntV(k + 1)], e |-> t], [p |-> [k |-> "wild"], e |-> I(0)]>>])
    [] pos = "return"  -> [ss |-> <<[k |-> "ret", e |-> IF op = "?" THEN Good(car, t) ELSE t]>>, v |-> I(0)]
    [] pos = "index"   -> [ss |-> <<Let(arr, Arr(<<I(100), I(200), I(300)>>)), Let(v, Idx(V(arr), T(op, car, 1, g)))>>, v |-> V(v)]
    [] pos = "indexee" -> letv(Idx(TA(op, car, k + 5, g), I(1)))
    [] pos = "structarg" -> [ss |-> <<Let(pt, [k |-> "new", n |-> "Pt", args |-> <<Arg(Tr(k + 1)), Arg(t)>>])>>, v |-> Fld(V(pt), "py")]
    [] pos = "variantarg" -> [ss |-> <<Let(tt, Some(t)), PrintS(V(tt))>>, v |-> I(0)]
    [] pos = "assign"  -> [ss |-> <<Var(v, I(1)), Assign(V(v), "=", t)>>, v |-> V(v)]
    [] pos = "assignop" -> [ss |-> <<Var(v, I(1)), Assign(V(v), "+=", t)>>, v |-> V(v)]
    [] pos = "idxassign" -> [ss |-> <<Let(arr, Arr(<<I(1), I(2)>>)), Assign(Idx(V(arr), I(0)), "=", t), PrintS(V(arr))>>, v |-> I(0)]
    [] pos = "idxassigni" -> [ss |-> <<Let(arr, Arr(<<I(1), I(2), I(3)>>)), Assign(Idx(V(arr), T(op, car, 1, g)), "=", I(9)), PrintS(V(arr))>>, v |-> I(0)]
         \* (the right-hand side has no side effect: the reference does not order it against the index expression)
    [] pos = "fldassign" -> [ss |-> <<Let(pt, [k |-> "new", n |-> "Pt", args |-> <<Arg(I(1)), Arg(I(2))>>]), Assign(Fld(V(pt), "px"), "=", t)>>, v |-> Fld(V(pt), "px")]
    [] pos = "concat"  -> [ss |-> <<Let(tt, Bin("..", Bin("..", S("a"), t), S("b"))), PrintS(V(tt))>>, v |-> I(0)]
    [] pos = "block"   -> letv(Blk(<<PrintS(S("blk")), ExprS(t)>>))
    [] pos = "lambda"  -> \* the enclosing function of the operator is the lambda
         [ss |-> <<Let("h" \o sfx, [k |-> "lam", ps |-> <<"z">>, ptys |-> <<"int">>,
                                    body |-> Blk(<<PrintS(S("h1")), Let("w", Bin("+", t, V("z"))), PrintS(S("h2")),
                                                   ExprS(IF op = "?" THEN Good(car, V("w")) ELSE V("w"))>>)]),
                   PrintS(Call("h" \o sfx, <<Tr(k + 1)>>))>>, v |-> I(0)]
    [] pos = "cmp"     -> [ss |-> <<Let(tt, Bin("==", t, I(k + 5))), PrintS(V(tt))>>, v |-> I(0)]
    [] pos = "andrhs"  -> [ss |-> <<Let(tt, Bin("and", Bin("==", Tr(k + 1), I(k + 1)), Bin("==", t, I(k + 5)))), PrintS(V(tt))>>, v |-> I(0)]
    [] pos \in {"m-let", "m-arg", "m-stmt", "l-let", "l-arg"} ->
         LET nm == "n" \o sfx  dn == "d" \o sfx
             \* match tr(k+5) { 0 -> bad, n -> if g { good(n) } else { bad } }     (tr(k+5) is never 0)
             opM == [k |-> "match", s |-> Tr(k + 5), arms |-> <<
                       [p |-> [k |-> "lit", v |-> IntV(0)], e |-> Bad(car)],
                       [p |-> PB(nm), e |-> Ife(g, Good(car, V(nm)), Bad(car))] >>]
             \* if g { let d = tr(k+5); good(d) } else { bad }
             opL == Ife(g, Blk(<<Let(dn, Tr(k + 5)), ExprS(Good(car, V(dn)))>>), Blk(<<ExprS(Bad(car))>>))
             o == Op(op, IF pos \in {"m-let", "m-arg", "m-stmt"} THEN opM ELSE opL)
         IN (CASE pos \in {"m-let", "l-let"} -> letv(o)
               [] pos \in {"m-arg", "l-arg"} -> letv(Call("add2", <<Tr(k + 1), o>>))
               [] pos = "m-stmt" -> [ss |-> <<ExprS(o)>>, v |-> Tr(k + 1)])
    [] pos = "vstmt"   -> [ss |-> <<ExprS(TV(op, car, k + 5, g))>>, v |-> Tr(k + 1)]
    [] pos = "gvoid"   -> letv(Op(op, Call("gtry", <<Call("guard", <<I(k + 5), g>>)>>)))
    [] pos = "gint"    -> letv(Op(op, Call("gtry", <<Call(SrcN(car), <<I(k + 5), g>>)>>)))
    [] pos = "vfor"    -> [ss |-> <<Var(acc, I(0)),
                                    [k |-> "for", p |-> PB(ii), it |-> [k |-> "count", e |-> I(3)],
                                     body |-> <<ExprS(TV(op, car, k + 5, late(V(ii), 1))), Assign(V(acc), "=", Bin("+", V(acc), Tr(k + 1)))>>]>>,
                           v |-> V(acc)]
    [] pos = "vforarr" -> [ss |-> <<Var(acc, I(0)),
                                    [k |-> "for", p |-> PB(ii), it |-> [k |-> "array", e |-> Arr(<<I(1), I(2), I(3)>>)],
                                     body |-> <<ExprS(TV(op, car, k + 5, late(V(ii), 2))), Assign(V(acc), "=", Bin("+", V(acc), V(ii)))>>]>>,
                           v |-> V(acc)]
    [] pos = "vwhile"  -> [ss |-> <<Var(ii, I(0)), Var(acc, I(0)),
                                    [k |-> "while", c |-> Bin("<", V(ii), I(3)),
                                     body |-> <<Assign(V(ii), "+=", I(1)), ExprS(TV(op, car, k + 5, late(V(ii), 2))),
                                                Assign(V(acc), "=", Bin("+", V(acc), V(ii)))>>]>>,
                           v |-> V(acc)]
    [] pos = "voperand" -> letv(Bin("+", Tr(k + 1), Blk(<<ExprS(TV(op, car, k + 5, g)), ExprS(Tr(k + 2))>>)))
    [] pos = "second"  -> letv(Bin("+", T(op, car, k + 4, Bl(TRUE)), t))                \* an earlier success, then the operand of interest
    [] pos = "first"   -> letv(Bin("+", t, T(op, car, k + 6, Bl(TRUE))))                \* a failure here must skip the later operand

\* ---------------------------------------------------------------- programs
\* a shape: [pos1, pos2 ("" = single position), op1, op2, car, ctx ("fn" | "main"), good1, good2 (ctx = main only)]
\* c.ret: payload type of the enclosing function's result ("int" | "void"; "void" only with `?`)
RetTy(c) == IF c.op1 = "?" \/ (c.pos2 # "" /\ c.op2 = "?") THEN TyOf(c.car, c.ret) ELSE "int"
Wrap(c, e) == IF RetTy(c) = "int" THEN <<ExprS(e)>>
              ELSE IF c.ret = "void" THEN <<PrintS(e), ExprS(Good(c.car, Nil))>> ELSE <<ExprS(Good(c.car, e))>>
FBody(c, g1, g2) ==
  LET a == PosOf(c.pos1, 1, c.op1, c.car, g1)
      b == IF c.pos2 = "" THEN [ss |-> <<>>, v |-> I(0)] ELSE PosOf(c.pos2, 2, c.op2, c.car, g2)
  IN <<PrintS(S("s1"))>> \o a.ss \o <<PrintS(S("s2"))>> \o b.ss \o (IF c.pos2 = "" THEN <<>> ELSE <<PrintS(S("s3"))>>)
     \o Wrap(c, Bin("+", a.v, b.v))
CallF(c, g1, g2) == Call("f", (IF c.vp = "none" THEN <<>> ELSE <<Nil>>) \o (IF c.pos2 = "" THEN <<Bl(g1)>> ELSE <<Bl(g1), Bl(g2)>>))
Observe(n, e) == <<Let("r" \o ToString(n), Tup(<<I(100), e, I(200)>>)), PrintS(V("r" \o ToString(n)))>>
\* a result with a void payload is observed through a match (1 = some/ok, 0 = none/err)
GoodC(car) == IF car = "option" THEN "some" ELSE "ok"
BadC(car) == IF car = "option" THEN "none" ELSE "err"
ObserveV(n, car, e) ==
  Observe(n, [k |-> "match", s |-> e, arms |-> <<
                [p |-> [k |-> "var", c |-> GoodC(car), ps |-> <<[k |-> "wild"]>>], e |-> I(1)],
                [p |-> [k |-> "var", c |-> BadC(car), ps |-> IF car = "option" THEN <<>> ELSE <<[k |-> "wild"]>>], e |-> I(0)] >>])
\* flag combinations tried, all-success first; with `!` a failing call ends the program, so it comes last
Flags(c) == IF c.pos2 = "" THEN <<<<TRUE, TRUE>>, <<FALSE, TRUE>>>>
            ELSE IF c.op1 = "!" THEN <<<<TRUE, TRUE>>, <<TRUE, FALSE>>, <<FALSE, TRUE>>>>
            ELSE <<<<TRUE, TRUE>>, <<FALSE, TRUE>>, <<FALSE, FALSE>>, <<TRUE, FALSE>>>>
ProgOf(c) ==
  IF c.ctx = "fn" THEN
     LET ps == (CASE c.vp = "none" -> <<>> [] c.vp = "void" -> <<P("u", "void")>> [] c.vp = "generic" -> <<P("u", "U")>>)
               \o (IF c.pos2 = "" THEN <<P("g1", "bool")>> ELSE <<P("g1", "bool"), P("g2", "bool")>>)
         fl == Flags(c)
     IN File1(<<PtT>>, Helpers(c.car) \o <<FnD("f", ps, RetTy(c), FBody(c, V("g1"), V("g2")))>>,
              ConcatAll([i \in 1..Len(fl) |-> IF RetTy(c) # "int" /\ c.ret = "void"
                                              THEN ObserveV(i, c.car, CallF(c, fl[i][1], fl[i][2]))
                                              ELSE Observe(i, CallF(c, fl[i][1], fl[i][2]))]) \o <<PrintS(S("end"))>>)
  ELSE \* `!` at the top level of the program
     LET a == PosOf(c.pos1, 1, c.op1, c.car, Bl(c.good1)) IN
     File1(<<PtT>>, Helpers(c.car), <<PrintS(S("s1"))>> \o a.ss \o <<PrintS(S("s2")), PrintS(a.v), PrintS(S("end"))>>)

Seq2Set(s) == {s[i] : i \in 1..Len(s)}
Singles == {[pos1 |-> p, pos2 |-> "", op1 |-> o, op2 |-> o, car |-> car, ctx |-> "fn", good1 |-> TRUE, good2 |-> TRUE, ret |-> r, vp |-> "none"] :
              p \in Seq2Set(Positions), o \in OpsTU, car \in Carriers, r \in {"int", "void"}} \ {c \in
            [pos1 : Seq2Set(Positions), pos2 : {""}, op1 : OpsTU, op2 : OpsTU, car : Carriers, ctx : {"fn"}, good1 : {TRUE}, good2 : {TRUE},
             ret : {"void"}, vp : {"none"}] : c.op1 = "!" \/ c.pos1 \in {"return", "lambda"}}
\* the enclosing function has a parameter that occupies no stack slot in front of its flags: declared void, or a type
\* parameter instantiated with void at the call (the early return of `?` must not count it)
VpPositions == {"stmt", "let", "right", "arg2of3", "tuple", "for", "while", "matcharm", "block", "second", "vstmt", "m-let"}
VoidParamSingles ==
  {[pos1 |-> p, pos2 |-> "", op1 |-> "?", op2 |-> "?", car |-> car, ctx |-> "fn", good1 |-> TRUE, good2 |-> TRUE, ret |-> "int", vp |-> v] :
              p \in VpPositions, car \in Carriers, v \in {"void", "generic"}}
MainSingles == {[pos1 |-> p, pos2 |-> "", op1 |-> "!", op2 |-> "!", car |-> car, ctx |-> "main", good1 |-> g, good2 |-> TRUE, ret |-> "int", vp |-> "none"] :
              p \in Seq2Set(Positions) \ {"return"}, car \in Carriers, g \in BOOLEAN}
Pairs == {[pos1 |-> p, pos2 |-> q, op1 |-> o1, op2 |-> o2, car |-> car, ctx |-> "fn", good1 |-> TRUE, good2 |-> TRUE, ret |-> "int", vp |-> "none"] :
              p \in Seq2Set(CorePositions), q \in Seq2Set(CorePositions), o1 \in OpsTU, o2 \in OpsTU, car \in Carriers}

OpN(o) == IF o = "?" THEN "try" ELSE "unwrap"
IdOf(c) == c.pos1 \o "-" \o OpN(c.op1) \o (IF c.pos2 = "" THEN "" ELSE "." \o c.pos2 \o "-" \o OpN(c.op2)) \o "." \o c.car \o "." \o c.ctx \o
           (IF c.ctx = "main" THEN (IF c.good1 THEN ".ok" ELSE ".fail") ELSE "") \o (IF c.ret = "void" THEN ".retvoid" ELSE "") \o
           (IF c.vp = "none" THEN "" ELSE ".param-" \o c.vp)
CaseOf(c) ==
  LET L == Layout(ProgOf(c))
      r == Run(L.sem, 300)
  IN [expect |-> [compile |-> "ok"] @@ ExpectOf(r)] @@ RunCase(IdOf(c), L, r) @@
     [pos1 |-> c.pos1, pos2 |-> c.pos2, ops |-> c.op1 \o (IF c.pos2 = "" THEN "" ELSE c.op2), car |-> c.car, ctx |-> c.ctx,
      key |-> "C23|" \o IdOf(c)]
=============================================================================
