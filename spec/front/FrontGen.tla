----------------------------- MODULE FrontGen -----------------------------
(* The two enumerators over the input space of spec/front/Mutants.tla shared by C04 and C34:
     random      tlc -simulate: every behaviour is one random input (corpus mutant / token soup /
                 filled skeleton);  INIT InitR  NEXT NextR
     exhaustive  model checking mode, states = inputs: all regression seeds, every corpus program
                 unmodified, every mutant of every corpus program with at most MAXSOLID solid lexemes,
                 token soup up to length SOUPLEN, and (SKELDIAG = 1) every skeleton with all holes filled
                 by the same token;  INIT InitX  NEXT NextX
   INVARIANT Emit prints one CASE line per input.
   Parameters (environment): CORPUS, MAXSOLID, SOUPLEN, ESOUPLEN (expression soup), LSOUPLEN (declaration soup), ARGSLEN (argument lists), LAMLEN (lambda terms), SKELDIAG, TRUNCPCT (share of prefixes among
   the random mutants, in percent). *)
EXTENDS Pipeline
VARIABLE st

NoD == [op |-> "orig", i |-> 0, a |-> 0]
St(g, p, d, ix) == [g |-> g, p |-> p, d |-> d, ix |-> ix]

CaseOf(s) == CASE s.g = "seed" -> SeedCase(s.p)
               [] s.g = "orig" -> OrigCase(s.p)
               [] s.g = "mut"  -> MutantCase(s.p, s.d)
               [] s.g = "soup" -> SoupCase(s.ix)
               [] s.g = "skel" -> SkelCase(s.p, s.ix)
               [] s.g = "esoup" -> ESoupCase(s.ix)
               [] s.g = "lsoup" -> LSoupCase(s.ix)
               [] s.g = "args" -> ArgsCase(s.p, s.ix)
               [] s.g = "lam" -> LamCase(s.p, s.d.a)
               [] s.g = "typing" -> TypingCase(s.p, s.d.a)

Emit == st.g \in {"seed", "orig", "mut", "soup", "skel", "esoup", "lsoup", "args", "lam", "typing"} => PrintT(<<"CASE", ToJson(CaseOf(st))>>)

(* ---- random ---- *)
TruncPct == Nat10(IOEnv.TRUNCPCT)
InitR == st = St("none", 0, NoD, <<>>)
NextR == /\ st.g = "none"
         /\ st' = LET c == Pick(1..100) IN
                  IF c <= 78 THEN LET p == Pick(1..NProg) IN
                                  St("mut", p, IF Pick(1..100) <= TruncPct THEN RandomTrunc(LexOf(p))
                                               ELSE RandomDesc(LexOf(p), SolidOf(p)), <<>>)
                  ELSE IF c <= 86 THEN St("soup", 0, NoD, RandomIdx(Pick(1..8)))
                  ELSE LET k == Pick(1..Len(Skeletons)) IN St("skel", k, NoD, RandomIdx(NHoles(Skeletons[k])))

(* ---- exhaustive ---- *)
MaxSolid == Nat10(IOEnv.MAXSOLID)
SoupLen == Nat10(IOEnv.SOUPLEN)
SkelDiag == Nat10(IOEnv.SKELDIAG)
ESoupLen == Nat10(IOEnv.ESOUPLEN)
LSoupLen == Nat10(IOEnv.LSOUPLEN)
ArgsLen == Nat10(IOEnv.ARGSLEN)
LamLen == Nat10(IOEnv.LAMLEN)
SmallProgs == {p \in 1..NProg : Corpus[p].nsolid <= MaxSolid}
Tuples(n) == [1..n -> TokIdx]
InitX == st \in
   { St("seed", k, NoD, <<>>) : k \in 1..Len(Seeds) } \cup
   { St("orig", p, NoD, <<>>) : p \in 1..NProg } \cup
   UNION { { St("mut", p, d, <<>>) : d \in AllDescs(LexOf(p), SolidOf(p)) } : p \in SmallProgs } \cup
   UNION { { St("soup", 0, NoD, ix) : ix \in Tuples(n) } : n \in 1..SoupLen } \cup
   UNION { { St("esoup", 0, NoD, ix) : ix \in [1..n -> ExprIdx] } : n \in 1..ESoupLen } \cup
   UNION { { St("lsoup", 0, NoD, ix) : ix \in [1..n -> LineIdx] } : n \in 1..LSoupLen } \cup
   UNION { { St("args", c, NoD, ix) : c \in 1..2, ix \in [1..n -> ArgIdx] } : n \in 1..ArgsLen } \cup
   UNION { { St("lam", n, [op |-> "lam", i |-> n, a |-> t], <<>>) : t \in 1..Cardinality(LamTerms(n, 0)) } : n \in 1..LamLen } \cup
   UNION { { St("typing", k, [op |-> "typing", i |-> k, a |-> n], <<>>) : n \in 0..Len(TypingTexts[k]) } : k \in 1..Len(TypingTexts) } \cup
   { St("skel", k, NoD, [j \in 1..NHoles(Skeletons[k]) |-> a]) : k \in 1..(SkelDiag * Len(Skeletons)), a \in TokIdx }
NextX == UNCHANGED st
=============================================================================
